/-
  C01 — helper lemmas for Props.lean (core Lean only).
-/
import ApiFu.C01.Model
import ApiFu.C01.Spec
namespace ApiFu.C01

/-! ### grouped field sets -/

def Grouped.keys (g : Grouped) : List String := g.map (·.1)

/-- Group a sequence of field nodes by response key, keeping first-occurrence order. -/
def groupInOrder (fs : List FieldNode) : Grouped :=
  fs.foldl (fun g f => g.append f.responseKey f) []

theorem addToGroup_single (g : Grouped) (k : String) (f : FieldNode) :
    Spec.addToGroup g k [f] = g.append k f := by
  induction g with
  | nil => rfl
  | cons p rest ih =>
    obtain ⟨k', fs⟩ := p
    simp only [Spec.addToGroup, Grouped.append]
    by_cases h : k' = k
    · simp [h]
    · simp [h, ih]


@[simp] theorem keys_nil : Grouped.keys [] = [] := rfl
@[simp] theorem keys_cons (p : String × List FieldNode) (g : Grouped) : Grouped.keys (p :: g) = p.1 :: Grouped.keys g := rfl

theorem append_cons_eq (k' : String) (fs : List FieldNode) (rest : Grouped) (k : String) (f : FieldNode) (h : k' = k) :
    Grouped.append ((k', fs) :: rest) k f = (k', fs ++ [f]) :: rest := by
  simp [Grouped.append, h]

theorem append_cons_ne (k' : String) (fs : List FieldNode) (rest : Grouped) (k : String) (f : FieldNode) (h : k' ≠ k) :
    Grouped.append ((k', fs) :: rest) k f = (k', fs) :: Grouped.append rest k f := by
  simp [Grouped.append, h]

theorem append_keys_of_mem (g : Grouped) (k : String) (f : FieldNode) (h : k ∈ g.keys) :
    (g.append k f).keys = g.keys := by
  induction g with
  | nil => simp at h
  | cons p rest ih =>
    obtain ⟨k', fs⟩ := p
    by_cases hk : k' = k
    · rw [append_cons_eq _ _ _ _ _ hk]; rfl
    · rw [append_cons_ne _ _ _ _ _ hk]
      have : k ∈ Grouped.keys rest := by
        rcases List.mem_cons.mp h with h | h
        · exact absurd h.symm hk
        · exact h
      simp [ih this]

theorem append_keys_of_not_mem (g : Grouped) (k : String) (f : FieldNode) (h : k ∉ g.keys) :
    (g.append k f).keys = g.keys ++ [k] := by
  induction g with
  | nil => simp [Grouped.append, Grouped.keys]
  | cons p rest ih =>
    obtain ⟨k', fs⟩ := p
    have hk : k' ≠ k := by
      intro e; apply h; simp [e]
    have : k ∉ Grouped.keys rest := by
      intro m; apply h; exact List.mem_cons_of_mem _ m
    rw [append_cons_ne _ _ _ _ _ hk]
    simp [ih this]


theorem addToGroup_cons_eq (k' : String) (g' : List FieldNode) (rest : Grouped) (k : String) (fs : List FieldNode) (h : k' = k) :
    Spec.addToGroup ((k', g') :: rest) k fs = (k', g' ++ fs) :: rest := by
  simp [Spec.addToGroup, h]

theorem addToGroup_cons_ne (k' : String) (g' : List FieldNode) (rest : Grouped) (k : String) (fs : List FieldNode) (h : k' ≠ k) :
    Spec.addToGroup ((k', g') :: rest) k fs = (k', g') :: Spec.addToGroup rest k fs := by
  simp [Spec.addToGroup, h]

theorem addToGroup_append_single (g : Grouped) (k : String) (fs : List FieldNode) (f : FieldNode) :
    Spec.addToGroup g k (fs ++ [f]) = Grouped.append (Spec.addToGroup g k fs) k f := by
  induction g with
  | nil => simp [Spec.addToGroup, Grouped.append]
  | cons p rest ih =>
    obtain ⟨k', g'⟩ := p
    by_cases hk : k' = k
    · rw [addToGroup_cons_eq _ _ _ _ _ hk, addToGroup_cons_eq _ _ _ _ _ hk, append_cons_eq _ _ _ _ _ hk]
      simp
    · rw [addToGroup_cons_ne _ _ _ _ _ hk, addToGroup_cons_ne _ _ _ _ _ hk, append_cons_ne _ _ _ _ _ hk, ih]

theorem mem_keys_addToGroup (g : Grouped) (k k1 : String) (fs1 : List FieldNode) (h : k ∈ g.keys) :
    k ∈ Grouped.keys (Spec.addToGroup g k1 fs1) := by
  induction g with
  | nil => simp at h
  | cons p rest ih =>
    obtain ⟨k', g'⟩ := p
    by_cases hk : k' = k1
    · rw [addToGroup_cons_eq _ _ _ _ _ hk]; exact h
    · rw [addToGroup_cons_ne _ _ _ _ _ hk]
      rcases List.mem_cons.mp h with h | h
      · exact List.mem_cons.mpr (Or.inl h)
      · exact List.mem_cons_of_mem _ (ih h)

theorem self_mem_keys_addToGroup (g : Grouped) (k : String) (fs : List FieldNode) :
    k ∈ Grouped.keys (Spec.addToGroup g k fs) := by
  induction g with
  | nil => simp [Spec.addToGroup]
  | cons p rest ih =>
    obtain ⟨k', g'⟩ := p
    by_cases hk : k' = k
    · rw [addToGroup_cons_eq _ _ _ _ _ hk]; simp [hk]
    · rw [addToGroup_cons_ne _ _ _ _ _ hk]; exact List.mem_cons_of_mem _ ih

theorem addToGroup_append_comm (G : Grouped) (k k1 : String) (f : FieldNode) (fs1 : List FieldNode)
    (hne : k ≠ k1) (hmem : k ∈ G.keys) :
    Spec.addToGroup (G.append k f) k1 fs1 = Grouped.append (Spec.addToGroup G k1 fs1) k f := by
  induction G with
  | nil => simp at hmem
  | cons p rest ih =>
    obtain ⟨k', fs'⟩ := p
    by_cases hk : k' = k
    · have hk1 : k' ≠ k1 := by rw [hk]; exact hne
      rw [append_cons_eq _ _ _ _ _ hk, addToGroup_cons_ne _ _ _ _ _ hk1, addToGroup_cons_ne _ _ _ _ _ hk1,
        append_cons_eq _ _ _ _ _ hk]
    · have hrest : k ∈ Grouped.keys rest := by
        rcases List.mem_cons.mp hmem with h | h
        · exact absurd h.symm hk
        · exact h
      rw [append_cons_ne _ _ _ _ _ hk]
      by_cases hk1 : k' = k1
      · rw [addToGroup_cons_eq _ _ _ _ _ hk1, addToGroup_cons_eq _ _ _ _ _ hk1, append_cons_ne _ _ _ _ _ hk]
      · rw [addToGroup_cons_ne _ _ _ _ _ hk1, addToGroup_cons_ne _ _ _ _ _ hk1, append_cons_ne _ _ _ _ _ hk, ih hrest]

abbrev addGroup (acc : Grouped) (p : String × List FieldNode) : Grouped := Spec.addToGroup acc p.1 p.2

theorem foldl_add_append_comm (rest : Grouped) (G : Grouped) (k : String) (f : FieldNode)
    (hnot : k ∉ rest.keys) (hmem : k ∈ G.keys) :
    Grouped.append (rest.foldl addGroup G) k f = rest.foldl addGroup (G.append k f) := by
  induction rest generalizing G with
  | nil => rfl
  | cons p rest ih =>
    obtain ⟨k1, fs1⟩ := p
    have hne : k ≠ k1 := by intro e; apply hnot; simp [e]
    have hnot' : k ∉ Grouped.keys rest := by intro m; apply hnot; exact List.mem_cons_of_mem _ m
    simp only [List.foldl_cons, addGroup]
    rw [addToGroup_append_comm G k k1 f fs1 hne hmem]
    exact ih _ hnot' (mem_keys_addToGroup G k k1 fs1 hmem)

theorem mergeGroups_append (X g : Grouped) (k : String) (f : FieldNode) (hnd : X.keys.Nodup) :
    Spec.mergeGroups g (X.append k f) = Grouped.append (Spec.mergeGroups g X) k f := by
  induction X generalizing g with
  | nil =>
    simp [Spec.mergeGroups, Grouped.append, addToGroup_single]
  | cons p rest ih =>
    obtain ⟨k', fs'⟩ := p
    have hnd' : (Grouped.keys rest).Nodup := (List.nodup_cons.mp hnd).2
    have hk' : k' ∉ Grouped.keys rest := (List.nodup_cons.mp hnd).1
    by_cases hk : k' = k
    · rw [append_cons_eq _ _ _ _ _ hk]
      subst hk
      simp only [Spec.mergeGroups, List.foldl_cons]
      rw [addToGroup_append_single]
      exact (foldl_add_append_comm rest _ k' f hk' (self_mem_keys_addToGroup g k' fs')).symm
    · rw [append_cons_ne _ _ _ _ _ hk]
      simp only [Spec.mergeGroups, List.foldl_cons]
      exact ih _ hnd'

theorem append_keys_nodup (g : Grouped) (k : String) (f : FieldNode) (h : g.keys.Nodup) : (g.append k f).keys.Nodup := by
  by_cases hm : k ∈ g.keys
  · rw [append_keys_of_mem g k f hm]; exact h
  · rw [append_keys_of_not_mem g k f hm]
    rw [List.nodup_append]
    refine ⟨h, by simp, ?_⟩
    intro a ha b hb
    simp at hb
    subst hb
    intro e; subst e; exact hm ha

abbrev appendNode (g : Grouped) (f : FieldNode) : Grouped := g.append f.responseKey f

theorem foldl_appendNode_nodup (fs : List FieldNode) (g : Grouped) (h : g.keys.Nodup) : (fs.foldl appendNode g).keys.Nodup := by
  induction fs generalizing g with
  | nil => exact h
  | cons f fs ih => exact ih _ (append_keys_nodup g _ f h)

theorem groupInOrder_nodup (fs : List FieldNode) : (groupInOrder fs).keys.Nodup :=
  foldl_appendNode_nodup fs [] (by simp)

theorem mergeGroups_foldl_appendNode (g : Grouped) (b : List FieldNode) (X : Grouped) (hX : X.keys.Nodup) :
    Spec.mergeGroups g (b.foldl appendNode X) = b.foldl appendNode (Spec.mergeGroups g X) := by
  induction b generalizing X with
  | nil => rfl
  | cons f b ih =>
    simp only [List.foldl_cons, appendNode]
    rw [ih _ (append_keys_nodup X _ f hX), mergeGroups_append _ _ _ _ hX]

/-- Collecting a fragment's fields into a fresh grouped set and merging it (the specification's
    formulation) equals appending them one by one to the caller's accumulator (the executor's). -/
theorem mergeGroups_groupInOrder (g : Grouped) (b : List FieldNode) :
    Spec.mergeGroups g (groupInOrder b) = b.foldl appendNode g := by
  have := mergeGroups_foldl_appendNode g b [] (by simp)
  simpa [groupInOrder, Spec.mergeGroups] using this

/-! ### document order after fragment expansion -/

abbrev Expanded := List FieldNode × List String

/-- One selection of `expand`; `recur` expands a nested selection set. -/
def expandStep (S : Schema) (D : Document) (o : ObjT)
    (recur : List Selection → List String → Except Stuck Expanded) (acc : Expanded) (sel : Selection) : Except Stuck Expanded :=
  if skipped sel.dirs then .ok acc else
  match sel with
  | .field pos alias name wkey argErr _ sub =>
    .ok (acc.1 ++ [{ pos, alias, name, wkey, argErr, sels := sub }], acc.2)
  | .spread _ name _ =>
    if acc.2.contains name then .ok acc else
    match D.frag? name with
    | none => .ok (acc.1, name :: acc.2)
    | some fr =>
      match fragmentApplies S o fr.tc with
      | .no => .ok (acc.1, name :: acc.2)
      | .panic => .error (.panic "unexpected fragment type")
      | .yes =>
        match recur fr.sels (name :: acc.2) with
        | .ok r => .ok (acc.1 ++ r.1, r.2)
        | .error e => .error e
  | .inline _ tc _ sub =>
    match tc with
    | none =>
      match recur sub acc.2 with
      | .ok r => .ok (acc.1 ++ r.1, r.2)
      | .error e => .error e
    | some tc =>
      match fragmentApplies S o tc with
      | .no => .ok acc
      | .panic => .error (.panic "unexpected fragment type")
      | .yes =>
        match recur sub acc.2 with
        | .ok r => .ok (acc.1 ++ r.1, r.2)
        | .error e => .error e

/-- The field nodes a selection set contributes for object type `o`, in document order after fragment
    expansion and `@skip`/`@include`, each fragment expanded at its first spread only; with the set of
    visited fragment names. -/
def expand (S : Schema) (D : Document) (o : ObjT) : Nat → List Selection → List String → Except Stuck Expanded
  | 0, _, _ => .error .outOfFuel
  | fuel + 1, sels, visited => sels.foldlM (expandStep S D o (expand S D o fuel)) ([], visited)

def toCState (g0 : Grouped) (r : Expanded) : CState := { visited := r.2, grouped := r.1.foldl appendNode g0 }

def mapOk {α β} (f : α → β) : Except Stuck α → Except Stuck β
  | .ok a => .ok (f a)
  | .error e => .error e

theorem foldl_appendNode_append (a b : List FieldNode) (g : Grouped) :
    (a ++ b).foldl appendNode g = b.foldl appendNode (a.foldl appendNode g) := by
  simp [List.foldl_append]

theorem collectStep_eq (S : Schema) (D : Document) (o : ObjT) (fuel : Nat)
    (ih : ∀ sels st, collectImpl S D o fuel sels st = mapOk (toCState st.grouped) (expand S D o fuel sels st.visited))
    (g0 : Grouped) (pre : List FieldNode) (vis : List String) (sel : Selection) :
    collectStep S D o (collectImpl S D o fuel) (toCState g0 (pre, vis)) sel
      = mapOk (toCState g0) (expandStep S D o (expand S D o fuel) (pre, vis) sel) := by
  unfold collectStep expandStep
  by_cases hs : skipped sel.dirs
  · simp [hs, mapOk, pure, Except.pure]
  · simp only [hs, Bool.false_eq_true, if_false]
    cases sel with
    | field pos alias name wkey argErr dirs sub =>
      simp [mapOk, pure, Except.pure, toCState, List.foldl_append, appendNode]
    | spread pos name dirs =>
      simp only [toCState]
      by_cases hv : name ∈ vis
      · simp [hv, mapOk, pure, Except.pure, toCState]
      · simp only [List.contains_eq_mem, hv, decide_false, Bool.false_eq_true, if_false]
        cases hf : D.frag? name with
        | none => simp [mapOk, pure, Except.pure, toCState]
        | some fr =>
          simp only
          cases ha : fragmentApplies S o fr.tc with
          | no => simp [mapOk, pure, Except.pure, toCState]
          | panic => simp [mapOk]
          | yes =>
            simp only
            rw [ih]
            simp only
            cases he : expand S D o fuel fr.sels (name :: vis) with
            | error e => simp [mapOk]
            | ok r => simp [mapOk, toCState, List.foldl_append]
    | inline pos tc dirs sub =>
      simp only [toCState]
      cases tc with
      | none =>
        simp only
        rw [ih]
        cases he : expand S D o fuel sub vis with
        | error e => simp [mapOk]
        | ok r => simp [mapOk, toCState, List.foldl_append]
      | some tc =>
        simp only
        cases ha : fragmentApplies S o tc with
        | no => simp [mapOk, pure, Except.pure, toCState]
        | panic => simp [mapOk]
        | yes =>
          simp only
          rw [ih]
          cases he : expand S D o fuel sub vis with
          | error e => simp [mapOk]
          | ok r => simp [mapOk, toCState, List.foldl_append]


theorem foldlM_collect_eq (S : Schema) (D : Document) (o : ObjT) (fuel : Nat)
    (ih : ∀ sels st, collectImpl S D o fuel sels st = mapOk (toCState st.grouped) (expand S D o fuel sels st.visited))
    (g0 : Grouped) (sels : List Selection) (pre : List FieldNode) (vis : List String) :
    sels.foldlM (collectStep S D o (collectImpl S D o fuel)) (toCState g0 (pre, vis))
      = mapOk (toCState g0) (sels.foldlM (expandStep S D o (expand S D o fuel)) (pre, vis)) := by
  induction sels generalizing pre vis with
  | nil => simp [mapOk, pure, Except.pure]
  | cons sel rest ihl =>
    simp only [List.foldlM_cons]
    rw [collectStep_eq S D o fuel ih]
    cases hstep : expandStep S D o (expand S D o fuel) (pre, vis) sel with
    | error e => simp [mapOk, bind, Except.bind]
    | ok r =>
      obtain ⟨pre', vis'⟩ := r
      simp only [mapOk, bind, Except.bind]
      exact ihl pre' vis'

/-- **The executor's accumulator-threading collection is "append the expanded field sequence".** -/
theorem collectImpl_eq_expand (S : Schema) (D : Document) (o : ObjT) (fuel : Nat) (sels : List Selection) (st : CState) :
    collectImpl S D o fuel sels st = mapOk (toCState st.grouped) (expand S D o fuel sels st.visited) := by
  induction fuel generalizing sels st with
  | zero => simp [collectImpl, expand, mapOk]
  | succ fuel ih =>
    have := foldlM_collect_eq S D o fuel ih st.grouped sels [] st.visited
    simpa [collectImpl, expand, toCState] using this


/-! ### the specification's CollectFields agrees with the executor's -/

theorem skips_iff (d : Dir) : d.skips = true ↔ d = .skip true ∨ d = .incl false := by
  cases d with
  | skip b => cases b <;> simp [Dir.skips]
  | incl b => cases b <;> simp [Dir.skips]
  | other => simp [Dir.skips]

theorem excluded_eq_skipped (dirs : List Dir) : Spec.excluded dirs = skipped dirs := by
  rw [Bool.eq_iff_iff]
  simp only [Spec.excluded, skipped, Bool.or_eq_true, List.contains_iff_mem, List.any_eq_true, skips_iff]
  constructor
  · rintro (h | h)
    · exact ⟨_, h, Or.inl rfl⟩
    · exact ⟨_, h, Or.inr rfl⟩
  · rintro ⟨d, hd, (h | h)⟩
    · left; rw [← h]; exact hd
    · right; rw [← h]; exact hd

theorem foldl_last_eq (l : List Frag) (name : String) (init : Option Frag) :
    l.foldl (fun found f => if f.name = name then some f else found) init
      = match l.reverse.find? (fun f => f.name == name) with
        | some x => some x
        | none => init := by
  induction l generalizing init with
  | nil => rfl
  | cons a l ih =>
    simp only [List.foldl_cons, List.reverse_cons, List.find?_append]
    rw [ih]
    cases h : l.reverse.find? (fun f => f.name == name) with
    | some x => simp
    | none =>
      by_cases ha : a.name = name
      · simp [ha]
      · simp [ha]

theorem fragmentNamed_eq (D : Document) (name : String) : Spec.fragmentNamed D name = D.frag? name := by
  unfold Spec.fragmentNamed Document.frag?
  rw [foldl_last_eq]
  cases D.frags.reverse.find? (fun f => f.name == name) <;> rfl

theorem doesApply_eq (S : Schema) (o : ObjT) (tc : String) (h : fragmentApplies S o tc ≠ .panic) :
    Spec.doesFragmentTypeApply S o tc = (fragmentApplies S o tc == .yes) := by
  unfold Spec.doesFragmentTypeApply fragmentApplies at *
  cases hl : S.lookup tc with
  | none => simp
  | some td =>
    cases td with
    | scalar k => simp [hl] at h
    | enum vs => simp [hl] at h
    | object fs is =>
      by_cases e : o.name = tc
      · simp [e]
      · have : ¬ tc = o.name := fun x => e x.symm
        simp [e, this]
    | interface fs =>
      by_cases e : tc ∈ o.ifaces
      · simp [e]
      · simp [e]
    | union ms =>
      by_cases e : o.name ∈ ms
      · simp [e]
      · simp [e]

theorem responseKeyOf_eq (pos : Pos) (alias : Option String) (name wkey : String) (argErr : Option ArgErr) (sub : List Selection) :
    Spec.responseKeyOf alias name = FieldNode.responseKey { pos, alias, name, wkey, argErr, sels := sub } := by
  cases alias <;> rfl


theorem groupInOrder_append (a b : List FieldNode) : groupInOrder (a ++ b) = b.foldl appendNode (groupInOrder a) := by
  simp [groupInOrder, List.foldl_append]

/-- what the induction on fuel provides for the nested CollectFields calls -/
def CollectAgree (S : Schema) (D : Document) (o : ObjT) (fuel : Nat) : Prop :=
  ∀ fuel' sels vis fs v g v', expand S D o fuel sels vis = .ok (fs, v) →
    Spec.collectFields S D o fuel' sels vis = some (g, v') → g = groupInOrder fs ∧ v' = v

theorem collectSelection_agree (S : Schema) (D : Document) (o : ObjT) (fuel fuel' : Nat) (ih : CollectAgree S D o fuel)
    (pre : List FieldNode) (vis : List String) (sel : Selection) (pre1 : List FieldNode) (vis1 : List String)
    (g1 : Grouped) (v1 : List String)
    (he : expandStep S D o (expand S D o fuel) (pre, vis) sel = .ok (pre1, vis1))
    (hs : Spec.collectSelection S D o (Spec.collectFields S D o fuel') (groupInOrder pre, vis) sel = some (g1, v1)) :
    g1 = groupInOrder pre1 ∧ v1 = vis1 := by
  unfold expandStep at he
  unfold Spec.collectSelection at hs
  simp only [excluded_eq_skipped] at hs
  by_cases hsk : skipped sel.dirs
  · simp [hsk] at he hs
    obtain ⟨rfl, rfl⟩ := he
    obtain ⟨rfl, rfl⟩ := hs
    exact ⟨rfl, rfl⟩
  · simp only [hsk, Bool.false_eq_true, if_false] at he hs
    cases sel with
    | field pos alias name wkey argErr dirs sub =>
      simp only [Except.ok.injEq, Prod.mk.injEq, Option.some.injEq] at he hs
      obtain ⟨rfl, rfl⟩ := he
      obtain ⟨rfl, rfl⟩ := hs
      refine ⟨?_, rfl⟩
      rw [addToGroup_single, responseKeyOf_eq pos alias name wkey argErr sub, groupInOrder_append]
      rfl
    | spread pos name dirs =>
      simp only [fragmentNamed_eq] at hs
      by_cases hv : name ∈ vis
      · simp [hv] at he hs
        obtain ⟨rfl, rfl⟩ := he
        obtain ⟨rfl, rfl⟩ := hs
        exact ⟨rfl, rfl⟩
      · simp only [List.contains_eq_mem, hv, decide_false, Bool.false_eq_true, if_false] at he hs
        cases hf : D.frag? name with
        | none =>
          simp [hf] at he hs
          obtain ⟨rfl, rfl⟩ := he
          obtain ⟨rfl, rfl⟩ := hs
          exact ⟨rfl, rfl⟩
        | some fr =>
          simp only [hf] at he hs
          cases ha : fragmentApplies S o fr.tc with
          | panic => simp [ha] at he
          | no =>
            rw [doesApply_eq S o fr.tc (by simp [ha])] at hs
            simp [ha] at he hs
            obtain ⟨rfl, rfl⟩ := he
            obtain ⟨rfl, rfl⟩ := hs
            exact ⟨rfl, rfl⟩
          | yes =>
            rw [doesApply_eq S o fr.tc (by simp [ha])] at hs
            simp only [ha, beq_self_eq_true, if_true] at he hs
            cases hx : expand S D o fuel fr.sels (name :: vis) with
            | error e => simp [hx] at he
            | ok r =>
              obtain ⟨fs, v⟩ := r
              simp only [hx, Except.ok.injEq, Prod.mk.injEq] at he
              obtain ⟨rfl, rfl⟩ := he
              cases hy : Spec.collectFields S D o fuel' fr.sels (name :: vis) with
              | none => simp [hy] at hs
              | some q =>
                obtain ⟨fg, v''⟩ := q
                simp only [hy, Option.some.injEq, Prod.mk.injEq] at hs
                obtain ⟨rfl, rfl⟩ := hs
                obtain ⟨rfl, rfl⟩ := ih fuel' _ _ _ _ _ _ hx hy
                exact ⟨by rw [mergeGroups_groupInOrder, groupInOrder_append], rfl⟩
    | inline pos tc dirs sub =>
      have key : ∀ fs v fg v'', expand S D o fuel sub vis = .ok (fs, v) →
          Spec.collectFields S D o fuel' sub vis = some (fg, v'') →
          Spec.mergeGroups (groupInOrder pre) fg = groupInOrder (pre ++ fs) ∧ v'' = v := by
        intro fs v fg v'' hx hy
        obtain ⟨rfl, rfl⟩ := ih fuel' _ _ _ _ _ _ hx hy
        exact ⟨by rw [mergeGroups_groupInOrder, groupInOrder_append], rfl⟩
      cases tc with
      | none =>
        simp only at he hs
        cases hx : expand S D o fuel sub vis with
        | error e => simp [hx] at he
        | ok r =>
          obtain ⟨fs, v⟩ := r
          simp only [hx, Except.ok.injEq, Prod.mk.injEq] at he
          obtain ⟨rfl, rfl⟩ := he
          cases hy : Spec.collectFields S D o fuel' sub vis with
          | none => simp [hy] at hs
          | some q =>
            obtain ⟨fg, v''⟩ := q
            simp only [hy, if_true, Option.some.injEq, Prod.mk.injEq] at hs
            obtain ⟨rfl, rfl⟩ := hs
            exact key _ _ _ _ hx hy
      | some tc =>
        simp only at he hs
        cases ha : fragmentApplies S o tc with
        | panic => simp [ha] at he
        | no =>
          have : Spec.doesFragmentTypeApply S o tc = false := by
            rw [doesApply_eq S o tc (by simp [ha])]; simp [ha]
          simp [ha, this] at he hs
          obtain ⟨rfl, rfl⟩ := he
          obtain ⟨rfl, rfl⟩ := hs
          exact ⟨rfl, rfl⟩
        | yes =>
          have : Spec.doesFragmentTypeApply S o tc = true := by
            rw [doesApply_eq S o tc (by simp [ha])]; simp [ha]
          simp only [ha] at he
          simp only [this, if_true] at hs
          cases hx : expand S D o fuel sub vis with
          | error e => simp [hx] at he
          | ok r =>
            obtain ⟨fs, v⟩ := r
            simp only [hx, Except.ok.injEq, Prod.mk.injEq] at he
            obtain ⟨rfl, rfl⟩ := he
            cases hy : Spec.collectFields S D o fuel' sub vis with
            | none => simp [hy] at hs
            | some q =>
              obtain ⟨fg, v''⟩ := q
              simp only [hy, Option.some.injEq, Prod.mk.injEq] at hs
              obtain ⟨rfl, rfl⟩ := hs
              exact key _ _ _ _ hx hy


theorem foldlM_collectSelection_agree (S : Schema) (D : Document) (o : ObjT) (fuel fuel' : Nat) (ih : CollectAgree S D o fuel)
    (sels : List Selection) (pre : List FieldNode) (vis : List String) (fs : List FieldNode) (v : List String)
    (g : Grouped) (v' : List String)
    (he : sels.foldlM (expandStep S D o (expand S D o fuel)) (pre, vis) = .ok (fs, v))
    (hs : sels.foldlM (Spec.collectSelection S D o (Spec.collectFields S D o fuel')) (groupInOrder pre, vis) = some (g, v')) :
    g = groupInOrder fs ∧ v' = v := by
  induction sels generalizing pre vis with
  | nil =>
    simp only [List.foldlM_nil, pure, Except.pure, Except.ok.injEq, Prod.mk.injEq, Option.some.injEq] at he hs
    obtain ⟨rfl, rfl⟩ := he
    obtain ⟨rfl, rfl⟩ := hs
    exact ⟨rfl, rfl⟩
  | cons sel rest ihl =>
    simp only [List.foldlM_cons] at he hs
    cases h1 : expandStep S D o (expand S D o fuel) (pre, vis) sel with
    | error e => simp [h1, bind, Except.bind] at he
    | ok r =>
      obtain ⟨pre1, vis1⟩ := r
      cases h2 : Spec.collectSelection S D o (Spec.collectFields S D o fuel') (groupInOrder pre, vis) sel with
      | none => simp [h2] at hs
      | some q =>
        obtain ⟨g1, v1⟩ := q
        obtain ⟨hg, hv⟩ := collectSelection_agree S D o fuel fuel' ih pre vis sel pre1 vis1 g1 v1 h1 h2
        simp only [h1, bind, Except.bind] at he
        simp only [h2, Option.bind_eq_bind, Option.bind_some, hg, hv] at hs
        exact ihl pre1 vis1 he hs

/-- **The specification's CollectFields (fresh grouped set per fragment, merged by the caller) yields
    the expanded field sequence grouped by response key** — whatever fuel each side was given, as
    long as neither ran out. -/
theorem spec_collect_eq_expand (S : Schema) (D : Document) (o : ObjT) (fuel : Nat) : CollectAgree S D o fuel := by
  induction fuel with
  | zero => intro fuel' sels vis fs v g v' he; simp [expand] at he
  | succ fuel ih =>
    intro fuel' sels vis fs v g v' he hs
    cases fuel' with
    | zero => simp [Spec.collectFields] at hs
    | succ fuel' =>
      simp only [expand] at he
      simp only [Spec.collectFields] at hs
      exact foldlM_collectSelection_agree S D o fuel fuel' ih sels [] vis fs v g v' he hs

/-- The executor's `collectFieldsImpl` and the specification's CollectFields agree. -/
theorem collect_agree (S : Schema) (D : Document) (o : ObjT) (fuel fuel' : Nat) (sels : List Selection)
    (st : CState) (g : Grouped) (v : List String)
    (hm : collectImpl S D o fuel sels { visited := [], grouped := [] } = .ok st)
    (hs : Spec.collectFields S D o fuel' sels [] = some (g, v)) : st.grouped = g := by
  rw [collectImpl_eq_expand] at hm
  cases he : expand S D o fuel sels [] with
  | error e => simp [he, mapOk] at hm
  | ok r =>
    obtain ⟨fs, v0⟩ := r
    simp only [he, mapOk, Except.ok.injEq] at hm
    obtain ⟨rfl, _⟩ := spec_collect_eq_expand S D o fuel fuel' sels [] fs v0 g v he hs
    rw [← hm]
    rfl


/-! ### leaves and abstract types: the two sides' helper functions agree -/

theorem isNullish_eq (v : RVal) : Spec.isNullish v = v.isNil := by
  cases v <;> rfl

theorem mergeSelectionSets_eq (fields : List FieldNode) : Spec.mergeSelectionSets fields = mergeSelectionSets fields := by
  induction fields with
  | nil => rfl
  | cons f rest ih =>
    simp only [Spec.mergeSelectionSets, List.foldr_cons, mergeSelectionSets, List.flatMap_cons] at *
    rw [ih]

theorem coerceEnum_eq (values : List (String × GoVal)) (g : GoVal) : coerceEnum values g = Spec.enumCoerce values g := by
  unfold coerceEnum Spec.enumCoerce
  have : (fun (p : String × GoVal) => p.2 == g) = (fun p => decide (p.2 = g)) := by
    funext p; rfl
  rw [this]
  cases values.find? (fun p => decide (p.2 = g)) <;> rfl

theorem pow31 : (2 : Int) ^ 31 = 2147483648 := by decide

theorem inInt32_eq (z : Int) : inInt32 z = decide (-(2 ^ 31 : Int) ≤ z ∧ z < 2 ^ 31) := by
  rw [pow31]
  by_cases h : (-2147483648 : Int) ≤ z ∧ z < 2147483648
  · have h1 : (-2147483648 : Int) ≤ z := h.1
    have h2 : z ≤ 2147483647 := by omega
    simp [inInt32, minInt32, maxInt32, h, h1, h2]
  · simp only [h, decide_false]
    simp only [inInt32, minInt32, maxInt32, Bool.and_eq_false_iff]
    by_cases h1 : (-2147483648 : Int) ≤ z
    · right
      have : ¬ z ≤ 2147483647 := by omega
      simp [this]
    · left; simp [h1]

theorem fltToInt_eq (fk : FltKind) (m e : Int) : fltToInt? m e = Spec.asInteger? (.flt fk m e) := by
  unfold fltToInt? Spec.asInteger?
  by_cases h : 0 ≤ e
  · have : e ≥ 0 := h
    simp [h]
  · have : ¬ e ≥ 0 := h
    simp only [this, h, if_false]
    by_cases hd : (2 ^ (-e).toNat : Int) ∣ m
    · have : m % 2 ^ (-e).toNat = 0 := Int.emod_eq_zero_of_dvd hd
      simp [hd, this]
    · have : ¬ m % 2 ^ (-e).toNat = 0 := fun x => hd (Int.dvd_of_emod_eq_zero x)
      simp [hd, this]

theorem pow63 : (2 : Int) ^ 63 = 9223372036854775808 := by decide

/-- The per-kind range tests of `coerceInt` all decide the same thing: the value lies in the signed
    32-bit range (for the narrow kinds the test is omitted because it cannot fail). -/
theorem coerceIntKind_eq (k : IntKind) (z : Int) :
    coerceIntKind k (k.wrap z) =
      if -(2 ^ 31 : Int) ≤ k.wrap z ∧ k.wrap z < 2 ^ 31 then some (.int (k.wrap z)) else none := by
  rw [pow31]
  have small : ∀ v : Int, (-2147483648 ≤ v ∧ v < 2147483648) →
      some (Json.int v) = if -2147483648 ≤ v ∧ v < 2147483648 then some (Json.int v) else none := by
    intro v h; rw [if_pos h]
  have unsigned : ∀ v : Int, 0 ≤ v →
      (if v ≤ maxInt32 then some (Json.int v) else none) =
        if -2147483648 ≤ v ∧ v < 2147483648 then some (Json.int v) else none := by
    intro v h0
    have hm : maxInt32 = 2147483647 := rfl
    by_cases h : v ≤ maxInt32
    · rw [if_pos h, if_pos (by rw [hm] at h; omega)]
    · rw [if_neg h, if_neg (by rw [hm] at h; omega)]
  have signed : ∀ v : Int, (if inInt32 v then some (Json.int v) else none) =
        if -2147483648 ≤ v ∧ v < 2147483648 then some (Json.int v) else none := by
    intro v
    simp only [inInt32_eq, pow31]
    by_cases h : (-2147483648 : Int) ≤ v ∧ v < 2147483648 <;> simp [h]
  cases k
  case i8 => exact small _ (by simp only [IntKind.wrap]; omega)
  case u8 => exact small _ (by simp only [IntKind.wrap]; omega)
  case i16 => exact small _ (by simp only [IntKind.wrap]; omega)
  case u16 => exact small _ (by simp only [IntKind.wrap]; omega)
  case i32 => exact small _ (by simp only [IntKind.wrap]; omega)
  case u32 => exact unsigned _ (by simp only [IntKind.wrap]; omega)
  case u64 => exact unsigned _ (by simp only [IntKind.wrap]; omega)
  case uint => exact unsigned _ (by simp only [IntKind.wrap]; omega)
  case i64 => exact signed _
  case int => exact signed _

/-- The ID coercion accepts exactly the integers that fit a signed 64-bit integer. -/
theorem coerceIdKind_eq (k : IntKind) (z : Int) :
    coerceIdKind k (k.wrap z) =
      if k.wrap z < 2 ^ 63 then some (.str (toString (k.wrap z))) else none := by
  rw [pow63]
  have always : ∀ v : Int, v < 9223372036854775808 →
      some (Json.str (toString v)) = if v < 9223372036854775808 then some (Json.str (toString v)) else none := by
    intro v h; rw [if_pos h]
  have checked : ∀ v : Int, (if v ≤ maxInt64 then some (Json.str (toString v)) else none) =
        if v < 9223372036854775808 then some (Json.str (toString v)) else none := by
    intro v
    have hm : maxInt64 = 9223372036854775807 := rfl
    by_cases h : v ≤ maxInt64
    · rw [if_pos h, if_pos (by rw [hm] at h; omega)]
    · rw [if_neg h, if_neg (by rw [hm] at h; omega)]
  cases k
  case u64 => exact checked _
  case uint => exact checked _
  case i8 => exact always _ (by simp only [IntKind.wrap]; omega)
  case u8 => exact always _ (by simp only [IntKind.wrap]; omega)
  case i16 => exact always _ (by simp only [IntKind.wrap]; omega)
  case u16 => exact always _ (by simp only [IntKind.wrap]; omega)
  case i32 => exact always _ (by simp only [IntKind.wrap]; omega)
  case u32 => exact always _ (by simp only [IntKind.wrap]; omega)
  case i64 => exact always _ (by simp only [IntKind.wrap]; omega)
  case int => exact always _ (by simp only [IntKind.wrap]; omega)

theorem coerceScalar_eq (k : ScalarKind) (g : GoVal) : coerceScalar k g = Spec.resultCoerce k g := by
  cases k with
  | int =>
    cases g with
    | int ik z =>
      simp only [coerceScalar, Spec.resultCoerce, Spec.asInteger?]
      exact coerceIntKind_eq ik z
    | flt fk m e =>
      simp only [coerceScalar, Spec.resultCoerce, fltToInt_eq fk]
      cases Spec.asInteger? (.flt fk m e) with
      | none => rfl
      | some z =>
        simp only [inInt32_eq]
        by_cases h : (-(2 ^ 31 : Int) ≤ z ∧ z < 2 ^ 31) <;> simp [h]
    | str s => rfl
    | bool b => cases b <;> simp [coerceScalar, Spec.resultCoerce, Spec.asInteger?, pow31]
    | wrong => rfl
  | float => cases g <;> rfl
  | string => cases g <;> rfl
  | boolean => cases g <;> rfl
  | id =>
    cases g with
    | int ik z =>
      simp only [coerceScalar, Spec.resultCoerce]
      exact coerceIdKind_eq ik z
    | flt fk m e => rfl
    | str s => rfl
    | bool b => rfl
    | wrong => rfl

theorem implementations_eq (S : Schema) (n : String) (fs : List FieldDef) (h : S.lookup n = some (.interface fs)) :
    Spec.possibleTypes S n = S.implementations n := by
  unfold Spec.possibleTypes Schema.implementations
  simp only [h]
  induction S.types with
  | nil => rfl
  | cons p rest ih =>
    obtain ⟨name, td⟩ := p
    cases td with
    | object f is =>
      by_cases hm : n ∈ is
      · simp [List.filter_cons, List.filterMap_cons, hm, ih]
      · simp [List.filter_cons, List.filterMap_cons, hm, ih]
    | scalar k => simp [List.filter_cons, List.filterMap_cons, ih]
    | interface f => simp [List.filter_cons, List.filterMap_cons, ih]
    | union ms => simp [List.filter_cons, List.filterMap_cons, ih]
    | enum vs => simp [List.filter_cons, List.filterMap_cons, ih]


/-! ### multisets of errors -/

/-- multiset inclusion of lists -/
def SubMulti (a b : List Err) : Prop := ∀ x, a.count x ≤ b.count x
infix:50 " ⊆ₘ " => SubMulti

theorem SubMulti.refl (a : List Err) : a ⊆ₘ a := fun _ => Nat.le_refl _
theorem SubMulti.nil (a : List Err) : [] ⊆ₘ a := fun x => by simp
theorem SubMulti.trans {a b c : List Err} (h1 : a ⊆ₘ b) (h2 : b ⊆ₘ c) : a ⊆ₘ c := fun x => Nat.le_trans (h1 x) (h2 x)
theorem SubMulti.append {a b c d : List Err} (h1 : a ⊆ₘ b) (h2 : c ⊆ₘ d) : (a ++ c) ⊆ₘ (b ++ d) := by
  intro x; have := h1 x; have := h2 x; simp only [List.count_append]; omega
theorem SubMulti.append_right {a b : List Err} (c : List Err) (h : a ⊆ₘ b) : a ⊆ₘ (b ++ c) := by
  intro x; have := h x; simp only [List.count_append]; omega
theorem SubMulti.append_left {a b : List Err} (c : List Err) (h : a ⊆ₘ b) : a ⊆ₘ (c ++ b) := by
  intro x; have := h x; simp only [List.count_append]; omega

/-! ### combining per-field outcomes -/

theorem combineFields_nil : Spec.combineFields [] = { data := some (.obj []), all := [], req := [], undef := false } := rfl

theorem combineFields_none (rs : List (Option (String × Spec.SOut))) :
    Spec.combineFields (none :: rs) = { Spec.combineFields rs with undef := true } := by
  simp only [Spec.combineFields, List.filterMap_cons, id, List.any_cons, Option.isNone_none, Bool.true_or]
  cases List.find? (fun p => p.2.data.isNone) (List.filterMap id rs) <;> rfl

theorem combineFields_data_shape (rs : List (Option (String × Spec.SOut))) :
    (Spec.combineFields rs).data = none ∨ ∃ kvs, (Spec.combineFields rs).data = some (.obj kvs) := by
  simp only [Spec.combineFields]
  cases List.find? (fun p => p.2.data.isNone) (List.filterMap id rs) with
  | some p => left; rfl
  | none => right; exact ⟨_, rfl⟩

theorem combineFields_some_fail (k : String) (s : Spec.SOut) (rs : List (Option (String × Spec.SOut))) (h : s.data = none) :
    Spec.combineFields (some (k, s) :: rs) =
      { data := none, all := s.all ++ (Spec.combineFields rs).all, req := s.req,
        undef := s.undef || (Spec.combineFields rs).undef } := by
  simp only [Spec.combineFields, List.filterMap_cons, id, List.find?_cons, h, Option.isNone_none, List.flatMap_cons,
    List.any_cons, Option.isNone_some, Bool.false_or]
  cases List.find? (fun p => p.2.data.isNone) (List.filterMap id rs) <;> simp [Bool.or_assoc, Bool.or_comm, Bool.or_left_comm]

theorem combineFields_some_ok (k : String) (s : Spec.SOut) (j : Json) (rs : List (Option (String × Spec.SOut)))
    (h : s.data = some j) :
    Spec.combineFields (some (k, s) :: rs) =
      { data := match (Spec.combineFields rs).data with
                | some (.obj kvs) => some (.obj ((k, j) :: kvs))
                | _ => none,
        all := s.all ++ (Spec.combineFields rs).all,
        req := match (Spec.combineFields rs).data with
               | none => (Spec.combineFields rs).req
               | some _ => s.req ++ (Spec.combineFields rs).req,
        undef := s.undef || (Spec.combineFields rs).undef } := by
  simp only [Spec.combineFields, List.filterMap_cons, id, List.find?_cons, h, Option.isNone_some, List.flatMap_cons,
    List.any_cons, Bool.false_or]
  cases List.find? (fun p => p.2.data.isNone) (List.filterMap id rs) <;>
    simp [Bool.or_assoc, Bool.or_comm, Bool.or_left_comm, h]


/-! ### the refinement relation at one response position -/

/-- Model outcome `out` (future result + errors appended) against the reference outcome `s`. -/
def Sim (out : Out) (s : Spec.SOut) : Prop :=
  s.undef = false →
  match out.r with
  | .ok j => s.data = some j ∧ s.req ⊆ₘ out.errs ∧ out.errs ⊆ₘ s.all
  | .err e => s.data = none ∧ s.req = [e] ∧ (out.errs ++ [e]) ⊆ₘ s.all
  | .stuck _ => True

theorem sim_catch (t : TypeRef) (out : Out) (s : Spec.SOut) (h : Sim out s) :
    Sim (catchIfNullable t out) (Spec.atPosition t s) := by
  have key : ∀ (out' : Out) (s' : Spec.SOut),
      (out' = match out.r with
              | .err e => { out with r := .ok .null, errs := out.errs ++ [e] }
              | _ => out) →
      (s' = match s.data with
            | none => { s with data := some .null }
            | some _ => s) → Sim out' s' := by
    intro out' s' ho hs hu
    have hu' : s.undef = false := by
      rw [hs] at hu; cases hd : s.data <;> simp [hd] at hu <;> exact hu
    have h' := h hu'
    cases hr : out.r with
    | ok j =>
      simp only [hr] at h' ho
      obtain ⟨h1, h2, h3⟩ := h'
      simp only [h1] at hs
      subst ho; subst hs
      simp only [hr]
      exact ⟨h1, h2, h3⟩
    | err e =>
      simp only [hr] at h' ho
      obtain ⟨h1, h2, h3⟩ := h'
      simp only [h1] at hs
      subst ho; subst hs
      show (some Json.null = some Json.null) ∧ s.req ⊆ₘ (out.errs ++ [e]) ∧ (out.errs ++ [e]) ⊆ₘ s.all
      refine ⟨rfl, ?_, h3⟩
      rw [h2]
      exact SubMulti.append_left _ (SubMulti.refl _)
    | stuck st =>
      simp only [hr] at ho
      subst ho
      simp only [hr]
  cases t with
  | nonNull t => exact h
  | named n => exact key _ _ rfl rfl
  | list t => exact key _ _ rfl rfl

theorem getField_eq (o : ObjT) (name : String) :
    o.getField name = o.fields.find? (fun (fd : FieldDef) => decide (fd.name = name)) := rfl

theorem option_mapM_cons {α β : Type} (f : α → Option β) (a : α) (l : List α) (rs : List β)
    (h : (a :: l).mapM f = some rs) : ∃ b bs, f a = some b ∧ l.mapM f = some bs ∧ rs = b :: bs := by
  simp only [List.mapM_cons] at h
  cases hb : f a with
  | none => simp [hb] at h
  | some b =>
    cases hbs : l.mapM f with
    | none => simp [hb, hbs] at h
    | some bs =>
      simp [hb, hbs] at h
      exact ⟨b, bs, rfl, rfl, h.symm⟩


theorem sim_fieldError (e : Err) (c : Cache) : Sim { r := .err e, errs := [], cache := c } (Spec.fieldError e) := by
  intro _
  exact ⟨rfl, rfl, SubMulti.refl _⟩

theorem sim_completed (j : Json) (c : Cache) : Sim { r := .ok j, errs := [], cache := c } (Spec.completed j) := by
  intro _
  exact ⟨rfl, SubMulti.refl _, SubMulti.refl _⟩

/-- Model loop over the grouped field set against the reference's map-then-combine. -/
def SimObj (acc : List (String × Json)) (errs : List Err) (out : Out) (s : Spec.SOut) : Prop :=
  s.undef = false →
  match out.r with
  | .ok j => ∃ kvs E, s.data = some (.obj kvs) ∧ j = .obj (acc ++ kvs) ∧ out.errs = errs ++ E ∧ s.req ⊆ₘ E ∧ E ⊆ₘ s.all
  | .err e => ∃ E, s.data = none ∧ s.req = [e] ∧ out.errs = errs ++ E ∧ (E ++ [e]) ⊆ₘ s.all
  | .stuck _ => True

theorem execItems_sim (o : ObjT) (objVal : RVal) (path : Path)
    (mc : List FieldNode → FieldNode → TypeRef → RVal → Path → Cache → Out)
    (sc : TypeRef → List FieldNode → FieldNode → RVal → Path → Option Spec.SOut)
    (H : ∀ fields f0 t v p c s, sc t fields f0 v p = some s → Sim (mc fields f0 t v p c) s)
    (g : Grouped) (acc : List (String × Json)) (errs : List Err) (c : Cache)
    (rs : List (Option (String × Spec.SOut)))
    (hrs : g.mapM (Spec.executeEntry o objVal path sc) = some rs) :
    SimObj acc errs
      (execItemsWith o path
        (fun fields f0 fd p c => execFieldWith (fun t v p c => mc fields f0 t v p c) objVal fields f0 fd p c)
        g acc errs c)
      (Spec.combineFields rs) := by
  induction g generalizing acc errs c rs with
  | nil =>
    simp only [List.mapM_nil, pure, Option.some.injEq] at hrs
    subst hrs
    intro _
    simp only [execItemsWith, combineFields_nil]
    exact ⟨[], [], rfl, by simp, by simp, SubMulti.nil _, SubMulti.nil _⟩
  | cons p rest ih =>
    obtain ⟨key, fields⟩ := p
    obtain ⟨entry, rs', hentry, hrest, rfl⟩ := option_mapM_cons _ _ _ _ hrs
    cases fields with
    | nil => simp [Spec.executeEntry] at hentry
    | cons f0 tl =>
      simp only [execItemsWith, List.head?_cons]
      by_cases htn : f0.name = "__typename"
      · -- __typename
        simp only [Spec.executeEntry, htn, if_true, Option.some.injEq] at hentry
        subst hentry
        simp only [htn, beq_self_eq_true, if_true]
        have ih' := ih (acc ++ [(key, .str o.name)]) errs c rs' hrest
        intro hu
        rw [combineFields_some_ok key _ (.str o.name) rs' rfl] at hu ⊢
        simp only [Spec.completed, Bool.false_or] at hu
        have ih'' := ih' hu
        simp only [Spec.completed, List.nil_append]
        cases hr : (execItemsWith o path _ rest (acc ++ [(key, .str o.name)]) errs c).r with
        | ok j =>
          simp only [hr] at ih''
          obtain ⟨kvs, E, h1, h2, h3, h4, h5⟩ := ih''
          refine ⟨(key, .str o.name) :: kvs, E, ?_, ?_, h3, ?_, h5⟩
          · simp [h1]
          · simp [h2]
          · simp only [h1]; exact h4
        | err e =>
          simp only [hr] at ih''
          obtain ⟨E, h1, h2, h3, h4⟩ := ih''
          refine ⟨E, ?_, ?_, h3, h4⟩
          · simp [h1]
          · simp only [h1]; exact h2
        | stuck st => trivial
      · have htn' : (f0.name == "__typename") = false := by simpa using htn
        simp only [htn', Bool.false_eq_true, if_false]
        simp only [Spec.executeEntry, htn, if_false] at hentry
        rw [getField_eq]
        cases hfd : o.fields.find? (fun (fd : FieldDef) => decide (fd.name = f0.name)) with
        | none =>
          simp only [hfd, Option.some.injEq] at hentry
          subst hentry
          intro hu
          rw [combineFields_none] at hu
          simp at hu
        | some fd =>
          simp only [hfd] at hentry
          have hex : ∃ r0, entry = some (key, Spec.atPosition fd.type r0) ∧
              Sim (execFieldWith (fun t v p c => mc (f0 :: tl) f0 t v p c) objVal (f0 :: tl) f0 fd (path ++ [.key key]) c) r0 := by
            unfold execFieldWith
            cases hae : f0.argErr with
            | some ae =>
              simp only [hae, Option.map_some, Option.some.injEq] at hentry
              exact ⟨_, hentry.symm, sim_fieldError _ _⟩
            | none =>
              simp only [hae] at hentry
              cases hres : resolve objVal f0.wkey with
              | err m =>
                simp only [hres, Option.map_some, Option.some.injEq] at hentry
                exact ⟨_, hentry.symm, sim_fieldError _ _⟩
              | val v =>
                simp only [hres] at hentry
                cases hsc : sc fd.type (f0 :: tl) f0 v (path ++ [PathSeg.key key]) with
                | none => simp [hsc] at hentry
                | some r0 =>
                  simp only [hsc, Option.map_some, Option.some.injEq] at hentry
                  exact ⟨r0, hentry.symm, H _ _ _ _ _ _ _ hsc⟩
          obtain ⟨r0, rfl, hsim0⟩ := hex
          · 
            have hsim := sim_catch fd.type _ _ hsim0
            generalize hout0 : catchIfNullable fd.type (execFieldWith (fun t v p c => mc (f0 :: tl) f0 t v p c) objVal (f0 :: tl) f0 fd (path ++ [.key key]) c) = out0 at hsim
            simp only [hout0]
            intro hu
            cases hr : out0.r with
            | stuck st => simp only [hr]
            | err e0 =>
              simp only [hr]
              have hdata : (Spec.atPosition fd.type r0).data = none ∨ ∃ j, (Spec.atPosition fd.type r0).data = some j := by
                cases (Spec.atPosition fd.type r0).data with
                | none => left; rfl
                | some j => right; exact ⟨j, rfl⟩
              rcases hdata with hd | ⟨j, hd⟩
              · rw [combineFields_some_fail key _ rs' hd] at hu ⊢
                simp only [Bool.or_eq_false_iff] at hu
                have := hsim hu.1
                simp only [hr] at this
                obtain ⟨_, h2, h3⟩ := this
                exact ⟨out0.errs, rfl, h2, rfl, SubMulti.append_right _ h3⟩
              · rw [combineFields_some_ok key _ j rs' hd] at hu
                simp only [Bool.or_eq_false_iff] at hu
                have := hsim hu.1
                simp only [hr] at this
                rw [hd] at this
                exact absurd this.1 (by simp)
            | ok j0 =>
              simp only [hr]
              have hdata : (Spec.atPosition fd.type r0).data = none ∨ ∃ j, (Spec.atPosition fd.type r0).data = some j := by
                cases (Spec.atPosition fd.type r0).data with
                | none => left; rfl
                | some j => right; exact ⟨j, rfl⟩
              rcases hdata with hd | ⟨j, hd⟩
              · rw [combineFields_some_fail key _ rs' hd] at hu
                simp only [Bool.or_eq_false_iff] at hu
                have := hsim hu.1
                simp only [hr] at this
                rw [hd] at this
                exact absurd this.1 (by simp)
              · rw [combineFields_some_ok key _ j rs' hd] at hu ⊢
                simp only [Bool.or_eq_false_iff] at hu
                have h0 := hsim hu.1
                simp only [hr] at h0
                obtain ⟨h01, h02, h03⟩ := h0
                have hj : j = j0 := by rw [hd] at h01; exact Option.some.inj h01
                subst hj
                have ih' := ih (acc ++ [(key, j)]) (errs ++ out0.errs) out0.cache rs' hrest hu.2
                cases hr2 : (execItemsWith o path _ rest (acc ++ [(key, j)]) (errs ++ out0.errs) out0.cache).r with
                | stuck st => trivial
                | ok j2 =>
                  simp only [hr2] at ih'
                  obtain ⟨kvs, E, h1, h2, h3, h4, h5⟩ := ih'
                  refine ⟨(key, j) :: kvs, out0.errs ++ E, ?_, ?_, ?_, ?_, ?_⟩
                  · simp [h1]
                  · simp [h2]
                  · simp [h3]
                  · simp only [h1]; exact SubMulti.append h02 h4
                  · exact SubMulti.append h03 h5
                | err e2 =>
                  simp only [hr2] at ih'
                  obtain ⟨E, h1, h2, h3, h4⟩ := ih'
                  refine ⟨out0.errs ++ E, ?_, ?_, ?_, ?_⟩
                  · simp [h1]
                  · simp only [h1]; exact h2
                  · simp [h3]
                  · rw [List.append_assoc]; exact SubMulti.append h03 h4


/-! ### lists -/

theorem combineItems_nil : Spec.combineItems [] = { data := some (.arr []), all := [], req := [], undef := false } := rfl

theorem combineItems_fail (s : Spec.SOut) (rs : List Spec.SOut) (h : s.data = none) :
    Spec.combineItems (s :: rs) =
      { data := none, all := s.all ++ (Spec.combineItems rs).all, req := s.req,
        undef := s.undef || (Spec.combineItems rs).undef } := by
  simp only [Spec.combineItems, List.find?_cons, h, Option.isNone_none, List.flatMap_cons, List.any_cons]
  cases List.find? (fun r => r.data.isNone) rs <;> rfl

theorem combineItems_ok (s : Spec.SOut) (j : Json) (rs : List Spec.SOut) (h : s.data = some j) :
    Spec.combineItems (s :: rs) =
      { data := match (Spec.combineItems rs).data with
                | some (.arr js) => some (.arr (j :: js))
                | _ => none,
        all := s.all ++ (Spec.combineItems rs).all,
        req := match (Spec.combineItems rs).data with
               | none => (Spec.combineItems rs).req
               | some _ => s.req ++ (Spec.combineItems rs).req,
        undef := s.undef || (Spec.combineItems rs).undef } := by
  simp only [Spec.combineItems, List.find?_cons, h, Option.isNone_some, List.flatMap_cons, List.any_cons,
    List.filterMap_cons]
  cases List.find? (fun r => r.data.isNone) rs <;> simp [h]

theorem joinResults_nil : joinResults [] = .ok (.arr []) := rfl

theorem joinResults_stuck (st : Stuck) (rs : List R) : joinResults (.stuck st :: rs) = .stuck st := by
  simp [joinResults, List.findSome?_cons, R.stuck?]

theorem joinResults_ok (j : Json) (rs : List R) :
    joinResults (.ok j :: rs) = match joinResults rs with
      | .ok (.arr js) => .ok (.arr (j :: js))
      | other => other := by
  simp only [joinResults, List.findSome?_cons, R.stuck?, R.err?, List.filterMap_cons, R.ok?]
  cases List.findSome? R.stuck? rs with
  | some st => rfl
  | none =>
    simp only
    cases List.findSome? R.err? rs <;> rfl

theorem joinResults_err (e : Err) (rs : List R) :
    joinResults (.err e :: rs) = match joinResults rs with
      | .stuck st => .stuck st
      | _ => .err e := by
  simp only [joinResults, List.findSome?_cons, R.stuck?, R.err?]
  cases List.findSome? R.stuck? rs with
  | some st => rfl
  | none =>
    simp only
    cases List.findSome? R.err? rs <;> rfl

theorem joinResults_ok_shape (rs : List R) (j : Json) (h : joinResults rs = .ok j) : ∃ js, j = .arr js := by
  simp only [joinResults] at h
  cases h1 : List.findSome? R.stuck? rs with
  | some st => simp [h1] at h
  | none =>
    simp only [h1] at h
    cases h2 : List.findSome? R.err? rs with
    | some e => simp [h2] at h
    | none =>
      simp only [h2, R.ok.injEq] at h
      exact ⟨_, h.symm⟩

/-- The item results, appended errors and final cache of the list loop. -/
def runItems (inner : TypeRef) (path : Path) (item : RVal → Path → Cache → Out) :
    List RVal → Nat → Cache → List R × List Err × Cache
  | [], _, c => ([], [], c)
  | v :: rest, i, c =>
    let out := catchIfNullable inner (item v (path ++ [.idx i]) c)
    let r := runItems inner path item rest (i + 1) out.cache
    (out.r :: r.1, out.errs ++ r.2.1, r.2.2)

theorem completeItemsWith_eq (inner : TypeRef) (path : Path) (item : RVal → Path → Cache → Out)
    (items : List RVal) (i : Nat) (rs : List R) (errs : List Err) (c : Cache) :
    completeItemsWith inner path item items i rs errs c =
      { r := joinResults (rs ++ (runItems inner path item items i c).1),
        errs := errs ++ (runItems inner path item items i c).2.1,
        cache := (runItems inner path item items i c).2.2 } := by
  induction items generalizing i rs errs c with
  | nil => simp [completeItemsWith, runItems]
  | cons v rest ih =>
    simp only [completeItemsWith, runItems]
    rw [ih]
    simp [List.append_assoc]

theorem SubMulti.of_append_left {a b c : List Err} (h : (a ++ b) ⊆ₘ c) : a ⊆ₘ c := by
  intro x; have := h x; simp only [List.count_append] at this; omega

theorem runItems_sim (inner : TypeRef) (path : Path)
    (mc : RVal → Path → Cache → Out) (sc : RVal → Path → Option Spec.SOut)
    (H : ∀ v p c s, sc v p = some s → Sim (mc v p c) s)
    (items : List RVal) (i : Nat) (c : Cache) (rs : List Spec.SOut)
    (hrs : (items.zipIdx i).mapM (Spec.completeItem inner path sc) = some rs) :
    Sim { r := joinResults (runItems inner path mc items i c).1, errs := (runItems inner path mc items i c).2.1,
          cache := (runItems inner path mc items i c).2.2 } (Spec.combineItems rs) := by
  induction items generalizing i c rs with
  | nil =>
    simp only [List.zipIdx_nil, List.mapM_nil, pure, Option.some.injEq] at hrs
    subst hrs
    intro _
    simp only [runItems, joinResults_nil, combineItems_nil]
    exact ⟨by first | rfl | trivial, SubMulti.nil _, SubMulti.nil _⟩
  | cons v rest ih =>
    simp only [List.zipIdx_cons] at hrs
    obtain ⟨s0, rs', hs0, hrest, rfl⟩ := option_mapM_cons _ _ _ _ hrs
    simp only [Spec.completeItem] at hs0
    cases hsc : sc v (path ++ [PathSeg.idx i]) with
    | none => simp [hsc] at hs0
    | some r0 =>
      simp only [hsc, Option.map_some, Option.some.injEq] at hs0
      subst hs0
      have hsim := sim_catch inner _ _ (H v (path ++ [.idx i]) c r0 hsc)
      simp only [runItems]
      generalize hout0 : catchIfNullable inner (mc v (path ++ [.idx i]) c) = out0 at hsim
      have ih' := ih (i + 1) out0.cache rs' hrest
      generalize hRs : runItems inner path mc rest (i + 1) out0.cache = run at ih'
      obtain ⟨Rs, Es, c'⟩ := run
      simp only at ih' ⊢
      intro hu
      have hdata : (Spec.atPosition inner r0).data = none ∨ ∃ j, (Spec.atPosition inner r0).data = some j := by
        cases (Spec.atPosition inner r0).data with
        | none => left; rfl
        | some j => right; exact ⟨j, rfl⟩
      cases hr : out0.r with
      | stuck st => simp only [joinResults_stuck]
      | ok j0 =>
        rcases hdata with hd | ⟨j, hd⟩
        · rw [combineItems_fail _ rs' hd] at hu
          simp only [Bool.or_eq_false_iff] at hu
          have := hsim hu.1
          simp only [hr] at this
          rw [hd] at this
          exact absurd this.1 (by simp)
        · rw [combineItems_ok _ j rs' hd] at hu ⊢
          simp only [Bool.or_eq_false_iff] at hu
          have h0 := hsim hu.1
          simp only [hr] at h0
          obtain ⟨h01, h02, h03⟩ := h0
          have hj : j = j0 := by rw [hd] at h01; exact Option.some.inj h01
          subst hj
          have ih'' := ih' hu.2
          rw [joinResults_ok]
          cases hjr : joinResults Rs with
          | stuck st => simp only
          | err e =>
            simp only [hjr] at ih'' ⊢
            obtain ⟨h1, h2, h3⟩ := ih''
            refine ⟨by simp [h1], by simp only [h1]; exact h2, ?_⟩
            rw [List.append_assoc]
            exact SubMulti.append h03 h3
          | ok jr =>
            obtain ⟨js, rfl⟩ := joinResults_ok_shape Rs jr hjr
            simp only [hjr] at ih'' ⊢
            obtain ⟨h1, h2, h3⟩ := ih''
            refine ⟨by simp [h1], by simp only [h1]; exact SubMulti.append h02 h2, SubMulti.append h03 h3⟩
      | err e0 =>
        rcases hdata with hd | ⟨j, hd⟩
        · rw [combineItems_fail _ rs' hd] at hu ⊢
          simp only [Bool.or_eq_false_iff] at hu
          have h0 := hsim hu.1
          simp only [hr] at h0
          obtain ⟨_, h02, h03⟩ := h0
          have ih'' := ih' hu.2
          rw [joinResults_err]
          cases hjr : joinResults Rs with
          | stuck st => simp only
          | err e =>
            simp only [hjr] at ih'' ⊢
            obtain ⟨_, _, h3⟩ := ih''
            refine ⟨by first | rfl | trivial, h02, ?_⟩
            have h3' := SubMulti.of_append_left h3
            intro x
            have a1 := h03 x
            have a2 := h3' x
            simp only [List.count_append] at a1 a2 ⊢
            omega
          | ok jr =>
            simp only [hjr] at ih'' ⊢
            obtain ⟨_, _, h3⟩ := ih''
            refine ⟨by first | rfl | trivial, h02, ?_⟩
            intro x
            have a1 := h03 x
            have a2 := h3 x
            simp only [List.count_append] at a1 a2 ⊢
            omega
        · rw [combineItems_ok _ j rs' hd] at hu
          simp only [Bool.or_eq_false_iff] at hu
          have := hsim hu.1
          simp only [hr] at this
          rw [hd] at this
          exact absurd this.1 (by simp)


/-! ### the main induction -/

theorem sim_of_simObj (out : Out) (s : Spec.SOut) (h : SimObj [] [] out s) : Sim out s := by
  intro hu
  have h' := h hu
  cases hr : out.r with
  | stuck st => trivial
  | ok j =>
    simp only [hr] at h'
    obtain ⟨kvs, E, h1, h2, h3, h4, h5⟩ := h'
    simp only [List.nil_append] at h2 h3
    subst h2
    rw [h3]
    exact ⟨h1, h4, h5⟩
  | err e =>
    simp only [hr] at h'
    obtain ⟨E, h1, h2, h3, h4⟩ := h'
    simp only [List.nil_append] at h3
    rw [h3]
    exact ⟨h1, h2, h4⟩

theorem possibleTypes_union (S : Schema) (n : String) (ms : List String) (h : S.lookup n = some (.union ms)) :
    Spec.possibleTypes S n = ms := by
  simp [Spec.possibleTypes, h]

def SimComplete (S : Schema) (D : Document) (fuel : Nat) : Prop :=
  ∀ fuel' t fields f0 v path c s, Spec.completeValue S D fuel' t fields f0 v path = some s →
    Sim (completeValue false S D fuel t fields f0 v path c) s

def SimSelections (S : Schema) (D : Document) (fuel : Nat) : Prop :=
  ∀ fuel' o sels v path c s, Spec.executeSelectionSet S D fuel' o sels v path = some s →
    Sim (execSelections false S D fuel o sels v path c) s

theorem sim_stuck (c : Cache) (st : Stuck) (errs : List Err) (s : Spec.SOut) : Sim { r := .stuck st, errs := errs, cache := c } s := by
  intro _; trivial

theorem simSelections_succ (S : Schema) (D : Document) (fuel : Nat) (ih : SimComplete S D fuel) :
    SimSelections S D (fuel + 1) := by
  intro fuel' o sels v path c s hs
  cases fuel' with
  | zero => simp [Spec.executeSelectionSet] at hs
  | succ fuel' =>
    simp only [Spec.executeSelectionSet] at hs
    cases hcs : Spec.collectFields S D o fuel' sels [] with
    | none => simp [hcs] at hs
    | some gv =>
      obtain ⟨g, vis⟩ := gv
      simp only [hcs] at hs
      cases hrs : g.mapM (Spec.executeEntry o v path (Spec.completeValue S D fuel')) with
      | none => simp [hrs] at hs
      | some rs =>
        simp only [hrs, Option.map_some, Option.some.injEq] at hs
        subst hs
        simp only [execSelections, collectFields, Bool.false_eq_true, if_false]
        cases hcm : collectImpl S D o fuel sels { visited := [], grouped := [] } with
        | error st => exact sim_stuck _ _ _ _
        | ok st =>
          simp only
          have hg : st.grouped = g := collect_agree S D o fuel fuel' sels st g vis hcm hcs
          rw [hg]
          apply sim_of_simObj
          exact execItems_sim o v path (fun fields f0 t v p c => completeValue false S D fuel t fields f0 v p c)
            (Spec.completeValue S D fuel') (fun fields f0 t v p c s h => ih fuel' t fields f0 v p c s h) g [] [] c rs hrs


theorem sim_nonNull (out : Out) (r : Spec.SOut) (f0 : FieldNode) (path : Path) (h : Sim out r) :
    Sim (match out.r with
         | .ok .null => { out with r := .err (errAt f0 path .nullNonNull) }
         | _ => out)
        (match r.data with
         | some .null =>
           { r with data := none, all := r.all ++ [{ msg := .nullNonNull, path := path, locs := [f0.pos] }],
                    req := [{ msg := .nullNonNull, path := path, locs := [f0.pos] }] }
         | _ => r) := by
  cases hr : out.r with
  | stuck st =>
    intro _
    simp only [hr]
  | err e =>
    intro hu
    have hu' : r.undef = false := by
      revert hu; cases r.data with
      | none => exact id
      | some j => cases j <;> exact id
    have h' := h hu'
    simp only [hr] at h' ⊢
    obtain ⟨h1, h2, h3⟩ := h'
    simp only [h1]
    exact ⟨trivial, h2, h3⟩
  | ok j =>
    intro hu
    have hu' : r.undef = false := by
      revert hu; cases r.data with
      | none => exact id
      | some j => cases j <;> exact id
    have h' := h hu'
    simp only [hr] at h'
    obtain ⟨h1, h2, h3⟩ := h'
    cases j with
    | null =>
      simp only [h1]
      refine ⟨by first | rfl | trivial, by first | rfl | trivial, ?_⟩
      exact SubMulti.append h3 (SubMulti.refl _)
    | bool b => simp only [h1, hr]; exact ⟨trivial, h2, h3⟩
    | int z => simp only [h1, hr]; exact ⟨trivial, h2, h3⟩
    | num m e => simp only [h1, hr]; exact ⟨trivial, h2, h3⟩
    | str x => simp only [h1, hr]; exact ⟨trivial, h2, h3⟩
    | arr xs => simp only [h1, hr]; exact ⟨trivial, h2, h3⟩
    | obj kvs => simp only [h1, hr]; exact ⟨trivial, h2, h3⟩


theorem simComplete_succ (S : Schema) (D : Document) (fuel : Nat) (ihc : SimComplete S D fuel) (ihs : SimSelections S D fuel) :
    SimComplete S D (fuel + 1) := by
  intro fuel' t fields f0 v path c s hs
  cases fuel' with
  | zero => simp [Spec.completeValue] at hs
  | succ fuel' =>
    cases t with
    | nonNull inner =>
      simp only [Spec.completeValue] at hs
      simp only [completeValue]
      cases hin : Spec.completeValue S D fuel' inner fields f0 v path with
      | none => simp [hin] at hs
      | some r =>
        simp only [hin] at hs
        have hsim := ihc fuel' inner fields f0 v path c r hin
        have := sim_nonNull _ r f0 path hsim
        cases hd : r.data with
        | none =>
          simp only [hd, Option.some.injEq] at hs this
          subst hs
          exact this
        | some j =>
          cases j <;> simp only [hd, Option.some.injEq] at hs this <;> subst hs <;> exact this
    | list inner =>
      simp only [Spec.completeValue, isNullish_eq] at hs
      simp only [completeValue]
      by_cases hnil : v.isNil = true
      · simp only [hnil, if_true, Option.some.injEq] at hs ⊢
        subst hs
        exact sim_completed _ _
      · simp only [hnil, Bool.false_eq_true, if_false] at hs ⊢
        cases v with
        | list items =>
          simp only at hs ⊢
          cases hrs : (items.zipIdx).mapM (Spec.completeItem inner path (Spec.completeValue S D fuel' inner fields f0)) with
          | none => simp [hrs] at hs
          | some rs =>
            simp only [hrs, Option.map_some, Option.some.injEq] at hs
            subst hs
            rw [completeItemsWith_eq]
            simp only [List.nil_append]
            exact runItems_sim inner path (fun v p c => completeValue false S D fuel inner fields f0 v p c)
              (Spec.completeValue S D fuel' inner fields f0) (fun v p c s h => ihc fuel' inner fields f0 v p c s h)
              items 0 c rs hrs
        | leaf g => simp only [Option.some.injEq] at hs ⊢; subst hs; exact sim_fieldError _ _
        | null => simp [RVal.isNil] at hnil
        | tnil => simp [RVal.isNil] at hnil
        | obj ty es => simp only [Option.some.injEq] at hs ⊢; subst hs; exact sim_fieldError _ _
    | named n =>
      simp only [Spec.completeValue, isNullish_eq] at hs
      simp only [completeValue]
      by_cases hnil : v.isNil = true
      · simp only [hnil, if_true, Option.some.injEq] at hs ⊢
        subst hs
        exact sim_completed _ _
      · simp only [hnil, Bool.false_eq_true, if_false] at hs ⊢
        cases hl : S.lookup n with
        | none => simp [hl] at hs
        | some td =>
          cases td with
          | scalar k =>
            simp only [hl] at hs ⊢
            cases v with
            | leaf g =>
              simp only [coerceScalar_eq] at hs ⊢
              cases hc : Spec.resultCoerce k g with
              | some j => simp only [hc, Option.some.injEq] at hs ⊢; subst hs; exact sim_completed _ _
              | none => simp only [hc, Option.some.injEq] at hs ⊢; subst hs; exact sim_fieldError _ _
            | null => simp [RVal.isNil] at hnil
            | tnil => simp [RVal.isNil] at hnil
            | list items => simp only [Option.some.injEq] at hs ⊢; subst hs; exact sim_fieldError _ _
            | obj ty es => simp only [Option.some.injEq] at hs ⊢; subst hs; exact sim_fieldError _ _
          | enum values =>
            simp only [hl] at hs ⊢
            cases v with
            | leaf g =>
              simp only [coerceEnum_eq] at hs ⊢
              cases hc : Spec.enumCoerce values g with
              | some j => simp only [hc, Option.some.injEq] at hs ⊢; subst hs; exact sim_completed _ _
              | none => simp only [hc, Option.some.injEq] at hs ⊢; subst hs; exact sim_fieldError _ _
            | null => simp [RVal.isNil] at hnil
            | tnil => simp [RVal.isNil] at hnil
            | list items => simp only [Option.some.injEq] at hs ⊢; subst hs; exact sim_fieldError _ _
            | obj ty es => simp only [Option.some.injEq] at hs ⊢; subst hs; exact sim_fieldError _ _
          | object fs is =>
            simp only [hl, mergeSelectionSets_eq] at hs ⊢
            exact ihs fuel' _ _ _ _ c s hs
          | interface fs =>
            simp only [hl, mergeSelectionSets_eq, implementations_eq S n fs hl] at hs ⊢
            cases hf : (S.implementations n).find? (fun t => isTypeOf t v) with
            | none => simp only [hf, Option.some.injEq] at hs ⊢; subst hs; exact sim_fieldError _ _
            | some tn =>
              simp only [hf] at hs ⊢
              cases ho : S.object? tn with
              | none => simp [ho] at hs
              | some o =>
                simp only [ho] at hs ⊢
                exact ihs fuel' _ _ _ _ c s hs
          | union ms =>
            simp only [hl, mergeSelectionSets_eq, possibleTypes_union S n ms hl] at hs ⊢
            cases hf : ms.find? (fun t => isTypeOf t v) with
            | none => simp only [hf, Option.some.injEq] at hs ⊢; subst hs; exact sim_fieldError _ _
            | some tn =>
              simp only [hf] at hs ⊢
              cases ho : S.object? tn with
              | none => simp [ho] at hs
              | some o =>
                simp only [ho] at hs ⊢
                exact ihs fuel' _ _ _ _ c s hs

/-- **Refinement of the executor model (without memo) to the reference**, at every fuel of either side. -/
theorem sim_main (S : Schema) (D : Document) (fuel : Nat) : SimComplete S D fuel ∧ SimSelections S D fuel := by
  induction fuel with
  | zero =>
    constructor
    · intro fuel' t fields f0 v path c s _
      simp only [completeValue]
      exact sim_stuck _ _ _ _
    · intro fuel' o sels v path c s _
      simp only [execSelections]
      exact sim_stuck _ _ _ _
  | succ fuel ih =>
    exact ⟨simComplete_succ S D fuel ih.1 ih.2, simSelections_succ S D fuel ih.1⟩


/-! ### GetOperation -/

def opMatches (opName : String) (op : Op) : Bool := opName == "" || op.name == some opName

theorem getOperation_go_eq (opName : String) (ops : List Op) (found : Option Op) :
    getOperation.go opName ops found =
      match found, ops.filter (opMatches opName) with
      | none, [] => .error { msg := .noOp, path := [], locs := [] }
      | none, [op] => .ok op
      | none, _ :: op2 :: _ => .error { msg := .multipleOps, path := [], locs := [op2.pos] }
      | some f, [] => .ok f
      | some _, m :: _ => .error { msg := .multipleOps, path := [], locs := [m.pos] } := by
  induction ops generalizing found with
  | nil => cases found <;> rfl
  | cons op rest ih =>
    by_cases hm : opMatches opName op = true
    · have hm' : (opName == "" || op.name == some opName) = true := hm
      simp only [getOperation.go, hm', if_true, List.filter_cons, hm]
      cases found with
      | some f => rfl
      | none =>
        simp only
        rw [ih]
        cases List.filter (opMatches opName) rest <;> rfl
    · have hm' : (opName == "" || op.name == some opName) = false := by simpa [opMatches] using hm
      have hm'' : opMatches opName op = false := by simpa using hm
      simp only [getOperation.go, hm', Bool.false_eq_true, if_false, List.filter_cons, hm'']
      exact ih found

theorem filter_all_true (ops : List Op) : ops.filter (opMatches "") = ops := by
  induction ops with
  | nil => rfl
  | cons op rest ih => simp [List.filter_cons, opMatches, ih]

theorem filter_named (opName : String) (h : opName ≠ "") (ops : List Op) :
    ops.filter (opMatches opName) = ops.filter (fun op => decide (op.name = some opName)) := by
  induction ops with
  | nil => rfl
  | cons op rest ih =>
    have h1 : (opName == "") = false := by simpa using h
    have : opMatches opName op = decide (op.name = some opName) := by
      simp only [opMatches, h1, Bool.false_or]
      by_cases e : op.name = some opName
      · simp [e]
      · simp [e]
    simp only [List.filter_cons, this, ih]

/-- The executor's `GetOperation` selects an operation exactly when the specification's does, and the
    same one; otherwise it reports one error without a path. -/
theorem getOperation_agree (D : Document) (opName : String) :
    (∀ op, Spec.getOperation D opName = some op → getOperation D opName = .ok op) ∧
    (Spec.getOperation D opName = none → ∃ e, getOperation D opName = .error e ∧ e.path = []) := by
  unfold getOperation Spec.getOperation
  rw [getOperation_go_eq]
  by_cases hn : opName = ""
  · subst hn
    simp only [filter_all_true, if_true]
    constructor
    · intro op h
      cases hops : D.ops with
      | nil => simp [hops] at h
      | cons a l =>
        cases l with
        | nil => simp [hops] at h; simp [h]
        | cons b l' => simp [hops] at h
    · intro h
      cases hops : D.ops with
      | nil => exact ⟨_, rfl, rfl⟩
      | cons a l =>
        cases l with
        | nil => simp [hops] at h
        | cons b l' => exact ⟨_, rfl, rfl⟩
  · simp only [hn, if_false, filter_named opName hn]
    constructor
    · intro op h
      cases hops : D.ops.filter (fun op => decide (op.name = some opName)) with
      | nil => simp [hops] at h
      | cons a l =>
        cases l with
        | nil => simp [hops] at h; simp [h]
        | cons b l' => simp [hops] at h
    · intro h
      cases hops : D.ops.filter (fun op => decide (op.name = some opName)) with
      | nil => exact ⟨_, rfl, rfl⟩
      | cons a l =>
        cases l with
        | nil => simp [hops] at h
        | cons b l' => exact ⟨_, rfl, rfl⟩


/-! ### the memo: selection nodes of one document, positions, cache invariant -/

/-- `P` holds of the selection nodes of document `D`: closed under sub-selections, contains the
    selections of every fragment definition, and distinct nodes have distinct positions (a fact
    about the parser: C06). -/
structure NodeSet (D : Document) (P : Selection → Prop) : Prop where
  field_sub : ∀ pos alias name wkey ae dirs sub, P (.field pos alias name wkey ae dirs sub) → ∀ s ∈ sub, P s
  inline_sub : ∀ pos tc dirs sub, P (.inline pos tc dirs sub) → ∀ s ∈ sub, P s
  frags : ∀ fr ∈ D.frags, ∀ s ∈ fr.sels, P s
  pos_inj : ∀ s1 s2, P s1 → P s2 → s1.pos = s2.pos → s1 = s2

/-- the sub-selections of these field nodes are nodes of the document -/
def FieldsIn (P : Selection → Prop) (fields : List FieldNode) : Prop := ∀ f ∈ fields, ∀ s ∈ f.sels, P s

theorem frag?_mem (D : Document) (name : String) (fr : Frag) (h : D.frag? name = some fr) : fr ∈ D.frags := by
  unfold Document.frag? at h
  have := List.mem_of_find?_eq_some h
  simpa using this

theorem expandStep_fieldsIn (S : Schema) (D : Document) (o : ObjT) (P : Selection → Prop) (hP : NodeSet D P)
    (recur : List Selection → List String → Except Stuck Expanded)
    (hrec : ∀ sels vis r, (∀ s ∈ sels, P s) → recur sels vis = .ok r → FieldsIn P r.1)
    (acc : Expanded) (sel : Selection) (r : Expanded) (hacc : FieldsIn P acc.1) (hsel : P sel)
    (h : expandStep S D o recur acc sel = .ok r) : FieldsIn P r.1 := by
  unfold expandStep at h
  by_cases hs : skipped sel.dirs
  · simp only [hs, if_true, Except.ok.injEq] at h; subst h; exact hacc
  · simp only [hs, Bool.false_eq_true, if_false] at h
    have happ : ∀ (fs : List FieldNode), FieldsIn P fs → FieldsIn P (acc.1 ++ fs) := by
      intro fs hfs f hf
      rcases List.mem_append.mp hf with h1 | h1
      · exact hacc f h1
      · exact hfs f h1
    cases sel with
    | field pos alias name wkey argErr dirs sub =>
      simp only [Except.ok.injEq] at h
      subst h
      apply happ
      intro f hf
      simp only [List.mem_singleton] at hf
      subst hf
      exact hP.field_sub _ _ _ _ _ _ _ hsel
    | spread pos name dirs =>
      by_cases hv : acc.2.contains name = true
      · simp only [hv, if_true, Except.ok.injEq] at h; subst h; exact hacc
      · simp only [hv, Bool.false_eq_true, if_false] at h
        cases hf : D.frag? name with
        | none => simp only [hf, Except.ok.injEq] at h; subst h; exact hacc
        | some fr =>
          simp only [hf] at h
          cases ha : fragmentApplies S o fr.tc with
          | no => simp only [ha, Except.ok.injEq] at h; subst h; exact hacc
          | panic => simp [ha] at h
          | yes =>
            simp only [ha] at h
            cases hr : recur fr.sels (name :: acc.2) with
            | error e => simp [hr] at h
            | ok r' =>
              simp only [hr, Except.ok.injEq] at h
              subst h
              exact happ _ (hrec _ _ _ (hP.frags fr (frag?_mem D name fr hf)) hr)
    | inline pos tc dirs sub =>
      have hsub := hP.inline_sub _ _ _ _ hsel
      have key : ∀ (h' : (match recur sub acc.2 with
                          | .ok r => Except.ok (acc.1 ++ r.1, r.2)
                          | .error e => Except.error e) = Except.ok r), FieldsIn P r.1 := by
        intro h'
        cases hr : recur sub acc.2 with
        | error e => simp [hr] at h'
        | ok r' =>
          simp only [hr, Except.ok.injEq] at h'
          subst h'
          exact happ _ (hrec _ _ _ hsub hr)
      cases tc with
      | none => exact key h
      | some tc =>
        simp only at h
        cases ha : fragmentApplies S o tc with
        | no => simp only [ha, Except.ok.injEq] at h; subst h; exact hacc
        | panic => simp [ha] at h
        | yes => simp only [ha] at h; exact key h

theorem expand_fieldsIn (S : Schema) (D : Document) (o : ObjT) (P : Selection → Prop) (hP : NodeSet D P)
    (fuel : Nat) (sels : List Selection) (vis : List String) (r : Expanded)
    (hsels : ∀ s ∈ sels, P s) (h : expand S D o fuel sels vis = .ok r) : FieldsIn P r.1 := by
  induction fuel generalizing sels vis r with
  | zero => simp [expand] at h
  | succ fuel ih =>
    simp only [expand] at h
    have fold : ∀ (sels : List Selection) (acc r : Expanded), (∀ s ∈ sels, P s) → FieldsIn P acc.1 →
        sels.foldlM (expandStep S D o (expand S D o fuel)) acc = .ok r → FieldsIn P r.1 := by
      intro sels
      induction sels with
      | nil =>
        intro acc r _ hacc h
        simp only [List.foldlM_nil, pure, Except.pure, Except.ok.injEq] at h
        subst h; exact hacc
      | cons sel rest ihl =>
        intro acc r hs hacc h
        simp only [List.foldlM_cons] at h
        cases h1 : expandStep S D o (expand S D o fuel) acc sel with
        | error e => simp [h1, bind, Except.bind] at h
        | ok acc' =>
          simp only [h1, bind, Except.bind] at h
          have hacc' := expandStep_fieldsIn S D o P hP _ (fun sels vis r hs hr => ih sels vis r hs hr) acc sel acc' hacc
            (hs sel (List.mem_cons_self ..)) h1
          exact ihl acc' r (fun s hs' => hs s (List.mem_cons_of_mem _ hs')) hacc' h
    exact fold sels ([], vis) r hsels (by intro f hf; simp at hf) h

theorem foldl_appendNode_mem (fs : List FieldNode) (g : Grouped) (k : String) (fields : List FieldNode)
    (h : (k, fields) ∈ fs.foldl appendNode g) (f : FieldNode) (hf : f ∈ fields) :
    f ∈ fs ∨ ∃ k' fields', (k', fields') ∈ g ∧ f ∈ fields' := by
  induction fs generalizing g with
  | nil => exact Or.inr ⟨k, fields, h, hf⟩
  | cons a rest ih =>
    simp only [List.foldl_cons] at h
    rcases ih _ h with h1 | ⟨k', fields', hm, hf'⟩
    · exact Or.inl (List.mem_cons_of_mem _ h1)
    · -- a member of a group of `g.append _ a`
      have : f = a ∨ ∃ k'' fields'', (k'', fields'') ∈ g ∧ f ∈ fields'' := by
        clear ih h
        simp only [appendNode] at hm
        induction g with
        | nil =>
          simp only [Grouped.append, List.mem_singleton, Prod.mk.injEq] at hm
          obtain ⟨_, rfl⟩ := hm
          simp only [List.mem_singleton] at hf'
          exact Or.inl hf'
        | cons p g' ihg =>
          obtain ⟨k1, fs1⟩ := p
          by_cases hk : k1 = a.responseKey
          · rw [append_cons_eq _ _ _ _ _ hk] at hm
            rcases List.mem_cons.mp hm with hm | hm
            · simp only [Prod.mk.injEq] at hm
              obtain ⟨_, rfl⟩ := hm
              rcases List.mem_append.mp hf' with h2 | h2
              · exact Or.inr ⟨k1, fs1, List.mem_cons_self .., h2⟩
              · simp only [List.mem_singleton] at h2; exact Or.inl h2
            · exact Or.inr ⟨k', fields', List.mem_cons_of_mem _ hm, hf'⟩
          · rw [append_cons_ne _ _ _ _ _ hk] at hm
            rcases List.mem_cons.mp hm with hm | hm
            · simp only [Prod.mk.injEq] at hm
              obtain ⟨rfl, rfl⟩ := hm
              exact Or.inr ⟨k', fields', List.mem_cons_self .., hf'⟩
            · rcases ihg hm with h3 | ⟨k'', fields'', h3, h4⟩
              · exact Or.inl h3
              · exact Or.inr ⟨k'', fields'', List.mem_cons_of_mem _ h3, h4⟩
      rcases this with rfl | h2
      · exact Or.inl (List.mem_cons_self ..)
      · exact Or.inr h2

theorem groupInOrder_fieldsIn (P : Selection → Prop) (fs : List FieldNode) (h : FieldsIn P fs)
    (p : String × List FieldNode) (hp : p ∈ groupInOrder fs) : FieldsIn P p.2 := by
  intro f hf
  rcases foldl_appendNode_mem fs [] p.1 p.2 hp f hf with h1 | ⟨_, _, h2, _⟩
  · exact h f h1
  · simp at h2

theorem mergeSelectionSets_in (P : Selection → Prop) (fields : List FieldNode) (h : FieldsIn P fields) :
    ∀ s ∈ mergeSelectionSets fields, P s := by
  intro s hs
  simp only [mergeSelectionSets, List.mem_flatMap] at hs
  obtain ⟨f, hf, hs⟩ := hs
  exact h f hf s hs


theorem sels_eq_of_pos (P : Selection → Prop) (hinj : ∀ s1 s2, P s1 → P s2 → s1.pos = s2.pos → s1 = s2)
    (a b : List Selection) (ha : ∀ s ∈ a, P s) (hb : ∀ s ∈ b, P s) (h : a.map Selection.pos = b.map Selection.pos) : a = b := by
  induction a generalizing b with
  | nil => cases b with
    | nil => rfl
    | cons y ys => simp at h
  | cons x xs ih =>
    cases b with
    | nil => simp at h
    | cons y ys =>
      simp only [List.map_cons, List.cons.injEq] at h
      have hxy := hinj x y (ha x (List.mem_cons_self ..)) (hb y (List.mem_cons_self ..)) h.1
      have := ih ys (fun s hs => ha s (List.mem_cons_of_mem _ hs)) (fun s hs => hb s (List.mem_cons_of_mem _ hs)) h.2
      rw [hxy, this]

/-- Every memo entry is what `collectFields` computes for the (object type, selection list) its key
    stands for. -/
def CacheOK (S : Schema) (D : Document) (P : Selection → Prop) (c : Cache) : Prop :=
  ∀ k g, (k, g) ∈ c → ∃ o sels fuel0 fs v, S.object? o.name = some o ∧ (∀ s ∈ sels, P s) ∧ k = cacheKey o sels ∧
    expand S D o fuel0 sels [] = .ok (fs, v) ∧ g = groupInOrder fs

theorem cacheOK_nil (S : Schema) (D : Document) (P : Selection → Prop) : CacheOK S D P [] := by
  intro k g h; simp at h

theorem cache_get_mem (c : Cache) (k : CacheKey) (g : Grouped) (h : c.get? k = some g) : (k, g) ∈ c := by
  unfold Cache.get? at h
  cases hf : c.find? (fun p => p.1 == k) with
  | none => simp [hf] at h
  | some p =>
    simp only [hf, Option.some.injEq] at h
    have hm := List.mem_of_find?_eq_some hf
    have hk := List.find?_some hf
    have : p.1 = k := by simpa using hk
    obtain ⟨p1, p2⟩ := p
    simp only at this h
    subst this; subst h
    exact hm

/-- `collectFields` with the memo: a hit returns what a fresh computation would, a miss extends the
    memo with a correct entry. -/
theorem collectFields_inv (memo : Bool) (S : Schema) (D : Document) (P : Selection → Prop) (hP : NodeSet D P)
    (fuel : Nat) (o : ObjT) (sels : List Selection) (c : Cache) (g' : Grouped) (c' : Cache)
    (hc : CacheOK S D P c) (ho : S.object? o.name = some o) (hsels : ∀ s ∈ sels, P s)
    (h : collectFields memo S D fuel o sels c = .ok (g', c')) :
    CacheOK S D P c' ∧ ∃ fuel0 fs v, expand S D o fuel0 sels [] = .ok (fs, v) ∧ g' = groupInOrder fs := by
  unfold collectFields at h
  simp only at h
  have miss : ∀ (h' : (match collectImpl S D o fuel sels { visited := [], grouped := [] } with
                       | .error s => Except.error s
                       | .ok st => Except.ok (st.grouped, if memo = true then (cacheKey o sels, st.grouped) :: c else c))
                      = Except.ok (g', c')),
      CacheOK S D P c' ∧ ∃ fuel0 fs v, expand S D o fuel0 sels [] = .ok (fs, v) ∧ g' = groupInOrder fs := by
    intro h'
    rw [collectImpl_eq_expand] at h'
    cases he : expand S D o fuel sels [] with
    | error e => simp [he, mapOk] at h'
    | ok r =>
      obtain ⟨fs, v⟩ := r
      simp only [he, mapOk, toCState, Except.ok.injEq, Prod.mk.injEq] at h'
      obtain ⟨h1, h2⟩ := h'
      have hg : g' = groupInOrder fs := by rw [← h1]; rfl
      refine ⟨?_, fuel, fs, v, he, hg⟩
      cases memo with
      | false => simp only [Bool.false_eq_true, if_false] at h2; rw [← h2]; exact hc
      | true =>
        simp only [if_true] at h2
        rw [← h2]
        intro k g hm
        rcases List.mem_cons.mp hm with hm | hm
        · simp only [Prod.mk.injEq] at hm
          obtain ⟨rfl, rfl⟩ := hm
          exact ⟨o, sels, fuel, fs, v, ho, hsels, rfl, he, rfl⟩
        · exact hc k g hm
  cases memo with
  | false => simp only [Bool.false_eq_true, if_false] at h; exact miss h
  | true =>
    simp only [if_true] at h
    cases hget : c.get? (cacheKey o sels) with
    | none => simp only [hget] at h; exact miss h
    | some g =>
      simp only [hget, Except.ok.injEq, Prod.mk.injEq] at h
      obtain ⟨rfl, rfl⟩ := h
      refine ⟨hc, ?_⟩
      obtain ⟨o', sels', fuel0, fs, v, ho', hsels', hk, he, hg⟩ := hc _ _ (cache_get_mem c _ _ hget)
      simp only [cacheKey, Prod.mk.injEq] at hk
      have hoo : o = o' := by
        have : S.object? o.name = S.object? o'.name := by rw [hk.1]
        rw [ho, ho'] at this
        exact Option.some.inj this
      subst hoo
      have hss : sels = sels' := sels_eq_of_pos P hP.pos_inj sels sels' hsels hsels' hk.2
      subst hss
      exact ⟨fuel0, fs, v, he, hg⟩


theorem catch_cache (t : TypeRef) (out : Out) : (catchIfNullable t out).cache = out.cache := by
  cases t with
  | nonNull t => rfl
  | named n => simp only [catchIfNullable]; cases out.r <;> rfl
  | list t => simp only [catchIfNullable]; cases out.r <;> rfl

/-- `execItems_sim` with an invariant `I` of the memo threaded through the loop and a property `F`
    of the merged field lists. -/
theorem execItems_sim_inv (I : Cache → Prop) (F : List FieldNode → Prop) (o : ObjT) (objVal : RVal) (path : Path)
    (mc : List FieldNode → FieldNode → TypeRef → RVal → Path → Cache → Out)
    (sc : TypeRef → List FieldNode → FieldNode → RVal → Path → Option Spec.SOut)
    (H : ∀ fields f0 t v p c s, I c → F fields → sc t fields f0 v p = some s →
      Sim (mc fields f0 t v p c) s ∧ I (mc fields f0 t v p c).cache)
    (g : Grouped) (acc : List (String × Json)) (errs : List Err) (c : Cache)
    (rs : List (Option (String × Spec.SOut)))
    (hI : I c) (hF : ∀ p ∈ g, F p.2)
    (hrs : g.mapM (Spec.executeEntry o objVal path sc) = some rs) :
    SimObj acc errs
      (execItemsWith o path
        (fun fields f0 fd p c => execFieldWith (fun t v p c => mc fields f0 t v p c) objVal fields f0 fd p c)
        g acc errs c)
      (Spec.combineFields rs) ∧
    I (execItemsWith o path
        (fun fields f0 fd p c => execFieldWith (fun t v p c => mc fields f0 t v p c) objVal fields f0 fd p c)
        g acc errs c).cache := by
  induction g generalizing acc errs c rs with
  | nil =>
    simp only [List.mapM_nil, pure, Option.some.injEq] at hrs
    subst hrs
    refine ⟨?_, hI⟩
    intro _
    simp only [execItemsWith, combineFields_nil]
    exact ⟨[], [], rfl, by simp, by simp, SubMulti.nil _, SubMulti.nil _⟩
  | cons p rest ih =>
    obtain ⟨key, fields⟩ := p
    obtain ⟨entry, rs', hentry, hrest, rfl⟩ := option_mapM_cons _ _ _ _ hrs
    have hFrest : ∀ p ∈ rest, F p.2 := fun p hp => hF p (List.mem_cons_of_mem _ hp)
    have hFhere : F fields := hF (key, fields) (List.mem_cons_self ..)
    cases fields with
    | nil => simp [Spec.executeEntry] at hentry
    | cons f0 tl =>
      simp only [execItemsWith, List.head?_cons]
      by_cases htn : f0.name = "__typename"
      · -- __typename
        simp only [Spec.executeEntry, htn, if_true, Option.some.injEq] at hentry
        subst hentry
        simp only [htn, beq_self_eq_true, if_true]
        obtain ⟨ih', ihI⟩ := ih (acc ++ [(key, .str o.name)]) errs c rs' hI hFrest hrest
        refine ⟨?_, ihI⟩
        intro hu
        rw [combineFields_some_ok key _ (.str o.name) rs' rfl] at hu ⊢
        simp only [Spec.completed, Bool.false_or] at hu
        have ih'' := ih' hu
        simp only [Spec.completed, List.nil_append]
        cases hr : (execItemsWith o path _ rest (acc ++ [(key, .str o.name)]) errs c).r with
        | ok j =>
          simp only [hr] at ih''
          obtain ⟨kvs, E, h1, h2, h3, h4, h5⟩ := ih''
          refine ⟨(key, .str o.name) :: kvs, E, ?_, ?_, h3, ?_, h5⟩
          · simp [h1]
          · simp [h2]
          · simp only [h1]; exact h4
        | err e =>
          simp only [hr] at ih''
          obtain ⟨E, h1, h2, h3, h4⟩ := ih''
          refine ⟨E, ?_, ?_, h3, h4⟩
          · simp [h1]
          · simp only [h1]; exact h2
        | stuck st => trivial
      · have htn' : (f0.name == "__typename") = false := by simpa using htn
        simp only [htn', Bool.false_eq_true, if_false]
        simp only [Spec.executeEntry, htn, if_false] at hentry
        rw [getField_eq]
        cases hfd : o.fields.find? (fun (fd : FieldDef) => decide (fd.name = f0.name)) with
        | none =>
          simp only [hfd, Option.some.injEq] at hentry
          subst hentry
          obtain ⟨_, ihI⟩ := ih (acc ++ [("", .null)]) errs c rs' hI hFrest hrest
          refine ⟨?_, ihI⟩
          intro hu
          rw [combineFields_none] at hu
          simp at hu
        | some fd =>
          simp only [hfd] at hentry
          have hex : ∃ r0, entry = some (key, Spec.atPosition fd.type r0) ∧
              Sim (execFieldWith (fun t v p c => mc (f0 :: tl) f0 t v p c) objVal (f0 :: tl) f0 fd (path ++ [.key key]) c) r0 ∧
              I (execFieldWith (fun t v p c => mc (f0 :: tl) f0 t v p c) objVal (f0 :: tl) f0 fd (path ++ [.key key]) c).cache := by
            unfold execFieldWith
            cases hae : f0.argErr with
            | some ae =>
              simp only [hae, Option.map_some, Option.some.injEq] at hentry
              exact ⟨_, hentry.symm, sim_fieldError _ _, hI⟩
            | none =>
              simp only [hae] at hentry
              cases hres : resolve objVal f0.wkey with
              | err m =>
                simp only [hres, Option.map_some, Option.some.injEq] at hentry
                exact ⟨_, hentry.symm, sim_fieldError _ _, hI⟩
              | val v =>
                simp only [hres] at hentry
                cases hsc : sc fd.type (f0 :: tl) f0 v (path ++ [PathSeg.key key]) with
                | none => simp [hsc] at hentry
                | some r0 =>
                  simp only [hsc, Option.map_some, Option.some.injEq] at hentry
                  have := H _ _ _ _ _ _ _ hI hFhere hsc
                  exact ⟨r0, hentry.symm, this.1, this.2⟩
          obtain ⟨r0, rfl, hsim0, hI0⟩ := hex
          have hsim := sim_catch fd.type _ _ hsim0
          have hIc : I (catchIfNullable fd.type (execFieldWith (fun t v p c => mc (f0 :: tl) f0 t v p c) objVal (f0 :: tl) f0 fd (path ++ [.key key]) c)).cache := by
            rw [catch_cache]; exact hI0
          generalize hout0 : catchIfNullable fd.type (execFieldWith (fun t v p c => mc (f0 :: tl) f0 t v p c) objVal (f0 :: tl) f0 fd (path ++ [.key key]) c) = out0 at hsim hIc
          simp only [hout0]
          have hdata : (Spec.atPosition fd.type r0).data = none ∨ ∃ j, (Spec.atPosition fd.type r0).data = some j := by
            cases (Spec.atPosition fd.type r0).data with
            | none => left; rfl
            | some j => right; exact ⟨j, rfl⟩
          cases hr : out0.r with
          | stuck st => simp only [hr]; exact ⟨fun _ => trivial, hIc⟩
          | err e0 =>
            simp only [hr]
            refine ⟨?_, hIc⟩
            intro hu
            rcases hdata with hd | ⟨j, hd⟩
            · rw [combineFields_some_fail key _ rs' hd] at hu ⊢
              simp only [Bool.or_eq_false_iff] at hu
              have := hsim hu.1
              simp only [hr] at this
              obtain ⟨_, h2, h3⟩ := this
              exact ⟨out0.errs, rfl, h2, rfl, SubMulti.append_right _ h3⟩
            · rw [combineFields_some_ok key _ j rs' hd] at hu
              simp only [Bool.or_eq_false_iff] at hu
              have := hsim hu.1
              simp only [hr] at this
              rw [hd] at this
              exact absurd this.1 (by simp)
          | ok j0 =>
            simp only [hr]
            obtain ⟨ih', ihI⟩ := ih (acc ++ [(key, j0)]) (errs ++ out0.errs) out0.cache rs' hIc hFrest hrest
            refine ⟨?_, ihI⟩
            intro hu
            rcases hdata with hd | ⟨j, hd⟩
            · rw [combineFields_some_fail key _ rs' hd] at hu
              simp only [Bool.or_eq_false_iff] at hu
              have := hsim hu.1
              simp only [hr] at this
              rw [hd] at this
              exact absurd this.1 (by simp)
            · rw [combineFields_some_ok key _ j rs' hd] at hu ⊢
              simp only [Bool.or_eq_false_iff] at hu
              have h0 := hsim hu.1
              simp only [hr] at h0
              obtain ⟨h01, h02, h03⟩ := h0
              have hj : j = j0 := by rw [hd] at h01; exact Option.some.inj h01
              subst hj
              have ih'' := ih' hu.2
              cases hr2 : (execItemsWith o path _ rest (acc ++ [(key, j)]) (errs ++ out0.errs) out0.cache).r with
              | stuck st => trivial
              | ok j2 =>
                simp only [hr2] at ih''
                obtain ⟨kvs, E, h1, h2, h3, h4, h5⟩ := ih''
                refine ⟨(key, j) :: kvs, out0.errs ++ E, ?_, ?_, ?_, ?_, ?_⟩
                · simp [h1]
                · simp [h2]
                · simp [h3]
                · simp only [h1]; exact SubMulti.append h02 h4
                · exact SubMulti.append h03 h5
              | err e2 =>
                simp only [hr2] at ih''
                obtain ⟨E, h1, h2, h3, h4⟩ := ih''
                refine ⟨out0.errs ++ E, ?_, ?_, ?_, ?_⟩
                · simp [h1]
                · simp only [h1]; exact h2
                · simp [h3]
                · rw [List.append_assoc]; exact SubMulti.append h03 h4


theorem runItems_sim_inv (I : Cache → Prop) (inner : TypeRef) (path : Path)
    (mc : RVal → Path → Cache → Out) (sc : RVal → Path → Option Spec.SOut)
    (H : ∀ v p c s, I c → sc v p = some s → Sim (mc v p c) s ∧ I (mc v p c).cache)
    (items : List RVal) (i : Nat) (c : Cache) (rs : List Spec.SOut) (hI : I c)
    (hrs : (items.zipIdx i).mapM (Spec.completeItem inner path sc) = some rs) :
    Sim { r := joinResults (runItems inner path mc items i c).1, errs := (runItems inner path mc items i c).2.1,
          cache := (runItems inner path mc items i c).2.2 } (Spec.combineItems rs) ∧
    I (runItems inner path mc items i c).2.2 := by
  induction items generalizing i c rs with
  | nil =>
    simp only [List.zipIdx_nil, List.mapM_nil, pure, Option.some.injEq] at hrs
    subst hrs
    refine ⟨?_, hI⟩
    intro _
    simp only [runItems, joinResults_nil, combineItems_nil]
    exact ⟨by first | rfl | trivial, SubMulti.nil _, SubMulti.nil _⟩
  | cons v rest ih =>
    simp only [List.zipIdx_cons] at hrs
    obtain ⟨s0, rs', hs0, hrest, rfl⟩ := option_mapM_cons _ _ _ _ hrs
    simp only [Spec.completeItem] at hs0
    cases hsc : sc v (path ++ [PathSeg.idx i]) with
    | none => simp [hsc] at hs0
    | some r0 =>
      simp only [hsc, Option.map_some, Option.some.injEq] at hs0
      subst hs0
      have hH := H v (path ++ [.idx i]) c r0 hI hsc
      have hsim := sim_catch inner _ _ hH.1
      have hIc : I (catchIfNullable inner (mc v (path ++ [.idx i]) c)).cache := by rw [catch_cache]; exact hH.2
      simp only [runItems]
      generalize hout0 : catchIfNullable inner (mc v (path ++ [.idx i]) c) = out0 at hsim hIc
      obtain ⟨ih', ihI⟩ := ih (i + 1) out0.cache rs' hIc hrest
      generalize hRs : runItems inner path mc rest (i + 1) out0.cache = run at ih' ihI
      obtain ⟨Rs, Es, c'⟩ := run
      simp only at ih' ihI ⊢
      refine ⟨?_, ihI⟩
      intro hu
      have hdata : (Spec.atPosition inner r0).data = none ∨ ∃ j, (Spec.atPosition inner r0).data = some j := by
        cases (Spec.atPosition inner r0).data with
        | none => left; rfl
        | some j => right; exact ⟨j, rfl⟩
      cases hr : out0.r with
      | stuck st => simp only [joinResults_stuck]
      | ok j0 =>
        rcases hdata with hd | ⟨j, hd⟩
        · rw [combineItems_fail _ rs' hd] at hu
          simp only [Bool.or_eq_false_iff] at hu
          have := hsim hu.1
          simp only [hr] at this
          rw [hd] at this
          exact absurd this.1 (by simp)
        · rw [combineItems_ok _ j rs' hd] at hu ⊢
          simp only [Bool.or_eq_false_iff] at hu
          have h0 := hsim hu.1
          simp only [hr] at h0
          obtain ⟨h01, h02, h03⟩ := h0
          have hj : j = j0 := by rw [hd] at h01; exact Option.some.inj h01
          subst hj
          have ih'' := ih' hu.2
          rw [joinResults_ok]
          cases hjr : joinResults Rs with
          | stuck st => simp only
          | err e =>
            simp only [hjr] at ih'' ⊢
            obtain ⟨h1, h2, h3⟩ := ih''
            refine ⟨by simp [h1], by simp only [h1]; exact h2, ?_⟩
            rw [List.append_assoc]
            exact SubMulti.append h03 h3
          | ok jr =>
            obtain ⟨js, rfl⟩ := joinResults_ok_shape Rs jr hjr
            simp only [hjr] at ih'' ⊢
            obtain ⟨h1, h2, h3⟩ := ih''
            refine ⟨by simp [h1], by simp only [h1]; exact SubMulti.append h02 h2, SubMulti.append h03 h3⟩
      | err e0 =>
        rcases hdata with hd | ⟨j, hd⟩
        · rw [combineItems_fail _ rs' hd] at hu ⊢
          simp only [Bool.or_eq_false_iff] at hu
          have h0 := hsim hu.1
          simp only [hr] at h0
          obtain ⟨_, h02, h03⟩ := h0
          have ih'' := ih' hu.2
          rw [joinResults_err]
          cases hjr : joinResults Rs with
          | stuck st => simp only
          | err e =>
            simp only [hjr] at ih'' ⊢
            obtain ⟨_, _, h3⟩ := ih''
            refine ⟨by first | rfl | trivial, h02, ?_⟩
            have h3' := SubMulti.of_append_left h3
            intro x
            have a1 := h03 x
            have a2 := h3' x
            simp only [List.count_append] at a1 a2 ⊢
            omega
          | ok jr =>
            simp only [hjr] at ih'' ⊢
            obtain ⟨_, _, h3⟩ := ih''
            refine ⟨by first | rfl | trivial, h02, ?_⟩
            intro x
            have a1 := h03 x
            have a2 := h3 x
            simp only [List.count_append] at a1 a2 ⊢
            omega
        · rw [combineItems_ok _ j rs' hd] at hu
          simp only [Bool.or_eq_false_iff] at hu
          have := hsim hu.1
          simp only [hr] at this
          rw [hd] at this
          exact absurd this.1 (by simp)

/-! ### the main induction, for the model as written (with its memo) -/

def SimCompleteI (memo : Bool) (S : Schema) (D : Document) (P : Selection → Prop) (fuel : Nat) : Prop :=
  ∀ fuel' t fields f0 v path c s, CacheOK S D P c → FieldsIn P fields →
    Spec.completeValue S D fuel' t fields f0 v path = some s →
    Sim (completeValue memo S D fuel t fields f0 v path c) s ∧
    CacheOK S D P (completeValue memo S D fuel t fields f0 v path c).cache

def SimSelectionsI (memo : Bool) (S : Schema) (D : Document) (P : Selection → Prop) (fuel : Nat) : Prop :=
  ∀ fuel' o sels v path c s, CacheOK S D P c → S.object? o.name = some o → (∀ x ∈ sels, P x) →
    Spec.executeSelectionSet S D fuel' o sels v path = some s →
    Sim (execSelections memo S D fuel o sels v path c) s ∧
    CacheOK S D P (execSelections memo S D fuel o sels v path c).cache

theorem simSelectionsI_succ (memo : Bool) (S : Schema) (D : Document) (P : Selection → Prop) (hP : NodeSet D P)
    (fuel : Nat) (ih : SimCompleteI memo S D P fuel) : SimSelectionsI memo S D P (fuel + 1) := by
  intro fuel' o sels v path c s hc ho hsels hs
  cases fuel' with
  | zero => simp [Spec.executeSelectionSet] at hs
  | succ fuel' =>
    simp only [Spec.executeSelectionSet] at hs
    cases hcs : Spec.collectFields S D o fuel' sels [] with
    | none => simp [hcs] at hs
    | some gv =>
      obtain ⟨g, vis⟩ := gv
      simp only [hcs] at hs
      cases hrs : g.mapM (Spec.executeEntry o v path (Spec.completeValue S D fuel')) with
      | none => simp [hrs] at hs
      | some rs =>
        simp only [hrs, Option.map_some, Option.some.injEq] at hs
        subst hs
        simp only [execSelections]
        cases hcm : collectFields memo S D fuel o sels c with
        | error st => exact ⟨sim_stuck _ _ _ _, hc⟩
        | ok gc =>
          obtain ⟨g', c'⟩ := gc
          simp only
          obtain ⟨hc', fuel0, fs, v0, he, hg'⟩ := collectFields_inv memo S D P hP fuel o sels c g' c' hc ho hsels hcm
          obtain ⟨hg, _⟩ := spec_collect_eq_expand S D o fuel0 fuel' sels [] fs v0 g vis he hcs
          have hgg : g' = g := by rw [hg', hg]
          subst hgg
          have hF : ∀ p ∈ g', FieldsIn P p.2 := by
            intro p hp
            rw [hg'] at hp
            exact groupInOrder_fieldsIn P fs (expand_fieldsIn S D o P hP fuel0 sels [] (fs, v0) hsels he) p hp
          have := execItems_sim_inv (CacheOK S D P) (FieldsIn P) o v path
            (fun fields f0 t v p c => completeValue memo S D fuel t fields f0 v p c)
            (Spec.completeValue S D fuel') (fun fields f0 t v p c s hI hF h => ih fuel' t fields f0 v p c s hI hF h)
            g' [] [] c' rs hc' hF hrs
          exact ⟨sim_of_simObj _ _ this.1, this.2⟩


theorem object?_of_lookup (S : Schema) (n : String) (fs : List FieldDef) (is : List String)
    (h : S.lookup n = some (.object fs is)) :
    S.object? ({ name := n, fields := fs, ifaces := is } : ObjT).name = some { name := n, fields := fs, ifaces := is } := by
  simp [Schema.object?, h]

theorem object?_name (S : Schema) (tn : String) (o : ObjT) (h : S.object? tn = some o) : S.object? o.name = some o := by
  unfold Schema.object? at h
  cases hl : S.lookup tn with
  | none => simp [hl] at h
  | some td =>
    cases td with
    | object fs is =>
      simp only [hl, Option.some.injEq] at h
      subst h
      simp [Schema.object?, hl]
    | scalar k => simp [hl] at h
    | interface fs => simp [hl] at h
    | union ms => simp [hl] at h
    | enum vs => simp [hl] at h

theorem simCompleteI_succ (memo : Bool) (S : Schema) (D : Document) (P : Selection → Prop)
    (fuel : Nat) (ihc : SimCompleteI memo S D P fuel) (ihs : SimSelectionsI memo S D P fuel) :
    SimCompleteI memo S D P (fuel + 1) := by
  intro fuel' t fields f0 v path c s hc hF hs
  cases fuel' with
  | zero => simp [Spec.completeValue] at hs
  | succ fuel' =>
    cases t with
    | nonNull inner =>
      simp only [Spec.completeValue] at hs
      simp only [completeValue]
      cases hin : Spec.completeValue S D fuel' inner fields f0 v path with
      | none => simp [hin] at hs
      | some r =>
        simp only [hin] at hs
        obtain ⟨hsim, hcache⟩ := ihc fuel' inner fields f0 v path c r hc hF hin
        have := sim_nonNull _ r f0 path hsim
        have hcache' : CacheOK S D P
            (match (completeValue memo S D fuel inner fields f0 v path c).r with
             | .ok .null => { completeValue memo S D fuel inner fields f0 v path c with r := .err (errAt f0 path .nullNonNull) }
             | _ => completeValue memo S D fuel inner fields f0 v path c).cache := by
          cases hr : (completeValue memo S D fuel inner fields f0 v path c).r with
          | ok j => cases j <;> exact hcache
          | err e => exact hcache
          | stuck st => exact hcache
        refine ⟨?_, hcache'⟩
        cases hd : r.data with
        | none =>
          simp only [hd, Option.some.injEq] at hs this
          subst hs
          exact this
        | some j =>
          cases j <;> simp only [hd, Option.some.injEq] at hs this <;> subst hs <;> exact this
    | list inner =>
      simp only [Spec.completeValue, isNullish_eq] at hs
      simp only [completeValue]
      by_cases hnil : v.isNil = true
      · simp only [hnil, if_true, Option.some.injEq] at hs ⊢
        subst hs
        exact ⟨sim_completed _ _, hc⟩
      · simp only [hnil, Bool.false_eq_true, if_false] at hs ⊢
        cases v with
        | list items =>
          simp only at hs ⊢
          cases hrs : (items.zipIdx).mapM (Spec.completeItem inner path (Spec.completeValue S D fuel' inner fields f0)) with
          | none => simp [hrs] at hs
          | some rs =>
            simp only [hrs, Option.map_some, Option.some.injEq] at hs
            subst hs
            rw [completeItemsWith_eq]
            simp only [List.nil_append]
            exact runItems_sim_inv (CacheOK S D P) inner path (fun v p c => completeValue memo S D fuel inner fields f0 v p c)
              (Spec.completeValue S D fuel' inner fields f0) (fun v p c s hI h => ihc fuel' inner fields f0 v p c s hI hF h)
              items 0 c rs hc hrs
        | leaf g => simp only [Option.some.injEq] at hs ⊢; subst hs; exact ⟨sim_fieldError _ _, hc⟩
        | null => simp [RVal.isNil] at hnil
        | tnil => simp [RVal.isNil] at hnil
        | obj ty es => simp only [Option.some.injEq] at hs ⊢; subst hs; exact ⟨sim_fieldError _ _, hc⟩
    | named n =>
      simp only [Spec.completeValue, isNullish_eq] at hs
      simp only [completeValue]
      by_cases hnil : v.isNil = true
      · simp only [hnil, if_true, Option.some.injEq] at hs ⊢
        subst hs
        exact ⟨sim_completed _ _, hc⟩
      · simp only [hnil, Bool.false_eq_true, if_false] at hs ⊢
        have hmerge := mergeSelectionSets_in P fields hF
        cases hl : S.lookup n with
        | none => simp [hl] at hs
        | some td =>
          cases td with
          | scalar k =>
            simp only [hl] at hs ⊢
            cases v with
            | leaf g =>
              simp only [coerceScalar_eq] at hs ⊢
              cases hcr : Spec.resultCoerce k g with
              | some j => simp only [hcr, Option.some.injEq] at hs ⊢; subst hs; exact ⟨sim_completed _ _, hc⟩
              | none => simp only [hcr, Option.some.injEq] at hs ⊢; subst hs; exact ⟨sim_fieldError _ _, hc⟩
            | null => simp [RVal.isNil] at hnil
            | tnil => simp [RVal.isNil] at hnil
            | list items => simp only [Option.some.injEq] at hs ⊢; subst hs; exact ⟨sim_fieldError _ _, hc⟩
            | obj ty es => simp only [Option.some.injEq] at hs ⊢; subst hs; exact ⟨sim_fieldError _ _, hc⟩
          | enum values =>
            simp only [hl] at hs ⊢
            cases v with
            | leaf g =>
              simp only [coerceEnum_eq] at hs ⊢
              cases hcr : Spec.enumCoerce values g with
              | some j => simp only [hcr, Option.some.injEq] at hs ⊢; subst hs; exact ⟨sim_completed _ _, hc⟩
              | none => simp only [hcr, Option.some.injEq] at hs ⊢; subst hs; exact ⟨sim_fieldError _ _, hc⟩
            | null => simp [RVal.isNil] at hnil
            | tnil => simp [RVal.isNil] at hnil
            | list items => simp only [Option.some.injEq] at hs ⊢; subst hs; exact ⟨sim_fieldError _ _, hc⟩
            | obj ty es => simp only [Option.some.injEq] at hs ⊢; subst hs; exact ⟨sim_fieldError _ _, hc⟩
          | object fs is =>
            simp only [hl, mergeSelectionSets_eq] at hs ⊢
            exact ihs fuel' _ _ _ _ c s hc (object?_of_lookup S n fs is hl) hmerge hs
          | interface fs =>
            simp only [hl, mergeSelectionSets_eq, implementations_eq S n fs hl] at hs ⊢
            cases hf : (S.implementations n).find? (fun t => isTypeOf t v) with
            | none => simp only [hf, Option.some.injEq] at hs ⊢; subst hs; exact ⟨sim_fieldError _ _, hc⟩
            | some tn =>
              simp only [hf] at hs ⊢
              cases ho : S.object? tn with
              | none => simp [ho] at hs
              | some o =>
                simp only [ho] at hs ⊢
                exact ihs fuel' _ _ _ _ c s hc (object?_name S tn o ho) hmerge hs
          | union ms =>
            simp only [hl, mergeSelectionSets_eq, possibleTypes_union S n ms hl] at hs ⊢
            cases hf : ms.find? (fun t => isTypeOf t v) with
            | none => simp only [hf, Option.some.injEq] at hs ⊢; subst hs; exact ⟨sim_fieldError _ _, hc⟩
            | some tn =>
              simp only [hf] at hs ⊢
              cases ho : S.object? tn with
              | none => simp [ho] at hs
              | some o =>
                simp only [ho] at hs ⊢
                exact ihs fuel' _ _ _ _ c s hc (object?_name S tn o ho) hmerge hs

/-- **Refinement of the executor model as written (memo included) to the reference**, at every fuel of
    either side, for documents whose selection nodes have pairwise distinct positions. -/
theorem sim_main_inv (memo : Bool) (S : Schema) (D : Document) (P : Selection → Prop) (hP : NodeSet D P) (fuel : Nat) :
    SimCompleteI memo S D P fuel ∧ SimSelectionsI memo S D P fuel := by
  induction fuel with
  | zero =>
    constructor
    · intro fuel' t fields f0 v path c s hc _ _
      simp only [completeValue]
      exact ⟨sim_stuck _ _ _ _, hc⟩
    · intro fuel' o sels v path c s hc _ _ _
      simp only [execSelections]
      exact ⟨sim_stuck _ _ _ _, hc⟩
  | succ fuel ih =>
    exact ⟨simCompleteI_succ memo S D P fuel ih.1 ih.2, simSelectionsI_succ memo S D P hP fuel ih.1⟩


/-! ### whole requests -/

theorem rootType_eq (S : Schema) (k : OpKind) : Spec.rootType S k = rootTypeName S k := by cases k <;> rfl

theorem spec_getOperation_mem (D : Document) (opName : String) (op : Op) (h : Spec.getOperation D opName = some op) : op ∈ D.ops := by
  unfold Spec.getOperation at h
  by_cases hn : opName = ""
  · simp only [hn, if_true] at h
    cases hops : D.ops with
    | nil => simp [hops] at h
    | cons a l =>
      cases l with
      | nil => simp [hops] at h; simp [h]
      | cons b l' => simp [hops] at h
  · simp only [hn, if_false] at h
    cases hops : D.ops.filter (fun op => decide (op.name = some opName)) with
    | nil => simp [hops] at h
    | cons a l =>
      cases l with
      | nil =>
        simp [hops] at h
        have : a ∈ D.ops.filter (fun op => decide (op.name = some opName)) := by rw [hops]; simp
        rw [← h]
        exact (List.mem_filter.mp this).1
      | cons b l' => simp [hops] at h

/-- The whole request: the model's response refines the reference's outcome. -/
theorem execute_refines (memo : Bool) (S : Schema) (D : Document) (P : Selection → Prop) (hP : NodeSet D P)
    (hops : ∀ op ∈ D.ops, ∀ s ∈ op.sels, P s)
    (fuel fuel' : Nat) (opName : String) (root : RVal) (resp : Response) (s : Spec.SOut)
    (hm : execute memo S D fuel opName root = .ok resp)
    (hs : Spec.executeRequest S D fuel' opName root = .executed s) (hu : s.undef = false) :
    resp.data = s.data ∧ s.req ⊆ₘ resp.errors ∧ resp.errors ⊆ₘ s.all := by
  unfold Spec.executeRequest at hs
  unfold execute at hm
  cases hgo : Spec.getOperation D opName with
  | none => simp [hgo] at hs
  | some op =>
    simp only [hgo, rootType_eq] at hs
    rw [(getOperation_agree D opName).1 op hgo] at hm
    simp only at hm
    cases hroot : (rootTypeName S op.kind).bind S.object? with
    | none => simp [hroot] at hs
    | some o =>
      simp only [hroot] at hs hm
      have ho : S.object? o.name = some o := by
        cases hk : rootTypeName S op.kind with
        | none => simp [hk] at hroot
        | some tn =>
          simp only [hk, Option.bind_some] at hroot
          exact object?_name S tn o hroot
      cases hss : Spec.executeSelectionSet S D fuel' o op.sels root [] with
      | none => simp [hss] at hs
      | some s' =>
        simp only [hss, Spec.Result.executed.injEq] at hs
        subst hs
        have hsim := ((sim_main_inv memo S D P hP fuel).2 fuel' o op.sels root [] [] s' (cacheOK_nil S D P) ho
          (hops op (spec_getOperation_mem D opName op hgo)) hss).1 hu
        cases hr : (execSelections memo S D fuel o op.sels root [] []).r with
        | stuck st => simp [hr] at hm
        | ok j =>
          simp only [hr, Except.ok.injEq] at hm hsim
          subst hm
          exact ⟨hsim.1.symm, hsim.2.1, hsim.2.2⟩
        | err e =>
          simp only [hr, Except.ok.injEq] at hm hsim
          subst hm
          refine ⟨hsim.1.symm, ?_, hsim.2.2⟩
          rw [hsim.2.1]
          exact SubMulti.append_left _ (SubMulti.refl _)

/-- The same for the memo-free variant, for every document (no hypothesis on positions). -/
theorem execute_refines_noMemo (S : Schema) (D : Document)
    (fuel fuel' : Nat) (opName : String) (root : RVal) (resp : Response) (s : Spec.SOut)
    (hm : execute false S D fuel opName root = .ok resp)
    (hs : Spec.executeRequest S D fuel' opName root = .executed s) (hu : s.undef = false) :
    resp.data = s.data ∧ s.req ⊆ₘ resp.errors ∧ resp.errors ⊆ₘ s.all := by
  unfold Spec.executeRequest at hs
  unfold execute at hm
  cases hgo : Spec.getOperation D opName with
  | none => simp [hgo] at hs
  | some op =>
    simp only [hgo, rootType_eq] at hs
    rw [(getOperation_agree D opName).1 op hgo] at hm
    simp only at hm
    cases hroot : (rootTypeName S op.kind).bind S.object? with
    | none => simp [hroot] at hs
    | some o =>
      simp only [hroot] at hs hm
      cases hss : Spec.executeSelectionSet S D fuel' o op.sels root [] with
      | none => simp [hss] at hs
      | some s' =>
        simp only [hss, Spec.Result.executed.injEq] at hs
        subst hs
        have hsim := (sim_main S D fuel).2 fuel' o op.sels root [] [] s' hss hu
        cases hr : (execSelections false S D fuel o op.sels root [] []).r with
        | stuck st => simp [hr] at hm
        | ok j =>
          simp only [hr, Except.ok.injEq] at hm hsim
          subst hm
          exact ⟨hsim.1.symm, hsim.2.1, hsim.2.2⟩
        | err e =>
          simp only [hr, Except.ok.injEq] at hm hsim
          subst hm
          refine ⟨hsim.1.symm, ?_, hsim.2.2⟩
          rw [hsim.2.1]
          exact SubMulti.append_left _ (SubMulti.refl _)

/-- A request the specification refuses (no operation selected, or no root type for it) gets no data
    and exactly one error, without a path. -/
theorem execute_requestError (memo : Bool) (S : Schema) (D : Document) (fuel fuel' : Nat) (opName : String) (root : RVal)
    (hs : Spec.executeRequest S D fuel' opName root = .requestError) :
    ∃ e, execute memo S D fuel opName root = .ok { data := none, errors := [e] } ∧ e.path = [] := by
  unfold Spec.executeRequest at hs
  unfold execute
  cases hgo : Spec.getOperation D opName with
  | none =>
    obtain ⟨e, he, hp⟩ := (getOperation_agree D opName).2 hgo
    exact ⟨e, by rw [he], hp⟩
  | some op =>
    simp only [hgo, rootType_eq] at hs
    rw [(getOperation_agree D opName).1 op hgo]
    simp only
    cases hroot : (rootTypeName S op.kind).bind S.object? with
    | none => exact ⟨_, rfl, rfl⟩
    | some o =>
      simp only [hroot] at hs
      cases hss : Spec.executeSelectionSet S D fuel' o op.sels root [] <;> simp [hss] at hs


/-! ### response keys -/

/-- The key the executor writes into the result-map slot of a group: the response key, or the blank
    key of the untouched pre-sized slot when the group's field is not defined on the object type. -/
def slotKey (o : ObjT) (p : String × List FieldNode) : String :=
  match p.2.head? with
  | none => p.1
  | some f0 => if f0.name == "__typename" then p.1 else if (o.getField f0.name).isSome then p.1 else ""

theorem execItemsWith_keys (o : ObjT) (path : Path) (field : List FieldNode → FieldNode → FieldDef → Path → Cache → Out)
    (g : Grouped) (acc : List (String × Json)) (errs : List Err) (c : Cache) (j : Json)
    (h : (execItemsWith o path field g acc errs c).r = .ok j) :
    ∃ kvs, j = .obj (acc ++ kvs) ∧ kvs.map (·.1) = g.map (slotKey o) := by
  induction g generalizing acc errs c with
  | nil =>
    simp only [execItemsWith, R.ok.injEq] at h
    exact ⟨[], by simp [h], rfl⟩
  | cons p rest ih =>
    obtain ⟨key, fields⟩ := p
    simp only [execItemsWith] at h
    cases hh : fields.head? with
    | none => simp [hh] at h
    | some f0 =>
      simp only [hh] at h
      by_cases htn : (f0.name == "__typename") = true
      · simp only [htn, if_true] at h
        obtain ⟨kvs, h1, h2⟩ := ih _ _ _ h
        exact ⟨(key, .str o.name) :: kvs, by simp [h1], by simp [h2, slotKey, hh, htn]⟩
      · simp only [htn, Bool.false_eq_true, if_false] at h
        cases hfd : o.getField f0.name with
        | none =>
          simp only [hfd] at h
          obtain ⟨kvs, h1, h2⟩ := ih _ _ _ h
          exact ⟨("", .null) :: kvs, by simp [h1], by simp [h2, slotKey, hh, htn, hfd]⟩
        | some fd =>
          simp only [hfd] at h
          cases hr : (catchIfNullable fd.type (field fields f0 fd (path ++ [.key key]) c)).r with
          | ok j0 =>
            simp only [hr] at h
            obtain ⟨kvs, h1, h2⟩ := ih _ _ _ h
            exact ⟨(key, j0) :: kvs, by simp [h1], by simp [h2, slotKey, hh, htn, hfd]⟩
          | err e => simp [hr] at h
          | stuck st => simp [hr] at h

/-- keep the first occurrence of every key -/
def firstOccurrences (ks : List String) : List String :=
  ks.foldl (fun acc k => if k ∈ acc then acc else acc ++ [k]) []

theorem foldl_appendNode_keys (fs : List FieldNode) (g : Grouped) :
    (fs.foldl appendNode g).keys =
      (fs.map FieldNode.responseKey).foldl (fun acc k => if k ∈ acc then acc else acc ++ [k]) g.keys := by
  induction fs generalizing g with
  | nil => rfl
  | cons f rest ih =>
    simp only [List.foldl_cons, List.map_cons]
    rw [ih]
    by_cases hm : f.responseKey ∈ g.keys
    · simp only [appendNode, append_keys_of_mem g _ f hm, hm, if_true]
    · simp only [appendNode, append_keys_of_not_mem g _ f hm, hm, if_false]

/-- **Response keys of a grouped field set are the response keys of the expanded field sequence in
    order of first occurrence.** -/
theorem groupInOrder_keys (fs : List FieldNode) :
    (groupInOrder fs).keys = firstOccurrences (fs.map FieldNode.responseKey) := by
  simpa [groupInOrder, firstOccurrences] using foldl_appendNode_keys fs []

/-- invariant of grouping: every group holds exactly the fields with its key, in order -/
def GroupsExact (pre : List FieldNode) (g : Grouped) : Prop :=
  g.keys.Nodup ∧ (∀ p ∈ g, p.2 = pre.filter (fun f => f.responseKey == p.1)) ∧ (∀ f ∈ pre, f.responseKey ∈ g.keys)

theorem mem_append_cases (g : Grouped) (k : String) (f : FieldNode) (p : String × List FieldNode)
    (hnd : g.keys.Nodup) (h : p ∈ g.append k f) :
    (p ∈ g ∧ p.1 ≠ k) ∨ (∃ fs, (k, fs) ∈ g ∧ p = (k, fs ++ [f])) ∨ (k ∉ g.keys ∧ p = (k, [f])) := by
  induction g with
  | nil =>
    simp only [Grouped.append, List.mem_singleton] at h
    exact Or.inr (Or.inr ⟨by simp, h⟩)
  | cons q rest ih =>
    obtain ⟨k1, fs1⟩ := q
    have hnd' : (Grouped.keys rest).Nodup := (List.nodup_cons.mp hnd).2
    have hk1 : k1 ∉ Grouped.keys rest := (List.nodup_cons.mp hnd).1
    by_cases hk : k1 = k
    · rw [append_cons_eq _ _ _ _ _ hk] at h
      subst hk
      rcases List.mem_cons.mp h with h | h
      · exact Or.inr (Or.inl ⟨fs1, List.mem_cons_self .., h⟩)
      · have hp : p.1 ≠ k1 := by
          intro e
          apply hk1
          rw [← e]
          exact List.mem_map_of_mem (f := (·.1)) h
        exact Or.inl ⟨List.mem_cons_of_mem _ h, hp⟩
    · rw [append_cons_ne _ _ _ _ _ hk] at h
      rcases List.mem_cons.mp h with h | h
      · subst h
        exact Or.inl ⟨List.mem_cons_self .., hk⟩
      · rcases ih hnd' h with ⟨h1, h2⟩ | ⟨fs, h1, h2⟩ | ⟨h1, h2⟩
        · exact Or.inl ⟨List.mem_cons_of_mem _ h1, h2⟩
        · exact Or.inr (Or.inl ⟨fs, List.mem_cons_of_mem _ h1, h2⟩)
        · refine Or.inr (Or.inr ⟨?_, h2⟩)
          intro hm
          rcases List.mem_cons.mp hm with hm | hm
          · exact hk hm.symm
          · exact h1 hm

theorem groupsExact_append (pre : List FieldNode) (g : Grouped) (f : FieldNode) (h : GroupsExact pre g) :
    GroupsExact (pre ++ [f]) (g.append f.responseKey f) := by
  obtain ⟨hnd, hex, hcov⟩ := h
  refine ⟨append_keys_nodup g _ f hnd, ?_, ?_⟩
  · intro p hp
    rcases mem_append_cases g _ f p hnd hp with ⟨h1, h2⟩ | ⟨fs, h1, h2⟩ | ⟨h1, h2⟩
    · have hne : (f.responseKey == p.1) = false := by
        simp only [beq_eq_false_iff_ne, ne_eq]
        exact fun e => h2 e.symm
      simp [List.filter_append, List.filter_cons, hne, hex p h1]
    · subst h2
      have := hex _ h1
      simp only at this
      simp [List.filter_append, List.filter_cons, this]
    · subst h2
      have hnone : pre.filter (fun x => x.responseKey == f.responseKey) = [] := by
        rw [List.filter_eq_nil_iff]
        intro x hx hkx
        apply h1
        have := hcov x hx
        simp only [beq_iff_eq] at hkx
        rw [← hkx]; exact this
      simp [List.filter_append, List.filter_cons, hnone]
  · intro x hx
    rcases List.mem_append.mp hx with hx | hx
    · have := hcov x hx
      by_cases hm : f.responseKey ∈ g.keys
      · rw [append_keys_of_mem g _ f hm]; exact this
      · rw [append_keys_of_not_mem g _ f hm]; exact List.mem_append_left _ this
    · simp only [List.mem_singleton] at hx
      subst hx
      by_cases hm : x.responseKey ∈ g.keys
      · rw [append_keys_of_mem g _ x hm]; exact hm
      · rw [append_keys_of_not_mem g _ x hm]; simp

theorem groupsExact_foldl (fs pre : List FieldNode) (g : Grouped) (h : GroupsExact pre g) :
    GroupsExact (pre ++ fs) (fs.foldl appendNode g) := by
  induction fs generalizing pre g with
  | nil => simpa using h
  | cons f rest ih =>
    have := ih (pre ++ [f]) _ (groupsExact_append pre g f h)
    simpa [List.append_assoc] using this

/-- **Field merging**: the group of a response key holds exactly the expanded fields with that key,
    in document order. -/
theorem groupInOrder_exact (fs : List FieldNode) (p : String × List FieldNode) (hp : p ∈ groupInOrder fs) :
    p.2 = fs.filter (fun f => f.responseKey == p.1) := by
  have := groupsExact_foldl fs [] [] ⟨by simp, by simp, by simp⟩
  simp only [List.nil_append] at this
  exact this.2.1 p hp


theorem execSelections_keys (memo : Bool) (S : Schema) (D : Document) (P : Selection → Prop) (hP : NodeSet D P)
    (fuel : Nat) (o : ObjT) (sels : List Selection) (v : RVal) (path : Path) (c : Cache) (j : Json)
    (hc : CacheOK S D P c) (ho : S.object? o.name = some o) (hsels : ∀ s ∈ sels, P s)
    (h : (execSelections memo S D fuel o sels v path c).r = .ok j) :
    ∃ fuel0 fs vis kvs, expand S D o fuel0 sels [] = .ok (fs, vis) ∧ j = .obj kvs ∧
      kvs.map (·.1) = (groupInOrder fs).map (slotKey o) := by
  cases fuel with
  | zero => simp [execSelections] at h
  | succ fuel =>
    simp only [execSelections] at h
    cases hcm : collectFields memo S D fuel o sels c with
    | error st => simp [hcm] at h
    | ok gc =>
      obtain ⟨g', c'⟩ := gc
      simp only [hcm] at h
      obtain ⟨_, fuel0, fs, v0, he, hg'⟩ := collectFields_inv memo S D P hP fuel o sels c g' c' hc ho hsels hcm
      obtain ⟨kvs, h1, h2⟩ := execItemsWith_keys o path _ g' [] [] c' j h
      exact ⟨fuel0, fs, v0, kvs, he, by simpa using h1, by rw [h2, hg']⟩

theorem slotKey_ne (o : ObjT) (p : String × List FieldNode) (h : slotKey o p ≠ p.1) :
    ∃ f0, p.2.head? = some f0 ∧ f0.name ≠ "__typename" ∧ o.getField f0.name = none ∧ slotKey o p = "" := by
  unfold slotKey at h ⊢
  cases hh : p.2.head? with
  | none => simp [hh] at h
  | some f0 =>
    simp only [hh] at h ⊢
    by_cases htn : (f0.name == "__typename") = true
    · simp [htn] at h
    · simp only [htn, Bool.false_eq_true, if_false] at h ⊢
      cases hfd : o.getField f0.name with
      | some fd => simp [hfd] at h
      | none =>
        refine ⟨f0, rfl, ?_, hfd, by simp⟩
        simpa using htn

/-! ### the selection nodes of a document -/

mutual
  /-- a selection node and all selection nodes beneath it -/
  def Selection.nodes : Selection → List Selection
    | .field pos alias name wkey ae dirs sub => .field pos alias name wkey ae dirs sub :: nodesList sub
    | .spread pos name dirs => [.spread pos name dirs]
    | .inline pos tc dirs sub => .inline pos tc dirs sub :: nodesList sub
  def nodesList : List Selection → List Selection
    | [] => []
    | s :: rest => s.nodes ++ nodesList rest
end

/-- every selection node of the document (operations and fragment definitions) -/
def Document.nodes (D : Document) : List Selection :=
  D.ops.flatMap (fun op => nodesList op.sels) ++ D.frags.flatMap (fun f => nodesList f.sels)

theorem self_mem_nodes (s : Selection) : s ∈ s.nodes := by
  cases s <;> simp [Selection.nodes]

theorem mem_nodesList_of_mem (l : List Selection) (s : Selection) (h : s ∈ l) : s ∈ nodesList l := by
  induction l with
  | nil => simp at h
  | cons x rest ih =>
    simp only [nodesList, List.mem_append]
    rcases List.mem_cons.mp h with rfl | h
    · exact Or.inl (self_mem_nodes _)
    · exact Or.inr (ih h)

mutual
  theorem sub_mem_of_mem_nodes (s : Selection) :
      (∀ pos alias name wkey ae dirs sub, Selection.field pos alias name wkey ae dirs sub ∈ s.nodes → ∀ x ∈ sub, x ∈ s.nodes) ∧
      (∀ pos tc dirs sub, Selection.inline pos tc dirs sub ∈ s.nodes → ∀ x ∈ sub, x ∈ s.nodes) := by
    cases s with
    | field p a n w ae d sub0 =>
      have ih := sub_mem_of_mem_nodesList sub0
      constructor
      · intro pos alias name wkey ae' dirs sub h x hx
        simp only [Selection.nodes, List.mem_cons] at h ⊢
        rcases h with h | h
        · simp only [Selection.field.injEq] at h
          obtain ⟨_, _, _, _, _, _, rfl⟩ := h
          exact Or.inr (mem_nodesList_of_mem _ _ hx)
        · exact Or.inr (ih.1 _ _ _ _ _ _ _ h x hx)
      · intro pos tc dirs sub h x hx
        simp only [Selection.nodes, List.mem_cons] at h ⊢
        rcases h with h | h
        · simp at h
        · exact Or.inr (ih.2 _ _ _ _ h x hx)
    | spread p n d =>
      constructor
      · intro pos alias name wkey ae' dirs sub h; simp [Selection.nodes] at h
      · intro pos tc dirs sub h; simp [Selection.nodes] at h
    | inline p tc0 d sub0 =>
      have ih := sub_mem_of_mem_nodesList sub0
      constructor
      · intro pos alias name wkey ae' dirs sub h x hx
        simp only [Selection.nodes, List.mem_cons] at h ⊢
        rcases h with h | h
        · simp at h
        · exact Or.inr (ih.1 _ _ _ _ _ _ _ h x hx)
      · intro pos tc dirs sub h x hx
        simp only [Selection.nodes, List.mem_cons] at h ⊢
        rcases h with h | h
        · simp only [Selection.inline.injEq] at h
          obtain ⟨_, _, _, rfl⟩ := h
          exact Or.inr (mem_nodesList_of_mem _ _ hx)
        · exact Or.inr (ih.2 _ _ _ _ h x hx)
  theorem sub_mem_of_mem_nodesList (l : List Selection) :
      (∀ pos alias name wkey ae dirs sub, Selection.field pos alias name wkey ae dirs sub ∈ nodesList l → ∀ x ∈ sub, x ∈ nodesList l) ∧
      (∀ pos tc dirs sub, Selection.inline pos tc dirs sub ∈ nodesList l → ∀ x ∈ sub, x ∈ nodesList l) := by
    cases l with
    | nil =>
      constructor
      · intro pos alias name wkey ae dirs sub h; simp [nodesList] at h
      · intro pos tc dirs sub h; simp [nodesList] at h
    | cons s rest =>
      have ih1 := sub_mem_of_mem_nodes s
      have ih2 := sub_mem_of_mem_nodesList rest
      constructor
      · intro pos alias name wkey ae dirs sub h x hx
        simp only [nodesList, List.mem_append] at h ⊢
        rcases h with h | h
        · exact Or.inl (ih1.1 _ _ _ _ _ _ _ h x hx)
        · exact Or.inr (ih2.1 _ _ _ _ _ _ _ h x hx)
      · intro pos tc dirs sub h x hx
        simp only [nodesList, List.mem_append] at h ⊢
        rcases h with h | h
        · exact Or.inl (ih1.2 _ _ _ _ h x hx)
        · exact Or.inr (ih2.2 _ _ _ _ h x hx)
end


theorem eq_of_nodup_map {α β : Type} (f : α → β) (l : List α) (h : (l.map f).Nodup) (a b : α) (ha : a ∈ l) (hb : b ∈ l)
    (e : f a = f b) : a = b := by
  induction l with
  | nil => simp at ha
  | cons x rest ih =>
    simp only [List.map_cons, List.nodup_cons] at h
    rcases List.mem_cons.mp ha with ha | ha
    · rcases List.mem_cons.mp hb with hb | hb
      · rw [ha, hb]
      · exfalso; apply h.1
        rw [← ha, e]
        exact List.mem_map_of_mem (f := f) hb
    · rcases List.mem_cons.mp hb with hb | hb
      · exfalso; apply h.1
        rw [← hb, ← e]
        exact List.mem_map_of_mem (f := f) ha
      · exact ih h.2 ha hb

theorem mem_nodes_cases (D : Document) (x : Selection) (h : x ∈ D.nodes) :
    ∃ l, (∀ y ∈ nodesList l, y ∈ D.nodes) ∧ x ∈ nodesList l := by
  simp only [Document.nodes, List.mem_append, List.mem_flatMap] at h
  rcases h with ⟨op, hop, hx⟩ | ⟨fr, hfr, hx⟩
  · refine ⟨op.sels, ?_, hx⟩
    intro y hy
    simp only [Document.nodes, List.mem_append, List.mem_flatMap]
    exact Or.inl ⟨op, hop, hy⟩
  · refine ⟨fr.sels, ?_, hx⟩
    intro y hy
    simp only [Document.nodes, List.mem_append, List.mem_flatMap]
    exact Or.inr ⟨fr, hfr, hy⟩

/-- A document whose selection nodes have pairwise distinct positions (what the parser produces:
    C06) provides the node set the memo's soundness needs. -/
theorem nodeSet_of_distinct_positions (D : Document) (h : (D.nodes.map Selection.pos).Nodup) :
    NodeSet D (· ∈ D.nodes) ∧ ∀ op ∈ D.ops, ∀ s ∈ op.sels, s ∈ D.nodes := by
  refine ⟨⟨?_, ?_, ?_, ?_⟩, ?_⟩
  · intro pos alias name wkey ae dirs sub hm x hx
    obtain ⟨l, hl, hm'⟩ := mem_nodes_cases D _ hm
    exact hl x ((sub_mem_of_mem_nodesList l).1 _ _ _ _ _ _ _ hm' x hx)
  · intro pos tc dirs sub hm x hx
    obtain ⟨l, hl, hm'⟩ := mem_nodes_cases D _ hm
    exact hl x ((sub_mem_of_mem_nodesList l).2 _ _ _ _ hm' x hx)
  · intro fr hfr x hx
    simp only [Document.nodes, List.mem_append, List.mem_flatMap]
    exact Or.inr ⟨fr, hfr, mem_nodesList_of_mem _ _ hx⟩
  · intro s1 s2 h1 h2 e
    exact eq_of_nodup_map Selection.pos D.nodes h s1 s2 h1 h2 e
  · intro op hop x hx
    simp only [Document.nodes, List.mem_append, List.mem_flatMap]
    exact Or.inl ⟨op, hop, mem_nodesList_of_mem _ _ hx⟩


/-! ### the reference's errors are pairwise distinct (one per response position) -/

theorem prefix_snoc_unique {α : Type} (p q : List α) (a b : α) (h1 : (p ++ [a]) <+: q) (h2 : (p ++ [b]) <+: q) : a = b := by
  obtain ⟨t1, rfl⟩ := h1
  obtain ⟨t2, h2⟩ := h2
  have : (p ++ ([b] ++ t2)) = (p ++ ([a] ++ t1)) := by simpa [List.append_assoc] using h2
  have := List.append_cancel_left this
  simp at this
  exact this.1.symm

theorem addToGroup_keys_of_mem (g : Grouped) (k : String) (fs : List FieldNode) (h : k ∈ g.keys) :
    Grouped.keys (Spec.addToGroup g k fs) = g.keys := by
  induction g with
  | nil => simp at h
  | cons p rest ih =>
    obtain ⟨k', g'⟩ := p
    by_cases hk : k' = k
    · rw [addToGroup_cons_eq _ _ _ _ _ hk]; rfl
    · rw [addToGroup_cons_ne _ _ _ _ _ hk]
      have : k ∈ Grouped.keys rest := by
        rcases List.mem_cons.mp h with h | h
        · exact absurd h.symm hk
        · exact h
      simp [ih this]

theorem addToGroup_keys_of_not_mem (g : Grouped) (k : String) (fs : List FieldNode) (h : k ∉ g.keys) :
    Grouped.keys (Spec.addToGroup g k fs) = g.keys ++ [k] := by
  induction g with
  | nil => simp [Spec.addToGroup, Grouped.keys]
  | cons p rest ih =>
    obtain ⟨k', g'⟩ := p
    have hk : k' ≠ k := by intro e; apply h; simp [e]
    have : k ∉ Grouped.keys rest := by intro m; apply h; exact List.mem_cons_of_mem _ m
    rw [addToGroup_cons_ne _ _ _ _ _ hk]
    simp [ih this]

theorem addToGroup_keys_nodup (g : Grouped) (k : String) (fs : List FieldNode) (h : g.keys.Nodup) :
    (Grouped.keys (Spec.addToGroup g k fs)).Nodup := by
  by_cases hm : k ∈ g.keys
  · rw [addToGroup_keys_of_mem g k fs hm]; exact h
  · rw [addToGroup_keys_of_not_mem g k fs hm, List.nodup_append]
    refine ⟨h, by simp, ?_⟩
    intro a ha b hb
    simp at hb
    subst hb
    intro e; subst e; exact hm ha

theorem mergeGroups_keys_nodup (g fg : Grouped) (h : g.keys.Nodup) : (Grouped.keys (Spec.mergeGroups g fg)).Nodup := by
  unfold Spec.mergeGroups
  induction fg generalizing g with
  | nil => exact h
  | cons p rest ih => exact ih _ (addToGroup_keys_nodup g p.1 p.2 h)

theorem collectSelection_keys_nodup (S : Schema) (D : Document) (o : ObjT)
    (recur : List Selection → List String → Option (Grouped × List String))
    (acc : Grouped × List String) (sel : Selection) (r : Grouped × List String)
    (hacc : acc.1.keys.Nodup) (h : Spec.collectSelection S D o recur acc sel = some r) : r.1.keys.Nodup := by
  unfold Spec.collectSelection at h
  obtain ⟨grouped, visited⟩ := acc
  simp only at h hacc
  by_cases hx : Spec.excluded sel.dirs = true
  · simp only [hx, if_true, Option.some.injEq] at h; subst h; exact hacc
  · simp only [hx, Bool.false_eq_true, if_false] at h
    cases sel with
    | field pos alias name wkey argErr dirs sub =>
      simp only [Option.some.injEq] at h; subst h
      exact addToGroup_keys_nodup _ _ _ hacc
    | spread pos name dirs =>
      simp only at h
      by_cases hv : name ∈ visited
      · simp only [hv, if_true, Option.some.injEq] at h; subst h; exact hacc
      · simp only [hv, if_false] at h
        cases hf : Spec.fragmentNamed D name with
        | none => simp only [hf, Option.some.injEq] at h; subst h; exact hacc
        | some fr =>
          simp only [hf] at h
          by_cases ha : Spec.doesFragmentTypeApply S o fr.tc = true
          · simp only [ha, if_true] at h
            cases hr : recur fr.sels (name :: visited) with
            | none => simp [hr] at h
            | some q =>
              obtain ⟨fg, v⟩ := q
              simp only [hr, Option.some.injEq] at h; subst h
              exact mergeGroups_keys_nodup _ _ hacc
          · simp only [ha, Bool.false_eq_true, if_false, Option.some.injEq] at h; subst h; exact hacc
    | inline pos tc dirs sub =>
      have key : ∀ (h' : (match recur sub visited with
                          | none => none
                          | some (fg, visited) => some (Spec.mergeGroups grouped fg, visited)) = some r), r.1.keys.Nodup := by
        intro h'
        cases hr : recur sub visited with
        | none => simp [hr] at h'
        | some q =>
          obtain ⟨fg, v⟩ := q
          simp only [hr, Option.some.injEq] at h'; subst h'
          exact mergeGroups_keys_nodup _ _ hacc
      cases tc with
      | none => simp only [if_true] at h; exact key h
      | some tc =>
        simp only at h
        by_cases ha : Spec.doesFragmentTypeApply S o tc = true
        · simp only [ha, if_true] at h; exact key h
        · simp only [ha, Bool.false_eq_true, if_false, Option.some.injEq] at h; subst h; exact hacc

theorem spec_collect_keys_nodup (S : Schema) (D : Document) (o : ObjT) (fuel : Nat) (sels : List Selection)
    (vis : List String) (r : Grouped × List String) (h : Spec.collectFields S D o fuel sels vis = some r) :
    r.1.keys.Nodup := by
  cases fuel with
  | zero => simp [Spec.collectFields] at h
  | succ fuel =>
    simp only [Spec.collectFields] at h
    have fold : ∀ (sels : List Selection) (acc r : Grouped × List String), acc.1.keys.Nodup →
        sels.foldlM (Spec.collectSelection S D o (Spec.collectFields S D o fuel)) acc = some r → r.1.keys.Nodup := by
      intro sels
      induction sels with
      | nil =>
        intro acc r hacc h
        simp only [List.foldlM_nil, pure, Option.some.injEq] at h
        subst h; exact hacc
      | cons sel rest ihl =>
        intro acc r hacc h
        simp only [List.foldlM_cons] at h
        cases h1 : Spec.collectSelection S D o (Spec.collectFields S D o fuel) acc sel with
        | none => simp [h1] at h
        | some acc' =>
          simp only [h1, Option.bind_eq_bind, Option.bind_some] at h
          exact ihl acc' r (collectSelection_keys_nodup S D o _ acc sel acc' hacc h1) h
    exact fold sels ([], vis) r (by simp) h


/-- errors of a reference outcome at response position `path`: all beneath it, pairwise distinct -/
def ErrInv2 (path : Path) (s : Spec.SOut) : Prop := (∀ e ∈ s.all, path <+: e.path) ∧ s.all.Nodup

/-- … and a plain null (no failure) carries no error -/
def ErrInv (path : Path) (s : Spec.SOut) : Prop := ErrInv2 path s ∧ (s.data = some .null → s.all = [])

theorem errInv_fieldError (path : Path) (e : Err) (h : e.path = path) : ErrInv path (Spec.fieldError e) := by
  refine ⟨⟨?_, by simp [Spec.fieldError]⟩, by simp [Spec.fieldError]⟩
  intro x hx
  simp only [Spec.fieldError, List.mem_singleton] at hx
  subst hx; rw [h]; exact List.prefix_refl _

theorem errInv_completed (path : Path) (j : Json) : ErrInv path (Spec.completed j) := by
  refine ⟨⟨by simp [Spec.completed], by simp [Spec.completed]⟩, by simp [Spec.completed]⟩

theorem atPosition_all (t : TypeRef) (r : Spec.SOut) : (Spec.atPosition t r).all = r.all := by
  cases t with
  | nonNull t => rfl
  | named n => simp only [Spec.atPosition]; cases r.data <;> rfl
  | list t => simp only [Spec.atPosition]; cases r.data <;> rfl

theorem combineFields_all_some (k : String) (s : Spec.SOut) (rs : List (Option (String × Spec.SOut))) :
    (Spec.combineFields (some (k, s) :: rs)).all = s.all ++ (Spec.combineFields rs).all := by
  cases hd : s.data with
  | none => rw [combineFields_some_fail k s rs hd]
  | some j => rw [combineFields_some_ok k s j rs hd]

theorem combineFields_data_ne_null (rs : List (Option (String × Spec.SOut))) : (Spec.combineFields rs).data ≠ some .null := by
  rcases combineFields_data_shape rs with h | ⟨kvs, h⟩ <;> simp [h]

theorem combineItems_all_cons (s : Spec.SOut) (rs : List Spec.SOut) :
    (Spec.combineItems (s :: rs)).all = s.all ++ (Spec.combineItems rs).all := by
  cases hd : s.data with
  | none => rw [combineItems_fail s rs hd]
  | some j => rw [combineItems_ok s j rs hd]

theorem combineItems_data_ne_null (rs : List Spec.SOut) : (Spec.combineItems rs).data ≠ some .null := by
  simp only [Spec.combineItems]
  cases List.find? (fun r => r.data.isNone) rs <;> simp

theorem prefix_of_snoc_prefix {α : Type} (p q : List α) (a : α) (h : (p ++ [a]) <+: q) : p <+: q :=
  List.IsPrefix.trans (List.prefix_append p [a]) h

theorem entries_errInv (o : ObjT) (objVal : RVal) (path : Path)
    (sc : TypeRef → List FieldNode → FieldNode → RVal → Path → Option Spec.SOut)
    (H : ∀ t fields f0 v p s, sc t fields f0 v p = some s → ErrInv p s)
    (g : Grouped) (rs : List (Option (String × Spec.SOut))) (hnd : g.keys.Nodup)
    (hrs : g.mapM (Spec.executeEntry o objVal path sc) = some rs) :
    (Spec.combineFields rs).all.Nodup ∧
    ∀ e ∈ (Spec.combineFields rs).all, ∃ k ∈ g.keys, (path ++ [PathSeg.key k]) <+: e.path := by
  induction g generalizing rs with
  | nil =>
    simp only [List.mapM_nil, pure, Option.some.injEq] at hrs
    subst hrs
    simp [combineFields_nil]
  | cons p rest ih =>
    obtain ⟨key, fields⟩ := p
    obtain ⟨entry, rs', hentry, hrest, rfl⟩ := option_mapM_cons _ _ _ _ hrs
    have hnd' : (Grouped.keys rest).Nodup := (List.nodup_cons.mp hnd).2
    have hk : key ∉ Grouped.keys rest := (List.nodup_cons.mp hnd).1
    obtain ⟨ih1, ih2⟩ := ih rs' hnd' hrest
    cases entry with
    | none =>
      rw [combineFields_none]
      refine ⟨ih1, ?_⟩
      intro e he
      obtain ⟨k, hk', hp⟩ := ih2 e he
      exact ⟨k, List.mem_cons_of_mem _ hk', hp⟩
    | some ks =>
      obtain ⟨k, s⟩ := ks
      -- the entry's outcome is at position path ++ [key]
      have hs : k = key ∧ ErrInv2 (path ++ [PathSeg.key key]) s := by
        cases fields with
        | nil => simp [Spec.executeEntry] at hentry
        | cons f0 tl =>
          simp only [Spec.executeEntry] at hentry
          by_cases htn : f0.name = "__typename"
          · simp only [htn, if_true, Option.some.injEq, Prod.mk.injEq] at hentry
            obtain ⟨rfl, rfl⟩ := hentry
            exact ⟨rfl, (errInv_completed _ _).1⟩
          · simp only [htn, if_false] at hentry
            cases hfd : o.fields.find? (fun (fd : FieldDef) => decide (fd.name = f0.name)) with
            | none => simp [hfd] at hentry
            | some fd =>
              simp only [hfd] at hentry
              have hex : ∃ r0, k = key ∧ s = Spec.atPosition fd.type r0 ∧ ErrInv (path ++ [PathSeg.key key]) r0 := by
                cases hae : f0.argErr with
                | some ae =>
                  simp only [hae, Option.map_some, Option.some.injEq, Prod.mk.injEq] at hentry
                  exact ⟨_, hentry.1.symm, hentry.2.symm, errInv_fieldError _ _ rfl⟩
                | none =>
                  simp only [hae] at hentry
                  cases hres : resolve objVal f0.wkey with
                  | err m =>
                    simp only [hres, Option.map_some, Option.some.injEq, Prod.mk.injEq] at hentry
                    exact ⟨_, hentry.1.symm, hentry.2.symm, errInv_fieldError _ _ rfl⟩
                  | val v =>
                    simp only [hres] at hentry
                    cases hsc : sc fd.type (f0 :: tl) f0 v (path ++ [PathSeg.key key]) with
                    | none => simp [hsc] at hentry
                    | some r0 =>
                      simp only [hsc, Option.map_some, Option.some.injEq, Prod.mk.injEq] at hentry
                      exact ⟨r0, hentry.1.symm, hentry.2.symm, H _ _ _ _ _ _ hsc⟩
              obtain ⟨r0, h1, h2, h3⟩ := hex
              refine ⟨h1, ?_⟩
              rw [h2]
              unfold ErrInv2
              rw [atPosition_all]
              exact h3.1
      obtain ⟨rfl, hs1, hs2⟩ := hs
      rw [combineFields_all_some]
      constructor
      · rw [List.nodup_append]
        refine ⟨hs2, ih1, ?_⟩
        intro a ha b hb hab
        subst hab
        obtain ⟨k', hk', hp'⟩ := ih2 a hb
        have := prefix_snoc_unique path a.path _ _ (hs1 a ha) hp'
        simp only [PathSeg.key.injEq] at this
        subst this
        exact hk hk'
      · intro e he
        rcases List.mem_append.mp he with he | he
        · exact ⟨k, List.mem_cons_self .., hs1 e he⟩
        · obtain ⟨k', hk', hp'⟩ := ih2 e he
          exact ⟨k', List.mem_cons_of_mem _ hk', hp'⟩

theorem items_errInv (inner : TypeRef) (path : Path) (sc : RVal → Path → Option Spec.SOut)
    (H : ∀ v p s, sc v p = some s → ErrInv p s)
    (items : List RVal) (i : Nat) (rs : List Spec.SOut)
    (hrs : (items.zipIdx i).mapM (Spec.completeItem inner path sc) = some rs) :
    (Spec.combineItems rs).all.Nodup ∧
    ∀ e ∈ (Spec.combineItems rs).all, ∃ n, i ≤ n ∧ (path ++ [PathSeg.idx n]) <+: e.path := by
  induction items generalizing i rs with
  | nil =>
    simp only [List.zipIdx_nil, List.mapM_nil, pure, Option.some.injEq] at hrs
    subst hrs
    simp [combineItems_nil]
  | cons v rest ih =>
    simp only [List.zipIdx_cons] at hrs
    obtain ⟨s0, rs', hs0, hrest, rfl⟩ := option_mapM_cons _ _ _ _ hrs
    obtain ⟨ih1, ih2⟩ := ih (i + 1) rs' hrest
    simp only [Spec.completeItem] at hs0
    cases hsc : sc v (path ++ [PathSeg.idx i]) with
    | none => simp [hsc] at hs0
    | some r0 =>
      simp only [hsc, Option.map_some, Option.some.injEq] at hs0
      subst hs0
      have h0 := (H _ _ _ hsc).1
      rw [combineItems_all_cons, atPosition_all]
      constructor
      · rw [List.nodup_append]
        refine ⟨h0.2, ih1, ?_⟩
        intro a ha b hb hab
        subst hab
        obtain ⟨n, hn, hp⟩ := ih2 a hb
        have := prefix_snoc_unique path a.path _ _ (h0.1 a ha) hp
        simp only [PathSeg.idx.injEq] at this
        omega
      · intro e he
        rcases List.mem_append.mp he with he | he
        · exact ⟨i, Nat.le_refl _, h0.1 e he⟩
        · obtain ⟨n, hn, hp⟩ := ih2 e he
          exact ⟨n, by omega, hp⟩


def SpecInvC (S : Schema) (D : Document) (fuel : Nat) : Prop :=
  ∀ t fields f0 v path s, Spec.completeValue S D fuel t fields f0 v path = some s → ErrInv path s

def SpecInvS (S : Schema) (D : Document) (fuel : Nat) : Prop :=
  ∀ o sels v path s, Spec.executeSelectionSet S D fuel o sels v path = some s → ErrInv path s

theorem specInvS_succ (S : Schema) (D : Document) (fuel : Nat) (ih : SpecInvC S D fuel) : SpecInvS S D (fuel + 1) := by
  intro o sels v path s hs
  simp only [Spec.executeSelectionSet] at hs
  cases hcs : Spec.collectFields S D o fuel sels [] with
  | none => simp [hcs] at hs
  | some gv =>
    obtain ⟨g, vis⟩ := gv
    simp only [hcs] at hs
    cases hrs : g.mapM (Spec.executeEntry o v path (Spec.completeValue S D fuel)) with
    | none => simp [hrs] at hs
    | some rs =>
      simp only [hrs, Option.map_some, Option.some.injEq] at hs
      subst hs
      have hnd := spec_collect_keys_nodup S D o fuel sels [] (g, vis) hcs
      obtain ⟨h1, h2⟩ := entries_errInv o v path (Spec.completeValue S D fuel) (fun t fields f0 v p s h => ih t fields f0 v p s h) g rs hnd hrs
      refine ⟨⟨?_, h1⟩, fun h => absurd h (combineFields_data_ne_null rs)⟩
      intro e he
      obtain ⟨k, _, hp⟩ := h2 e he
      exact prefix_of_snoc_prefix _ _ _ hp

theorem specInvC_succ (S : Schema) (D : Document) (fuel : Nat) (ihc : SpecInvC S D fuel) (ihs : SpecInvS S D fuel) :
    SpecInvC S D (fuel + 1) := by
  intro t fields f0 v path s hs
  cases t with
  | nonNull inner =>
    simp only [Spec.completeValue] at hs
    cases hin : Spec.completeValue S D fuel inner fields f0 v path with
    | none => simp [hin] at hs
    | some r =>
      simp only [hin] at hs
      have hr := ihc inner fields f0 v path r hin
      cases hd : r.data with
      | none => simp only [hd, Option.some.injEq] at hs; subst hs; exact hr
      | some j =>
        cases j with
        | null =>
          simp only [hd, Option.some.injEq] at hs
          subst hs
          have hall := hr.2 hd
          refine ⟨⟨?_, ?_⟩, by simp⟩
          · intro e he
            simp only [hall, List.nil_append, List.mem_singleton] at he
            subst he; exact List.prefix_refl _
          · simp [hall]
        | bool b => simp only [hd, Option.some.injEq] at hs; subst hs; exact hr
        | int z => simp only [hd, Option.some.injEq] at hs; subst hs; exact hr
        | num m e => simp only [hd, Option.some.injEq] at hs; subst hs; exact hr
        | str x => simp only [hd, Option.some.injEq] at hs; subst hs; exact hr
        | arr xs => simp only [hd, Option.some.injEq] at hs; subst hs; exact hr
        | obj kvs => simp only [hd, Option.some.injEq] at hs; subst hs; exact hr
  | list inner =>
    simp only [Spec.completeValue] at hs
    by_cases hnil : Spec.isNullish v = true
    · simp only [hnil, if_true, Option.some.injEq] at hs; subst hs; exact errInv_completed _ _
    · simp only [hnil, Bool.false_eq_true, if_false] at hs
      cases v with
      | list items =>
        simp only at hs
        cases hrs : (items.zipIdx).mapM (Spec.completeItem inner path (Spec.completeValue S D fuel inner fields f0)) with
        | none => simp [hrs] at hs
        | some rs =>
          simp only [hrs, Option.map_some, Option.some.injEq] at hs
          subst hs
          obtain ⟨h1, h2⟩ := items_errInv inner path (Spec.completeValue S D fuel inner fields f0)
            (fun v p s h => ihc inner fields f0 v p s h) items 0 rs hrs
          refine ⟨⟨?_, h1⟩, fun h => absurd h (combineItems_data_ne_null rs)⟩
          intro e he
          obtain ⟨n, _, hp⟩ := h2 e he
          exact prefix_of_snoc_prefix _ _ _ hp
      | leaf g => simp only [Option.some.injEq] at hs; subst hs; exact errInv_fieldError _ _ rfl
      | null => simp [Spec.isNullish] at hnil
      | tnil => simp [Spec.isNullish] at hnil
      | obj ty es => simp only [Option.some.injEq] at hs; subst hs; exact errInv_fieldError _ _ rfl
  | named n =>
    simp only [Spec.completeValue] at hs
    by_cases hnil : Spec.isNullish v = true
    · simp only [hnil, if_true, Option.some.injEq] at hs; subst hs; exact errInv_completed _ _
    · simp only [hnil, Bool.false_eq_true, if_false] at hs
      cases hl : S.lookup n with
      | none => simp [hl] at hs
      | some td =>
        cases td with
        | scalar k =>
          simp only [hl] at hs
          cases v with
          | leaf g =>
            simp only at hs
            cases hc : Spec.resultCoerce k g with
            | some j => simp only [hc, Option.some.injEq] at hs; subst hs; exact errInv_completed _ _
            | none => simp only [hc, Option.some.injEq] at hs; subst hs; exact errInv_fieldError _ _ rfl
          | null => simp [Spec.isNullish] at hnil
          | tnil => simp [Spec.isNullish] at hnil
          | list items => simp only [Option.some.injEq] at hs; subst hs; exact errInv_fieldError _ _ rfl
          | obj ty es => simp only [Option.some.injEq] at hs; subst hs; exact errInv_fieldError _ _ rfl
        | enum values =>
          simp only [hl] at hs
          cases v with
          | leaf g =>
            simp only at hs
            cases hc : Spec.enumCoerce values g with
            | some j => simp only [hc, Option.some.injEq] at hs; subst hs; exact errInv_completed _ _
            | none => simp only [hc, Option.some.injEq] at hs; subst hs; exact errInv_fieldError _ _ rfl
          | null => simp [Spec.isNullish] at hnil
          | tnil => simp [Spec.isNullish] at hnil
          | list items => simp only [Option.some.injEq] at hs; subst hs; exact errInv_fieldError _ _ rfl
          | obj ty es => simp only [Option.some.injEq] at hs; subst hs; exact errInv_fieldError _ _ rfl
        | object fs is =>
          simp only [hl] at hs
          exact ihs _ _ _ _ s hs
        | interface fs =>
          simp only [hl] at hs
          cases hf : (Spec.possibleTypes S n).find? (fun t => isTypeOf t v) with
          | none => simp only [hf, Option.some.injEq] at hs; subst hs; exact errInv_fieldError _ _ rfl
          | some tn =>
            simp only [hf] at hs
            cases ho : S.object? tn with
            | none => simp [ho] at hs
            | some o => simp only [ho] at hs; exact ihs _ _ _ _ s hs
        | union ms =>
          simp only [hl] at hs
          cases hf : (Spec.possibleTypes S n).find? (fun t => isTypeOf t v) with
          | none => simp only [hf, Option.some.injEq] at hs; subst hs; exact errInv_fieldError _ _ rfl
          | some tn =>
            simp only [hf] at hs
            cases ho : S.object? tn with
            | none => simp [ho] at hs
            | some o => simp only [ho] at hs; exact ihs _ _ _ _ s hs

/-- **Every error of the reference is attached to its own response position**: `all` has no
    duplicates (and every error's path lies beneath the position it was raised at). -/
theorem spec_errors_distinct (S : Schema) (D : Document) (fuel : Nat) : SpecInvC S D fuel ∧ SpecInvS S D fuel := by
  induction fuel with
  | zero =>
    constructor
    · intro t fields f0 v path s hs; simp [Spec.completeValue] at hs
    · intro o sels v path s hs; simp [Spec.executeSelectionSet] at hs
  | succ fuel ih => exact ⟨specInvC_succ S D fuel ih.1 ih.2, specInvS_succ S D fuel ih.1⟩

theorem spec_request_all_nodup (S : Schema) (D : Document) (fuel : Nat) (opName : String) (root : RVal) (s : Spec.SOut)
    (hs : Spec.executeRequest S D fuel opName root = .executed s) : s.all.Nodup := by
  unfold Spec.executeRequest at hs
  cases hgo : Spec.getOperation D opName with
  | none => simp [hgo] at hs
  | some op =>
    simp only [hgo] at hs
    cases hroot : (Spec.rootType S op.kind).bind S.object? with
    | none => simp [hroot] at hs
    | some o =>
      simp only [hroot] at hs
      cases hss : Spec.executeSelectionSet S D fuel o op.sels root [] with
      | none => simp [hss] at hs
      | some s' =>
        simp only [hss, Spec.Result.executed.injEq] at hs
        subst hs
        exact ((spec_errors_distinct S D fuel).2 o op.sels root [] s' hss).1.2


/-! ### fuel: a result that is not stuck does not change when more fuel is given -/

def R.notStuck : R → Prop
  | .stuck _ => False
  | _ => True

theorem collectStep_mono (S : Schema) (D : Document) (o : ObjT)
    (r0 r1 : List Selection → CState → Except Stuck CState)
    (h : ∀ sels st st', r0 sels st = .ok st' → r1 sels st = .ok st')
    (st : CState) (sel : Selection) (st' : CState)
    (h0 : collectStep S D o r0 st sel = .ok st') : collectStep S D o r1 st sel = .ok st' := by
  unfold collectStep at h0 ⊢
  by_cases hs : skipped sel.dirs = true
  · simpa [hs] using h0
  · simp only [hs, Bool.false_eq_true, if_false] at h0 ⊢
    cases sel with
    | field pos alias name wkey argErr dirs sub => exact h0
    | spread pos name dirs =>
      simp only at h0 ⊢
      by_cases hv : name ∈ st.visited
      · simp only [List.contains_eq_mem, hv, decide_true, if_true] at h0 ⊢; exact h0
      · simp only [List.contains_eq_mem, hv, decide_false, Bool.false_eq_true, if_false] at h0 ⊢
        cases hf : D.frag? name with
        | none => simpa [hf] using h0
        | some fr =>
          simp only [hf] at h0 ⊢
          cases ha : fragmentApplies S o fr.tc with
          | no => simpa [ha] using h0
          | panic => simp [ha] at h0
          | yes => simp only [ha] at h0 ⊢; exact h _ _ _ h0
    | inline pos tc dirs sub =>
      cases tc with
      | none => exact h _ _ _ h0
      | some tc =>
        simp only at h0 ⊢
        cases ha : fragmentApplies S o tc with
        | no => simpa [ha] using h0
        | panic => simp [ha] at h0
        | yes => simp only [ha] at h0 ⊢; exact h _ _ _ h0

theorem collectImpl_mono (S : Schema) (D : Document) (o : ObjT) (fuel : Nat) (sels : List Selection) (st st' : CState)
    (h : collectImpl S D o fuel sels st = .ok st') : collectImpl S D o (fuel + 1) sels st = .ok st' := by
  induction fuel generalizing sels st st' with
  | zero => simp [collectImpl] at h
  | succ fuel ih =>
    rw [collectImpl] at h ⊢
    have fold : ∀ (sels : List Selection) (st st' : CState),
        sels.foldlM (collectStep S D o (collectImpl S D o fuel)) st = .ok st' →
        sels.foldlM (collectStep S D o (collectImpl S D o (fuel + 1))) st = .ok st' := by
      intro sels
      induction sels with
      | nil => intro st st' h; exact h
      | cons sel rest ihl =>
        intro st st' h
        simp only [List.foldlM_cons] at h ⊢
        cases h1 : collectStep S D o (collectImpl S D o fuel) st sel with
        | error e => simp [h1, bind, Except.bind] at h
        | ok st1 =>
          simp only [h1, bind, Except.bind] at h
          rw [collectStep_mono S D o _ _ (fun sels st st' hh => ih sels st st' hh) st sel st1 h1]
          simp only [bind, Except.bind]
          exact ihl st1 st' h
    exact fold sels st st' h

theorem collectFields_mono (memo : Bool) (S : Schema) (D : Document) (fuel : Nat) (o : ObjT) (sels : List Selection)
    (c : Cache) (r : Grouped × Cache) (h : collectFields memo S D fuel o sels c = .ok r) :
    collectFields memo S D (fuel + 1) o sels c = .ok r := by
  unfold collectFields at h ⊢
  simp only at h ⊢
  cases hget : (if memo = true then c.get? (cacheKey o sels) else none) with
  | some g => simpa [hget] using h
  | none =>
    simp only [hget] at h ⊢
    cases hc : collectImpl S D o fuel sels { visited := [], grouped := [] } with
    | error e => simp [hc] at h
    | ok st =>
      simp only [hc] at h
      rw [collectImpl_mono S D o fuel sels _ st hc]
      exact h

theorem catch_notStuck (t : TypeRef) (out : Out) (h : (catchIfNullable t out).r.notStuck) : out.r.notStuck := by
  cases t with
  | nonNull t => exact h
  | named n => simp only [catchIfNullable] at h; cases hr : out.r <;> simp_all [R.notStuck]
  | list t => simp only [catchIfNullable] at h; cases hr : out.r <;> simp_all [R.notStuck]

theorem execItemsWith_mono (o : ObjT) (path : Path)
    (f0 f1 : List FieldNode → FieldNode → FieldDef → Path → Cache → Out)
    (h : ∀ fields fn fd p c, (f0 fields fn fd p c).r.notStuck → f1 fields fn fd p c = f0 fields fn fd p c)
    (g : Grouped) (acc : List (String × Json)) (errs : List Err) (c : Cache)
    (hn : (execItemsWith o path f0 g acc errs c).r.notStuck) :
    execItemsWith o path f1 g acc errs c = execItemsWith o path f0 g acc errs c := by
  induction g generalizing acc errs c with
  | nil => rfl
  | cons p rest ih =>
    obtain ⟨key, fields⟩ := p
    simp only [execItemsWith] at hn ⊢
    cases hh : fields.head? with
    | none => rfl
    | some fn =>
      simp only [hh] at hn ⊢
      by_cases htn : (fn.name == "__typename") = true
      · simp only [htn, if_true] at hn ⊢; exact ih _ _ _ hn
      · simp only [htn, Bool.false_eq_true, if_false] at hn ⊢
        cases hfd : o.getField fn.name with
        | none => simp only [hfd] at hn ⊢; exact ih _ _ _ hn
        | some fd =>
          simp only [hfd] at hn ⊢
          have hitem : (f0 fields fn fd (path ++ [.key key]) c).r.notStuck := by
            apply catch_notStuck fd.type
            cases hr : (catchIfNullable fd.type (f0 fields fn fd (path ++ [.key key]) c)).r with
            | ok j => trivial
            | err e => trivial
            | stuck st => simp [hr, R.notStuck] at hn
          rw [h _ _ _ _ _ hitem]
          cases hr : (catchIfNullable fd.type (f0 fields fn fd (path ++ [.key key]) c)).r with
          | ok j => simp only [hr] at hn ⊢; exact ih _ _ _ hn
          | err e => rfl
          | stuck st => rfl

theorem joinResults_notStuck_mem (rs : List R) (h : (joinResults rs).notStuck) (r : R) (hr : r ∈ rs) : r.notStuck := by
  cases r with
  | ok j => trivial
  | err e => trivial
  | stuck st =>
    exfalso
    have : (rs.findSome? R.stuck?).isSome := by
      rw [List.findSome?_isSome_iff]
      exact ⟨_, hr, by simp [R.stuck?]⟩
    cases hf : rs.findSome? R.stuck? with
    | none => simp [hf] at this
    | some s => simp [joinResults, hf, R.notStuck] at h

theorem runItems_mono (inner : TypeRef) (path : Path) (m0 m1 : RVal → Path → Cache → Out)
    (h : ∀ v p c, (m0 v p c).r.notStuck → m1 v p c = m0 v p c)
    (items : List RVal) (i : Nat) (c : Cache)
    (hn : ∀ r ∈ (runItems inner path m0 items i c).1, r.notStuck) :
    runItems inner path m1 items i c = runItems inner path m0 items i c := by
  induction items generalizing i c with
  | nil => rfl
  | cons v rest ih =>
    simp only [runItems] at hn ⊢
    have h0 : (m0 v (path ++ [.idx i]) c).r.notStuck :=
      catch_notStuck inner _ (hn _ (List.mem_cons_self ..))
    rw [h _ _ _ h0]
    rw [ih (i + 1) _ (fun r hr => hn r (List.mem_cons_of_mem _ hr))]



theorem completeValue_nonNull (memo : Bool) (S : Schema) (D : Document) (fuel : Nat) (inner : TypeRef)
    (fields : List FieldNode) (f0 : FieldNode) (v : RVal) (path : Path) (c : Cache) :
    completeValue memo S D (fuel + 1) (.nonNull inner) fields f0 v path c =
      match (completeValue memo S D fuel inner fields f0 v path c).r with
      | .ok .null => { completeValue memo S D fuel inner fields f0 v path c with r := .err (errAt f0 path .nullNonNull) }
      | _ => completeValue memo S D fuel inner fields f0 v path c := by
  simp only [completeValue]
  rfl

theorem completeValue_list (memo : Bool) (S : Schema) (D : Document) (fuel : Nat) (inner : TypeRef)
    (fields : List FieldNode) (f0 : FieldNode) (v : RVal) (path : Path) (c : Cache) :
    completeValue memo S D (fuel + 1) (.list inner) fields f0 v path c =
      if v.isNil then { r := .ok .null, errs := [], cache := c } else
      match v with
      | .list items =>
        completeItemsWith inner path (fun v p c => completeValue memo S D fuel inner fields f0 v p c) items 0 [] [] c
      | _ => { r := .err (errAt f0 path .notList), errs := [], cache := c } := by
  simp only [completeValue]
  rfl

theorem completeValue_named (memo : Bool) (S : Schema) (D : Document) (fuel : Nat) (n : String)
    (fields : List FieldNode) (f0 : FieldNode) (v : RVal) (path : Path) (c : Cache) :
    completeValue memo S D (fuel + 1) (.named n) fields f0 v path c =
      if v.isNil then { r := .ok .null, errs := [], cache := c } else
      match S.lookup n with
      | none => { r := .stuck (.panic "dangling type reference"), errs := [], cache := c }
      | some (.scalar k) =>
        match v with
        | .leaf g =>
          match coerceScalar k g with
          | some j => { r := .ok j, errs := [], cache := c }
          | none => { r := .err (errAt f0 path .scalarResult), errs := [], cache := c }
        | _ => { r := .err (errAt f0 path .scalarResult), errs := [], cache := c }
      | some (.enum values) =>
        match v with
        | .leaf g =>
          match coerceEnum values g with
          | some j => { r := .ok j, errs := [], cache := c }
          | none => { r := .err (errAt f0 path (.enumResult n)), errs := [], cache := c }
        | _ => { r := .err (errAt f0 path (.enumResult n)), errs := [], cache := c }
      | some (.object fs is) =>
        execSelections memo S D fuel { name := n, fields := fs, ifaces := is } (mergeSelectionSets fields) v path c
      | some (.interface _) =>
        match (S.implementations n).find? (fun t => isTypeOf t v) with
        | none => { r := .err (errAt f0 path .noObjectType), errs := [], cache := c }
        | some tn =>
          match S.object? tn with
          | none => { r := .stuck (.panic "implementation is not an object type"), errs := [], cache := c }
          | some o => execSelections memo S D fuel o (mergeSelectionSets fields) v path c
      | some (.union members) =>
        match members.find? (fun t => isTypeOf t v) with
        | none => { r := .err (errAt f0 path .noObjectType), errs := [], cache := c }
        | some tn =>
          match S.object? tn with
          | none => { r := .stuck (.panic "union member is not an object type"), errs := [], cache := c }
          | some o => execSelections memo S D fuel o (mergeSelectionSets fields) v path c := by
  simp only [completeValue]
  rfl

theorem execSelections_succ (memo : Bool) (S : Schema) (D : Document) (fuel : Nat) (o : ObjT) (sels : List Selection)
    (objVal : RVal) (path : Path) (c : Cache) :
    execSelections memo S D (fuel + 1) o sels objVal path c =
      match collectFields memo S D fuel o sels c with
      | .error s => { r := .stuck s, errs := [], cache := c }
      | .ok (g, c) =>
        execItemsWith o path
          (fun fields f0 fd p c =>
            execFieldWith (fun t v p c => completeValue memo S D fuel t fields f0 v p c) objVal fields f0 fd p c)
          g [] [] c := by
  simp only [execSelections]
  rfl

def MonoC (memo : Bool) (S : Schema) (D : Document) (fuel : Nat) : Prop :=
  ∀ t fields f0 v path c, (completeValue memo S D fuel t fields f0 v path c).r.notStuck →
    completeValue memo S D (fuel + 1) t fields f0 v path c = completeValue memo S D fuel t fields f0 v path c

def MonoS (memo : Bool) (S : Schema) (D : Document) (fuel : Nat) : Prop :=
  ∀ o sels v path c, (execSelections memo S D fuel o sels v path c).r.notStuck →
    execSelections memo S D (fuel + 1) o sels v path c = execSelections memo S D fuel o sels v path c

theorem execFieldWith_mono (c0 c1 : TypeRef → RVal → Path → Cache → Out)
    (h : ∀ t v p c, (c0 t v p c).r.notStuck → c1 t v p c = c0 t v p c)
    (objVal : RVal) (fields : List FieldNode) (fn : FieldNode) (fd : FieldDef) (p : Path) (c : Cache)
    (hn : (execFieldWith c0 objVal fields fn fd p c).r.notStuck) :
    execFieldWith c1 objVal fields fn fd p c = execFieldWith c0 objVal fields fn fd p c := by
  unfold execFieldWith at hn ⊢
  cases hae : fn.argErr with
  | some ae => rfl
  | none =>
    simp only [hae] at hn ⊢
    cases hres : resolve objVal fn.wkey with
    | err m => rfl
    | val v => simp only [hres] at hn ⊢; exact h _ _ _ _ hn

theorem monoS_succ (memo : Bool) (S : Schema) (D : Document) (fuel : Nat) (ihc : MonoC memo S D fuel) :
    MonoS memo S D (fuel + 1) := by
  intro o sels v path c hn
  rw [execSelections_succ] at hn
  rw [execSelections_succ, execSelections_succ]
  cases hc : collectFields memo S D fuel o sels c with
  | error st => simp [hc, R.notStuck] at hn
  | ok gc =>
    obtain ⟨g, c'⟩ := gc
    simp only [hc] at hn ⊢
    rw [collectFields_mono memo S D fuel o sels c (g, c') hc]
    simp only
    apply execItemsWith_mono
    · intro fields fn fd p c hn'
      exact execFieldWith_mono _ _ (fun t v p c h => ihc t fields fn v p c h) v fields fn fd p c hn'
    · exact hn

theorem monoC_succ (memo : Bool) (S : Schema) (D : Document) (fuel : Nat) (ihc : MonoC memo S D fuel)
    (ihs : MonoS memo S D fuel) : MonoC memo S D (fuel + 1) := by
  intro t fields f0 v path c hn
  cases t with
  | nonNull inner =>
    rw [completeValue_nonNull] at hn
    rw [completeValue_nonNull, completeValue_nonNull]
    have hin : (completeValue memo S D fuel inner fields f0 v path c).r.notStuck := by
      cases hr : (completeValue memo S D fuel inner fields f0 v path c).r with
      | ok j => trivial
      | err e => trivial
      | stuck st => simp [hr, R.notStuck] at hn
    rw [ihc inner fields f0 v path c hin]
  | list inner =>
    rw [completeValue_list] at hn
    rw [completeValue_list, completeValue_list]
    by_cases hnil : v.isNil = true
    · simp [hnil]
    · simp only [hnil, Bool.false_eq_true, if_false] at hn ⊢
      cases v with
      | list items =>
        simp only at hn ⊢
        rw [completeItemsWith_eq] at hn
        rw [completeItemsWith_eq, completeItemsWith_eq]
        simp only [List.nil_append] at hn ⊢
        have := runItems_mono inner path (fun v p c => completeValue memo S D fuel inner fields f0 v p c)
          (fun v p c => completeValue memo S D (fuel + 1) inner fields f0 v p c)
          (fun v p c h => ihc inner fields f0 v p c h) items 0 c
          (fun r hr => joinResults_notStuck_mem _ hn r hr)
        rw [this]
      | leaf g => rfl
      | null => rfl
      | tnil => rfl
      | obj ty es => rfl
  | named n =>
    rw [completeValue_named] at hn
    rw [completeValue_named, completeValue_named]
    by_cases hnil : v.isNil = true
    · simp [hnil]
    · simp only [hnil, Bool.false_eq_true, if_false] at hn ⊢
      cases hl : S.lookup n with
      | none => rfl
      | some td =>
        cases td with
        | scalar k => rfl
        | enum values => rfl
        | object fs is =>
          simp only [hl] at hn ⊢
          exact ihs _ _ _ _ _ hn
        | interface fs =>
          simp only [hl] at hn ⊢
          cases hf : (S.implementations n).find? (fun t => isTypeOf t v) with
          | none => rfl
          | some tn =>
            simp only [hf] at hn ⊢
            cases ho : S.object? tn with
            | none => rfl
            | some o => simp only [ho] at hn ⊢; exact ihs _ _ _ _ _ hn
        | union ms =>
          simp only [hl] at hn ⊢
          cases hf : ms.find? (fun t => isTypeOf t v) with
          | none => rfl
          | some tn =>
            simp only [hf] at hn ⊢
            cases ho : S.object? tn with
            | none => rfl
            | some o => simp only [ho] at hn ⊢; exact ihs _ _ _ _ _ hn

theorem mono_main (memo : Bool) (S : Schema) (D : Document) (fuel : Nat) : MonoC memo S D fuel ∧ MonoS memo S D fuel := by
  induction fuel with
  | zero =>
    constructor
    · intro t fields f0 v path c hn; simp [completeValue, R.notStuck] at hn
    · intro o sels v path c hn; simp [execSelections, R.notStuck] at hn
  | succ fuel ih => exact ⟨monoC_succ memo S D fuel ih.1 ih.2, monoS_succ memo S D fuel ih.1⟩

/-- more fuel never changes a response -/
theorem execute_mono (memo : Bool) (S : Schema) (D : Document) (fuel k : Nat) (opName : String) (root : RVal) (resp : Response)
    (h : execute memo S D fuel opName root = .ok resp) : execute memo S D (fuel + k) opName root = .ok resp := by
  induction k with
  | zero => exact h
  | succ k ih =>
    unfold execute at ih ⊢
    cases hgo : getOperation D opName with
    | error e => simp only [hgo] at ih ⊢; exact ih
    | ok op =>
      simp only [hgo] at ih ⊢
      cases hroot : (rootTypeName S op.kind).bind S.object? with
      | none => simp only [hroot] at ih ⊢; exact ih
      | some o =>
        simp only [hroot] at ih ⊢
        have hn : (execSelections memo S D (fuel + k) o op.sels root [] []).r.notStuck := by
          cases hr : (execSelections memo S D (fuel + k) o op.sels root [] []).r with
          | ok j => trivial
          | err e => trivial
          | stuck st => simp [hr] at ih
        have := (mono_main memo S D (fuel + k)).2 o op.sels root [] [] hn
        rw [show fuel + (k + 1) = fuel + k + 1 from rfl, this]
        exact ih


/-! ### blank slots: the refinement without any well-typedness hypothesis -/

mutual
  /-- erase the blank slots (`"" : null`, the untouched entries of the pre-sized result map that the
      executor leaves for fields not defined on the object type), recursively -/
  def Json.strip : Json → Json
    | .arr xs => .arr (stripList xs)
    | .obj kvs => .obj (stripFields kvs)
    | .null => .null
    | .bool b => .bool b
    | .int z => .int z
    | .num m e => .num m e
    | .str s => .str s
  def stripList : List Json → List Json
    | [] => []
    | x :: xs => x.strip :: stripList xs
  def stripFields : List (String × Json) → List (String × Json)
    | [] => []
    | (k, v) :: rest => if k = "" then stripFields rest else (k, v.strip) :: stripFields rest
end

theorem stripFields_append (a b : List (String × Json)) : stripFields (a ++ b) = stripFields a ++ stripFields b := by
  induction a with
  | nil => rfl
  | cons p rest ih =>
    obtain ⟨k, v⟩ := p
    by_cases hk : k = ""
    · simp [stripFields, hk, ih]
    · simp [stripFields, hk, ih]

theorem strip_eq_null (j : Json) : j.strip = .null ↔ j = .null := by
  cases j <;> simp [Json.strip]

theorem strip_resultCoerce (k : ScalarKind) (g : GoVal) (j : Json) (h : Spec.resultCoerce k g = some j) : j.strip = j := by
  cases k with
  | int =>
    simp only [Spec.resultCoerce] at h
    cases ha : Spec.asInteger? g with
    | none => simp [ha] at h
    | some z =>
      simp only [ha] at h
      split at h
      · simp only [Option.some.injEq] at h; subst h; rfl
      · simp at h
  | float => cases g <;> simp [Spec.resultCoerce] at h <;> subst h <;> rfl
  | string => cases g <;> simp [Spec.resultCoerce] at h <;> subst h <;> rfl
  | boolean => cases g <;> simp [Spec.resultCoerce] at h <;> subst h <;> rfl
  | id =>
    cases g with
    | int ik z =>
      simp only [Spec.resultCoerce] at h
      split at h
      · simp only [Option.some.injEq] at h; subst h; rfl
      · simp at h
    | flt fk m e => simp [Spec.resultCoerce] at h
    | str s => simp [Spec.resultCoerce] at h; subst h; rfl
    | bool b => simp [Spec.resultCoerce] at h
    | wrong => simp [Spec.resultCoerce] at h

theorem strip_enumCoerce (values : List (String × GoVal)) (g : GoVal) (j : Json) (h : Spec.enumCoerce values g = some j) :
    j.strip = j := by
  unfold Spec.enumCoerce at h
  cases hf : values.find? (fun p => decide (p.2 = g)) with
  | none => simp [hf] at h
  | some p => simp [hf] at h; subst h; rfl

/-- Model outcome against reference outcome at one response position; the model's data is compared
    with its blank slots erased. No hypothesis on the document's typing. -/
def SimS (out : Out) (s : Spec.SOut) : Prop :=
  match out.r with
  | .ok j => s.data = some j.strip ∧ s.req ⊆ₘ out.errs ∧ out.errs ⊆ₘ s.all
  | .err e => s.data = none ∧ s.req = [e] ∧ (out.errs ++ [e]) ⊆ₘ s.all
  | .stuck _ => True

theorem simS_catch (t : TypeRef) (out : Out) (s : Spec.SOut) (h : SimS out s) :
    SimS (catchIfNullable t out) (Spec.atPosition t s) := by
  have key : ∀ (out' : Out) (s' : Spec.SOut),
      (out' = match out.r with
              | .err e => { out with r := .ok .null, errs := out.errs ++ [e] }
              | _ => out) →
      (s' = match s.data with
            | none => { s with data := some .null }
            | some _ => s) → SimS out' s' := by
    intro out' s' ho hs
    unfold SimS at h ⊢
    cases hr : out.r with
    | ok j =>
      simp only [hr] at h ho
      obtain ⟨h1, h2, h3⟩ := h
      simp only [h1] at hs
      subst ho; subst hs
      simp only [hr]
      exact ⟨h1, h2, h3⟩
    | err e =>
      simp only [hr] at h ho
      obtain ⟨h1, h2, h3⟩ := h
      simp only [h1] at hs
      subst ho; subst hs
      show (some Json.null = some (Json.strip Json.null)) ∧ s.req ⊆ₘ (out.errs ++ [e]) ∧ (out.errs ++ [e]) ⊆ₘ s.all
      refine ⟨rfl, ?_, h3⟩
      rw [h2]
      exact SubMulti.append_left _ (SubMulti.refl _)
    | stuck st =>
      simp only [hr] at ho
      subst ho
      simp only [hr]
  cases t with
  | nonNull t => exact h
  | named n => exact key _ _ rfl rfl
  | list t => exact key _ _ rfl rfl

theorem simS_fieldError (e : Err) (c : Cache) : SimS { r := .err e, errs := [], cache := c } (Spec.fieldError e) :=
  ⟨rfl, rfl, SubMulti.refl _⟩

theorem simS_completed (j : Json) (hj : j.strip = j) (c : Cache) : SimS { r := .ok j, errs := [], cache := c } (Spec.completed j) := by
  unfold SimS
  simp only [Spec.completed, hj]
  exact ⟨trivial, SubMulti.refl _, SubMulti.refl _⟩

theorem simS_stuck (c : Cache) (st : Stuck) (errs : List Err) (s : Spec.SOut) : SimS { r := .stuck st, errs := errs, cache := c } s := by
  unfold SimS; trivial

def SimObjS (acc : List (String × Json)) (errs : List Err) (out : Out) (s : Spec.SOut) : Prop :=
  match out.r with
  | .ok j => ∃ kvs E, s.data = some (.obj (stripFields kvs)) ∧ j = .obj (acc ++ kvs) ∧ out.errs = errs ++ E ∧ s.req ⊆ₘ E ∧ E ⊆ₘ s.all
  | .err e => ∃ E, s.data = none ∧ s.req = [e] ∧ out.errs = errs ++ E ∧ (E ++ [e]) ⊆ₘ s.all
  | .stuck _ => True


theorem combineFields_none_fields (rs : List (Option (String × Spec.SOut))) :
    (Spec.combineFields (none :: rs)).data = (Spec.combineFields rs).data ∧
    (Spec.combineFields (none :: rs)).all = (Spec.combineFields rs).all ∧
    (Spec.combineFields (none :: rs)).req = (Spec.combineFields rs).req := by
  rw [combineFields_none]; exact ⟨rfl, rfl, rfl⟩

theorem execItems_simS (I : Cache → Prop) (F : List FieldNode → Prop) (o : ObjT) (objVal : RVal) (path : Path)
    (mc : List FieldNode → FieldNode → TypeRef → RVal → Path → Cache → Out)
    (sc : TypeRef → List FieldNode → FieldNode → RVal → Path → Option Spec.SOut)
    (H : ∀ fields f0 t v p c s, I c → F fields → sc t fields f0 v p = some s →
      SimS (mc fields f0 t v p c) s ∧ I (mc fields f0 t v p c).cache)
    (g : Grouped) (acc : List (String × Json)) (errs : List Err) (c : Cache)
    (rs : List (Option (String × Spec.SOut)))
    (hI : I c) (hF : ∀ p ∈ g, F p.2) (hK : ∀ p ∈ g, p.1 ≠ "")
    (hrs : g.mapM (Spec.executeEntry o objVal path sc) = some rs) :
    SimObjS acc errs
      (execItemsWith o path
        (fun fields f0 fd p c => execFieldWith (fun t v p c => mc fields f0 t v p c) objVal fields f0 fd p c)
        g acc errs c)
      (Spec.combineFields rs) ∧
    I (execItemsWith o path
        (fun fields f0 fd p c => execFieldWith (fun t v p c => mc fields f0 t v p c) objVal fields f0 fd p c)
        g acc errs c).cache := by
  induction g generalizing acc errs c rs with
  | nil =>
    simp only [List.mapM_nil, pure, Option.some.injEq] at hrs
    subst hrs
    refine ⟨?_, hI⟩
    simp only [SimObjS, execItemsWith, combineFields_nil]
    exact ⟨[], [], rfl, by simp, by simp, SubMulti.nil _, SubMulti.nil _⟩
  | cons p rest ih =>
    obtain ⟨key, fields⟩ := p
    obtain ⟨entry, rs', hentry, hrest, rfl⟩ := option_mapM_cons _ _ _ _ hrs
    have hFrest : ∀ p ∈ rest, F p.2 := fun p hp => hF p (List.mem_cons_of_mem _ hp)
    have hKrest : ∀ p ∈ rest, p.1 ≠ "" := fun p hp => hK p (List.mem_cons_of_mem _ hp)
    have hFhere : F fields := hF (key, fields) (List.mem_cons_self ..)
    have hkey : key ≠ "" := hK (key, fields) (List.mem_cons_self ..)
    have hstrip : ∀ (j : Json) (kvs : List (String × Json)), stripFields ((key, j) :: kvs) = (key, j.strip) :: stripFields kvs := by
      intro j kvs; simp [stripFields, hkey]
    cases fields with
    | nil => simp [Spec.executeEntry] at hentry
    | cons f0 tl =>
      simp only [execItemsWith, List.head?_cons]
      by_cases htn : f0.name = "__typename"
      · -- __typename
        simp only [Spec.executeEntry, htn, if_true, Option.some.injEq] at hentry
        subst hentry
        simp only [htn, beq_self_eq_true, if_true]
        obtain ⟨ih', ihI⟩ := ih (acc ++ [(key, .str o.name)]) errs c rs' hI hFrest hKrest hrest
        refine ⟨?_, ihI⟩
        unfold SimObjS at ih' ⊢
        rw [combineFields_some_ok key _ (.str o.name) rs' rfl]
        simp only [Spec.completed, List.nil_append]
        cases hr : (execItemsWith o path _ rest (acc ++ [(key, .str o.name)]) errs c).r with
        | ok j =>
          simp only [hr] at ih' ⊢
          obtain ⟨kvs, E, h1, h2, h3, h4, h5⟩ := ih'
          refine ⟨(key, .str o.name) :: kvs, E, ?_, ?_, h3, ?_, h5⟩
          · simp [h1, hstrip, Json.strip]
          · simp [h2]
          · simp only [h1]; exact h4
        | err e =>
          simp only [hr] at ih' ⊢
          obtain ⟨E, h1, h2, h3, h4⟩ := ih'
          refine ⟨E, ?_, ?_, h3, h4⟩
          · simp [h1]
          · simp only [h1]; exact h2
        | stuck st => simp only [hr]
      · have htn' : (f0.name == "__typename") = false := by simpa using htn
        simp only [htn', Bool.false_eq_true, if_false]
        simp only [Spec.executeEntry, htn, if_false] at hentry
        rw [getField_eq]
        cases hfd : o.fields.find? (fun (fd : FieldDef) => decide (fd.name = f0.name)) with
        | none =>
          -- the field is not defined: the executor leaves the blank slot, the reference skips the field
          simp only [hfd, Option.some.injEq] at hentry
          subst hentry
          obtain ⟨ih', ihI⟩ := ih (acc ++ [("", .null)]) errs c rs' hI hFrest hKrest hrest
          refine ⟨?_, ihI⟩
          unfold SimObjS at ih' ⊢
          obtain ⟨hd, ha, hq⟩ := combineFields_none_fields rs'
          rw [hd, ha, hq]
          cases hr : (execItemsWith o path _ rest (acc ++ [("", .null)]) errs c).r with
          | ok j =>
            simp only [hr] at ih' ⊢
            obtain ⟨kvs, E, h1, h2, h3, h4, h5⟩ := ih'
            refine ⟨("", .null) :: kvs, E, ?_, ?_, h3, h4, h5⟩
            · simp [h1, stripFields]
            · simp [h2]
          | err e => simp only [hr] at ih' ⊢; exact ih'
          | stuck st => simp only [hr]
        | some fd =>
          simp only [hfd] at hentry
          have hex : ∃ r0, entry = some (key, Spec.atPosition fd.type r0) ∧
              SimS (execFieldWith (fun t v p c => mc (f0 :: tl) f0 t v p c) objVal (f0 :: tl) f0 fd (path ++ [.key key]) c) r0 ∧
              I (execFieldWith (fun t v p c => mc (f0 :: tl) f0 t v p c) objVal (f0 :: tl) f0 fd (path ++ [.key key]) c).cache := by
            unfold execFieldWith
            cases hae : f0.argErr with
            | some ae =>
              simp only [hae, Option.map_some, Option.some.injEq] at hentry
              exact ⟨_, hentry.symm, simS_fieldError _ _, hI⟩
            | none =>
              simp only [hae] at hentry
              cases hres : resolve objVal f0.wkey with
              | err m =>
                simp only [hres, Option.map_some, Option.some.injEq] at hentry
                exact ⟨_, hentry.symm, simS_fieldError _ _, hI⟩
              | val v =>
                simp only [hres] at hentry
                cases hsc : sc fd.type (f0 :: tl) f0 v (path ++ [PathSeg.key key]) with
                | none => simp [hsc] at hentry
                | some r0 =>
                  simp only [hsc, Option.map_some, Option.some.injEq] at hentry
                  have := H _ _ _ _ _ _ _ hI hFhere hsc
                  exact ⟨r0, hentry.symm, this.1, this.2⟩
          obtain ⟨r0, rfl, hsim0, hI0⟩ := hex
          have hsim := simS_catch fd.type _ _ hsim0
          have hIc : I (catchIfNullable fd.type (execFieldWith (fun t v p c => mc (f0 :: tl) f0 t v p c) objVal (f0 :: tl) f0 fd (path ++ [.key key]) c)).cache := by
            rw [catch_cache]; exact hI0
          generalize hout0 : catchIfNullable fd.type (execFieldWith (fun t v p c => mc (f0 :: tl) f0 t v p c) objVal (f0 :: tl) f0 fd (path ++ [.key key]) c) = out0 at hsim hIc
          simp only [hout0]
          unfold SimS at hsim
          cases hr : out0.r with
          | stuck st => simp only [hr]; exact ⟨by unfold SimObjS; trivial, hIc⟩
          | err e0 =>
            simp only [hr] at hsim ⊢
            refine ⟨?_, hIc⟩
            obtain ⟨hd, h2, h3⟩ := hsim
            unfold SimObjS
            rw [combineFields_some_fail key _ rs' hd]
            exact ⟨out0.errs, rfl, h2, rfl, SubMulti.append_right _ h3⟩
          | ok j0 =>
            simp only [hr] at hsim ⊢
            obtain ⟨hd, h02, h03⟩ := hsim
            obtain ⟨ih', ihI⟩ := ih (acc ++ [(key, j0)]) (errs ++ out0.errs) out0.cache rs' hIc hFrest hKrest hrest
            refine ⟨?_, ihI⟩
            unfold SimObjS at ih' ⊢
            rw [combineFields_some_ok key _ j0.strip rs' hd]
            cases hr2 : (execItemsWith o path _ rest (acc ++ [(key, j0)]) (errs ++ out0.errs) out0.cache).r with
            | stuck st => simp only
            | ok j2 =>
              simp only [hr2] at ih' ⊢
              obtain ⟨kvs, E, h1, h2, h3, h4, h5⟩ := ih'
              refine ⟨(key, j0) :: kvs, out0.errs ++ E, ?_, ?_, ?_, ?_, ?_⟩
              · simp [h1, hstrip]
              · simp [h2]
              · simp [h3]
              · simp only [h1]; exact SubMulti.append h02 h4
              · exact SubMulti.append h03 h5
            | err e2 =>
              simp only [hr2] at ih' ⊢
              obtain ⟨E, h1, h2, h3, h4⟩ := ih'
              refine ⟨out0.errs ++ E, ?_, ?_, ?_, ?_⟩
              · simp [h1]
              · simp only [h1]; exact h2
              · simp [h3]
              · rw [List.append_assoc]; exact SubMulti.append h03 h4


theorem runItems_simS (I : Cache → Prop) (inner : TypeRef) (path : Path)
    (mc : RVal → Path → Cache → Out) (sc : RVal → Path → Option Spec.SOut)
    (H : ∀ v p c s, I c → sc v p = some s → SimS (mc v p c) s ∧ I (mc v p c).cache)
    (items : List RVal) (i : Nat) (c : Cache) (rs : List Spec.SOut) (hI : I c)
    (hrs : (items.zipIdx i).mapM (Spec.completeItem inner path sc) = some rs) :
    SimS { r := joinResults (runItems inner path mc items i c).1, errs := (runItems inner path mc items i c).2.1,
           cache := (runItems inner path mc items i c).2.2 } (Spec.combineItems rs) ∧
    I (runItems inner path mc items i c).2.2 := by
  induction items generalizing i c rs with
  | nil =>
    simp only [List.zipIdx_nil, List.mapM_nil, pure, Option.some.injEq] at hrs
    subst hrs
    refine ⟨?_, hI⟩
    simp only [SimS, runItems, joinResults_nil, combineItems_nil, Json.strip, stripList]
    exact ⟨trivial, SubMulti.nil _, SubMulti.nil _⟩
  | cons v rest ih =>
    simp only [List.zipIdx_cons] at hrs
    obtain ⟨s0, rs', hs0, hrest, rfl⟩ := option_mapM_cons _ _ _ _ hrs
    simp only [Spec.completeItem] at hs0
    cases hsc : sc v (path ++ [PathSeg.idx i]) with
    | none => simp [hsc] at hs0
    | some r0 =>
      simp only [hsc, Option.map_some, Option.some.injEq] at hs0
      subst hs0
      have hH := H v (path ++ [.idx i]) c r0 hI hsc
      have hsim := simS_catch inner _ _ hH.1
      have hIc : I (catchIfNullable inner (mc v (path ++ [.idx i]) c)).cache := by rw [catch_cache]; exact hH.2
      simp only [runItems]
      generalize hout0 : catchIfNullable inner (mc v (path ++ [.idx i]) c) = out0 at hsim hIc
      obtain ⟨ih', ihI⟩ := ih (i + 1) out0.cache rs' hIc hrest
      generalize hRs : runItems inner path mc rest (i + 1) out0.cache = run at ih' ihI
      obtain ⟨Rs, Es, c'⟩ := run
      simp only at ih' ihI ⊢
      refine ⟨?_, ihI⟩
      unfold SimS at hsim ih' ⊢
      cases hr : out0.r with
      | stuck st => simp only [joinResults_stuck]
      | ok j0 =>
        simp only [hr] at hsim
        obtain ⟨hd, h02, h03⟩ := hsim
        rw [combineItems_ok _ j0.strip rs' hd, joinResults_ok]
        cases hjr : joinResults Rs with
        | stuck st => simp only
        | err e =>
          simp only [hjr] at ih' ⊢
          obtain ⟨h1, h2, h3⟩ := ih'
          refine ⟨by simp [h1], by simp only [h1]; exact h2, ?_⟩
          rw [List.append_assoc]
          exact SubMulti.append h03 h3
        | ok jr =>
          obtain ⟨js, rfl⟩ := joinResults_ok_shape Rs jr hjr
          simp only [hjr] at ih' ⊢
          obtain ⟨h1, h2, h3⟩ := ih'
          refine ⟨by simp [h1, Json.strip, stripList], by simp only [h1, Json.strip]; exact SubMulti.append h02 h2, SubMulti.append h03 h3⟩
      | err e0 =>
        simp only [hr] at hsim
        obtain ⟨hd, h02, h03⟩ := hsim
        rw [combineItems_fail _ rs' hd, joinResults_err]
        cases hjr : joinResults Rs with
        | stuck st => simp only
        | err e =>
          simp only [hjr] at ih' ⊢
          obtain ⟨_, _, h3⟩ := ih'
          refine ⟨by first | rfl | trivial, h02, ?_⟩
          have h3' := SubMulti.of_append_left h3
          intro x
          have a1 := h03 x
          have a2 := h3' x
          simp only [List.count_append] at a1 a2 ⊢
          omega
        | ok jr =>
          simp only [hjr] at ih' ⊢
          obtain ⟨_, _, h3⟩ := ih'
          refine ⟨by first | rfl | trivial, h02, ?_⟩
          intro x
          have a1 := h03 x
          have a2 := h3 x
          simp only [List.count_append] at a1 a2 ⊢
          omega

theorem simS_nonNull (out : Out) (r : Spec.SOut) (f0 : FieldNode) (path : Path) (h : SimS out r) :
    SimS (match out.r with
          | .ok .null => { out with r := .err (errAt f0 path .nullNonNull) }
          | _ => out)
         (match r.data with
          | some .null =>
            { r with data := none, all := r.all ++ [{ msg := .nullNonNull, path := path, locs := [f0.pos] }],
                     req := [{ msg := .nullNonNull, path := path, locs := [f0.pos] }] }
          | _ => r) := by
  unfold SimS at h ⊢
  cases hr : out.r with
  | stuck st => simp only [hr]
  | err e =>
    simp only [hr] at h ⊢
    obtain ⟨h1, h2, h3⟩ := h
    simp only [h1]
    exact ⟨trivial, h2, h3⟩
  | ok j =>
    simp only [hr] at h
    obtain ⟨h1, h2, h3⟩ := h
    cases j with
    | null =>
      simp only [h1, Json.strip]
      refine ⟨by first | rfl | trivial, by first | rfl | trivial, ?_⟩
      exact SubMulti.append h3 (SubMulti.refl _)
    | bool b => simp only [h1, hr, Json.strip]; exact ⟨trivial, h2, h3⟩
    | int z => simp only [h1, hr, Json.strip]; exact ⟨trivial, h2, h3⟩
    | num m e => simp only [h1, hr, Json.strip]; exact ⟨trivial, h2, h3⟩
    | str x => simp only [h1, hr, Json.strip]; exact ⟨trivial, h2, h3⟩
    | arr xs => simp only [h1, hr, Json.strip]; exact ⟨trivial, h2, h3⟩
    | obj kvs => simp only [h1, hr, Json.strip]; exact ⟨trivial, h2, h3⟩

theorem simS_of_simObjS (out : Out) (s : Spec.SOut) (h : SimObjS [] [] out s) : SimS out s := by
  unfold SimObjS at h
  unfold SimS
  cases hr : out.r with
  | stuck st => trivial
  | ok j =>
    simp only [hr] at h
    obtain ⟨kvs, E, h1, h2, h3, h4, h5⟩ := h
    simp only [List.nil_append] at h2 h3
    subst h2
    rw [h3]
    exact ⟨by simp [h1, Json.strip], h4, h5⟩
  | err e =>
    simp only [hr] at h
    obtain ⟨E, h1, h2, h3, h4⟩ := h
    simp only [List.nil_append] at h3
    rw [h3]
    exact ⟨h1, h2, h4⟩


/-- a property of the field nodes made from the document's field selections -/
def FieldNodesHave (P : Selection → Prop) (Q : FieldNode → Prop) : Prop :=
  ∀ pos alias name wkey ae dirs sub, P (.field pos alias name wkey ae dirs sub) →
    Q { pos, alias, name, wkey, argErr := ae, sels := sub }

theorem expandStep_all (S : Schema) (D : Document) (o : ObjT) (P : Selection → Prop) (hP : NodeSet D P)
    (Q : FieldNode → Prop) (hQ : FieldNodesHave P Q)
    (recur : List Selection → List String → Except Stuck Expanded)
    (hrec : ∀ sels vis r, (∀ s ∈ sels, P s) → recur sels vis = .ok r → ∀ f ∈ r.1, Q f)
    (acc : Expanded) (sel : Selection) (r : Expanded) (hacc : ∀ f ∈ acc.1, Q f) (hsel : P sel)
    (h : expandStep S D o recur acc sel = .ok r) : ∀ f ∈ r.1, Q f := by
  unfold expandStep at h
  by_cases hs : skipped sel.dirs
  · simp only [hs, if_true, Except.ok.injEq] at h; subst h; exact hacc
  · simp only [hs, Bool.false_eq_true, if_false] at h
    have happ : ∀ (fs : List FieldNode), (∀ f ∈ fs, Q f) → ∀ f ∈ acc.1 ++ fs, Q f := by
      intro fs hfs f hf
      rcases List.mem_append.mp hf with h1 | h1
      · exact hacc f h1
      · exact hfs f h1
    cases sel with
    | field pos alias name wkey argErr dirs sub =>
      simp only [Except.ok.injEq] at h
      subst h
      apply happ
      intro f hf
      simp only [List.mem_singleton] at hf
      subst hf
      exact hQ _ _ _ _ _ _ _ hsel
    | spread pos name dirs =>
      by_cases hv : acc.2.contains name = true
      · simp only [hv, if_true, Except.ok.injEq] at h; subst h; exact hacc
      · simp only [hv, Bool.false_eq_true, if_false] at h
        cases hf : D.frag? name with
        | none => simp only [hf, Except.ok.injEq] at h; subst h; exact hacc
        | some fr =>
          simp only [hf] at h
          cases ha : fragmentApplies S o fr.tc with
          | no => simp only [ha, Except.ok.injEq] at h; subst h; exact hacc
          | panic => simp [ha] at h
          | yes =>
            simp only [ha] at h
            cases hr : recur fr.sels (name :: acc.2) with
            | error e => simp [hr] at h
            | ok r' =>
              simp only [hr, Except.ok.injEq] at h
              subst h
              exact happ _ (hrec _ _ _ (hP.frags fr (frag?_mem D name fr hf)) hr)
    | inline pos tc dirs sub =>
      have hsub := hP.inline_sub _ _ _ _ hsel
      have key : ∀ (h' : (match recur sub acc.2 with
                          | .ok r => Except.ok (acc.1 ++ r.1, r.2)
                          | .error e => Except.error e) = Except.ok r), ∀ f ∈ r.1, Q f := by
        intro h'
        cases hr : recur sub acc.2 with
        | error e => simp [hr] at h'
        | ok r' =>
          simp only [hr, Except.ok.injEq] at h'
          subst h'
          exact happ _ (hrec _ _ _ hsub hr)
      cases tc with
      | none => exact key h
      | some tc =>
        simp only at h
        cases ha : fragmentApplies S o tc with
        | no => simp only [ha, Except.ok.injEq] at h; subst h; exact hacc
        | panic => simp [ha] at h
        | yes => simp only [ha] at h; exact key h

theorem expand_all (S : Schema) (D : Document) (o : ObjT) (P : Selection → Prop) (hP : NodeSet D P)
    (Q : FieldNode → Prop) (hQ : FieldNodesHave P Q)
    (fuel : Nat) (sels : List Selection) (vis : List String) (r : Expanded)
    (hsels : ∀ s ∈ sels, P s) (h : expand S D o fuel sels vis = .ok r) : ∀ f ∈ r.1, Q f := by
  induction fuel generalizing sels vis r with
  | zero => simp [expand] at h
  | succ fuel ih =>
    simp only [expand] at h
    have fold : ∀ (sels : List Selection) (acc r : Expanded), (∀ s ∈ sels, P s) → (∀ f ∈ acc.1, Q f) →
        sels.foldlM (expandStep S D o (expand S D o fuel)) acc = .ok r → ∀ f ∈ r.1, Q f := by
      intro sels
      induction sels with
      | nil =>
        intro acc r _ hacc h
        simp only [List.foldlM_nil, pure, Except.pure, Except.ok.injEq] at h
        subst h; exact hacc
      | cons sel rest ihl =>
        intro acc r hs hacc h
        simp only [List.foldlM_cons] at h
        cases h1 : expandStep S D o (expand S D o fuel) acc sel with
        | error e => simp [h1, bind, Except.bind] at h
        | ok acc' =>
          simp only [h1, bind, Except.bind] at h
          have hacc' := expandStep_all S D o P hP Q hQ _ (fun sels vis r hs hr => ih sels vis r hs hr) acc sel acc' hacc
            (hs sel (List.mem_cons_self ..)) h1
          exact ihl acc' r (fun s hs' => hs s (List.mem_cons_of_mem _ hs')) hacc' h
    exact fold sels ([], vis) r hsels (by intro f hf; simp at hf) h

theorem foldl_step_mem (ks acc : List String) (k : String)
    (h : k ∈ ks.foldl (fun acc k => if k ∈ acc then acc else acc ++ [k]) acc) : k ∈ acc ∨ k ∈ ks := by
  induction ks generalizing acc with
  | nil => exact Or.inl h
  | cons a rest ih =>
    simp only [List.foldl_cons] at h
    rcases ih _ h with h1 | h1
    · by_cases ha : a ∈ acc
      · simp only [ha, if_true] at h1; exact Or.inl h1
      · simp only [ha, if_false, List.mem_append, List.mem_singleton] at h1
        rcases h1 with h1 | h1
        · exact Or.inl h1
        · exact Or.inr (by simp [h1])
    · exact Or.inr (List.mem_cons_of_mem _ h1)

theorem groupInOrder_key_mem (fs : List FieldNode) (p : String × List FieldNode) (hp : p ∈ groupInOrder fs) :
    ∃ f ∈ fs, f.responseKey = p.1 := by
  have hk : p.1 ∈ (groupInOrder fs).keys := List.mem_map_of_mem (f := (·.1)) hp
  rw [groupInOrder_keys, firstOccurrences] at hk
  rcases foldl_step_mem _ _ _ hk with h | h
  · simp at h
  · obtain ⟨f, hf, hfk⟩ := List.mem_map.mp h
    exact ⟨f, hf, hfk⟩

/-- response keys of the document's field selections are non-empty (they are GraphQL Names) -/
def KeysOK (P : Selection → Prop) : Prop := FieldNodesHave P (fun f => f.responseKey ≠ "")


def SimCompleteS (memo : Bool) (S : Schema) (D : Document) (P : Selection → Prop) (fuel : Nat) : Prop :=
  ∀ fuel' t fields f0 v path c s, CacheOK S D P c → FieldsIn P fields →
    Spec.completeValue S D fuel' t fields f0 v path = some s →
    SimS (completeValue memo S D fuel t fields f0 v path c) s ∧
    CacheOK S D P (completeValue memo S D fuel t fields f0 v path c).cache

def SimSelectionsS (memo : Bool) (S : Schema) (D : Document) (P : Selection → Prop) (fuel : Nat) : Prop :=
  ∀ fuel' o sels v path c s, CacheOK S D P c → S.object? o.name = some o → (∀ x ∈ sels, P x) →
    Spec.executeSelectionSet S D fuel' o sels v path = some s →
    SimS (execSelections memo S D fuel o sels v path c) s ∧
    CacheOK S D P (execSelections memo S D fuel o sels v path c).cache

theorem simSelectionsS_succ (memo : Bool) (S : Schema) (D : Document) (P : Selection → Prop) (hP : NodeSet D P)
    (hK : KeysOK P) (fuel : Nat) (ih : SimCompleteS memo S D P fuel) : SimSelectionsS memo S D P (fuel + 1) := by
  intro fuel' o sels v path c s hc ho hsels hs
  cases fuel' with
  | zero => simp [Spec.executeSelectionSet] at hs
  | succ fuel' =>
    simp only [Spec.executeSelectionSet] at hs
    cases hcs : Spec.collectFields S D o fuel' sels [] with
    | none => simp [hcs] at hs
    | some gv =>
      obtain ⟨g, vis⟩ := gv
      simp only [hcs] at hs
      cases hrs : g.mapM (Spec.executeEntry o v path (Spec.completeValue S D fuel')) with
      | none => simp [hrs] at hs
      | some rs =>
        simp only [hrs, Option.map_some, Option.some.injEq] at hs
        subst hs
        simp only [execSelections]
        cases hcm : collectFields memo S D fuel o sels c with
        | error st => exact ⟨simS_stuck _ _ _ _, hc⟩
        | ok gc =>
          obtain ⟨g', c'⟩ := gc
          simp only
          obtain ⟨hc', fuel0, fs, v0, he, hg'⟩ := collectFields_inv memo S D P hP fuel o sels c g' c' hc ho hsels hcm
          obtain ⟨hg, _⟩ := spec_collect_eq_expand S D o fuel0 fuel' sels [] fs v0 g vis he hcs
          have hgg : g' = g := by rw [hg', hg]
          subst hgg
          have hF : ∀ p ∈ g', FieldsIn P p.2 := by
            intro p hp
            rw [hg'] at hp
            exact groupInOrder_fieldsIn P fs (expand_fieldsIn S D o P hP fuel0 sels [] (fs, v0) hsels he) p hp
          have hKg : ∀ p ∈ g', p.1 ≠ "" := by
            intro p hp
            rw [hg'] at hp
            obtain ⟨f, hf, hfk⟩ := groupInOrder_key_mem fs p hp
            rw [← hfk]
            exact expand_all S D o P hP _ hK fuel0 sels [] (fs, v0) hsels he f hf
          have := execItems_simS (CacheOK S D P) (FieldsIn P) o v path
            (fun fields f0 t v p c => completeValue memo S D fuel t fields f0 v p c)
            (Spec.completeValue S D fuel') (fun fields f0 t v p c s hI hF h => ih fuel' t fields f0 v p c s hI hF h)
            g' [] [] c' rs hc' hF hKg hrs
          exact ⟨simS_of_simObjS _ _ this.1, this.2⟩

theorem simCompleteS_succ (memo : Bool) (S : Schema) (D : Document) (P : Selection → Prop)
    (fuel : Nat) (ihc : SimCompleteS memo S D P fuel) (ihs : SimSelectionsS memo S D P fuel) :
    SimCompleteS memo S D P (fuel + 1) := by
  intro fuel' t fields f0 v path c s hc hF hs
  cases fuel' with
  | zero => simp [Spec.completeValue] at hs
  | succ fuel' =>
    cases t with
    | nonNull inner =>
      simp only [Spec.completeValue] at hs
      rw [completeValue_nonNull]
      cases hin : Spec.completeValue S D fuel' inner fields f0 v path with
      | none => simp [hin] at hs
      | some r =>
        simp only [hin] at hs
        obtain ⟨hsim, hcache⟩ := ihc fuel' inner fields f0 v path c r hc hF hin
        have := simS_nonNull _ r f0 path hsim
        have hcache' : CacheOK S D P
            (match (completeValue memo S D fuel inner fields f0 v path c).r with
             | .ok .null => { completeValue memo S D fuel inner fields f0 v path c with r := .err (errAt f0 path .nullNonNull) }
             | _ => completeValue memo S D fuel inner fields f0 v path c).cache := by
          cases hr : (completeValue memo S D fuel inner fields f0 v path c).r with
          | ok j => cases j <;> exact hcache
          | err e => exact hcache
          | stuck st => exact hcache
        refine ⟨?_, hcache'⟩
        cases hd : r.data with
        | none =>
          simp only [hd, Option.some.injEq] at hs this
          subst hs
          exact this
        | some j =>
          cases j <;> simp only [hd, Option.some.injEq] at hs this <;> subst hs <;> exact this
    | list inner =>
      simp only [Spec.completeValue, isNullish_eq] at hs
      rw [completeValue_list]
      by_cases hnil : v.isNil = true
      · simp only [hnil, if_true, Option.some.injEq] at hs ⊢
        subst hs
        exact ⟨simS_completed _ rfl _, hc⟩
      · simp only [hnil, Bool.false_eq_true, if_false] at hs ⊢
        cases v with
        | list items =>
          simp only at hs ⊢
          cases hrs : (items.zipIdx).mapM (Spec.completeItem inner path (Spec.completeValue S D fuel' inner fields f0)) with
          | none => simp [hrs] at hs
          | some rs =>
            simp only [hrs, Option.map_some, Option.some.injEq] at hs
            subst hs
            rw [completeItemsWith_eq]
            simp only [List.nil_append]
            exact runItems_simS (CacheOK S D P) inner path (fun v p c => completeValue memo S D fuel inner fields f0 v p c)
              (Spec.completeValue S D fuel' inner fields f0) (fun v p c s hI h => ihc fuel' inner fields f0 v p c s hI hF h)
              items 0 c rs hc hrs
        | leaf g => simp only [Option.some.injEq] at hs ⊢; subst hs; exact ⟨simS_fieldError _ _, hc⟩
        | null => simp [RVal.isNil] at hnil
        | tnil => simp [RVal.isNil] at hnil
        | obj ty es => simp only [Option.some.injEq] at hs ⊢; subst hs; exact ⟨simS_fieldError _ _, hc⟩
    | named n =>
      simp only [Spec.completeValue, isNullish_eq] at hs
      rw [completeValue_named]
      by_cases hnil : v.isNil = true
      · simp only [hnil, if_true, Option.some.injEq] at hs ⊢
        subst hs
        exact ⟨simS_completed _ rfl _, hc⟩
      · simp only [hnil, Bool.false_eq_true, if_false] at hs ⊢
        have hmerge := mergeSelectionSets_in P fields hF
        cases hl : S.lookup n with
        | none => simp [hl] at hs
        | some td =>
          cases td with
          | scalar k =>
            simp only [hl] at hs ⊢
            cases v with
            | leaf g =>
              simp only [coerceScalar_eq] at hs ⊢
              cases hcr : Spec.resultCoerce k g with
              | some j =>
                simp only [hcr, Option.some.injEq] at hs ⊢; subst hs
                exact ⟨simS_completed _ (strip_resultCoerce k g j hcr) _, hc⟩
              | none => simp only [hcr, Option.some.injEq] at hs ⊢; subst hs; exact ⟨simS_fieldError _ _, hc⟩
            | null => simp [RVal.isNil] at hnil
            | tnil => simp [RVal.isNil] at hnil
            | list items => simp only [Option.some.injEq] at hs ⊢; subst hs; exact ⟨simS_fieldError _ _, hc⟩
            | obj ty es => simp only [Option.some.injEq] at hs ⊢; subst hs; exact ⟨simS_fieldError _ _, hc⟩
          | enum values =>
            simp only [hl] at hs ⊢
            cases v with
            | leaf g =>
              simp only [coerceEnum_eq] at hs ⊢
              cases hcr : Spec.enumCoerce values g with
              | some j =>
                simp only [hcr, Option.some.injEq] at hs ⊢; subst hs
                exact ⟨simS_completed _ (strip_enumCoerce values g j hcr) _, hc⟩
              | none => simp only [hcr, Option.some.injEq] at hs ⊢; subst hs; exact ⟨simS_fieldError _ _, hc⟩
            | null => simp [RVal.isNil] at hnil
            | tnil => simp [RVal.isNil] at hnil
            | list items => simp only [Option.some.injEq] at hs ⊢; subst hs; exact ⟨simS_fieldError _ _, hc⟩
            | obj ty es => simp only [Option.some.injEq] at hs ⊢; subst hs; exact ⟨simS_fieldError _ _, hc⟩
          | object fs is =>
            simp only [hl, mergeSelectionSets_eq] at hs ⊢
            exact ihs fuel' _ _ _ _ c s hc (object?_of_lookup S n fs is hl) hmerge hs
          | interface fs =>
            simp only [hl, mergeSelectionSets_eq, implementations_eq S n fs hl] at hs ⊢
            cases hf : (S.implementations n).find? (fun t => isTypeOf t v) with
            | none => simp only [hf, Option.some.injEq] at hs ⊢; subst hs; exact ⟨simS_fieldError _ _, hc⟩
            | some tn =>
              simp only [hf] at hs ⊢
              cases ho : S.object? tn with
              | none => simp [ho] at hs
              | some o =>
                simp only [ho] at hs ⊢
                exact ihs fuel' _ _ _ _ c s hc (object?_name S tn o ho) hmerge hs
          | union ms =>
            simp only [hl, mergeSelectionSets_eq, possibleTypes_union S n ms hl] at hs ⊢
            cases hf : ms.find? (fun t => isTypeOf t v) with
            | none => simp only [hf, Option.some.injEq] at hs ⊢; subst hs; exact ⟨simS_fieldError _ _, hc⟩
            | some tn =>
              simp only [hf] at hs ⊢
              cases ho : S.object? tn with
              | none => simp [ho] at hs
              | some o =>
                simp only [ho] at hs ⊢
                exact ihs fuel' _ _ _ _ c s hc (object?_name S tn o ho) hmerge hs

/-- **Refinement of the executor model as written (memo included) to the reference, for every
    document** whose selection nodes have distinct positions and non-empty response keys: data modulo
    blank slots, errors sandwiched. No typing hypothesis. -/
theorem simS_main (memo : Bool) (S : Schema) (D : Document) (P : Selection → Prop) (hP : NodeSet D P) (hK : KeysOK P)
    (fuel : Nat) : SimCompleteS memo S D P fuel ∧ SimSelectionsS memo S D P fuel := by
  induction fuel with
  | zero =>
    constructor
    · intro fuel' t fields f0 v path c s hc _ _
      simp only [completeValue]
      exact ⟨simS_stuck _ _ _ _, hc⟩
    · intro fuel' o sels v path c s hc _ _ _
      simp only [execSelections]
      exact ⟨simS_stuck _ _ _ _, hc⟩
  | succ fuel ih =>
    exact ⟨simCompleteS_succ memo S D P fuel ih.1 ih.2, simSelectionsS_succ memo S D P hP hK fuel ih.1⟩

/-- The whole request, without a typing hypothesis. -/
theorem execute_refinesS (memo : Bool) (S : Schema) (D : Document) (P : Selection → Prop) (hP : NodeSet D P) (hK : KeysOK P)
    (hops : ∀ op ∈ D.ops, ∀ s ∈ op.sels, P s)
    (fuel fuel' : Nat) (opName : String) (root : RVal) (resp : Response) (s : Spec.SOut)
    (hm : execute memo S D fuel opName root = .ok resp)
    (hs : Spec.executeRequest S D fuel' opName root = .executed s) :
    resp.data.map Json.strip = s.data ∧ s.req ⊆ₘ resp.errors ∧ resp.errors ⊆ₘ s.all := by
  unfold Spec.executeRequest at hs
  unfold execute at hm
  cases hgo : Spec.getOperation D opName with
  | none => simp [hgo] at hs
  | some op =>
    simp only [hgo, rootType_eq] at hs
    rw [(getOperation_agree D opName).1 op hgo] at hm
    simp only at hm
    cases hroot : (rootTypeName S op.kind).bind S.object? with
    | none => simp [hroot] at hs
    | some o =>
      simp only [hroot] at hs hm
      have ho : S.object? o.name = some o := by
        cases hk : rootTypeName S op.kind with
        | none => simp [hk] at hroot
        | some tn =>
          simp only [hk, Option.bind_some] at hroot
          exact object?_name S tn o hroot
      cases hss : Spec.executeSelectionSet S D fuel' o op.sels root [] with
      | none => simp [hss] at hs
      | some s' =>
        simp only [hss, Spec.Result.executed.injEq] at hs
        subst hs
        have hsim := ((simS_main memo S D P hP hK fuel).2 fuel' o op.sels root [] [] s' (cacheOK_nil S D P) ho
          (hops op (spec_getOperation_mem D opName op hgo)) hss).1
        unfold SimS at hsim
        cases hr : (execSelections memo S D fuel o op.sels root [] []).r with
        | stuck st => simp [hr] at hm
        | ok j =>
          simp only [hr, Except.ok.injEq] at hm hsim
          subst hm
          exact ⟨hsim.1.symm, hsim.2.1, hsim.2.2⟩
        | err e =>
          simp only [hr, Except.ok.injEq] at hm hsim
          subst hm
          refine ⟨hsim.1.symm, ?_, hsim.2.2⟩
          rw [hsim.2.1]
          exact SubMulti.append_left _ (SubMulti.refl _)


/-- a field selection's response key is non-empty (aliases and names are GraphQL Names) -/
def Selection.keyOK : Selection → Prop
  | .field _ alias name _ _ _ _ => alias.getD name ≠ ""
  | _ => True

instance (s : Selection) : Decidable s.keyOK := by
  cases s <;> simp only [Selection.keyOK] <;> exact inferInstance

theorem keysOK_of_nodes (D : Document) (h : ∀ s ∈ D.nodes, s.keyOK) : KeysOK (· ∈ D.nodes) := by
  intro pos alias name wkey ae dirs sub hm
  have := h _ hm
  simp only [Selection.keyOK] at this
  simp only [FieldNode.responseKey]
  cases alias <;> simpa using this

/-! ### fuel sufficiency: documents without fragment cycles -/

/-- A descent certificate: every step the executor takes from a selection node — into a field's or
    inline fragment's sub-selections, or from a spread into the fragment's selections — lowers `lvl`.
    A document has one exactly when its fragment spreads form no cycle (validation rule
    NoFragmentCycles). -/
structure Descends (D : Document) (P : Selection → Prop) (lvl : Selection → Nat) : Prop where
  field : ∀ pos alias name wkey ae dirs sub, P (.field pos alias name wkey ae dirs sub) →
    ∀ s ∈ sub, lvl s < lvl (.field pos alias name wkey ae dirs sub)
  inline : ∀ pos tc dirs sub, P (.inline pos tc dirs sub) → ∀ s ∈ sub, lvl s < lvl (.inline pos tc dirs sub)
  spread : ∀ pos name dirs fr, P (.spread pos name dirs) → D.frag? name = some fr →
    ∀ s ∈ fr.sels, lvl s < lvl (.spread pos name dirs)

def NotOof : Except Stuck α → Prop
  | .error .outOfFuel => False
  | _ => True

theorem collectStep_notOof (S : Schema) (D : Document) (o : ObjT) (P : Selection → Prop) (hP : NodeSet D P)
    (lvl : Selection → Nat) (hL : Descends D P lvl) (fuel : Nat)
    (recur : List Selection → CState → Except Stuck CState)
    (hrec : ∀ sels st, (∀ s ∈ sels, P s ∧ lvl s + 2 ≤ fuel) → 1 ≤ fuel → NotOof (recur sels st))
    (st : CState) (sel : Selection) (hsel : P sel) (hl : lvl sel + 1 ≤ fuel) :
    NotOof (collectStep S D o recur st sel) := by
  unfold collectStep
  by_cases hs : skipped sel.dirs = true
  · simp [hs, NotOof, pure, Except.pure]
  · simp only [hs, Bool.false_eq_true, if_false]
    have hfuel : 1 ≤ fuel := by omega
    cases sel with
    | field pos alias name wkey argErr dirs sub => simp [NotOof, pure, Except.pure]
    | spread pos name dirs =>
      simp only
      by_cases hv : name ∈ st.visited
      · simp [hv, NotOof, pure, Except.pure]
      · simp only [List.contains_eq_mem, hv, decide_false, Bool.false_eq_true, if_false]
        cases hf : D.frag? name with
        | none => simp [NotOof, pure, Except.pure]
        | some fr =>
          simp only
          cases ha : fragmentApplies S o fr.tc with
          | no => simp [NotOof, pure, Except.pure]
          | panic => simp [NotOof]
          | yes =>
            simp only
            apply hrec _ _ _ hfuel
            intro s hs'
            refine ⟨hP.frags fr (frag?_mem D name fr hf) s hs', ?_⟩
            have := hL.spread pos name dirs fr hsel hf s hs'
            omega
    | inline pos tc dirs sub =>
      have hsub : ∀ s ∈ sub, P s ∧ lvl s + 2 ≤ fuel := by
        intro s hs'
        refine ⟨hP.inline_sub _ _ _ _ hsel s hs', ?_⟩
        have := hL.inline pos tc dirs sub hsel s hs'
        omega
      cases tc with
      | none => exact hrec _ _ hsub hfuel
      | some tc =>
        simp only
        cases ha : fragmentApplies S o tc with
        | no => simp [NotOof, pure, Except.pure]
        | panic => simp [NotOof]
        | yes => exact hrec _ _ hsub hfuel

theorem collectImpl_notOof (S : Schema) (D : Document) (o : ObjT) (P : Selection → Prop) (hP : NodeSet D P)
    (lvl : Selection → Nat) (hL : Descends D P lvl) (fuel : Nat) (sels : List Selection) (st : CState)
    (hsels : ∀ s ∈ sels, P s ∧ lvl s + 2 ≤ fuel) (hfuel : 1 ≤ fuel) :
    NotOof (collectImpl S D o fuel sels st) := by
  induction fuel generalizing sels st with
  | zero => omega
  | succ fuel ih =>
    rw [collectImpl]
    have fold : ∀ (sels : List Selection) (st : CState), (∀ s ∈ sels, P s ∧ lvl s + 1 ≤ fuel) →
        NotOof (sels.foldlM (collectStep S D o (collectImpl S D o fuel)) st) := by
      intro sels
      induction sels with
      | nil => intro st _; simp [NotOof, pure, Except.pure]
      | cons sel rest ihl =>
        intro st hs
        simp only [List.foldlM_cons]
        have h1 := collectStep_notOof S D o P hP lvl hL fuel (collectImpl S D o fuel)
          (fun sels st h hf => ih sels st h hf) st sel (hs sel (List.mem_cons_self ..)).1 (hs sel (List.mem_cons_self ..)).2
        cases hstep : collectStep S D o (collectImpl S D o fuel) st sel with
        | error e =>
          rw [hstep] at h1
          simp only [bind, Except.bind]
          exact h1
        | ok st1 =>
          simp only [bind, Except.bind]
          exact ihl st1 (fun s hs' => hs s (List.mem_cons_of_mem _ hs'))
    apply fold
    intro s hs
    have := hsels s hs
    exact ⟨this.1, by omega⟩


theorem catch_r_stuck (t : TypeRef) (out : Out) (st : Stuck) (h : (catchIfNullable t out).r = .stuck st) : out.r = .stuck st := by
  cases t with
  | nonNull t => exact h
  | named n => simp only [catchIfNullable] at h; cases hr : out.r <;> simp_all
  | list t => simp only [catchIfNullable] at h; cases hr : out.r <;> simp_all

theorem execItemsWith_notOof (I : Cache → Prop) (o : ObjT) (path : Path)
    (field : List FieldNode → FieldNode → FieldDef → Path → Cache → Out)
    (g : Grouped) (acc : List (String × Json)) (errs : List Err) (c : Cache)
    (H : ∀ p ∈ g, ∀ fn fd pth c, I c → p.2.head? = some fn → o.getField fn.name = some fd →
      (field p.2 fn fd pth c).r ≠ .stuck .outOfFuel ∧ I (field p.2 fn fd pth c).cache)
    (hI : I c) :
    (execItemsWith o path field g acc errs c).r ≠ .stuck .outOfFuel ∧ I (execItemsWith o path field g acc errs c).cache := by
  induction g generalizing acc errs c with
  | nil => simp [execItemsWith, hI]
  | cons p rest ih =>
    obtain ⟨key, fields⟩ := p
    have Hrest : ∀ p ∈ rest, ∀ fn fd pth c, I c → p.2.head? = some fn → o.getField fn.name = some fd →
        (field p.2 fn fd pth c).r ≠ .stuck .outOfFuel ∧ I (field p.2 fn fd pth c).cache :=
      fun p hp => H p (List.mem_cons_of_mem _ hp)
    simp only [execItemsWith]
    cases hh : fields.head? with
    | none => simp [hI]
    | some fn =>
      simp only
      by_cases htn : (fn.name == "__typename") = true
      · simp only [htn, if_true]; exact ih _ _ _ Hrest hI
      · simp only [htn, Bool.false_eq_true, if_false]
        cases hfd : o.getField fn.name with
        | none => simp only; exact ih _ _ _ Hrest hI
        | some fd =>
          simp only
          obtain ⟨h1, h2⟩ := H (key, fields) (List.mem_cons_self ..) fn fd (path ++ [.key key]) c hI hh hfd
          have h2' : I (catchIfNullable fd.type (field fields fn fd (path ++ [.key key]) c)).cache := by
            rw [catch_cache]; exact h2
          cases hr : (catchIfNullable fd.type (field fields fn fd (path ++ [.key key]) c)).r with
          | ok j => simp only; exact ih _ _ _ Hrest h2'
          | err e => simp only; exact ⟨by simp, h2'⟩
          | stuck st =>
            simp only
            refine ⟨?_, h2'⟩
            intro hst
            simp only [R.stuck.injEq] at hst
            subst hst
            exact h1 (catch_r_stuck _ _ _ hr)

theorem joinResults_oof (rs : List R) (h : joinResults rs = .stuck .outOfFuel) : .stuck .outOfFuel ∈ rs := by
  simp only [joinResults] at h
  cases hf : rs.findSome? R.stuck? with
  | none =>
    simp only [hf] at h
    cases he : rs.findSome? R.err? with
    | none => rw [he] at h; exact absurd h (by simp)
    | some e => rw [he] at h; exact absurd h (by simp)
  | some st =>
    simp only [hf, R.stuck.injEq] at h
    subst h
    obtain ⟨r, hr, hs⟩ := List.exists_of_findSome?_eq_some hf
    cases r with
    | ok j => simp [R.stuck?] at hs
    | err e => simp [R.stuck?] at hs
    | stuck st => simp only [R.stuck?, Option.some.injEq] at hs; subst hs; exact hr

theorem runItems_notOof (I : Cache → Prop) (inner : TypeRef) (path : Path) (item : RVal → Path → Cache → Out)
    (H : ∀ v p c, I c → (item v p c).r ≠ .stuck .outOfFuel ∧ I (item v p c).cache)
    (items : List RVal) (i : Nat) (c : Cache) (hI : I c) :
    (∀ r ∈ (runItems inner path item items i c).1, r ≠ .stuck .outOfFuel) ∧ I (runItems inner path item items i c).2.2 := by
  induction items generalizing i c with
  | nil => simp [runItems, hI]
  | cons v rest ih =>
    simp only [runItems]
    obtain ⟨h1, h2⟩ := H v (path ++ [.idx i]) c hI
    have h2' : I (catchIfNullable inner (item v (path ++ [.idx i]) c)).cache := by rw [catch_cache]; exact h2
    obtain ⟨ih1, ih2⟩ := ih (i + 1) _ h2'
    refine ⟨?_, ih2⟩
    intro r hr
    rcases List.mem_cons.mp hr with hr | hr
    · rw [hr]
      intro hst
      exact h1 (catch_r_stuck _ _ _ hst)
    · exact ih1 r hr

theorem foldl_max_le (l : List Nat) (init : Nat) : init ≤ l.foldl max init ∧ ∀ x ∈ l, x ≤ l.foldl max init := by
  induction l generalizing init with
  | nil => simp
  | cons a rest ih =>
    simp only [List.foldl_cons]
    obtain ⟨h1, h2⟩ := ih (max init a)
    refine ⟨by omega, ?_⟩
    intro x hx
    rcases List.mem_cons.mp hx with rfl | hx
    · omega
    · exact h2 x hx

theorem foldl_max_map_le {α : Type} (f : α → Nat) (l : List α) (init : Nat) (x : α) (hx : x ∈ l) :
    f x ≤ l.foldl (fun m a => max m (f a)) init := by
  have : l.foldl (fun m a => max m (f a)) init = (l.map f).foldl max init := by
    rw [List.foldl_map]
  rw [this]
  exact (foldl_max_le (l.map f) init).2 _ (List.mem_map_of_mem (f := f) hx)

theorem wrappers_le_max (S : Schema) (n : String) (o : ObjT) (ho : S.object? n = some o) (fd : FieldDef) (hfd : fd ∈ o.fields) :
    fd.type.wrappers ≤ S.maxWrappers := by
  unfold Schema.object? at ho
  cases hl : S.lookup n with
  | none => simp [hl] at ho
  | some td =>
    cases td with
    | object fs is =>
      simp only [hl, Option.some.injEq] at ho
      subst ho
      -- the type definition is an element of S.types
      unfold Schema.lookup at hl
      cases hf : S.types.find? (fun p => p.1 == n) with
      | none => simp [hf] at hl
      | some p =>
        simp only [hf, Option.some.injEq] at hl
        have hm := List.mem_of_find?_eq_some hf
        have h1 : fd.type.wrappers ≤ p.2.maxWrappers := by
          rw [hl]
          exact foldl_max_map_le (fun f => f.type.wrappers) fs 0 fd hfd
        have h2 : p.2.maxWrappers ≤ S.maxWrappers := foldl_max_map_le (fun p => p.2.maxWrappers) S.types 0 p hm
        omega
    | scalar k => simp [hl] at ho
    | interface fs => simp [hl] at ho
    | union ms => simp [hl] at ho
    | enum vs => simp [hl] at ho


/-- the sub-selections of these field nodes are document nodes of level below `B` -/
def SubBound (P : Selection → Prop) (lvl : Selection → Nat) (B : Nat) (fields : List FieldNode) : Prop :=
  ∀ f ∈ fields, ∀ t ∈ f.sels, P t ∧ lvl t < B

theorem expandStep_bound (S : Schema) (D : Document) (o : ObjT) (P : Selection → Prop) (hP : NodeSet D P)
    (lvl : Selection → Nat) (hL : Descends D P lvl) (B : Nat)
    (recur : List Selection → List String → Except Stuck Expanded)
    (hrec : ∀ sels vis r, (∀ s ∈ sels, P s ∧ lvl s ≤ B) → recur sels vis = .ok r → SubBound P lvl B r.1)
    (acc : Expanded) (sel : Selection) (r : Expanded) (hacc : SubBound P lvl B acc.1) (hsel : P sel) (hl : lvl sel ≤ B)
    (h : expandStep S D o recur acc sel = .ok r) : SubBound P lvl B r.1 := by
  unfold expandStep at h
  by_cases hs : skipped sel.dirs
  · simp only [hs, if_true, Except.ok.injEq] at h; subst h; exact hacc
  · simp only [hs, Bool.false_eq_true, if_false] at h
    have happ : ∀ (fs : List FieldNode), SubBound P lvl B fs → SubBound P lvl B (acc.1 ++ fs) := by
      intro fs hfs f hf
      rcases List.mem_append.mp hf with h1 | h1
      · exact hacc f h1
      · exact hfs f h1
    cases sel with
    | field pos alias name wkey argErr dirs sub =>
      simp only [Except.ok.injEq] at h
      subst h
      apply happ
      intro f hf t ht
      simp only [List.mem_singleton] at hf
      subst hf
      refine ⟨hP.field_sub _ _ _ _ _ _ _ hsel t ht, ?_⟩
      have := hL.field _ _ _ _ _ _ _ hsel t ht
      omega
    | spread pos name dirs =>
      by_cases hv : acc.2.contains name = true
      · simp only [hv, if_true, Except.ok.injEq] at h; subst h; exact hacc
      · simp only [hv, Bool.false_eq_true, if_false] at h
        cases hf : D.frag? name with
        | none => simp only [hf, Except.ok.injEq] at h; subst h; exact hacc
        | some fr =>
          simp only [hf] at h
          cases ha : fragmentApplies S o fr.tc with
          | no => simp only [ha, Except.ok.injEq] at h; subst h; exact hacc
          | panic => simp [ha] at h
          | yes =>
            simp only [ha] at h
            cases hr : recur fr.sels (name :: acc.2) with
            | error e => simp [hr] at h
            | ok r' =>
              simp only [hr, Except.ok.injEq] at h
              subst h
              apply happ
              apply hrec _ _ _ _ hr
              intro s' hs'
              refine ⟨hP.frags fr (frag?_mem D name fr hf) s' hs', ?_⟩
              have := hL.spread pos name dirs fr hsel hf s' hs'
              omega
    | inline pos tc dirs sub =>
      have hsub : ∀ s' ∈ sub, P s' ∧ lvl s' ≤ B := by
        intro s' hs'
        refine ⟨hP.inline_sub _ _ _ _ hsel s' hs', ?_⟩
        have := hL.inline pos tc dirs sub hsel s' hs'
        omega
      have key : ∀ (h' : (match recur sub acc.2 with
                          | .ok r => Except.ok (acc.1 ++ r.1, r.2)
                          | .error e => Except.error e) = Except.ok r), SubBound P lvl B r.1 := by
        intro h'
        cases hr : recur sub acc.2 with
        | error e => simp [hr] at h'
        | ok r' =>
          simp only [hr, Except.ok.injEq] at h'
          subst h'
          exact happ _ (hrec _ _ _ hsub hr)
      cases tc with
      | none => exact key h
      | some tc =>
        simp only at h
        cases ha : fragmentApplies S o tc with
        | no => simp only [ha, Except.ok.injEq] at h; subst h; exact hacc
        | panic => simp [ha] at h
        | yes => simp only [ha] at h; exact key h

theorem expand_bound (S : Schema) (D : Document) (o : ObjT) (P : Selection → Prop) (hP : NodeSet D P)
    (lvl : Selection → Nat) (hL : Descends D P lvl) (B : Nat)
    (fuel : Nat) (sels : List Selection) (vis : List String) (r : Expanded)
    (hsels : ∀ s ∈ sels, P s ∧ lvl s ≤ B) (h : expand S D o fuel sels vis = .ok r) : SubBound P lvl B r.1 := by
  induction fuel generalizing sels vis r with
  | zero => simp [expand] at h
  | succ fuel ih =>
    simp only [expand] at h
    have fold : ∀ (sels : List Selection) (acc r : Expanded), (∀ s ∈ sels, P s ∧ lvl s ≤ B) → SubBound P lvl B acc.1 →
        sels.foldlM (expandStep S D o (expand S D o fuel)) acc = .ok r → SubBound P lvl B r.1 := by
      intro sels
      induction sels with
      | nil =>
        intro acc r _ hacc h
        simp only [List.foldlM_nil, pure, Except.pure, Except.ok.injEq] at h
        subst h; exact hacc
      | cons sel rest ihl =>
        intro acc r hs hacc h
        simp only [List.foldlM_cons] at h
        cases h1 : expandStep S D o (expand S D o fuel) acc sel with
        | error e => simp [h1, bind, Except.bind] at h
        | ok acc' =>
          simp only [h1, bind, Except.bind] at h
          have hacc' := expandStep_bound S D o P hP lvl hL B _ (fun sels vis r hs hr => ih sels vis r hs hr) acc sel acc' hacc
            (hs sel (List.mem_cons_self ..)).1 (hs sel (List.mem_cons_self ..)).2 h1
          exact ihl acc' r (fun s hs' => hs s (List.mem_cons_of_mem _ hs')) hacc' h
    exact fold sels ([], vis) r hsels (by intro f hf; simp at hf) h

theorem groupInOrder_subBound (P : Selection → Prop) (lvl : Selection → Nat) (B : Nat) (fs : List FieldNode)
    (h : SubBound P lvl B fs) (p : String × List FieldNode) (hp : p ∈ groupInOrder fs) : SubBound P lvl B p.2 := by
  intro f hf
  rcases foldl_appendNode_mem fs [] p.1 p.2 hp f hf with h1 | ⟨_, _, h2, _⟩
  · exact h f h1
  · simp at h2


/-- fuel that suffices to execute selections of level below `L` (W = deepest list/non-null nesting
    of a field type of the schema) -/
def needSel (W L : Nat) : Nat := L * (W + 3) + 3

def NoOofC (memo : Bool) (S : Schema) (D : Document) (P : Selection → Prop) (lvl : Selection → Nat) (fuel : Nat) : Prop :=
  ∀ t fields f0 v path c L, CacheOK S D P c → SubBound P lvl L fields →
    t.wrappers + needSel S.maxWrappers L + 1 ≤ fuel →
    (completeValue memo S D fuel t fields f0 v path c).r ≠ .stuck .outOfFuel ∧
    CacheOK S D P (completeValue memo S D fuel t fields f0 v path c).cache

def NoOofS (memo : Bool) (S : Schema) (D : Document) (P : Selection → Prop) (lvl : Selection → Nat) (fuel : Nat) : Prop :=
  ∀ o sels v path c L, CacheOK S D P c → S.object? o.name = some o → (∀ s ∈ sels, P s ∧ lvl s < L) →
    needSel S.maxWrappers L ≤ fuel →
    (execSelections memo S D fuel o sels v path c).r ≠ .stuck .outOfFuel ∧
    CacheOK S D P (execSelections memo S D fuel o sels v path c).cache

theorem expand_nil (S : Schema) (D : Document) (o : ObjT) (fuel : Nat) (vis : List String) (r : Expanded)
    (h : expand S D o fuel [] vis = .ok r) : r.1 = [] := by
  cases fuel with
  | zero => simp [expand] at h
  | succ fuel =>
    simp only [expand, List.foldlM_nil, pure, Except.pure, Except.ok.injEq] at h
    rw [← h]

theorem collectFields_error_notOof (memo : Bool) (S : Schema) (D : Document) (P : Selection → Prop) (hP : NodeSet D P)
    (lvl : Selection → Nat) (hL : Descends D P lvl) (fuel : Nat) (o : ObjT) (sels : List Selection) (c : Cache) (st : Stuck)
    (hsels : ∀ s ∈ sels, P s ∧ lvl s + 2 ≤ fuel) (hfuel : 1 ≤ fuel)
    (h : collectFields memo S D fuel o sels c = .error st) : st ≠ .outOfFuel := by
  unfold collectFields at h
  simp only at h
  cases hget : (if memo = true then c.get? (cacheKey o sels) else none) with
  | some g => simp [hget] at h
  | none =>
    simp only [hget] at h
    have hn := collectImpl_notOof S D o P hP lvl hL fuel sels { visited := [], grouped := [] } hsels hfuel
    cases hc : collectImpl S D o fuel sels { visited := [], grouped := [] } with
    | ok st' => simp [hc] at h
    | error e =>
      simp only [hc, Except.error.injEq] at h
      subst h
      rw [hc] at hn
      intro he
      subst he
      exact hn

theorem noOofS_succ (memo : Bool) (S : Schema) (D : Document) (P : Selection → Prop) (hP : NodeSet D P)
    (lvl : Selection → Nat) (hL : Descends D P lvl) (fuel : Nat) (ih : NoOofC memo S D P lvl fuel) :
    NoOofS memo S D P lvl (fuel + 1) := by
  intro o sels v path c L hc ho hsels hfuel
  rw [execSelections_succ]
  unfold needSel at hfuel
  have hmul : L ≤ L * (S.maxWrappers + 3) := Nat.le_mul_of_pos_right L (by omega)
  cases hcm : collectFields memo S D fuel o sels c with
  | error st =>
    simp only
    refine ⟨?_, hc⟩
    intro hst
    simp only [R.stuck.injEq] at hst
    subst hst
    refine collectFields_error_notOof memo S D P hP lvl hL fuel o sels c _ ?_ (by omega) hcm rfl
    intro s hs
    have := hsels s hs
    exact ⟨this.1, by omega⟩
  | ok gc =>
    obtain ⟨g', c'⟩ := gc
    simp only
    obtain ⟨hc', fuel0, fs, v0, he, hg'⟩ := collectFields_inv memo S D P hP fuel o sels c g' c' hc ho
      (fun s hs => (hsels s hs).1) hcm
    by_cases hL0 : L = 0
    · -- no selection has a level below 0: nothing to execute
      have hnil : sels = [] := by
        apply List.eq_nil_iff_forall_not_mem.mpr
        intro s hs
        have := (hsels s hs).2
        omega
      subst hnil
      have := expand_nil S D o fuel0 [] (fs, v0) he
      simp only at this
      subst this
      subst hg'
      simp only [groupInOrder, List.foldl_nil, execItemsWith]
      exact ⟨by simp, hc'⟩
    · have hbound : SubBound P lvl (L - 1) fs :=
        expand_bound S D o P hP lvl hL (L - 1) fuel0 sels [] (fs, v0)
          (fun s hs => ⟨(hsels s hs).1, by have := (hsels s hs).2; omega⟩) he
      apply execItemsWith_notOof (CacheOK S D P)
      · intro p hp fn fd pth c hIc hh hfd
        have hpb : SubBound P lvl (L - 1) p.2 := by
          rw [hg'] at hp
          exact groupInOrder_subBound P lvl (L - 1) fs hbound p hp
        unfold execFieldWith
        cases hae : fn.argErr with
        | some ae => exact ⟨by simp, hIc⟩
        | none =>
          simp only
          cases hres : resolve v fn.wkey with
          | err m => exact ⟨by simp, hIc⟩
          | val rv =>
            simp only
            apply ih fd.type p.2 fn rv pth c (L - 1) hIc hpb
            have hw : fd.type.wrappers ≤ S.maxWrappers := by
              apply wrappers_le_max S o.name o ho fd
              rw [getField_eq] at hfd
              exact List.mem_of_find?_eq_some hfd
            unfold needSel
            have : L = (L - 1) + 1 := by omega
            have hexp : L * (S.maxWrappers + 3) = (L - 1) * (S.maxWrappers + 3) + (S.maxWrappers + 3) := by
              conv => lhs; rw [this, Nat.add_mul, Nat.one_mul]
            omega
      · exact hc'


theorem subBound_merge (P : Selection → Prop) (lvl : Selection → Nat) (L : Nat) (fields : List FieldNode)
    (h : SubBound P lvl L fields) : ∀ s ∈ mergeSelectionSets fields, P s ∧ lvl s < L := by
  intro s hs
  simp only [mergeSelectionSets, List.mem_flatMap] at hs
  obtain ⟨f, hf, hs⟩ := hs
  exact h f hf s hs

theorem noOofC_succ (memo : Bool) (S : Schema) (D : Document) (P : Selection → Prop) (lvl : Selection → Nat)
    (fuel : Nat) (ihc : NoOofC memo S D P lvl fuel) (ihs : NoOofS memo S D P lvl fuel) :
    NoOofC memo S D P lvl (fuel + 1) := by
  intro t fields f0 v path c L hc hb hfuel
  cases t with
  | nonNull inner =>
    rw [completeValue_nonNull]
    simp only [TypeRef.wrappers] at hfuel
    obtain ⟨h1, h2⟩ := ihc inner fields f0 v path c L hc hb (by omega)
    cases hr : (completeValue memo S D fuel inner fields f0 v path c).r with
    | ok j =>
      cases j with
      | null => simp only; exact ⟨by simp, h2⟩
      | bool b => simp only; exact ⟨h1, h2⟩
      | int z => simp only; exact ⟨h1, h2⟩
      | num m e => simp only; exact ⟨h1, h2⟩
      | str x => simp only; exact ⟨h1, h2⟩
      | arr xs => simp only; exact ⟨h1, h2⟩
      | obj kvs => simp only; exact ⟨h1, h2⟩
    | err e => simp only; exact ⟨h1, h2⟩
    | stuck st => simp only; exact ⟨h1, h2⟩
  | list inner =>
    rw [completeValue_list]
    simp only [TypeRef.wrappers] at hfuel
    by_cases hnil : v.isNil = true
    · simp only [hnil, if_true]; exact ⟨by simp, hc⟩
    · simp only [hnil, Bool.false_eq_true, if_false]
      cases v with
      | list items =>
        simp only
        rw [completeItemsWith_eq]
        simp only [List.nil_append]
        obtain ⟨h1, h2⟩ := runItems_notOof (CacheOK S D P) inner path
          (fun v p c => completeValue memo S D fuel inner fields f0 v p c)
          (fun v p c hI => ihc inner fields f0 v p c L hI hb (by omega)) items 0 c hc
        refine ⟨?_, h2⟩
        intro hj
        exact h1 _ (joinResults_oof _ hj) rfl
      | leaf g => exact ⟨by simp, hc⟩
      | null => exact ⟨by simp, hc⟩
      | tnil => exact ⟨by simp, hc⟩
      | obj ty es => exact ⟨by simp, hc⟩
  | named n =>
    rw [completeValue_named]
    simp only [TypeRef.wrappers, Nat.zero_add] at hfuel
    have hmerge := subBound_merge P lvl L fields hb
    by_cases hnil : v.isNil = true
    · simp only [hnil, if_true]; exact ⟨by simp, hc⟩
    · simp only [hnil, Bool.false_eq_true, if_false]
      cases hl : S.lookup n with
      | none => exact ⟨by simp, hc⟩
      | some td =>
        cases td with
        | scalar k =>
          simp only
          cases v with
          | leaf g => simp only; cases coerceScalar k g <;> exact ⟨by simp, hc⟩
          | null => exact ⟨by simp, hc⟩
          | tnil => exact ⟨by simp, hc⟩
          | list items => exact ⟨by simp, hc⟩
          | obj ty es => exact ⟨by simp, hc⟩
        | enum values =>
          simp only
          cases v with
          | leaf g => simp only; cases coerceEnum values g <;> exact ⟨by simp, hc⟩
          | null => exact ⟨by simp, hc⟩
          | tnil => exact ⟨by simp, hc⟩
          | list items => exact ⟨by simp, hc⟩
          | obj ty es => exact ⟨by simp, hc⟩
        | object fs is =>
          simp only
          exact ihs _ _ _ _ c L hc (object?_of_lookup S n fs is hl) hmerge (by omega)
        | interface fs =>
          simp only
          cases hf : (S.implementations n).find? (fun t => isTypeOf t v) with
          | none => exact ⟨by simp, hc⟩
          | some tn =>
            simp only
            cases ho : S.object? tn with
            | none => exact ⟨by simp, hc⟩
            | some o => simp only; exact ihs _ _ _ _ c L hc (object?_name S tn o ho) hmerge (by omega)
        | union ms =>
          simp only
          cases hf : ms.find? (fun t => isTypeOf t v) with
          | none => exact ⟨by simp, hc⟩
          | some tn =>
            simp only
            cases ho : S.object? tn with
            | none => exact ⟨by simp, hc⟩
            | some o => simp only; exact ihs _ _ _ _ c L hc (object?_name S tn o ho) hmerge (by omega)

theorem noOof_main (memo : Bool) (S : Schema) (D : Document) (P : Selection → Prop) (hP : NodeSet D P)
    (lvl : Selection → Nat) (hL : Descends D P lvl) (fuel : Nat) :
    NoOofC memo S D P lvl fuel ∧ NoOofS memo S D P lvl fuel := by
  induction fuel with
  | zero =>
    constructor
    · intro t fields f0 v path c L _ _ hfuel; unfold needSel at hfuel; omega
    · intro o sels v path c L _ _ _ hfuel; unfold needSel at hfuel; omega
  | succ fuel ih => exact ⟨noOofC_succ memo S D P lvl fuel ih.1 ih.2, noOofS_succ memo S D P hP lvl hL fuel ih.1⟩

/-- With a descent certificate of height `L` for the operation's selections, `needSel W L` fuel is
    enough: the run never ends in `outOfFuel`. -/
theorem execute_notOof (memo : Bool) (S : Schema) (D : Document) (P : Selection → Prop) (hP : NodeSet D P)
    (lvl : Selection → Nat) (hL : Descends D P lvl) (L : Nat)
    (hops : ∀ op ∈ D.ops, ∀ s ∈ op.sels, P s ∧ lvl s < L)
    (fuel : Nat) (hfuel : needSel S.maxWrappers L ≤ fuel) (opName : String) (root : RVal) :
    execute memo S D fuel opName root ≠ .error .outOfFuel := by
  unfold execute
  cases hgo : getOperation D opName with
  | error e => simp
  | ok op =>
    simp only
    cases hroot : (rootTypeName S op.kind).bind S.object? with
    | none => simp
    | some o =>
      simp only
      have ho : S.object? o.name = some o := by
        cases hk : rootTypeName S op.kind with
        | none => simp [hk] at hroot
        | some tn =>
          simp only [hk, Option.bind_some] at hroot
          exact object?_name S tn o hroot
      have hop : op ∈ D.ops := by
        -- the selected operation is one of the document's
        have : ∀ (ops : List Op) (found : Option Op) (r : Op), getOperation.go opName ops found = .ok r →
            r ∈ ops ∨ found = some r := by
          intro ops
          induction ops with
          | nil => intro found r h; cases found <;> simp [getOperation.go] at h; exact Or.inr (by rw [h])
          | cons a rest ihl =>
            intro found r h
            simp only [getOperation.go] at h
            split at h
            · cases found with
              | some f => simp at h
              | none =>
                simp only at h
                rcases ihl _ _ h with h1 | h1
                · exact Or.inl (List.mem_cons_of_mem _ h1)
                · simp only [Option.some.injEq] at h1; exact Or.inl (by rw [h1]; exact List.mem_cons_self ..)
            · rcases ihl _ _ h with h1 | h1
              · exact Or.inl (List.mem_cons_of_mem _ h1)
              · exact Or.inr h1
        unfold getOperation at hgo
        rcases this _ _ _ hgo with h1 | h1
        · exact h1
        · simp at h1
      obtain ⟨h1, _⟩ := (noOof_main memo S D P hP lvl hL fuel).2 o op.sels root [] [] L (cacheOK_nil S D P) ho (hops op hop) hfuel
      cases hr : (execSelections memo S D fuel o op.sels root [] []).r with
      | ok j => simp
      | err e => simp
      | stuck st =>
        simp only [ne_eq, Except.error.injEq]
        intro hst
        subst hst
        exact h1 hr


/-- a decidable test of the descent condition over the document's nodes -/
def Document.descentCheck (D : Document) (lvl : Selection → Nat) : Bool :=
  D.nodes.all fun s =>
    match s with
    | .field _ _ _ _ _ _ sub => sub.all fun t => decide (lvl t < lvl s)
    | .inline _ _ _ sub => sub.all fun t => decide (lvl t < lvl s)
    | .spread _ name _ =>
      match D.frag? name with
      | some fr => fr.sels.all fun t => decide (lvl t < lvl s)
      | none => true

theorem descends_of_check (D : Document) (lvl : Selection → Nat) (h : D.descentCheck lvl = true) :
    Descends D (· ∈ D.nodes) lvl := by
  unfold Document.descentCheck at h
  rw [List.all_eq_true] at h
  refine ⟨?_, ?_, ?_⟩
  · intro pos alias name wkey ae dirs sub hm s hs
    have := h _ hm
    simp only [List.all_eq_true, decide_eq_true_eq] at this
    exact this s hs
  · intro pos tc dirs sub hm s hs
    have := h _ hm
    simp only [List.all_eq_true, decide_eq_true_eq] at this
    exact this s hs
  · intro pos name dirs fr hm hf s hs
    have := h _ hm
    simp only [hf, List.all_eq_true, decide_eq_true_eq] at this
    exact this s hs

/-! ### totality of the model: no stuck outcome on cycle-free documents over closed schemas -/

def TypeRef.base : TypeRef → String
  | .named n => n
  | .list t => t.base
  | .nonNull t => t.base

/-- what `schema.New` guarantees by construction (Go pointers cannot dangle): every field type names a
    type of the schema, implementations and union members are object types -/
structure SchemaClosed (S : Schema) : Prop where
  fields : ∀ n o, S.object? n = some o → ∀ fd ∈ o.fields, S.lookup fd.type.base ≠ none
  impls : ∀ n tn, tn ∈ S.implementations n → ∃ o, S.object? tn = some o
  members : ∀ n ms, S.lookup n = some (.union ms) → ∀ tn ∈ ms, ∃ o, S.object? tn = some o

/-- type conditions name composite types (validation rule FragmentsOnCompositeTypes), or no type -/
structure CondsComposite (S : Schema) (D : Document) (P : Selection → Prop) : Prop where
  inline : ∀ pos tc dirs sub, P (.inline pos (some tc) dirs sub) → ∀ o, fragmentApplies S o tc ≠ .panic
  frags : ∀ fr ∈ D.frags, ∀ o, fragmentApplies S o fr.tc ≠ .panic

def IsOk : Except Stuck α → Prop
  | .ok _ => True
  | .error _ => False

theorem collectStep_isOk (S : Schema) (D : Document) (o : ObjT) (P : Selection → Prop) (hP : NodeSet D P)
    (hC : CondsComposite S D P)
    (lvl : Selection → Nat) (hL : Descends D P lvl) (fuel : Nat)
    (recur : List Selection → CState → Except Stuck CState)
    (hrec : ∀ sels st, (∀ s ∈ sels, P s ∧ lvl s + 2 ≤ fuel) → 1 ≤ fuel → IsOk (recur sels st))
    (st : CState) (sel : Selection) (hsel : P sel) (hl : lvl sel + 1 ≤ fuel) :
    IsOk (collectStep S D o recur st sel) := by
  unfold collectStep
  by_cases hs : skipped sel.dirs = true
  · simp [hs, IsOk, pure, Except.pure]
  · simp only [hs, Bool.false_eq_true, if_false]
    have hfuel : 1 ≤ fuel := by omega
    cases sel with
    | field pos alias name wkey argErr dirs sub => simp [IsOk, pure, Except.pure]
    | spread pos name dirs =>
      simp only
      by_cases hv : name ∈ st.visited
      · simp [hv, IsOk, pure, Except.pure]
      · simp only [List.contains_eq_mem, hv, decide_false, Bool.false_eq_true, if_false]
        cases hf : D.frag? name with
        | none => simp [IsOk, pure, Except.pure]
        | some fr =>
          simp only
          cases ha : fragmentApplies S o fr.tc with
          | no => simp [IsOk, pure, Except.pure]
          | panic => exact absurd ha (hC.frags fr (frag?_mem D name fr hf) o)
          | yes =>
            simp only
            apply hrec _ _ _ hfuel
            intro s hs'
            refine ⟨hP.frags fr (frag?_mem D name fr hf) s hs', ?_⟩
            have := hL.spread pos name dirs fr hsel hf s hs'
            omega
    | inline pos tc dirs sub =>
      have hsub : ∀ s ∈ sub, P s ∧ lvl s + 2 ≤ fuel := by
        intro s hs'
        refine ⟨hP.inline_sub _ _ _ _ hsel s hs', ?_⟩
        have := hL.inline pos tc dirs sub hsel s hs'
        omega
      cases tc with
      | none => exact hrec _ _ hsub hfuel
      | some tc =>
        simp only
        cases ha : fragmentApplies S o tc with
        | no => simp [IsOk, pure, Except.pure]
        | panic => exact absurd ha (hC.inline pos tc dirs sub hsel o)
        | yes => exact hrec _ _ hsub hfuel

theorem collectImpl_isOk (S : Schema) (D : Document) (o : ObjT) (P : Selection → Prop) (hP : NodeSet D P)
    (hC : CondsComposite S D P)
    (lvl : Selection → Nat) (hL : Descends D P lvl) (fuel : Nat) (sels : List Selection) (st : CState)
    (hsels : ∀ s ∈ sels, P s ∧ lvl s + 2 ≤ fuel) (hfuel : 1 ≤ fuel) :
    IsOk (collectImpl S D o fuel sels st) := by
  induction fuel generalizing sels st with
  | zero => omega
  | succ fuel ih =>
    rw [collectImpl]
    have fold : ∀ (sels : List Selection) (st : CState), (∀ s ∈ sels, P s ∧ lvl s + 1 ≤ fuel) →
        IsOk (sels.foldlM (collectStep S D o (collectImpl S D o fuel)) st) := by
      intro sels
      induction sels with
      | nil => intro st _; simp [IsOk, pure, Except.pure]
      | cons sel rest ihl =>
        intro st hs
        simp only [List.foldlM_cons]
        have h1 := collectStep_isOk S D o P hP hC lvl hL fuel (collectImpl S D o fuel)
          (fun sels st h hf => ih sels st h hf) st sel (hs sel (List.mem_cons_self ..)).1 (hs sel (List.mem_cons_self ..)).2
        cases hstep : collectStep S D o (collectImpl S D o fuel) st sel with
        | error e => rw [hstep] at h1; exact absurd h1 (by simp [IsOk])
        | ok st1 =>
          simp only [bind, Except.bind]
          exact ihl st1 (fun s hs' => hs s (List.mem_cons_of_mem _ hs'))
    apply fold
    intro s hs
    have := hsels s hs
    exact ⟨this.1, by omega⟩

theorem collectFields_isOk (memo : Bool) (S : Schema) (D : Document) (P : Selection → Prop) (hP : NodeSet D P)
    (hC : CondsComposite S D P)
    (lvl : Selection → Nat) (hL : Descends D P lvl) (fuel : Nat) (o : ObjT) (sels : List Selection) (c : Cache)
    (hsels : ∀ s ∈ sels, P s ∧ lvl s + 2 ≤ fuel) (hfuel : 1 ≤ fuel) :
    ∃ r, collectFields memo S D fuel o sels c = .ok r := by
  unfold collectFields
  simp only
  cases hget : (if memo = true then c.get? (cacheKey o sels) else none) with
  | some g => exact ⟨_, rfl⟩
  | none =>
    simp only
    have hn := collectImpl_isOk S D o P hP hC lvl hL fuel sels { visited := [], grouped := [] } hsels hfuel
    cases hc : collectImpl S D o fuel sels { visited := [], grouped := [] } with
    | ok st' => exact ⟨_, rfl⟩
    | error e => rw [hc] at hn; exact absurd hn (by simp [IsOk])


theorem groupInOrder_nonempty (fs : List FieldNode) (p : String × List FieldNode) (hp : p ∈ groupInOrder fs) : p.2 ≠ [] := by
  obtain ⟨f, hf, hk⟩ := groupInOrder_key_mem fs p hp
  rw [groupInOrder_exact fs p hp]
  intro h
  have : f ∈ fs.filter (fun x => x.responseKey == p.1) := List.mem_filter.mpr ⟨hf, by simp [hk]⟩
  rw [h] at this
  simp at this

theorem catch_notStuck' (t : TypeRef) (out : Out) (h : out.r.notStuck) : (catchIfNullable t out).r.notStuck := by
  cases t with
  | nonNull t => exact h
  | named n => simp only [catchIfNullable]; cases hr : out.r <;> simp_all [R.notStuck]
  | list t => simp only [catchIfNullable]; cases hr : out.r <;> simp_all [R.notStuck]

theorem execItemsWith_notStuck (I : Cache → Prop) (o : ObjT) (path : Path)
    (field : List FieldNode → FieldNode → FieldDef → Path → Cache → Out)
    (g : Grouped) (acc : List (String × Json)) (errs : List Err) (c : Cache)
    (H : ∀ p ∈ g, ∀ fn fd pth c, I c → p.2.head? = some fn → o.getField fn.name = some fd →
      (field p.2 fn fd pth c).r.notStuck ∧ I (field p.2 fn fd pth c).cache)
    (hne : ∀ p ∈ g, p.2 ≠ [])
    (hI : I c) :
    (execItemsWith o path field g acc errs c).r.notStuck ∧ I (execItemsWith o path field g acc errs c).cache := by
  induction g generalizing acc errs c with
  | nil => simp [execItemsWith, hI, R.notStuck]
  | cons p rest ih =>
    obtain ⟨key, fields⟩ := p
    have Hrest : ∀ p ∈ rest, ∀ fn fd pth c, I c → p.2.head? = some fn → o.getField fn.name = some fd →
        (field p.2 fn fd pth c).r.notStuck ∧ I (field p.2 fn fd pth c).cache :=
      fun p hp => H p (List.mem_cons_of_mem _ hp)
    have hnerest : ∀ p ∈ rest, p.2 ≠ [] := fun p hp => hne p (List.mem_cons_of_mem _ hp)
    simp only [execItemsWith]
    cases hh : fields.head? with
    | none =>
      have := hne (key, fields) (List.mem_cons_self ..)
      cases fields with
      | nil => exact absurd rfl this
      | cons a b => simp at hh
    | some fn =>
      simp only
      by_cases htn : (fn.name == "__typename") = true
      · simp only [htn, if_true]; exact ih _ _ _ Hrest hnerest hI
      · simp only [htn, Bool.false_eq_true, if_false]
        cases hfd : o.getField fn.name with
        | none => simp only; exact ih _ _ _ Hrest hnerest hI
        | some fd =>
          simp only
          obtain ⟨h1, h2⟩ := H (key, fields) (List.mem_cons_self ..) fn fd (path ++ [.key key]) c hI hh hfd
          have h2' : I (catchIfNullable fd.type (field fields fn fd (path ++ [.key key]) c)).cache := by
            rw [catch_cache]; exact h2
          have h1' := catch_notStuck' fd.type _ h1
          cases hr : (catchIfNullable fd.type (field fields fn fd (path ++ [.key key]) c)).r with
          | ok j => simp only; exact ih _ _ _ Hrest hnerest h2'
          | err e => simp only; exact ⟨by simp [R.notStuck], h2'⟩
          | stuck st => rw [hr] at h1'; exact absurd h1' (by simp [R.notStuck])

theorem joinResults_notStuck (rs : List R) (h : ∀ r ∈ rs, r.notStuck) : (joinResults rs).notStuck := by
  simp only [joinResults]
  cases hf : rs.findSome? R.stuck? with
  | some st =>
    obtain ⟨r, hr, hs⟩ := List.exists_of_findSome?_eq_some hf
    have := h r hr
    cases r <;> simp_all [R.stuck?, R.notStuck]
  | none =>
    simp only
    cases rs.findSome? R.err? <;> simp [R.notStuck]

theorem runItems_notStuck (I : Cache → Prop) (inner : TypeRef) (path : Path) (item : RVal → Path → Cache → Out)
    (H : ∀ v p c, I c → (item v p c).r.notStuck ∧ I (item v p c).cache)
    (items : List RVal) (i : Nat) (c : Cache) (hI : I c) :
    (∀ r ∈ (runItems inner path item items i c).1, r.notStuck) ∧ I (runItems inner path item items i c).2.2 := by
  induction items generalizing i c with
  | nil => simp [runItems, hI]
  | cons v rest ih =>
    simp only [runItems]
    obtain ⟨h1, h2⟩ := H v (path ++ [.idx i]) c hI
    have h2' : I (catchIfNullable inner (item v (path ++ [.idx i]) c)).cache := by rw [catch_cache]; exact h2
    obtain ⟨ih1, ih2⟩ := ih (i + 1) _ h2'
    refine ⟨?_, ih2⟩
    intro r hr
    rcases List.mem_cons.mp hr with hr | hr
    · rw [hr]; exact catch_notStuck' inner _ h1
    · exact ih1 r hr

def TotalC (memo : Bool) (S : Schema) (D : Document) (P : Selection → Prop) (lvl : Selection → Nat) (fuel : Nat) : Prop :=
  ∀ t fields f0 v path c L, CacheOK S D P c → SubBound P lvl L fields → S.lookup t.base ≠ none →
    t.wrappers + needSel S.maxWrappers L + 1 ≤ fuel →
    (completeValue memo S D fuel t fields f0 v path c).r.notStuck ∧
    CacheOK S D P (completeValue memo S D fuel t fields f0 v path c).cache

def TotalS (memo : Bool) (S : Schema) (D : Document) (P : Selection → Prop) (lvl : Selection → Nat) (fuel : Nat) : Prop :=
  ∀ o sels v path c L, CacheOK S D P c → S.object? o.name = some o → (∀ s ∈ sels, P s ∧ lvl s < L) →
    needSel S.maxWrappers L ≤ fuel →
    (execSelections memo S D fuel o sels v path c).r.notStuck ∧
    CacheOK S D P (execSelections memo S D fuel o sels v path c).cache

theorem totalS_succ (memo : Bool) (S : Schema) (D : Document) (P : Selection → Prop) (hP : NodeSet D P)
    (hS : SchemaClosed S) (hC : CondsComposite S D P)
    (lvl : Selection → Nat) (hL : Descends D P lvl) (fuel : Nat) (ih : TotalC memo S D P lvl fuel) :
    TotalS memo S D P lvl (fuel + 1) := by
  intro o sels v path c L hc ho hsels hfuel
  rw [execSelections_succ]
  unfold needSel at hfuel
  have hmul : L ≤ L * (S.maxWrappers + 3) := Nat.le_mul_of_pos_right L (by omega)
  obtain ⟨gc, hcm⟩ := collectFields_isOk memo S D P hP hC lvl hL fuel o sels c
    (fun s hs => ⟨(hsels s hs).1, by have := (hsels s hs).2; omega⟩) (by omega)
  obtain ⟨g', c'⟩ := gc
  simp only [hcm]
  obtain ⟨hc', fuel0, fs, v0, he, hg'⟩ := collectFields_inv memo S D P hP fuel o sels c g' c' hc ho
    (fun s hs => (hsels s hs).1) hcm
  by_cases hL0 : L = 0
  · have hnil : sels = [] := by
      apply List.eq_nil_iff_forall_not_mem.mpr
      intro s hs
      have := (hsels s hs).2
      omega
    subst hnil
    have := expand_nil S D o fuel0 [] (fs, v0) he
    simp only at this
    subst this
    subst hg'
    simp only [groupInOrder, List.foldl_nil, execItemsWith]
    exact ⟨by simp [R.notStuck], hc'⟩
  · have hbound : SubBound P lvl (L - 1) fs :=
      expand_bound S D o P hP lvl hL (L - 1) fuel0 sels [] (fs, v0)
        (fun s hs => ⟨(hsels s hs).1, by have := (hsels s hs).2; omega⟩) he
    apply execItemsWith_notStuck (CacheOK S D P)
    · intro p hp fn fd pth c hIc hh hfd
      have hpb : SubBound P lvl (L - 1) p.2 := by
        rw [hg'] at hp
        exact groupInOrder_subBound P lvl (L - 1) fs hbound p hp
      unfold execFieldWith
      cases hae : fn.argErr with
      | some ae => exact ⟨by simp [R.notStuck], hIc⟩
      | none =>
        simp only
        cases hres : resolve v fn.wkey with
        | err m => exact ⟨by simp [R.notStuck], hIc⟩
        | val rv =>
          simp only
          have hmem : fd ∈ o.fields := by
            rw [getField_eq] at hfd
            exact List.mem_of_find?_eq_some hfd
          apply ih fd.type p.2 fn rv pth c (L - 1) hIc hpb (hS.fields o.name o ho fd hmem)
          have hw : fd.type.wrappers ≤ S.maxWrappers := wrappers_le_max S o.name o ho fd hmem
          unfold needSel
          have : L = (L - 1) + 1 := by omega
          have hexp : L * (S.maxWrappers + 3) = (L - 1) * (S.maxWrappers + 3) + (S.maxWrappers + 3) := by
            conv => lhs; rw [this, Nat.add_mul, Nat.one_mul]
          omega
    · intro p hp
      rw [hg'] at hp
      exact groupInOrder_nonempty fs p hp
    · exact hc'


theorem mem_implementations_find (S : Schema) (n : String) (v : RVal) (tn : String)
    (h : (S.implementations n).find? (fun t => isTypeOf t v) = some tn) : tn ∈ S.implementations n :=
  List.mem_of_find?_eq_some h

theorem totalC_succ (memo : Bool) (S : Schema) (D : Document) (P : Selection → Prop) (hS : SchemaClosed S)
    (lvl : Selection → Nat)
    (fuel : Nat) (ihc : TotalC memo S D P lvl fuel) (ihs : TotalS memo S D P lvl fuel) :
    TotalC memo S D P lvl (fuel + 1) := by
  intro t fields f0 v path c L hc hb hbase hfuel
  cases t with
  | nonNull inner =>
    rw [completeValue_nonNull]
    simp only [TypeRef.wrappers] at hfuel
    simp only [TypeRef.base] at hbase
    obtain ⟨h1, h2⟩ := ihc inner fields f0 v path c L hc hb hbase (by omega)
    cases hr : (completeValue memo S D fuel inner fields f0 v path c).r with
    | ok j =>
      cases j with
      | null => simp only; exact ⟨by simp [R.notStuck], h2⟩
      | bool b => simp only; exact ⟨h1, h2⟩
      | int z => simp only; exact ⟨h1, h2⟩
      | num m e => simp only; exact ⟨h1, h2⟩
      | str x => simp only; exact ⟨h1, h2⟩
      | arr xs => simp only; exact ⟨h1, h2⟩
      | obj kvs => simp only; exact ⟨h1, h2⟩
    | err e => simp only; exact ⟨h1, h2⟩
    | stuck st => simp only; exact ⟨h1, h2⟩
  | list inner =>
    rw [completeValue_list]
    simp only [TypeRef.wrappers] at hfuel
    simp only [TypeRef.base] at hbase
    by_cases hnil : v.isNil = true
    · simp only [hnil, if_true]; exact ⟨by simp [R.notStuck], hc⟩
    · simp only [hnil, Bool.false_eq_true, if_false]
      cases v with
      | list items =>
        simp only
        rw [completeItemsWith_eq]
        simp only [List.nil_append]
        obtain ⟨h1, h2⟩ := runItems_notStuck (CacheOK S D P) inner path
          (fun v p c => completeValue memo S D fuel inner fields f0 v p c)
          (fun v p c hI => ihc inner fields f0 v p c L hI hb hbase (by omega)) items 0 c hc
        exact ⟨joinResults_notStuck _ h1, h2⟩
      | leaf g => exact ⟨by simp [R.notStuck], hc⟩
      | null => exact ⟨by simp [R.notStuck], hc⟩
      | tnil => exact ⟨by simp [R.notStuck], hc⟩
      | obj ty es => exact ⟨by simp [R.notStuck], hc⟩
  | named n =>
    rw [completeValue_named]
    simp only [TypeRef.wrappers, Nat.zero_add] at hfuel
    simp only [TypeRef.base] at hbase
    have hmerge := subBound_merge P lvl L fields hb
    by_cases hnil : v.isNil = true
    · simp only [hnil, if_true]; exact ⟨by simp [R.notStuck], hc⟩
    · simp only [hnil, Bool.false_eq_true, if_false]
      cases hl : S.lookup n with
      | none => exact absurd hl hbase
      | some td =>
        cases td with
        | scalar k =>
          simp only
          cases v with
          | leaf g => simp only; cases coerceScalar k g <;> exact ⟨by simp [R.notStuck], hc⟩
          | null => exact ⟨by simp [R.notStuck], hc⟩
          | tnil => exact ⟨by simp [R.notStuck], hc⟩
          | list items => exact ⟨by simp [R.notStuck], hc⟩
          | obj ty es => exact ⟨by simp [R.notStuck], hc⟩
        | enum values =>
          simp only
          cases v with
          | leaf g => simp only; cases coerceEnum values g <;> exact ⟨by simp [R.notStuck], hc⟩
          | null => exact ⟨by simp [R.notStuck], hc⟩
          | tnil => exact ⟨by simp [R.notStuck], hc⟩
          | list items => exact ⟨by simp [R.notStuck], hc⟩
          | obj ty es => exact ⟨by simp [R.notStuck], hc⟩
        | object fs is =>
          simp only
          exact ihs _ _ _ _ c L hc (object?_of_lookup S n fs is hl) hmerge (by omega)
        | interface fs =>
          simp only
          cases hf : (S.implementations n).find? (fun t => isTypeOf t v) with
          | none => exact ⟨by simp [R.notStuck], hc⟩
          | some tn =>
            simp only
            obtain ⟨o, ho⟩ := hS.impls n tn (mem_implementations_find S n v tn hf)
            simp only [ho]
            exact ihs _ _ _ _ c L hc (object?_name S tn o ho) hmerge (by omega)
        | union ms =>
          simp only
          cases hf : ms.find? (fun t => isTypeOf t v) with
          | none => exact ⟨by simp [R.notStuck], hc⟩
          | some tn =>
            simp only
            obtain ⟨o, ho⟩ := hS.members n ms hl tn (List.mem_of_find?_eq_some hf)
            simp only [ho]
            exact ihs _ _ _ _ c L hc (object?_name S tn o ho) hmerge (by omega)

theorem total_main (memo : Bool) (S : Schema) (D : Document) (P : Selection → Prop) (hP : NodeSet D P)
    (hS : SchemaClosed S) (hC : CondsComposite S D P)
    (lvl : Selection → Nat) (hL : Descends D P lvl) (fuel : Nat) :
    TotalC memo S D P lvl fuel ∧ TotalS memo S D P lvl fuel := by
  induction fuel with
  | zero =>
    constructor
    · intro t fields f0 v path c L _ _ _ hfuel; unfold needSel at hfuel; omega
    · intro o sels v path c L _ _ _ hfuel; unfold needSel at hfuel; omega
  | succ fuel ih => exact ⟨totalC_succ memo S D P hS lvl fuel ih.1 ih.2, totalS_succ memo S D P hP hS hC lvl hL fuel ih.1⟩

theorem getOperation_mem (D : Document) (opName : String) (op : Op) (hgo : getOperation D opName = .ok op) : op ∈ D.ops := by
  have : ∀ (ops : List Op) (found : Option Op) (r : Op), getOperation.go opName ops found = .ok r →
      r ∈ ops ∨ found = some r := by
    intro ops
    induction ops with
    | nil => intro found r h; cases found <;> simp [getOperation.go] at h; exact Or.inr (by rw [h])
    | cons a rest ihl =>
      intro found r h
      simp only [getOperation.go] at h
      split at h
      · cases found with
        | some f => simp at h
        | none =>
          simp only at h
          rcases ihl _ _ h with h1 | h1
          · exact Or.inl (List.mem_cons_of_mem _ h1)
          · simp only [Option.some.injEq] at h1; exact Or.inl (by rw [h1]; exact List.mem_cons_self ..)
      · rcases ihl _ _ h with h1 | h1
        · exact Or.inl (List.mem_cons_of_mem _ h1)
        · exact Or.inr h1
  unfold getOperation at hgo
  rcases this _ _ _ hgo with h1 | h1
  · exact h1
  · simp at h1

/-- **The model always answers** on cycle-free documents over closed schemas with composite type
    conditions, given `needSel W L` fuel. -/
theorem execute_total (memo : Bool) (S : Schema) (D : Document) (P : Selection → Prop) (hP : NodeSet D P)
    (hS : SchemaClosed S) (hC : CondsComposite S D P)
    (lvl : Selection → Nat) (hL : Descends D P lvl) (L : Nat)
    (hops : ∀ op ∈ D.ops, ∀ s ∈ op.sels, P s ∧ lvl s < L)
    (fuel : Nat) (hfuel : needSel S.maxWrappers L ≤ fuel) (opName : String) (root : RVal) :
    ∃ resp, execute memo S D fuel opName root = .ok resp := by
  unfold execute
  cases hgo : getOperation D opName with
  | error e => exact ⟨_, rfl⟩
  | ok op =>
    simp only
    cases hroot : (rootTypeName S op.kind).bind S.object? with
    | none => exact ⟨_, rfl⟩
    | some o =>
      simp only
      have ho : S.object? o.name = some o := by
        cases hk : rootTypeName S op.kind with
        | none => simp [hk] at hroot
        | some tn =>
          simp only [hk, Option.bind_some] at hroot
          exact object?_name S tn o hroot
      obtain ⟨h1, _⟩ := (total_main memo S D P hP hS hC lvl hL fuel).2 o op.sels root [] [] L (cacheOK_nil S D P) ho
        (hops op (getOperation_mem D opName op hgo)) hfuel
      cases hr : (execSelections memo S D fuel o op.sels root [] []).r with
      | ok j => exact ⟨_, rfl⟩
      | err e => exact ⟨_, rfl⟩
      | stuck st => rw [hr] at h1; exact absurd h1 (by simp [R.notStuck])


/-! ### totality of the reference -/

theorem spec_collectSelection_isSome (S : Schema) (D : Document) (o : ObjT) (P : Selection → Prop) (hP : NodeSet D P)
    (lvl : Selection → Nat) (hL : Descends D P lvl) (fuel : Nat)
    (recur : List Selection → List String → Option (Grouped × List String))
    (hrec : ∀ sels vis, (∀ s ∈ sels, P s ∧ lvl s + 2 ≤ fuel) → 1 ≤ fuel → (recur sels vis).isSome)
    (acc : Grouped × List String) (sel : Selection) (hsel : P sel) (hl : lvl sel + 1 ≤ fuel) :
    (Spec.collectSelection S D o recur acc sel).isSome := by
  unfold Spec.collectSelection
  obtain ⟨grouped, visited⟩ := acc
  simp only
  by_cases hx : Spec.excluded sel.dirs = true
  · simp [hx]
  · simp only [hx, Bool.false_eq_true, if_false]
    have hfuel : 1 ≤ fuel := by omega
    cases sel with
    | field pos alias name wkey argErr dirs sub => simp
    | spread pos name dirs =>
      simp only [fragmentNamed_eq]
      by_cases hv : name ∈ visited
      · simp [hv]
      · simp only [hv, if_false]
        cases hf : D.frag? name with
        | none => simp
        | some fr =>
          simp only
          by_cases ha : Spec.doesFragmentTypeApply S o fr.tc = true
          · simp only [ha, if_true]
            have : (recur fr.sels (name :: visited)).isSome := by
              apply hrec _ _ _ hfuel
              intro s hs'
              refine ⟨hP.frags fr (frag?_mem D name fr hf) s hs', ?_⟩
              have := hL.spread pos name dirs fr hsel hf s hs'
              omega
            cases hr : recur fr.sels (name :: visited) with
            | none => simp [hr] at this
            | some q => simp
          · simp [ha]
    | inline pos tc dirs sub =>
      have hsub : (recur sub visited).isSome := by
        apply hrec _ _ _ hfuel
        intro s hs'
        refine ⟨hP.inline_sub _ _ _ _ hsel s hs', ?_⟩
        have := hL.inline pos tc dirs sub hsel s hs'
        omega
      cases hr : recur sub visited with
      | none => simp [hr] at hsub
      | some q =>
        cases tc with
        | none => simp [hr]
        | some tc =>
          by_cases ha : Spec.doesFragmentTypeApply S o tc = true
          · simp [ha, hr]
          · simp [ha]

theorem spec_collect_isSome (S : Schema) (D : Document) (o : ObjT) (P : Selection → Prop) (hP : NodeSet D P)
    (lvl : Selection → Nat) (hL : Descends D P lvl) (fuel : Nat) (sels : List Selection) (vis : List String)
    (hsels : ∀ s ∈ sels, P s ∧ lvl s + 2 ≤ fuel) (hfuel : 1 ≤ fuel) :
    (Spec.collectFields S D o fuel sels vis).isSome := by
  induction fuel generalizing sels vis with
  | zero => omega
  | succ fuel ih =>
    rw [Spec.collectFields]
    have fold : ∀ (sels : List Selection) (acc : Grouped × List String), (∀ s ∈ sels, P s ∧ lvl s + 1 ≤ fuel) →
        (sels.foldlM (Spec.collectSelection S D o (Spec.collectFields S D o fuel)) acc).isSome := by
      intro sels
      induction sels with
      | nil => intro acc _; simp [pure]
      | cons sel rest ihl =>
        intro acc hs
        simp only [List.foldlM_cons]
        have h1 := spec_collectSelection_isSome S D o P hP lvl hL fuel (Spec.collectFields S D o fuel)
          (fun sels vis h hf => ih sels vis h hf) acc sel (hs sel (List.mem_cons_self ..)).1 (hs sel (List.mem_cons_self ..)).2
        cases hstep : Spec.collectSelection S D o (Spec.collectFields S D o fuel) acc sel with
        | none => simp [hstep] at h1
        | some acc1 =>
          simp only [Option.bind_eq_bind, Option.bind_some]
          exact ihl acc1 (fun s hs' => hs s (List.mem_cons_of_mem _ hs'))
    apply fold
    intro s hs
    have := hsels s hs
    exact ⟨this.1, by omega⟩

theorem option_mapM_isSome {α β : Type} (f : α → Option β) (l : List α) (h : ∀ a ∈ l, (f a).isSome) :
    (l.mapM f).isSome := by
  induction l with
  | nil => simp [pure]
  | cons a rest ih =>
    simp only [List.mapM_cons]
    have ha := h a (List.mem_cons_self ..)
    cases hfa : f a with
    | none => simp [hfa] at ha
    | some b =>
      have := ih (fun x hx => h x (List.mem_cons_of_mem _ hx))
      cases hr : rest.mapM f with
      | none => simp [hr] at this
      | some bs => simp


def SpecTotalC (S : Schema) (D : Document) (P : Selection → Prop) (lvl : Selection → Nat) (fuel : Nat) : Prop :=
  ∀ t fields f0 v path L, SubBound P lvl L fields → S.lookup t.base ≠ none →
    t.wrappers + needSel S.maxWrappers L + 1 ≤ fuel →
    (Spec.completeValue S D fuel t fields f0 v path).isSome

def SpecTotalS (S : Schema) (D : Document) (P : Selection → Prop) (lvl : Selection → Nat) (fuel : Nat) : Prop :=
  ∀ o sels v path L, S.object? o.name = some o → (∀ s ∈ sels, P s ∧ lvl s < L) →
    needSel S.maxWrappers L ≤ fuel →
    (Spec.executeSelectionSet S D fuel o sels v path).isSome

theorem specTotalS_succ (S : Schema) (D : Document) (P : Selection → Prop) (hP : NodeSet D P)
    (hS : SchemaClosed S) (hC : CondsComposite S D P)
    (lvl : Selection → Nat) (hL : Descends D P lvl) (fuel : Nat) (ih : SpecTotalC S D P lvl fuel) :
    SpecTotalS S D P lvl (fuel + 1) := by
  intro o sels v path L ho hsels hfuel
  rw [Spec.executeSelectionSet]
  unfold needSel at hfuel
  have hmul : L ≤ L * (S.maxWrappers + 3) := Nat.le_mul_of_pos_right L (by omega)
  have hsels2 : ∀ s ∈ sels, P s ∧ lvl s + 2 ≤ fuel := fun s hs => ⟨(hsels s hs).1, by have := (hsels s hs).2; omega⟩
  have hcs := spec_collect_isSome S D o P hP lvl hL fuel sels [] hsels2 (by omega)
  cases hc : Spec.collectFields S D o fuel sels [] with
  | none => simp [hc] at hcs
  | some gv =>
    obtain ⟨g, vis⟩ := gv
    simp only
    -- the same grouped set as the executor's, hence the grouping of an expansion
    have hm := collectImpl_isOk S D o P hP hC lvl hL fuel sels { visited := [], grouped := [] } hsels2 (by omega)
    rw [collectImpl_eq_expand] at hm
    cases he : expand S D o fuel sels [] with
    | error e => simp [he, mapOk, IsOk] at hm
    | ok r =>
      obtain ⟨fs, v0⟩ := r
      obtain ⟨hg, _⟩ := spec_collect_eq_expand S D o fuel fuel sels [] fs v0 g vis he hc
      subst hg
      have hmapM : ((groupInOrder fs).mapM (Spec.executeEntry o v path (Spec.completeValue S D fuel))).isSome := by
        apply option_mapM_isSome
        intro p hp
        have hne := groupInOrder_nonempty fs p hp
        obtain ⟨key, fields⟩ := p
        cases fields with
        | nil => exact absurd rfl hne
        | cons f0 tl =>
          simp only [Spec.executeEntry]
          by_cases htn : f0.name = "__typename"
          · simp [htn]
          · simp only [htn, if_false]
            cases hfd : o.fields.find? (fun (fd : FieldDef) => decide (fd.name = f0.name)) with
            | none => simp
            | some fd =>
              simp only
              cases hae : f0.argErr with
              | some ae => simp
              | none =>
                simp only
                cases hres : resolve v f0.wkey with
                | err m => simp
                | val rv =>
                  simp only
                  have hL0 : L ≠ 0 := by
                    intro h0
                    have hnil : sels = [] := by
                      apply List.eq_nil_iff_forall_not_mem.mpr
                      intro s hs
                      have := (hsels s hs).2
                      omega
                    subst hnil
                    have := expand_nil S D o fuel [] (fs, v0) he
                    simp only at this
                    subst this
                    simp [groupInOrder] at hp
                  have hbound : SubBound P lvl (L - 1) fs :=
                    expand_bound S D o P hP lvl hL (L - 1) fuel sels [] (fs, v0)
                      (fun s hs => ⟨(hsels s hs).1, by have := (hsels s hs).2; omega⟩) he
                  have hpb := groupInOrder_subBound P lvl (L - 1) fs hbound _ hp
                  have hmem : fd ∈ o.fields := List.mem_of_find?_eq_some hfd
                  have hw : fd.type.wrappers ≤ S.maxWrappers := wrappers_le_max S o.name o ho fd hmem
                  have := ih fd.type (f0 :: tl) f0 rv (path ++ [PathSeg.key key]) (L - 1) hpb (hS.fields o.name o ho fd hmem) (by
                    unfold needSel
                    have : L = (L - 1) + 1 := by omega
                    have hexp : L * (S.maxWrappers + 3) = (L - 1) * (S.maxWrappers + 3) + (S.maxWrappers + 3) := by
                      conv => lhs; rw [this, Nat.add_mul, Nat.one_mul]
                    omega)
                  cases hcv : Spec.completeValue S D fuel fd.type (f0 :: tl) f0 rv (path ++ [PathSeg.key key]) with
                  | none => simp [hcv] at this
                  | some r0 => simp
      cases hrs : (groupInOrder fs).mapM (Spec.executeEntry o v path (Spec.completeValue S D fuel)) with
      | none => simp [hrs] at hmapM
      | some rs => simp

theorem specTotalC_succ (S : Schema) (D : Document) (P : Selection → Prop) (hS : SchemaClosed S)
    (lvl : Selection → Nat) (fuel : Nat) (ihc : SpecTotalC S D P lvl fuel) (ihs : SpecTotalS S D P lvl fuel) :
    SpecTotalC S D P lvl (fuel + 1) := by
  intro t fields f0 v path L hb hbase hfuel
  cases t with
  | nonNull inner =>
    simp only [Spec.completeValue]
    simp only [TypeRef.wrappers] at hfuel
    simp only [TypeRef.base] at hbase
    have := ihc inner fields f0 v path L hb hbase (by omega)
    cases hin : Spec.completeValue S D fuel inner fields f0 v path with
    | none => simp [hin] at this
    | some r =>
      simp only
      cases hd : r.data with
      | none => simp
      | some j => cases j <;> simp
  | list inner =>
    simp only [Spec.completeValue]
    simp only [TypeRef.wrappers] at hfuel
    simp only [TypeRef.base] at hbase
    by_cases hnil : Spec.isNullish v = true
    · simp [hnil]
    · simp only [hnil, Bool.false_eq_true, if_false]
      cases v with
      | list items =>
        simp only
        have : ((items.zipIdx).mapM (Spec.completeItem inner path (Spec.completeValue S D fuel inner fields f0))).isSome := by
          apply option_mapM_isSome
          intro p _
          simp only [Spec.completeItem]
          have := ihc inner fields f0 p.1 (path ++ [PathSeg.idx p.2]) L hb hbase (by omega)
          cases hcv : Spec.completeValue S D fuel inner fields f0 p.1 (path ++ [PathSeg.idx p.2]) with
          | none => simp [hcv] at this
          | some r0 => simp
        cases hrs : (items.zipIdx).mapM (Spec.completeItem inner path (Spec.completeValue S D fuel inner fields f0)) with
        | none => simp [hrs] at this
        | some rs => simp
      | leaf g => simp
      | null => simp
      | tnil => simp
      | obj ty es => simp
  | named n =>
    simp only [Spec.completeValue]
    simp only [TypeRef.wrappers, Nat.zero_add] at hfuel
    simp only [TypeRef.base] at hbase
    have hmerge := subBound_merge P lvl L fields hb
    rw [← mergeSelectionSets_eq] at hmerge
    by_cases hnil : Spec.isNullish v = true
    · simp [hnil]
    · simp only [hnil, Bool.false_eq_true, if_false]
      cases hl : S.lookup n with
      | none => exact absurd hl hbase
      | some td =>
        cases td with
        | scalar k =>
          simp only
          cases v with
          | leaf g => simp only; cases Spec.resultCoerce k g <;> simp
          | null => simp
          | tnil => simp
          | list items => simp
          | obj ty es => simp
        | enum values =>
          simp only
          cases v with
          | leaf g => simp only; cases Spec.enumCoerce values g <;> simp
          | null => simp
          | tnil => simp
          | list items => simp
          | obj ty es => simp
        | object fs is =>
          simp only
          exact ihs _ _ _ _ L (object?_of_lookup S n fs is hl) hmerge (by omega)
        | interface fs =>
          simp only [implementations_eq S n fs hl]
          cases hf : (S.implementations n).find? (fun t => isTypeOf t v) with
          | none => simp
          | some tn =>
            simp only
            obtain ⟨o, ho⟩ := hS.impls n tn (List.mem_of_find?_eq_some hf)
            simp only [ho]
            exact ihs _ _ _ _ L (object?_name S tn o ho) hmerge (by omega)
        | union ms =>
          simp only [possibleTypes_union S n ms hl]
          cases hf : ms.find? (fun t => isTypeOf t v) with
          | none => simp
          | some tn =>
            simp only
            obtain ⟨o, ho⟩ := hS.members n ms hl tn (List.mem_of_find?_eq_some hf)
            simp only [ho]
            exact ihs _ _ _ _ L (object?_name S tn o ho) hmerge (by omega)

theorem specTotal_main (S : Schema) (D : Document) (P : Selection → Prop) (hP : NodeSet D P)
    (hS : SchemaClosed S) (hC : CondsComposite S D P)
    (lvl : Selection → Nat) (hL : Descends D P lvl) (fuel : Nat) :
    SpecTotalC S D P lvl fuel ∧ SpecTotalS S D P lvl fuel := by
  induction fuel with
  | zero =>
    constructor
    · intro t fields f0 v path L _ _ hfuel; unfold needSel at hfuel; omega
    · intro o sels v path L _ _ hfuel; unfold needSel at hfuel; omega
  | succ fuel ih => exact ⟨specTotalC_succ S D P hS lvl fuel ih.1 ih.2, specTotalS_succ S D P hP hS hC lvl hL fuel ih.1⟩

/-- **The reference always answers** under the same conditions: it executes, or refuses the request. -/
theorem spec_total (S : Schema) (D : Document) (P : Selection → Prop) (hP : NodeSet D P)
    (hS : SchemaClosed S) (hC : CondsComposite S D P)
    (lvl : Selection → Nat) (hL : Descends D P lvl) (L : Nat)
    (hops : ∀ op ∈ D.ops, ∀ s ∈ op.sels, P s ∧ lvl s < L)
    (fuel : Nat) (hfuel : needSel S.maxWrappers L ≤ fuel) (opName : String) (root : RVal) :
    Spec.executeRequest S D fuel opName root = .requestError ∨
    ∃ s, Spec.executeRequest S D fuel opName root = .executed s := by
  unfold Spec.executeRequest
  cases hgo : Spec.getOperation D opName with
  | none => exact Or.inl rfl
  | some op =>
    simp only
    cases hroot : (Spec.rootType S op.kind).bind S.object? with
    | none => exact Or.inl rfl
    | some o =>
      simp only
      right
      have ho : S.object? o.name = some o := by
        cases hk : Spec.rootType S op.kind with
        | none => simp [hk] at hroot
        | some tn =>
          simp only [hk, Option.bind_some] at hroot
          exact object?_name S tn o hroot
      have := (specTotal_main S D P hP hS hC lvl hL fuel).2 o op.sels root [] L ho
        (hops op (spec_getOperation_mem D opName op hgo)) hfuel
      cases hss : Spec.executeSelectionSet S D fuel o op.sels root [] with
      | none => simp [hss] at this
      | some s => exact ⟨s, rfl⟩


/-! ### decidable tests for the hypotheses on schema and type conditions -/

def Schema.closedCheck (S : Schema) : Bool :=
  S.types.all fun p =>
    match p.2 with
    | .object fs _ => fs.all (fun fd => (S.lookup fd.type.base).isSome) && (S.object? p.1).isSome
    | .union ms => ms.all fun tn => (S.object? tn).isSome
    | _ => true

theorem lookup_mem (S : Schema) (n : String) (td : TypeDef) (h : S.lookup n = some td) : (n, td) ∈ S.types := by
  unfold Schema.lookup at h
  cases hf : S.types.find? (fun p => p.1 == n) with
  | none => simp [hf] at h
  | some p =>
    simp only [hf, Option.some.injEq] at h
    have hm := List.mem_of_find?_eq_some hf
    have hk : p.1 = n := by simpa using List.find?_some hf
    obtain ⟨a, b⟩ := p
    simp only at hk h
    subst hk; subst h
    exact hm

theorem schemaClosed_of_check (S : Schema) (h : S.closedCheck = true) : SchemaClosed S := by
  unfold Schema.closedCheck at h
  rw [List.all_eq_true] at h
  refine ⟨?_, ?_, ?_⟩
  · intro n o ho fd hfd
    unfold Schema.object? at ho
    cases hl : S.lookup n with
    | none => simp [hl] at ho
    | some td =>
      cases td with
      | object fs is =>
        simp only [hl, Option.some.injEq] at ho
        subst ho
        have := h _ (lookup_mem S n _ hl)
        simp only [Bool.and_eq_true, List.all_eq_true] at this
        have := this.1 fd hfd
        intro hnone
        simp [hnone] at this
      | scalar k => simp [hl] at ho
      | interface fs => simp [hl] at ho
      | union ms => simp [hl] at ho
      | enum vs => simp [hl] at ho
  · intro n tn htn
    unfold Schema.implementations at htn
    simp only [List.mem_filterMap] at htn
    obtain ⟨p, hp, hq⟩ := htn
    have := h p hp
    cases hp2 : p.2 with
    | object fs is =>
      simp only [hp2] at this hq
      split at hq
      · simp only [Option.some.injEq] at hq
        subst hq
        simp only [Bool.and_eq_true] at this
        exact Option.isSome_iff_exists.mp this.2
      · simp at hq
    | scalar k => simp [hp2] at hq
    | interface fs => simp [hp2] at hq
    | union ms => simp [hp2] at hq
    | enum vs => simp [hp2] at hq
  · intro n ms hl tn htn
    have := h _ (lookup_mem S n _ hl)
    simp only [List.all_eq_true] at this
    exact Option.isSome_iff_exists.mp (this tn htn)

def condOK (S : Schema) (tc : String) : Bool :=
  match S.lookup tc with
  | some (.scalar _) => false
  | some (.enum _) => false
  | _ => true

theorem fragmentApplies_ne_panic (S : Schema) (o : ObjT) (tc : String) (h : condOK S tc = true) :
    fragmentApplies S o tc ≠ .panic := by
  unfold condOK at h
  unfold fragmentApplies
  cases hl : S.lookup tc with
  | none => simp
  | some td =>
    cases td with
    | scalar k => simp [hl] at h
    | enum vs => simp [hl] at h
    | object fs is => simp only; split <;> simp
    | interface fs => simp only; split <;> simp
    | union ms => simp only; split <;> simp

def Document.condsCheck (D : Document) (S : Schema) : Bool :=
  (D.nodes.all fun s =>
    match s with
    | .inline _ (some tc) _ _ => condOK S tc
    | _ => true) &&
  D.frags.all fun fr => condOK S fr.tc

theorem condsComposite_of_check (S : Schema) (D : Document) (h : D.condsCheck S = true) :
    CondsComposite S D (· ∈ D.nodes) := by
  unfold Document.condsCheck at h
  simp only [Bool.and_eq_true, List.all_eq_true] at h
  refine ⟨?_, ?_⟩
  · intro pos tc dirs sub hm o
    have := h.1 _ hm
    simp only at this
    exact fragmentApplies_ne_panic S o tc this
  · intro fr hfr o
    exact fragmentApplies_ne_panic S o fr.tc (h.2 fr hfr)


/-! ### a candidate descent certificate (computed by the driver for every case) -/

/-- height of a selection through sub-selections and fragment spreads, explored to depth `fuel`; for a
    document without fragment cycles and enough fuel it satisfies `Document.descentCheck` -/
def heightOf (D : Document) : Nat → Selection → Nat
  | 0, _ => 0
  | fuel + 1, s =>
    match s with
    | .field _ _ _ _ _ _ sub => 1 + (sub.map (heightOf D fuel)).foldl max 0
    | .inline _ _ _ sub => 1 + (sub.map (heightOf D fuel)).foldl max 0
    | .spread _ name _ =>
      match D.frag? name with
      | some fr => 1 + (fr.sels.map (heightOf D fuel)).foldl max 0
      | none => 1

/-- the hypotheses of `exec_correct_total` as one executable test (the certificate is `heightOf`) -/
def hypothesesHold (S : Schema) (D : Document) : Bool :=
  let n := D.nodes.length + D.frags.length + 2
  decide ((D.nodes.map Selection.pos).Nodup) && D.nodes.all (fun s => decide s.keyOK) &&
    S.closedCheck && D.condsCheck S && D.descentCheck (heightOf D n)

end ApiFu.C01
