/-
  C01 — fragment-spread cycles: a decidable test `noSpreadCycle` and the theorem that a document passing
  it has a descent certificate (`Descends`) whose height is bounded by `Lbound D`, so that the fuel the
  driver uses (`fuelFor2 S D = needSel W (Lbound D)`) is sufficient (`exec_correct_total`).

  `fragDepth D n name` is the length of the longest chain of fragment spreads starting at fragment
  `name` (explored `n` deep). `noSpreadCycle D` checks that it is a strict topological order of the
  spread graph: every fragment spread (at any depth, through fields and inline fragments) inside the
  definition of a fragment `f` names a fragment of smaller depth than `f` (or no fragment), and depths
  do not exceed the number of fragment definitions. A graph with such an order has no cycle, and a
  document without spread cycles (rule NoFragmentCycles) passes (longest-chain depth is such an order).
-/
import ApiFu.C01.Lemmas

namespace ApiFu.C01

mutual
  /-- the fragment names spread inside a selection (through fields and inline fragments, not through spreads) -/
  def Selection.spreads : Selection → List String
    | .field _ _ _ _ _ _ sub => spreadsList sub
    | .spread _ name _ => [name]
    | .inline _ _ _ sub => spreadsList sub
  def spreadsList : List Selection → List String
    | [] => []
    | s :: rest => s.spreads ++ spreadsList rest
end

mutual
  /-- syntactic nesting depth of a selection (not following spreads) -/
  def Selection.localHeight : Selection → Nat
    | .field _ _ _ _ _ _ sub => 1 + localHeightList sub
    | .spread .. => 0
    | .inline _ _ _ sub => 1 + localHeightList sub
  def localHeightList : List Selection → Nat
    | [] => 0
    | s :: rest => max s.localHeight (localHeightList rest)
end

def Document.maxLocalHeight (D : Document) : Nat := (D.nodes.map Selection.localHeight).foldl max 0

/-- longest chain of fragment spreads starting at fragment `name`, explored `fuel` deep -/
def fragDepth (D : Document) : Nat → String → Nat
  | 0, _ => 0
  | fuel + 1, name =>
    match D.frag? name with
    | none => 0
    | some fr => 1 + ((spreadsList fr.sels).map (fragDepth D fuel)).foldl max 0

def Document.rank (D : Document) (name : String) : Nat := fragDepth D (D.frags.length + 1) name

/-- decidable: the longest-chain depth is a strict topological order of the spread graph -/
def Document.noSpreadCycle (D : Document) : Bool :=
  D.frags.all fun fr =>
    decide (D.rank fr.name ≤ D.frags.length) &&
    (spreadsList fr.sels).all fun g =>
      match D.frag? g with
      | some _ => decide (D.rank g < D.rank fr.name)
      | none => true

mutual
  /-- the descent certificate built from fragment ranks: nesting adds 1, a spread of a defined fragment of
      rank r sits at level (r+1)·(H+1), above everything in that fragment's definition -/
  def Selection.lvlR (D : Document) (H : Nat) : Selection → Nat
    | .field _ _ _ _ _ _ sub => 1 + lvlRList D H sub
    | .spread _ name _ => if (D.frag? name).isSome then (D.rank name + 1) * (H + 1) else 0
    | .inline _ _ _ sub => 1 + lvlRList D H sub
  def lvlRList (D : Document) (H : Nat) : List Selection → Nat
    | [] => 0
    | s :: rest => max (s.lvlR D H) (lvlRList D H rest)
end

/-- the certificate of a document -/
def Document.lvl (D : Document) (s : Selection) : Nat := s.lvlR D (D.maxLocalHeight + 1)

/-- bound on the certificate's values -/
def Document.Lbound (D : Document) : Nat := (D.frags.length + 2) * (D.maxLocalHeight + 2)

/-- the fuel the driver uses -/
def fuelFor2 (S : Schema) (D : Document) : Nat := needSel S.maxWrappers D.Lbound

theorem lvlRList_mem (D : Document) (H : Nat) (l : List Selection) (s : Selection) (h : s ∈ l) :
    s.lvlR D H ≤ lvlRList D H l := by
  induction l with
  | nil => simp at h
  | cons a rest ih =>
    simp only [lvlRList]
    rcases List.mem_cons.mp h with rfl | h
    · omega
    · have := ih h; omega

theorem spreadsList_mem (l : List Selection) (s : Selection) (h : s ∈ l) (g : String) (hg : g ∈ s.spreads) :
    g ∈ spreadsList l := by
  induction l with
  | nil => simp at h
  | cons a rest ih =>
    simp only [spreadsList, List.mem_append]
    rcases List.mem_cons.mp h with rfl | h
    · exact Or.inl hg
    · exact Or.inr (ih h)

mutual
  /-- the level of a selection is at most its syntactic height plus the highest level of a defined
      fragment spread inside it -/
  theorem lvlR_le (D : Document) (H M : Nat) (s : Selection)
      (hM : ∀ g ∈ s.spreads, (D.frag? g).isSome → (D.rank g + 1) * (H + 1) ≤ M) :
      s.lvlR D H ≤ s.localHeight + M := by
    cases s with
    | field p a n w ae d sub =>
      simp only [Selection.lvlR, Selection.localHeight]
      have := lvlRList_le D H M sub (by simpa [Selection.spreads] using hM)
      omega
    | spread p name d =>
      simp only [Selection.lvlR, Selection.localHeight]
      by_cases hd : (D.frag? name).isSome
      · simp only [hd, if_true]
        have := hM name (by simp [Selection.spreads]) hd
        omega
      · simp [hd]
    | inline p tc d sub =>
      simp only [Selection.lvlR, Selection.localHeight]
      have := lvlRList_le D H M sub (by simpa [Selection.spreads] using hM)
      omega
  theorem lvlRList_le (D : Document) (H M : Nat) (l : List Selection)
      (hM : ∀ g ∈ spreadsList l, (D.frag? g).isSome → (D.rank g + 1) * (H + 1) ≤ M) :
      lvlRList D H l ≤ localHeightList l + M := by
    cases l with
    | nil => simp [lvlRList]
    | cons s rest =>
      simp only [lvlRList, localHeightList]
      have h1 := lvlR_le D H M s (fun g hg => hM g (by simp [spreadsList, hg]))
      have h2 := lvlRList_le D H M rest (fun g hg => hM g (by simp [spreadsList, hg]))
      omega
end

theorem localHeight_le_max (D : Document) (s : Selection) (h : s ∈ D.nodes) : s.localHeight ≤ D.maxLocalHeight := by
  unfold Document.maxLocalHeight
  exact (foldl_max_le _ 0).2 _ (List.mem_map_of_mem (f := Selection.localHeight) h)

theorem frag_sels_mem_nodes (D : Document) (fr : Frag) (hfr : fr ∈ D.frags) (s : Selection) (hs : s ∈ fr.sels) : s ∈ D.nodes := by
  simp only [Document.nodes, List.mem_append, List.mem_flatMap]
  exact Or.inr ⟨fr, hfr, mem_nodesList_of_mem _ _ hs⟩

theorem frag?_name (D : Document) (name : String) (fr : Frag) (h : D.frag? name = some fr) : fr.name = name := by
  unfold Document.frag? at h
  simpa using List.find?_some h


theorem noSpreadCycle_spec (D : Document) (h : D.noSpreadCycle = true) (fr : Frag) (hfr : fr ∈ D.frags) :
    D.rank fr.name ≤ D.frags.length ∧
    ∀ g ∈ spreadsList fr.sels, (D.frag? g).isSome → D.rank g < D.rank fr.name := by
  unfold Document.noSpreadCycle at h
  rw [List.all_eq_true] at h
  have := h fr hfr
  simp only [Bool.and_eq_true, decide_eq_true_eq, List.all_eq_true] at this
  refine ⟨this.1, ?_⟩
  intro g hg hdef
  have h2 := this.2 g hg
  cases hf : D.frag? g with
  | none => simp [hf] at hdef
  | some fr' => simpa [hf] using h2

/-- **A document that passes `noSpreadCycle` has a descent certificate.** -/
theorem descends_of_noSpreadCycle (D : Document) (h : D.noSpreadCycle = true) :
    Descends D (· ∈ D.nodes) D.lvl := by
  refine ⟨?_, ?_, ?_⟩
  · intro pos alias name wkey ae dirs sub _ s hs
    simp only [Document.lvl, Selection.lvlR]
    have := lvlRList_mem D (D.maxLocalHeight + 1) sub s hs
    omega
  · intro pos tc dirs sub _ s hs
    simp only [Document.lvl, Selection.lvlR]
    have := lvlRList_mem D (D.maxLocalHeight + 1) sub s hs
    omega
  · intro pos name dirs fr _ hf s hs
    have hfr : fr ∈ D.frags := frag?_mem D name fr hf
    have hname : fr.name = name := frag?_name D name fr hf
    obtain ⟨_, hlt⟩ := noSpreadCycle_spec D h fr hfr
    have hsn : s ∈ D.nodes := frag_sels_mem_nodes D fr hfr s hs
    have hlh := localHeight_le_max D s hsn
    have hle := lvlR_le D (D.maxLocalHeight + 1) (D.rank name * (D.maxLocalHeight + 1 + 1)) s (by
      intro g hg hdef
      have := hlt g (spreadsList_mem fr.sels s hs g hg) hdef
      rw [hname] at this
      exact Nat.mul_le_mul_right _ (by omega))
    simp only [Document.lvl, Selection.lvlR, hf, Option.isSome_some, if_true]
    rw [Nat.add_mul, Nat.one_mul]
    omega

theorem lvl_lt_Lbound (D : Document) (h : D.noSpreadCycle = true) (s : Selection) (hs : s ∈ D.nodes) :
    D.lvl s < D.Lbound := by
  have hlh := localHeight_le_max D s hs
  have hle := lvlR_le D (D.maxLocalHeight + 1) ((D.frags.length + 1) * (D.maxLocalHeight + 1 + 1)) s (by
    intro g _ hdef
    cases hf : D.frag? g with
    | none => simp [hf] at hdef
    | some fr' =>
      have hfr : fr' ∈ D.frags := frag?_mem D g fr' hf
      have hname : fr'.name = g := frag?_name D g fr' hf
      have := (noSpreadCycle_spec D h fr' hfr).1
      rw [hname] at this
      exact Nat.mul_le_mul_right _ (by omega))
  simp only [Document.lvl, Document.Lbound]
  have : (D.frags.length + 2) * (D.maxLocalHeight + 2) =
      (D.frags.length + 1) * (D.maxLocalHeight + 1 + 1) + (D.maxLocalHeight + 2) := by
    rw [show D.frags.length + 2 = (D.frags.length + 1) + 1 from rfl, Nat.add_mul, Nat.one_mul]
  omega

end ApiFu.C01
