/-
  C01 — reference semantics: the GraphQL June-2018 execution algorithm (§6.1–6.4), written from the
  text of the specification, independently of the executor's structure.

  Shared with the model: only the *data* (schema, document, world, JSON, errors) and the meaning of
  the world (`resolve` = ResolveFieldValue of the generic resolver, `isTypeOf` = ResolveAbstractType
  of the generated object types).

  Differences in shape from the executor (deliberate — they are what the refinement theorems bridge):
    * CollectFields builds a fresh grouped set for every fragment and merges it into the caller's
      (the executor threads one accumulator); there is no memo;
    * ExecuteSelectionSet evaluates *every* field of the grouped set and then combines (the executor
      stops at the first failing non-null sibling);
    * a field whose name is not defined on the object type is skipped (§6.3 ExecuteSelectionSet: "If
      fieldType is defined"); the executor leaves a blank slot. The reference reports this situation
      as `undef` (it cannot arise for a validated document);
    * error handling follows §6.4.4: a field error makes the field null; a null in a Non-Null
      position is itself a field error handled by the parent; a list whose item type is Non-Null
      becomes null as a whole.

  The reference computes three things:
    `data`  — the response data (`none` = the error propagated to the root: `"data": null`);
    `all`   — every field error that *any* evaluation order could report (all siblings evaluated);
    `req`   — the errors that must be reported: for every null that a failure leaves visible in
              `data`, the error of the failing position that caused it (when several non-null
              siblings fail, the one first in response order — the normative serial order).
  Locations follow the property statement: the first selecting field node for completion errors,
  all merged field nodes for resolver errors, the coercion error's own for argument coercion.
-/
import ApiFu.C01.Model

namespace ApiFu.C01.Spec

open ApiFu.C01

/-! ## 6.3.2 CollectFields -/

abbrev GroupedFieldSet := List (String × List FieldNode)

/-- "Let groupForResponseKey be the list in groupedFields for responseKey; if no such list exists,
    create it as an empty list. Append all items …" -/
def addToGroup : GroupedFieldSet → String → List FieldNode → GroupedFieldSet
  | [], key, fs => [(key, fs)]
  | (k, g) :: rest, key, fs =>
    if k = key then (k, g ++ fs) :: rest else (k, g) :: addToGroup rest key fs

/-- "For each fragmentGroup in fragmentGroupedFieldSet …" -/
def mergeGroups (into : GroupedFieldSet) (from_ : GroupedFieldSet) : GroupedFieldSet :=
  from_.foldl (fun acc p => addToGroup acc p.1 p.2) into

/-- §3.13 `@skip(if: true)` or `@include(if: false)`. -/
def excluded (dirs : List Dir) : Bool :=
  dirs.contains (.skip true) || dirs.contains (.incl false)

/-- DoesFragmentTypeApply(objectType, fragmentType). A type condition that names no composite type
    of the schema never applies (validation excludes it). -/
def doesFragmentTypeApply (S : Schema) (o : ObjT) (tc : String) : Bool :=
  match S.lookup tc with
  | some (.object _ _) => tc = o.name
  | some (.interface _) => tc ∈ o.ifaces
  | some (.union members) => o.name ∈ members
  | _ => false

def fragmentNamed (D : Document) (name : String) : Option Frag :=
  D.frags.foldl (fun found f => if f.name = name then some f else found) none

def toFieldNode (pos : Pos) (alias : Option String) (name wkey : String) (argErr : Option ArgErr)
    (sub : List Selection) : FieldNode :=
  { pos, alias, name, wkey, argErr, sels := sub }

def responseKeyOf (alias : Option String) (name : String) : String := alias.getD name

/-- One iteration of "for each selection in selectionSet"; `recur` is the recursive CollectFields. -/
def collectSelection (S : Schema) (D : Document) (o : ObjT)
    (recur : List Selection → List String → Option (GroupedFieldSet × List String))
    (acc : GroupedFieldSet × List String) (sel : Selection) : Option (GroupedFieldSet × List String) :=
  let (grouped, visited) := acc
  if excluded sel.dirs then some (grouped, visited) else
  match sel with
  | .field pos alias name wkey argErr _ sub =>
    some (addToGroup grouped (responseKeyOf alias name) [toFieldNode pos alias name wkey argErr sub], visited)
  | .spread _ name _ =>
    if name ∈ visited then some (grouped, visited) else
    let visited := name :: visited
    match fragmentNamed D name with
    | none => some (grouped, visited)
    | some fr =>
      if doesFragmentTypeApply S o fr.tc then
        match recur fr.sels visited with
        | none => none
        | some (fg, visited) => some (mergeGroups grouped fg, visited)
      else some (grouped, visited)
  | .inline _ tc _ sub =>
    let applies := match tc with
      | none => true
      | some tc => doesFragmentTypeApply S o tc
    if applies then
      match recur sub visited with
      | none => none
      | some (fg, visited) => some (mergeGroups grouped fg, visited)
    else some (grouped, visited)

/-- CollectFields(objectType, selectionSet, variableValues, visitedFragments); the visited set is
    updated in place by the text, so it is returned. `none`: fuel exhausted. -/
def collectFields (S : Schema) (D : Document) (o : ObjT) :
    Nat → List Selection → List String → Option (GroupedFieldSet × List String)
  | 0, _, _ => none
  | fuel + 1, sels, visited =>
    sels.foldlM (collectSelection S D o (collectFields S D o fuel)) (([] : GroupedFieldSet), visited)

/-! ## Result coercion (§3.5 scalars, §3.9 enums)

  The specification leaves latitude ("may coerce … when reasonable without losing information");
  the choices below are the ones api-fu documents: Int accepts integral numbers in the 32-bit range
  and booleans (as 0/1); Float accepts any number (an integer becomes the nearest double) and
  booleans; String only strings; Boolean only booleans; ID accepts strings and integers that fit a
  signed 64-bit integer (serialised in decimal). The Go integer kind of a value only determines which
  integer it is (`IntKind.wrap`), never how it is coerced. -/

def asInteger? : GoVal → Option Int
  | .int k z => some (k.wrap z)
  | .bool true => some 1
  | .bool false => some 0
  | .flt _ m e =>
    if 0 ≤ e then some (m * 2 ^ e.toNat)
    else if (2 ^ (-e).toNat : Int) ∣ m then some (m / 2 ^ (-e).toNat) else none
  | _ => none

def resultCoerce (k : ScalarKind) (g : GoVal) : Option Json :=
  match k with
  | .int =>
    match asInteger? g with
    | some z => if -(2 ^ 31 : Int) ≤ z ∧ z < 2 ^ 31 then some (.int z) else none
    | none => none
  | .float =>
    match g with
    | .flt _ m e => some (.num m e)
    | .int k z => some (.num (roundF64 (k.wrap z)).1 (roundF64 (k.wrap z)).2)
    | .bool b => some (.num (if b then 1 else 0) 0)
    | _ => none
  | .string => match g with | .str s => some (.str s) | _ => none
  | .boolean => match g with | .bool b => some (.bool b) | _ => none
  | .id =>
    match g with
    | .str s => some (.str s)
    | .int k z => if k.wrap z < 2 ^ 63 then some (.str (toString (k.wrap z))) else none
    | _ => none

/-- Enum result coercion: the name of the enum value whose internal value is the result. -/
def enumCoerce (values : List (String × GoVal)) (g : GoVal) : Option Json :=
  (values.find? (fun p => p.2 = g)).map (fun p => .str p.1)

/-! ## 6.4 Executing fields, with 6.4.4 error handling -/

/-- Outcome of evaluating one response position. -/
structure SOut where
  /-- `none`: a field error propagates out of this position. -/
  data : Option Json
  /-- every error raised in the subtree (all siblings evaluated) -/
  all : List Err
  /-- the errors that explain the nulls left visible in `data` (or, if `data = none`, the one error
      that propagates) -/
  req : List Err
  /-- a selected field was not defined on its object type (outside the validated domain) -/
  undef : Bool
  deriving Inhabited

def fieldError (e : Err) : SOut := { data := none, all := [e], req := [e], undef := false }

def completed (j : Json) : SOut := { data := some j, all := [], req := [], undef := false }

/-- §6.4.4: a position of nullable type absorbs a propagating field error and becomes null. -/
def atPosition (t : TypeRef) (r : SOut) : SOut :=
  match t with
  | .nonNull _ => r
  | _ =>
    match r.data with
    | none => { r with data := some .null }
    | some _ => r

/-- ExecuteSelectionSet's result map from the per-field outcomes (`none` = field not defined on the
    object type: skipped). If a field error propagates out of some field, it propagates out of the
    selection set: the first such field in response order supplies the required error. -/
def combineFields (rs : List (Option (String × SOut))) : SOut :=
  let present := rs.filterMap id
  let all := present.flatMap (·.2.all)
  let undef := rs.any Option.isNone || present.any (·.2.undef)
  match present.find? (fun p => p.2.data.isNone) with
  | some p => { data := none, all := all, req := p.2.req, undef := undef }
  | none =>
    { data := some (.obj (present.filterMap fun p => p.2.data.map fun j => (p.1, j))),
      all := all, req := present.flatMap (·.2.req), undef := undef }

/-- A list value from its items' outcomes: "if one of the elements resolves to null [in a Non-Null
    item type] then the entire list must resolve to null" — i.e. the item's error propagates. -/
def combineItems (rs : List SOut) : SOut :=
  let all := rs.flatMap (·.all)
  let undef := rs.any (·.undef)
  match rs.find? (fun r => r.data.isNone) with
  | some r => { data := none, all := all, req := r.req, undef := undef }
  | none => { data := some (.arr (rs.filterMap (·.data))), all := all, req := rs.flatMap (·.req), undef := undef }

def isNullish : RVal → Bool
  | .null => true
  | .tnil => true
  | _ => false

/-- MergeSelectionSets(fields). -/
def mergeSelectionSets (fields : List FieldNode) : List Selection :=
  fields.foldr (fun f acc => f.sels ++ acc) []

/-- ResolveAbstractType for an interface: the implementing object type the value belongs to. -/
def possibleTypes (S : Schema) (n : String) : List String :=
  match S.lookup n with
  | some (.union members) => members
  | some (.interface _) =>
    (S.types.filter fun p => match p.2 with | .object _ is => n ∈ is | _ => false).map (·.1)
  | _ => []

/-- One entry of ExecuteSelectionSet's loop: ExecuteField (CoerceArgumentValues, ResolveFieldValue,
    CompleteValue) with §6.4.4 error handling at the field's position. Outer `none`: stuck; inner
    `none`: the field is not defined on the object type (skipped). `complete` is CompleteValue. -/
def executeEntry (o : ObjT) (objVal : RVal) (path : Path)
    (complete : TypeRef → List FieldNode → FieldNode → RVal → Path → Option SOut)
    (p : String × List FieldNode) : Option (Option (String × SOut)) :=
  let responseKey := p.1
  let fields := p.2
  match fields with
  | [] => none
  | f0 :: _ =>
    let here : Path := path ++ [PathSeg.key responseKey]
    if f0.name = "__typename" then some (some (responseKey, completed (.str o.name))) else
    match o.fields.find? (fun (fd : FieldDef) => fd.name = f0.name) with
    | none => some none
    | some fd =>
      let r : Option SOut :=
        match f0.argErr with
        | some ae => some (fieldError { msg := .argCoercion ae.msg, path := here, locs := ae.locs })
        | none =>
          match resolve objVal f0.wkey with
          | .err m => some (fieldError { msg := .resolver m, path := here, locs := fields.map FieldNode.pos })
          | .val v => complete fd.type fields f0 v here
      r.map fun r => some (responseKey, atPosition fd.type r)

/-- One list item: CompleteValue at the item type, with error handling at the item's position. -/
def completeItem (inner : TypeRef) (path : Path) (complete : RVal → Path → Option SOut) (p : RVal × Nat) : Option SOut :=
  (complete p.1 (path ++ [PathSeg.idx p.2])).map (atPosition inner)

mutual

/-- ExecuteSelectionSet(selectionSet, objectType, objectValue, variableValues). -/
def executeSelectionSet (S : Schema) (D : Document) :
    Nat → ObjT → List Selection → RVal → Path → Option SOut
  | 0, _, _, _, _ => none
  | fuel + 1, o, sels, objVal, path =>
    match collectFields S D o fuel sels [] with
    | none => none
    | some (grouped, _) =>
      (grouped.mapM (executeEntry o objVal path (completeValue S D fuel))).map combineFields

/-- CompleteValue(fieldType, fields, result, variableValues). -/
def completeValue (S : Schema) (D : Document) :
    Nat → TypeRef → List FieldNode → FieldNode → RVal → Path → Option SOut
  | 0, _, _, _, _, _ => none
  | fuel + 1, t, fields, f0, v, path =>
    match t with
    | .nonNull inner =>
      match completeValue S D fuel inner fields f0 v path with
      | none => none
      | some r =>
        match r.data with
        | some .null =>
          let e : Err := { msg := .nullNonNull, path := path, locs := [f0.pos] }
          some { r with data := none, all := r.all ++ [e], req := [e] }
        | _ => some r
    | .list inner =>
      if isNullish v then some (completed .null) else
      match v with
      | .list items =>
        ((items.zipIdx).mapM (completeItem inner path (completeValue S D fuel inner fields f0))).map combineItems
      | _ => some (fieldError { msg := .notList, path := path, locs := [f0.pos] })
    | .named n =>
      if isNullish v then some (completed .null) else
      match S.lookup n with
      | some (.scalar k) =>
        match v with
        | .leaf g =>
          match resultCoerce k g with
          | some j => some (completed j)
          | none => some (fieldError { msg := .scalarResult, path := path, locs := [f0.pos] })
        | _ => some (fieldError { msg := .scalarResult, path := path, locs := [f0.pos] })
      | some (.enum values) =>
        match v with
        | .leaf g =>
          match enumCoerce values g with
          | some j => some (completed j)
          | none => some (fieldError { msg := .enumResult n, path := path, locs := [f0.pos] })
        | _ => some (fieldError { msg := .enumResult n, path := path, locs := [f0.pos] })
      | some (.object fs is) =>
        executeSelectionSet S D fuel { name := n, fields := fs, ifaces := is } (mergeSelectionSets fields) v path
      | some _ =>
        match (possibleTypes S n).find? (fun t => isTypeOf t v) with
        | none => some (fieldError { msg := .noObjectType, path := path, locs := [f0.pos] })
        | some tn =>
          match S.object? tn with
          | none => none
          | some o => executeSelectionSet S D fuel o (mergeSelectionSets fields) v path
      | none => none

end

/-! ## 6.1 Executing requests -/

inductive Result where
  /-- GetOperation failed, or the schema has no root type for the operation: a request error, no
      execution (the response has no data). -/
  | requestError
  | executed (out : SOut)
  /-- the reference ran out of fuel (or met a dangling type reference) -/
  | stuck

/-- GetOperation(document, operationName) -/
def getOperation (D : Document) (opName : String) : Option Op :=
  if opName = "" then
    match D.ops with
    | [op] => some op
    | _ => none
  else
    match D.ops.filter (fun op => op.name = some opName) with
    | [op] => some op
    | _ => none

def rootType (S : Schema) : OpKind → Option String
  | .query => some S.query
  | .mutation => S.mutation
  | .subscription => S.subscription

/-- ExecuteRequest. (A subscription here is one event of the response stream:
    ExecuteSubscriptionEvent, which is ExecuteSelectionSet on the subscription root.) -/
def executeRequest (S : Schema) (D : Document) (fuel : Nat) (opName : String) (root : RVal) : Result :=
  match getOperation D opName with
  | none => .requestError
  | some op =>
    match (rootType S op.kind).bind S.object? with
    | none => .requestError
    | some o =>
      match executeSelectionSet S D fuel o op.sels root [] with
      | none => .stuck
      | some out => .executed out

end ApiFu.C01.Spec
