/-
  C01 ← C04, field merging: a document that C04's judgement accepts satisfies C01's fuel-free merge condition
  `Document.MergeRel` (SyntacticRel.lean).

  C04 proves (PropsOverlap.lean, Merge1–17) that on inputs satisfying its `InputOk` the rule `Spec.fieldsMerge`
  holds iff no selection set of the document has a conflict witness `SetBad … DiffCF`, and (`Merge11`) that
  then there is no `Loose` witness either: no two fields collected (relationally, through inline fragments and
  spreads: `Collects`) in one selection set with one response name are in conflict — locally or through a
  conflicting pair beneath them at any depth. Here a C01 witness `MBad` over `toDoc a D4` is mapped to such a
  C04 witness (`mbad_to_mergeBad`): a field `Coll` reaches is a field `Collects` reaches (`coll_collects`),
  with TypeInfo's scopes equal to C01's scopes on well-scoped documents (`good_allSets`).
-/
import ApiFu.C01.FromC04
import ApiFu.C01.SyntacticRel
import ApiFu.C04.PropsOverlap

namespace ApiFu.C01

open C04 (SetRef Collects Sub TField MergeBad SetBad Loose allSets mkRef)
open C04.Model (FRef)

theorem toSels_eq_map (a : Ann) (sels : List C04.Selection) : toSels a sels = sels.map (toSel a) := by
  induction sels with
  | nil => rfl
  | cons s rest ih => simp [toSels, ih]

theorem toSet_eq (a : Ann) (ss : C04.SelSet) : toSet a ss = toSels a ss.sels := by
  cases ss; rfl

theorem coll_nil (D : Document) (scope : String) (z : String × Selection) : ¬ Coll D scope [] z := by
  intro h
  cases h with
  | field hm => simp at hm
  | inline hm _ => simp at hm
  | spread hm _ _ => simp at hm

theorem toSel_field_ne_inline (a : Ann) (al n np args dirs sel pos tc d sub) :
    toSel a (.field al n np args dirs sel) ≠ .inline pos tc d sub := by
  cases sel <;> simp [toSel]

theorem toSel_field_ne_spread (a : Ann) (al n np args dirs sel pos name d) :
    toSel a (.field al n np args dirs sel) ≠ .spread pos name d := by
  cases sel <;> simp [toSel]

/-- the C04 entry of a collected C01 field -/
def Corr (S4 : C04.Schema) (a : Ann) (z : String × Selection) (f : FRef) : Prop :=
  ∃ scope sp al n np args dirs sub,
    z = (scope, toSel a (.field al n np args dirs sub)) ∧ f = mkRef S4 (some scope) sp al n np args sub

theorem namedType_some (S4 : C04.Schema) (t p : String) (h : C04.Model.namedType S4 t = some p) : p = t := by
  rw [C04.namedType_eq_condScope] at h
  unfold C04.Spec.condScope at h
  split at h <;> simp at h
  exact h.symm

theorem toDoc_frags_eq (a : Ann) (D4 : C04.Document) :
    (toDoc a D4).frags = (C04.Model.fragsOf D4).map (fun F => ({ name := F.name, tc := F.tc, sels := toSet a F.sel } : Frag)) := by
  unfold toDoc C04.Model.fragsOf
  simp only
  induction D4 with
  | nil => rfl
  | cons d rest ih =>
    cases d with
    | op kind name vars dirs sel => simpa [List.filterMap_cons, toFrag?] using ih
    | frag n np tc tcp dirs sel p => simp [List.filterMap_cons, toFrag?, ih]

/-- the fragment the executor's document looks up is the one the validator's model looks up -/
theorem frag?_fragLast (a : Ann) (D4 : C04.Document) (n : String) (fr : Frag) (h : (toDoc a D4).frag? n = some fr) :
    ∃ F, C04.Model.fragLast D4 n = some F ∧ fr.tc = F.tc ∧ fr.sels = toSet a F.sel := by
  have hfr := toDoc_frags_eq a D4
  unfold Document.frag? at h
  unfold C04.Model.fragLast
  rw [hfr, ← List.map_reverse] at h
  generalize (C04.Model.fragsOf D4).reverse = l at h ⊢
  induction l with
  | nil => simp at h
  | cons F rest ih =>
    simp only [List.map_cons, List.find?_cons] at h ⊢
    by_cases hn : F.name = n
    · simp only [hn, beq_self_eq_true, Option.some.injEq] at h
      subst h
      exact ⟨F, by simp [hn], rfl, rfl⟩
    · have hb : (F.name == n) = false := by simpa using hn
      simp only [hb] at h
      simp only [hn, decide_false]
      exact ih h

/-- a field `Coll` reaches from a selection set of the document is a field `Collects` reaches -/
theorem coll_collects {S4 : C04.Schema} {D4 : C04.Document} (a : Ann) (hgood : ∀ r ∈ allSets S4 D4, C04.GoodSet S4 r) (scope : String) (l : List Selection) (z : String × Selection)
    (h : Coll (toDoc a D4) scope l z) :
    ∀ sp sels, l = toSels a sels → (⟨some scope, sp, sels⟩ : SetRef) ∈ allSets S4 D4 →
      ∃ f, Collects S4 D4 (some scope) sp sels f ∧ Corr S4 a z f := by
  induction h with
  | @field scope l pos alias name wkey ae dirs sub hm =>
    intro sp sels hl hr
    rw [hl, toSels_eq_map, List.mem_map] at hm
    obtain ⟨s, hs, he⟩ := hm
    cases s with
    | field al n np args dirs4 sel =>
      refine ⟨mkRef S4 (some scope) sp al n np args sel, .field hs, scope, sp, al, n, np, args, dirs4, sel, ?_, rfl⟩
      rw [he]
    | spread n np dirs4 p => simp [toSel] at he
    | inline tc dirs4 ss p => simp [toSel] at he
  | @inline scope l pos tc dirs sub z hm _ ih =>
    intro sp sels hl hr
    rw [hl, toSels_eq_map, List.mem_map] at hm
    obtain ⟨s, hs, he⟩ := hm
    cases s with
    | field al n np args dirs4 sel => exact absurd he (toSel_field_ne_inline a _ _ _ _ _ _ _ _ _ _)
    | spread n np dirs4 p => simp [toSel] at he
    | inline tc4 dirs4 ss p =>
      simp only [toSel, Selection.inline.injEq] at he
      obtain ⟨_, htc, _, hsub⟩ := he
      have hr' := (C04.allSets_children S4 D4 _ hr).2 tc4 dirs4 ss p hs
      obtain ⟨p', hp', _⟩ := (hgood _ hr').inv
      simp only at hp'
      have hscope : p' = tc.getD scope := by
        cases tc4 with
        | none =>
          simp only [C04.Model.inlineScope, Option.some.injEq] at hp'
          rw [← htc]; simpa using hp'.symm
        | some tp =>
          obtain ⟨t, tpos⟩ := tp
          simp only [C04.Model.inlineScope] at hp'
          rw [← htc]
          simpa using namedType_some S4 t p' hp'
      rw [hp', hscope] at hr'
      obtain ⟨f, hc, hcorr⟩ := ih ss.pos ss.sels (by rw [← hsub, toSet_eq]) hr'
      refine ⟨f, .inline hs ?_, hcorr⟩
      rw [hp', hscope]
      exact hc
  | @spread scope l pos name dirs fr z hm hfr _ ih =>
    intro sp sels hl hr
    rw [hl, toSels_eq_map, List.mem_map] at hm
    obtain ⟨s, hs, he⟩ := hm
    cases s with
    | field al n np args dirs4 sel => exact absurd he (toSel_field_ne_spread a _ _ _ _ _ _ _ _ _)
    | inline tc4 dirs4 ss p => simp [toSel] at he
    | spread n np dirs4 p =>
      simp only [toSel, Selection.spread.injEq] at he
      obtain ⟨_, hname, _⟩ := he
      subst hname
      obtain ⟨F, hF, htc, hsels⟩ := frag?_fragLast a D4 n fr hfr
      have hr' := C04.allSets_frag (S := S4) hF
      obtain ⟨p', hp', _⟩ := (hgood _ hr').inv
      simp only at hp'
      have hscope : p' = fr.tc := by rw [htc]; exact namedType_some S4 F.tc p' hp'
      rw [hp', hscope] at hr'
      obtain ⟨f, hc, hcorr⟩ := ih F.sel.pos F.sel.sels (by rw [hsels, toSet_eq]) hr'
      refine ⟨f, .spread hs hF ?_, hcorr⟩
      rw [hp', hscope]
      exact hc

/-- a field the executor's typing judgement finds is the field TypeInfo records -/
theorem fieldDefinition_of_fieldOn {S4 : C04.Schema} {S : Schema} (hrel : SchemaRel S4 S) (p n : String) (fd : FieldDef) (h : S.fieldOn p n = some fd) :
    ∃ d, C04.Model.fieldDefinition S4 (some p) n = some d ∧ d.type.base = fd.type.base := by
  have hk := hrel.types p
  unfold Schema.fieldOn Schema.fieldsOf at h
  unfold C04.Model.fieldDefinition
  simp only [C04.kindOf_eq]
  generalize hl : S.lookup p = l at hk h
  generalize hk4 : C04.Spec.kindOf S4 p = k4 at hk
  cases hk with
  | object fs is =>
    simp only [find?_map_fieldOf] at h
    cases hf : C04.findField fs n with
    | none => simp [hf] at h
    | some d =>
      simp only [hf, Option.map_some, Option.some.injEq] at h
      exact ⟨d, by simp [hf], by rw [← h]; simp [fieldOf, trefOf_base]⟩
  | interface fs =>
    simp only [find?_map_fieldOf] at h
    cases hf : C04.findField fs n with
    | none => simp [hf] at h
    | some d =>
      simp only [hf, Option.map_some, Option.some.injEq] at h
      exact ⟨d, by simp [hf], by rw [← h]; simp [fieldOf, trefOf_base]⟩
  | union ms => simp at h
  | scalar sp k => simp at h
  | enum vs vals => simp at h
  | input defs => simp at h
  | scalarAbsent sp => simp at h
  | enumAbsent vs => simp at h
  | none => simp at h

theorem isObjectName_eq {S4 : C04.Schema} {S : Schema} (hrel : SchemaRel S4 S) (p : String) : C04.Model.isObjectName S4 p = isObjectType S p := by
  have hk := hrel.types p
  unfold C04.Model.isObjectName isObjectType
  simp only [C04.kindOf_eq]
  generalize S.lookup p = l at hk
  generalize C04.Spec.kindOf S4 p = k4 at hk
  cases hk <;> simp [C04.TypeKind.isObject]

/-- compatible parents in C01's sense are compatible parents in C04's -/
theorem parentsCond_of {S4 : C04.Schema} {S : Schema} (hrel : SchemaRel S4 S) (a : Ann) (z w : String × Selection) (fz fw : FRef) (hz : Corr S4 a z fz) (hw : Corr S4 a w fw)
    (hnot : ¬ (isObjectType S z.1 = true ∧ isObjectType S w.1 = true ∧ z.1 ≠ w.1)) :
    C04.parentsCond S4 fz fw = true := by
  obtain ⟨s1, sp1, al1, n1, np1, args1, dirs1, sub1, rfl, rfl⟩ := hz
  obtain ⟨s2, sp2, al2, n2, np2, args2, dirs2, sub2, rfl, rfl⟩ := hw
  simp only [C04.parentsCond, mkRef, Bool.or_eq_true, decide_eq_true_eq, Bool.not_eq_true', isObjectName_eq hrel]
  simp only at hnot
  by_cases h1 : isObjectType S s1 = true
  · by_cases h2 : isObjectType S s2 = true
    · left; left
      by_cases he : s1 = s2
      · exact he
      · exact absurd ⟨h1, h2, he⟩ hnot
    · right; simpa using h2
  · left; right; simpa using h1

theorem corr_rname {S4 : C04.Schema} (a : Ann) (z : String × Selection) (f : FRef) (h : Corr S4 a z f) :
    z.2.fieldKey = f.rname ∧ z.2.fieldName = f.name := by
  obtain ⟨s, sp, al, n, np, args, dirs, sub, rfl, rfl⟩ := h
  refine ⟨?_, rfl⟩
  simp only [toSel, Selection.fieldKey, mkRef, C04.responseName]
  cases al with
  | none => rfl
  | some p => rfl

/-- the fields `Coll` reaches beneath a collected field are fields `Sub` reaches beneath its C04 entry -/
theorem coll_sub {S4 : C04.Schema} {S : Schema} {D4 : C04.Document} (hrel : SchemaRel S4 S) (a : Ann) (hgood : ∀ r ∈ allSets S4 D4, C04.GoodSet S4 r) (z : String × Selection) (fz : FRef) (hz : Corr S4 a z fz) (tz : TField S4 D4 fz)
    (fd : FieldDef) (hfd : S.fieldOn z.1 z.2.fieldName = some fd) (w : String × Selection)
    (h : Coll (toDoc a D4) fd.type.base z.2.subs w) :
    ∃ f, Sub S4 D4 fz f ∧ Corr S4 a w f ∧ TField S4 D4 f := by
  obtain ⟨s, sp, al, n, np, args, dirs, sub, rfl, rfl⟩ := hz
  cases sub with
  | none => exact absurd h (by simpa [toSel, Selection.subs] using coll_nil _ _ _)
  | some ss =>
    simp only [toSel, Selection.subs, Selection.fieldName] at h hfd
    obtain ⟨d, hd, hbase⟩ := fieldDefinition_of_fieldOn hrel s n fd hfd
    have hinner : (mkRef S4 (some s) sp al n np args (some ss)).inner = some fd.type.base := by
      simp [mkRef, C04.Model.innerScope, hd, hbase]
    have hset := tz.subSet (ss := ss) rfl
    rw [hinner] at hset
    obtain ⟨f, hc, hcorr⟩ := coll_collects a hgood _ _ _ h ss.pos ss.sels (toSet_eq a ss) hset
    have hsub : Sub S4 D4 (mkRef S4 (some s) sp al n np args (some ss)) f := ⟨ss, rfl, by rw [hinner]; exact hc⟩
    exact ⟨f, hsub, hcorr, hsub.tfield tz⟩

/-- **a C01 conflict witness is a C04 conflict witness** -/
theorem mbad_to_mergeBad {S4 : C04.Schema} {S : Schema} {D4 : C04.Document} (hrel : SchemaRel S4 S) (a : Ann) (hgood : ∀ r ∈ allSets S4 D4, C04.GoodSet S4 r) (P Q : String × List Selection) (h : MBad S (toDoc a D4) P Q) :
    ∀ (Src : FRef → Prop),
      (∀ z, Coll (toDoc a D4) P.1 P.2 z ∨ Coll (toDoc a D4) Q.1 Q.2 z → ∃ f, Src f ∧ Corr S4 a z f ∧ TField S4 D4 f) →
      ∃ x y, Src x ∧ Src y ∧ x.rname = y.rname ∧ MergeBad S4 D4 Loose x y := by
  induction h with
  | @name P Q z w hz hw hkey hnot hname =>
    intro Src hsrc
    obtain ⟨fz, sz, cz, _⟩ := hsrc z hz
    obtain ⟨fw, sw, cw, _⟩ := hsrc w hw
    obtain ⟨kz, nz⟩ := corr_rname a z fz cz
    obtain ⟨kw, nw⟩ := corr_rname a w fw cw
    refine ⟨fz, fw, sz, sw, by rw [← kz, ← kw, hkey], .loc (parentsCond_of hrel a z w fz fw cz cw hnot) ?_⟩
    simp only [C04.mergeLocalOk, Bool.and_eq_false_iff, decide_eq_false_iff_not]
    left
    rw [← nz, ← nw]
    exact hname
  | @deep P Q z w fa fb hz hw hkey hnot hfa hfb _ ih =>
    intro Src hsrc
    obtain ⟨fz, sz, cz, tz⟩ := hsrc z hz
    obtain ⟨fw, sw, cw, tw⟩ := hsrc w hw
    obtain ⟨kz, _⟩ := corr_rname a z fz cz
    obtain ⟨kw, _⟩ := corr_rname a w fw cw
    have hpc := parentsCond_of hrel a z w fz fw cz cw hnot
    obtain ⟨x, y, hx, hy, hxy, hbad⟩ := ih (fun f => Sub S4 D4 fz f ∨ Sub S4 D4 fw f) (by
      intro u hu
      rcases hu with hu | hu
      · obtain ⟨f, h1, h2, h3⟩ := coll_sub hrel a hgood z fz cz tz fa hfa u hu
        exact ⟨f, Or.inl h1, h2, h3⟩
      · obtain ⟨f, h1, h2, h3⟩ := coll_sub hrel a hgood w fw cw tw fb hfb u hu
        exact ⟨f, Or.inr h1, h2, h3⟩)
    exact ⟨fz, fw, sz, sw, by rw [← kz, ← kw, hkey], .deep hpc hx hy hxy trivial hbad⟩

/-- **mergeRel_of_valid** — FieldsInSetCanMerge as far as execution needs it, derived from the validator's
    judgement: if `C04.Spec.valid S4 D4` (on inputs satisfying C04's `InputOk`: well-formed schema description,
    distinct positions), no operation's selection set of `toDoc a D4` conflicts with itself. -/
theorem mergeRel_of_valid {S4 : C04.Schema} {S : Schema} (hrel : SchemaRel S4 S) (a : Ann) (D4 : C04.Document)
    (hin : C04.InputOk S4 D4) (hvalid : C04.Spec.valid S4 D4 = true) : (toDoc a D4).MergeRel S := by
  have hall := (C04.allRules_iff_valid S4 D4).2 hvalid
  have hp := hall.toProvedRulesHold
  have hm := C04.mergeHyp2_of_rules hin hp
  have hmerge := (C04.model_merge_eq_spec hm hp.noFragmentCycles).2 hall.fieldsMerge
  have hstrict := (C04.model_merge_semantics hm hp.noFragmentCycles).1 hmerge
  have hloose := C04.loose_free_of_strict_free (C04.localRefl hm) hstrict
  have hgood := C04.good_allSets hm.ws
  intro op hop r hr hbad
  simp only [toDoc, List.mem_filterMap] at hop
  obtain ⟨d, hd, hopd⟩ := hop
  cases d with
  | frag n np tc tcp dirs sel pos => simp [toOp?] at hopd
  | op kind name vars dirs sel =>
    simp only [toOp?, Option.some.injEq] at hopd
    subst hopd
    simp only [hrel.root_eq] at hr
    have hset : (⟨some r, sel.pos, sel.sels⟩ : SetRef) ∈ allSets S4 D4 := by
      have := C04.allSets_def (S := S4) hd
      simpa [C04.Model.defScope, C04.Model.opScope, C04.Model.defSel, hr] using this
    obtain ⟨x, y, hx, hy, hxy, hb⟩ := mbad_to_mergeBad hrel a hgood _ _ hbad
      (fun f => Collects S4 D4 (some r) sel.pos sel.sels f) (by
        intro z hz
        have hz' : Coll (toDoc a D4) r (toSet a sel) z := by rcases hz with h | h <;> exact h
        obtain ⟨f, hc, hcorr⟩ := coll_collects a hgood _ _ _ hz' sel.pos sel.sels (toSet_eq a sel) hset
        exact ⟨f, hc, hcorr, hc.tfield hset⟩)
    exact hloose _ hset ⟨x, y, hx, hy, hxy, trivial, hb⟩

end ApiFu.C01
