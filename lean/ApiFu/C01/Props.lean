/-
  C01 — property theorems (placeholder while the end-to-end pipeline is brought up).
-/
import ApiFu.C01.Model
import ApiFu.C01.Spec

namespace ApiFu.C01

end ApiFu.C01
