/-
  C01 — property theorems: the executor model (ApiFu.C01.Model, the code as written, memo included)
  refines the June-2018 execution algorithm (ApiFu.C01.Spec).

  Quantifiers. Every theorem holds for every schema `S`, document `D`, world (`root : RVal`),
  operation name and every fuel of either side; "sufficient fuel" appears as the hypotheses that the
  model's run is `.ok resp` (not `stuck outOfFuel`) and the reference's is `.executed s`.
  Hypotheses about the document are facts about *parsed* documents (property C06), checked by the
  harness on every case:
    * `(D.nodes.map Selection.pos).Nodup` — distinct selection nodes have distinct (line, column);
      needed only because `collectFields` memoises by positions (the memo-free variant needs none);
    * `∀ s ∈ D.nodes, s.keyOK` — response keys (aliases / names) are non-empty.
  No typing hypothesis is needed: `exec_data_eq_ref_all_documents`, `errors_sandwich`,
  `null_explained_once` hold for *every* document, the model's data being compared with its blank
  slots erased (`Json.strip`; the executor leaves `"": null` for a field that is not defined on the
  object type, the specification skips it). For documents in the validated shape — the reference
  meets no undefined field, `s.undef = false`, guaranteed by rule FieldsOnCorrectType —
  `exec_data_eq_ref` gives plain equality.
  Helper lemmas live in Lemmas.lean; only the property statements are here.
-/
import ApiFu.C01.Lemmas

namespace ApiFu.C01

/-! ## 1. Response keys -/

/-- **exec_keys_in_document_order** — the keys of the object the executor builds for a selection set
    are, slot by slot, the response keys of the grouped field set, i.e. of the field sequence obtained
    by expanding fragments (each at its first spread) and applying `@skip`/`@include`, in order of first
    occurrence (`firstOccurrences`, `groupInOrder_keys`); a slot is blank exactly when its field is not
    defined on the object type (`slotKey`). Holds for the model as written (memo on or off). -/
theorem exec_keys_in_document_order (memo : Bool) (S : Schema) (D : Document)
    (hpos : (D.nodes.map Selection.pos).Nodup)
    (fuel : Nat) (o : ObjT) (sels : List Selection) (v : RVal) (path : Path) (j : Json)
    (ho : S.object? o.name = some o) (hsels : ∀ s ∈ sels, s ∈ D.nodes)
    (h : (execSelections memo S D fuel o sels v path []).r = .ok j) :
    ∃ fuel0 fs vis kvs, expand S D o fuel0 sels [] = .ok (fs, vis) ∧ j = .obj kvs ∧
      kvs.map (·.1) = (groupInOrder fs).map (slotKey o) ∧
      (groupInOrder fs).keys = firstOccurrences (fs.map FieldNode.responseKey) ∧
      ∀ p ∈ groupInOrder fs, p.2 = fs.filter (fun f => f.responseKey == p.1) := by
  obtain ⟨fuel0, fs, vis, kvs, h1, h2, h3⟩ :=
    execSelections_keys memo S D (· ∈ D.nodes) (nodeSet_of_distinct_positions D hpos).1 fuel o sels v path [] j
      (cacheOK_nil _ _ _) ho hsels h
  exact ⟨fuel0, fs, vis, kvs, h1, h2, h3, groupInOrder_keys fs, groupInOrder_exact fs⟩

/-- Non-vacuity of the order statement: `b a b` with an alias collapses to keys `b, a` in that order. -/
example :
    firstOccurrences (["b", "a", "b", "c", "a"]) = ["b", "a", "c"] := by decide

/-- **exec_no_blank_key** — if every collected field is defined on the object type (or is
    `__typename`), the result object's keys are exactly the response keys in document order: no blank
    key, none missing, none duplicated. -/
theorem exec_no_blank_key (memo : Bool) (S : Schema) (D : Document)
    (hpos : (D.nodes.map Selection.pos).Nodup)
    (fuel : Nat) (o : ObjT) (sels : List Selection) (v : RVal) (path : Path) (j : Json)
    (ho : S.object? o.name = some o) (hsels : ∀ s ∈ sels, s ∈ D.nodes)
    (h : (execSelections memo S D fuel o sels v path []).r = .ok j) :
    ∃ fuel0 fs vis kvs, expand S D o fuel0 sels [] = .ok (fs, vis) ∧ j = .obj kvs ∧
      ((∀ f ∈ fs, f.name = "__typename" ∨ (o.getField f.name).isSome) →
        kvs.map (·.1) = firstOccurrences (fs.map FieldNode.responseKey) ∧ (kvs.map (·.1)).Nodup) := by
  obtain ⟨fuel0, fs, vis, kvs, h1, h2, h3, h4, h5⟩ := exec_keys_in_document_order memo S D hpos fuel o sels v path j ho hsels h
  refine ⟨fuel0, fs, vis, kvs, h1, h2, ?_⟩
  intro hdef
  have hslot : ∀ p ∈ groupInOrder fs, slotKey o p = p.1 := by
    intro p hp
    apply Classical.byContradiction
    intro hne
    obtain ⟨f0, hh, hn, hg, _⟩ := slotKey_ne o p hne
    have hmem : f0 ∈ p.2 := List.mem_of_mem_head? hh
    rw [h5 p hp] at hmem
    have hf0 : f0 ∈ fs := (List.mem_filter.mp hmem).1
    rcases hdef f0 hf0 with h' | h'
    · exact hn h'
    · simp [hg] at h'
  have : kvs.map (·.1) = (groupInOrder fs).keys := by
    rw [h3]
    exact List.map_congr_left hslot
  rw [this, ← h4]
  exact ⟨rfl, groupInOrder_nodup fs⟩

/-! ## 2. Non-null propagation -/

/-- **nonnull_never_null** — completing a value at a Non-Null type never yields null: a null inner
    result becomes the field error "Null result for non-null field." -/
theorem nonnull_never_null (memo : Bool) (S : Schema) (D : Document) (fuel : Nat) (t : TypeRef)
    (fields : List FieldNode) (f0 : FieldNode) (v : RVal) (path : Path) (c : Cache) :
    (completeValue memo S D fuel (.nonNull t) fields f0 v path c).r ≠ .ok .null := by
  cases fuel with
  | zero => simp [completeValue]
  | succ fuel =>
    simp only [completeValue]
    cases hr : (completeValue memo S D fuel t fields f0 v path c).r with
    | ok j => cases j <;> simp [hr]
    | err e => simp [hr]
    | stuck st => simp [hr]

/-- **nonnull_position_propagates** — at a Non-Null position (field or list item) an error is not
    caught: it is handed to the enclosing selection set / list unchanged. -/
theorem nonnull_position_propagates (t : TypeRef) (out : Out) : catchIfNullable (.nonNull t) out = out := rfl

/-- **nullable_position_absorbs** — at a nullable position an error becomes null and is appended to the
    error list exactly once. -/
theorem nullable_position_absorbs (t : TypeRef) (hn : ∀ t', t ≠ .nonNull t') (out : Out) (e : Err) (hr : out.r = .err e) :
    catchIfNullable t out = { out with r := .ok .null, errs := out.errs ++ [e] } := by
  cases t with
  | nonNull t' => exact absurd rfl (hn t')
  | named n => simp [catchIfNullable, hr]
  | list t' => simp [catchIfNullable, hr]

/-- **failed_field_fails_selection_set** — when the field of the first group fails after error handling
    at its position (i.e. its type is Non-Null), the whole selection set fails with that error and the
    remaining fields are not executed (the early return). -/
theorem failed_field_fails_selection_set (o : ObjT) (path : Path)
    (field : List FieldNode → FieldNode → FieldDef → Path → Cache → Out)
    (key : String) (f0 : FieldNode) (tl : List FieldNode) (rest : Grouped) (fd : FieldDef)
    (acc : List (String × Json)) (errs : List Err) (c : Cache) (e : Err)
    (htn : f0.name ≠ "__typename") (hfd : o.getField f0.name = some fd)
    (hfail : (catchIfNullable fd.type (field (f0 :: tl) f0 fd (path ++ [.key key]) c)).r = .err e) :
    (execItemsWith o path field ((key, f0 :: tl) :: rest) acc errs c).r = .err e := by
  have htn' : (f0.name == "__typename") = false := by simpa using htn
  simp [execItemsWith, htn', hfd, hfail]

/-- **failed_item_fails_list** — `future.Join`: a list with a failed item (possible only when the item
    type is Non-Null, by `nullable_position_absorbs`) fails with the first such error. -/
theorem failed_item_fails_list (rs : List R) (e : Err) (hs : rs.findSome? R.stuck? = none)
    (he : rs.findSome? R.err? = some e) : joinResults rs = .err e := by
  simp [joinResults, hs, he]

/-- **root_failure_nulls_data** — a failure that reaches the root selection set makes `data` null and
    is reported last. -/
theorem root_failure_nulls_data (memo : Bool) (S : Schema) (D : Document) (fuel : Nat) (opName : String) (root : RVal)
    (op : Op) (o : ObjT) (e : Err)
    (hop : getOperation D opName = .ok op) (hroot : (rootTypeName S op.kind).bind S.object? = some o)
    (hfail : (execSelections memo S D fuel o op.sels root [] []).r = .err e) :
    execute memo S D fuel opName root =
      .ok { data := none, errors := (execSelections memo S D fuel o op.sels root [] []).errs ++ [e] } := by
  simp [execute, hop, hroot, hfail]

/-! ## 3. Data equals the reference's; 4. the error sandwich -/

/-- **exec_data_eq_ref** — the response data of the executor model is the data the June-2018 algorithm
    prescribes (`none` = `"data": null`). -/
theorem exec_data_eq_ref (S : Schema) (D : Document) (hpos : (D.nodes.map Selection.pos).Nodup)
    (fuel fuel' : Nat) (opName : String) (root : RVal) (resp : Response) (s : Spec.SOut)
    (hm : execute true S D fuel opName root = .ok resp)
    (hs : Spec.executeRequest S D fuel' opName root = .executed s) (hu : s.undef = false) :
    resp.data = s.data :=
  (execute_refines true S D (· ∈ D.nodes) (nodeSet_of_distinct_positions D hpos).1
    (nodeSet_of_distinct_positions D hpos).2 fuel fuel' opName root resp s hm hs hu).1

/-- **exec_data_eq_ref_all_documents** — for *every* document (validated or not): the response data
    of the executor model, with the blank slots of undefined fields erased, is the data the June-2018
    algorithm prescribes. -/
theorem exec_data_eq_ref_all_documents (S : Schema) (D : Document) (hpos : (D.nodes.map Selection.pos).Nodup)
    (hkeys : ∀ s ∈ D.nodes, s.keyOK)
    (fuel fuel' : Nat) (opName : String) (root : RVal) (resp : Response) (s : Spec.SOut)
    (hm : execute true S D fuel opName root = .ok resp)
    (hs : Spec.executeRequest S D fuel' opName root = .executed s) :
    resp.data.map Json.strip = s.data :=
  (execute_refinesS true S D (· ∈ D.nodes) (nodeSet_of_distinct_positions D hpos).1 (keysOK_of_nodes D hkeys)
    (nodeSet_of_distinct_positions D hpos).2 fuel fuel' opName root resp s hm hs).1

/-- **errors_sandwich** — as multisets, required ⊆ reported ⊆ all: every error the reference requires
    (one per failure-null visible in data) is reported, and nothing is reported that no evaluation
    order of the reference produces, nor more often. Errors are compared in full (message class, path,
    locations), which is finer than the (path, locations) key of the property statement. Holds for
    every document. -/
theorem errors_sandwich (S : Schema) (D : Document) (hpos : (D.nodes.map Selection.pos).Nodup)
    (hkeys : ∀ s ∈ D.nodes, s.keyOK)
    (fuel fuel' : Nat) (opName : String) (root : RVal) (resp : Response) (s : Spec.SOut)
    (hm : execute true S D fuel opName root = .ok resp)
    (hs : Spec.executeRequest S D fuel' opName root = .executed s) :
    s.req ⊆ₘ resp.errors ∧ resp.errors ⊆ₘ s.all :=
  (execute_refinesS true S D (· ∈ D.nodes) (nodeSet_of_distinct_positions D hpos).1 (keysOK_of_nodes D hkeys)
    (nodeSet_of_distinct_positions D hpos).2 fuel fuel' opName root resp s hm hs).2

/-- **exec_refines_ref_without_memo** — the same two statements for the model with the memo switched
    off, for *every* document (no hypothesis on positions): the memo is the only reason positions
    matter. -/
theorem exec_refines_ref_without_memo (S : Schema) (D : Document)
    (fuel fuel' : Nat) (opName : String) (root : RVal) (resp : Response) (s : Spec.SOut)
    (hm : execute false S D fuel opName root = .ok resp)
    (hs : Spec.executeRequest S D fuel' opName root = .executed s) (hu : s.undef = false) :
    resp.data = s.data ∧ s.req ⊆ₘ resp.errors ∧ resp.errors ⊆ₘ s.all :=
  execute_refines_noMemo S D fuel fuel' opName root resp s hm hs hu

/-- **exec_request_error** — when the specification's GetOperation fails, or the schema has no root type
    for the operation, the executor returns no data and exactly one error, without a path. -/
theorem exec_request_error (memo : Bool) (S : Schema) (D : Document) (fuel fuel' : Nat) (opName : String) (root : RVal)
    (hs : Spec.executeRequest S D fuel' opName root = .requestError) :
    ∃ e, execute memo S D fuel opName root = .ok { data := none, errors := [e] } ∧ e.path = [] :=
  execute_requestError memo S D fuel fuel' opName root hs

/-- **collectFields_memo_sound** — with a memo satisfying the invariant, `collectFields` returns the
    grouping of the expanded field sequence (what a fresh computation returns) and keeps the
    invariant; the invariant holds of the empty memo. -/
theorem collectFields_memo_sound (S : Schema) (D : Document) (hpos : (D.nodes.map Selection.pos).Nodup)
    (fuel : Nat) (o : ObjT) (sels : List Selection) (c : Cache) (g : Grouped) (c' : Cache)
    (hc : CacheOK S D (· ∈ D.nodes) c) (ho : S.object? o.name = some o) (hsels : ∀ s ∈ sels, s ∈ D.nodes)
    (h : collectFields true S D fuel o sels c = .ok (g, c')) :
    CacheOK S D (· ∈ D.nodes) c' ∧ ∃ fuel0 fs v, expand S D o fuel0 sels [] = .ok (fs, v) ∧ g = groupInOrder fs :=
  collectFields_inv true S D (· ∈ D.nodes) (nodeSet_of_distinct_positions D hpos).1 fuel o sels c g c' hc ho hsels h

/-! ## 5. Every failure-null is explained exactly once -/

/-- **null_explained_once** — every error the reference requires (the error of the failing position
    behind a null that stays visible in data: path of the failing field or list item, location of the
    first selecting field node, all merged nodes for resolver errors) occurs in the executor's error
    list exactly once. (At least once by `errors_sandwich`; at most once because the reference raises
    at most one error per response position, `spec_errors_distinct`, and the executor reports a sub-multiset.) -/
theorem null_explained_once (S : Schema) (D : Document) (hpos : (D.nodes.map Selection.pos).Nodup)
    (hkeys : ∀ s ∈ D.nodes, s.keyOK)
    (fuel fuel' : Nat) (opName : String) (root : RVal) (resp : Response) (s : Spec.SOut)
    (hm : execute true S D fuel opName root = .ok resp)
    (hs : Spec.executeRequest S D fuel' opName root = .executed s) :
    ∀ e ∈ s.req, resp.errors.count e = 1 := by
  intro e he
  obtain ⟨h1, h2⟩ := errors_sandwich S D hpos hkeys fuel fuel' opName root resp s hm hs
  have hnd := spec_request_all_nodup S D fuel' opName root s hs
  have hle : resp.errors.count e ≤ 1 := Nat.le_trans (h2 e) (List.nodup_iff_count.mp hnd e)
  have hge : 1 ≤ resp.errors.count e := Nat.le_trans (List.count_pos_iff.mpr he) (h1 e)
  omega

/-- **no_error_reported_twice** — the executor's error list has no duplicates. -/
theorem no_error_reported_twice (S : Schema) (D : Document) (hpos : (D.nodes.map Selection.pos).Nodup)
    (hkeys : ∀ s ∈ D.nodes, s.keyOK)
    (fuel fuel' : Nat) (opName : String) (root : RVal) (resp : Response) (s : Spec.SOut)
    (hm : execute true S D fuel opName root = .ok resp)
    (hs : Spec.executeRequest S D fuel' opName root = .executed s) :
    resp.errors.Nodup := by
  obtain ⟨_, h2⟩ := errors_sandwich S D hpos hkeys fuel fuel' opName root resp s hm hs
  have hnd := spec_request_all_nodup S D fuel' opName root s hs
  rw [List.nodup_iff_count] at hnd ⊢
  intro e
  exact Nat.le_trans (h2 e) (hnd e)

/-! ## 6. Leaf coercion -/

/-- **leaf_coercion** — a leaf value at a built-in scalar type is completed to exactly
    `Spec.resultCoerce` of it, or fails with "invalid scalar result value". -/
theorem leaf_coercion (memo : Bool) (S : Schema) (D : Document) (fuel : Nat) (n : String) (k : ScalarKind)
    (fields : List FieldNode) (f0 : FieldNode) (g : GoVal) (path : Path) (c : Cache)
    (hl : S.lookup n = some (.scalar k)) :
    (completeValue memo S D (fuel + 1) (.named n) fields f0 (.leaf g) path c).r =
      match Spec.resultCoerce k g with
      | some j => .ok j
      | none => .err (errAt f0 path .scalarResult) := by
  simp only [completeValue, RVal.isNil, Bool.false_eq_true, if_false, hl, coerceScalar_eq]
  cases Spec.resultCoerce k g <;> rfl

/-- **int_result_in_range** — an Int result is an integer within the signed 32-bit range. -/
theorem int_result_in_range (g : GoVal) (j : Json) (h : Spec.resultCoerce .int g = some j) :
    ∃ z : Int, j = .int z ∧ -(2 ^ 31 : Int) ≤ z ∧ z < 2 ^ 31 := by
  simp only [Spec.resultCoerce] at h
  cases ha : Spec.asInteger? g with
  | none => simp [ha] at h
  | some z =>
    simp only [ha] at h
    by_cases hr : (-(2 ^ 31 : Int) ≤ z ∧ z < 2 ^ 31)
    · rw [if_pos hr] at h
      exact ⟨z, (Option.some.inj h).symm, hr⟩
    · rw [if_neg hr] at h
      exact absurd h (by simp)

/-- Non-vacuity of the range statement: the bounds are attained and the next values are rejected, for
    every Go integer kind that can hold them — in particular an unsigned 64-bit value at the top of its
    range is rejected, it does not wrap to a small negative number. -/
example : Spec.resultCoerce .int (.int .int 2147483647) = some (.int 2147483647) ∧
    Spec.resultCoerce .int (.int .int 2147483648) = none ∧
    Spec.resultCoerce .int (.int .i64 (-2147483648)) = some (.int (-2147483648)) ∧
    Spec.resultCoerce .int (.int .i64 (-2147483649)) = none ∧
    Spec.resultCoerce .int (.int .u32 4294967295) = none ∧
    Spec.resultCoerce .int (.int .u64 18446744073709551615) = none ∧
    Spec.resultCoerce .int (.int .uint 9223372036854775808) = none ∧
    Spec.resultCoerce .int (.int .i8 (-128)) = some (.int (-128)) ∧
    Spec.resultCoerce .int (.flt .f64 5 (-1)) = none ∧ Spec.resultCoerce .int (.flt .f32 3 1) = some (.int 6) ∧
    Spec.resultCoerce .int (.flt .f64 1 63) = none := by
  refine ⟨by rfl, by rfl, by rfl, by rfl, by rfl, by rfl, by rfl, by rfl, by rfl, by rfl, by rfl⟩

/-- the executor model agrees on each of them (`leaf_coercion` / `coerceScalar_eq` in general) -/
example : coerceScalar .int (.int .u64 18446744073709551615) = none ∧
    coerceScalar .id (.int .u64 18446744073709551615) = none ∧
    coerceScalar .id (.int .u64 9223372036854775808) = none ∧
    coerceScalar .id (.int .u64 9223372036854775807) = some (.str "9223372036854775807") ∧
    coerceScalar .id (.int .i64 (-9223372036854775808)) = some (.str "-9223372036854775808") ∧
    coerceScalar .float (.int .i64 9223372036854775807) = some (.num 9007199254740992 10) ∧
    coerceScalar .float (.int .u64 18446744073709551615) = some (.num 9007199254740992 11) ∧
    coerceScalar .float (.int .int 9007199254740993) = some (.num 4503599627370496 1) ∧
    coerceScalar .float (.int .int 9007199254740995) = some (.num 4503599627370498 1) ∧
    coerceScalar .boolean (.int .u8 1) = none := by
  refine ⟨by rfl, by rfl, by rfl, by rfl, by rfl, by rfl, by rfl, by rfl, by rfl, by rfl⟩

/-- **id_result_fits_int64** — an ID produced from an integer is the decimal text of an integer below
    2^63: an unsigned value beyond `MaxInt64` is rejected, never printed as a negative number. -/
theorem id_result_fits_int64 (k : IntKind) (z : Int) (j : Json) (h : Spec.resultCoerce .id (.int k z) = some j) :
    k.wrap z < 2 ^ 63 ∧ j = .str (toString (k.wrap z)) := by
  simp only [Spec.resultCoerce] at h
  by_cases hr : k.wrap z < 2 ^ 63
  · rw [if_pos hr] at h
    exact ⟨hr, (Option.some.inj h).symm⟩
  · rw [if_neg hr] at h
    exact absurd h (by simp)

/-- **enum_result_declared** — an enum result is the name of a declared value whose Go value is the
    resolver's result; anything else fails with "invalid … enum value". -/
theorem enum_result_declared (memo : Bool) (S : Schema) (D : Document) (fuel : Nat) (n : String)
    (values : List (String × GoVal)) (fields : List FieldNode) (f0 : FieldNode) (g : GoVal) (path : Path) (c : Cache)
    (hl : S.lookup n = some (.enum values)) :
    (∃ name, (name, g) ∈ values ∧
      (completeValue memo S D (fuel + 1) (.named n) fields f0 (.leaf g) path c).r = .ok (.str name)) ∨
    ((∀ name, (name, g) ∉ values) ∧
      (completeValue memo S D (fuel + 1) (.named n) fields f0 (.leaf g) path c).r = .err (errAt f0 path (.enumResult n))) := by
  simp only [completeValue, RVal.isNil, Bool.false_eq_true, if_false, hl, coerceEnum]
  cases hf : values.find? (fun p => p.2 == g) with
  | some p =>
    left
    have hm := List.mem_of_find?_eq_some hf
    have hp : p.2 = g := by simpa using List.find?_some hf
    refine ⟨p.1, ?_, rfl⟩
    rw [← hp]; exact hm
  | none =>
    right
    refine ⟨?_, rfl⟩
    intro name hm
    have := List.find?_eq_none.mp hf (name, g) hm
    simp at this

/-! ## 7. Fuel -/

/-- **exec_fuel_monotone** — a response obtained with some fuel is the response with any larger fuel:
    running out of fuel is the only effect fuel has (`stuck outOfFuel` is never a response). -/
theorem exec_fuel_monotone (memo : Bool) (S : Schema) (D : Document) (fuel k : Nat) (opName : String) (root : RVal)
    (resp : Response) (h : execute memo S D fuel opName root = .ok resp) :
    execute memo S D (fuel + k) opName root = .ok resp :=
  execute_mono memo S D fuel k opName root resp h

/-- **exec_fuel_irrelevant** — two runs that both produce a response produce the same response. -/
theorem exec_fuel_irrelevant (memo : Bool) (S : Schema) (D : Document) (f1 f2 : Nat) (opName : String) (root : RVal)
    (r1 r2 : Response) (h1 : execute memo S D f1 opName root = .ok r1) (h2 : execute memo S D f2 opName root = .ok r2) :
    r1 = r2 := by
  rcases Nat.le_total f1 f2 with h | h
  · obtain ⟨k, rfl⟩ := Nat.exists_eq_add_of_le h
    have := execute_mono memo S D f1 k opName root r1 h1
    rw [this] at h2
    exact Except.ok.inj h2
  · obtain ⟨k, rfl⟩ := Nat.exists_eq_add_of_le h
    have := execute_mono memo S D f2 k opName root r2 h2
    rw [this] at h1
    exact (Except.ok.inj h1).symm

/-- **exec_fuel_sufficient** — the executor model terminates on documents without fragment cycles: given
    a descent certificate `lvl` (every step into sub-selections or from a spread into its fragment
    lowers it — it exists exactly when fragment spreads form no cycle, rule NoFragmentCycles) whose
    values on the operations' selections are below `L`, any fuel ≥ `needSel W L = L·(W+3)+3` (W = deepest
    list/non-null nesting of a field type) suffices: the run does not end in `outOfFuel`. Together with
    `exec_fuel_monotone` this discharges "sufficient fuel" for the model; for the reference it stays a
    hypothesis (`.executed s`). -/
theorem exec_fuel_sufficient (memo : Bool) (S : Schema) (D : Document) (hpos : (D.nodes.map Selection.pos).Nodup)
    (lvl : Selection → Nat) (hlvl : D.descentCheck lvl = true) (L : Nat)
    (hL : ∀ op ∈ D.ops, ∀ s ∈ op.sels, lvl s < L)
    (fuel : Nat) (hfuel : needSel S.maxWrappers L ≤ fuel) (opName : String) (root : RVal) :
    execute memo S D fuel opName root ≠ .error .outOfFuel :=
  execute_notOof memo S D (· ∈ D.nodes) (nodeSet_of_distinct_positions D hpos).1 lvl (descends_of_check D lvl hlvl) L
    (fun op hop s hs => ⟨(nodeSet_of_distinct_positions D hpos).2 op hop s hs, hL op hop s hs⟩)
    fuel hfuel opName root

/-! ## 8. Total correctness on the validated domain -/

/-- **exec_correct_total** — the capstone. For a schema in which no reference dangles
    (`closedCheck`: what `schema.New` guarantees), a parsed document (distinct positions, non-empty
    keys) whose type conditions name composite types (`condsCheck`: rule FragmentsOnCompositeTypes) and
    whose fragment spreads form no cycle (descent certificate `lvl` of height `L`: rule
    NoFragmentCycles), every world, operation name and fuel ≥ `L·(W+3)+3`:
    the executor model **answers** (no `stuck`), the reference answers, and either the reference
    refuses the request and the response is `data: null` with one path-less error, or the response's
    data (blank slots erased — there are none when the document is validated) is the reference's, its
    errors are sandwiched between the required and the possible ones, and every required error is
    reported exactly once. No hypothesis about runs remains. -/
theorem exec_correct_total (S : Schema) (D : Document)
    (hpos : (D.nodes.map Selection.pos).Nodup) (hkeys : ∀ s ∈ D.nodes, s.keyOK)
    (hschema : S.closedCheck = true) (hconds : D.condsCheck S = true)
    (lvl : Selection → Nat) (hlvl : D.descentCheck lvl = true) (L : Nat)
    (hL : ∀ op ∈ D.ops, ∀ s ∈ op.sels, lvl s < L)
    (fuel : Nat) (hfuel : needSel S.maxWrappers L ≤ fuel) (opName : String) (root : RVal) :
    ∃ resp, execute true S D fuel opName root = .ok resp ∧
      ((Spec.executeRequest S D fuel opName root = .requestError ∧ resp.data = none ∧
          ∃ e, resp.errors = [e] ∧ e.path = []) ∨
       (∃ s, Spec.executeRequest S D fuel opName root = .executed s ∧
          resp.data.map Json.strip = s.data ∧ s.req ⊆ₘ resp.errors ∧ resp.errors ⊆ₘ s.all ∧
          ∀ e ∈ s.req, resp.errors.count e = 1)) := by
  have hN := nodeSet_of_distinct_positions D hpos
  have hops : ∀ op ∈ D.ops, ∀ s ∈ op.sels, s ∈ D.nodes ∧ lvl s < L :=
    fun op hop s hs => ⟨hN.2 op hop s hs, hL op hop s hs⟩
  obtain ⟨resp, hresp⟩ := execute_total true S D (· ∈ D.nodes) hN.1 (schemaClosed_of_check S hschema)
    (condsComposite_of_check S D hconds) lvl (descends_of_check D lvl hlvl) L hops fuel hfuel opName root
  refine ⟨resp, hresp, ?_⟩
  rcases spec_total S D (· ∈ D.nodes) hN.1 (schemaClosed_of_check S hschema) (condsComposite_of_check S D hconds)
    lvl (descends_of_check D lvl hlvl) L hops fuel hfuel opName root with hs | ⟨s, hs⟩
  · left
    obtain ⟨e, he, hp⟩ := exec_request_error true S D fuel fuel opName root hs
    rw [he] at hresp
    have := Except.ok.inj hresp
    subst this
    exact ⟨hs, rfl, e, rfl, hp⟩
  · right
    refine ⟨s, hs, exec_data_eq_ref_all_documents S D hpos hkeys fuel fuel opName root resp s hresp hs, ?_⟩
    obtain ⟨h1, h2⟩ := errors_sandwich S D hpos hkeys fuel fuel opName root resp s hresp hs
    exact ⟨h1, h2, null_explained_once S D hpos hkeys fuel fuel opName root resp s hresp hs⟩

/-! ## Non-vacuity: an interface field, a merged fragment, `[T!]!` under a nullable parent under a
    non-null grandparent, one failing item -/

namespace Example

def S : Schema :=
  { types := [("Int", .scalar .int), ("String", .scalar .string),
      ("Node", .interface [⟨"id", .named "Int"⟩]),
      ("Item", .object [⟨"id", .named "Int"⟩, ⟨"name", .named "String"⟩] ["Node"]),
      ("Holder", .object [⟨"items", .nonNull (.list (.nonNull (.named "Node")))⟩] []),
      ("Root", .object [⟨"p", .named "Holder"⟩] []),
      ("Query", .object [⟨"g", .nonNull (.named "Root")⟩] [])],
    query := "Query", mutation := none, subscription := none }

/-- `{ g { p { items { id ...F } ... on Holder { items { ...F } } } } } fragment F on Item { name }`:
    `items` is selected twice (directly and through an inline fragment) and merges; `F` is spread in
    both sub-selections and is expanded once (visited fragments). -/
def D : Document :=
  { ops := [{ kind := .query, name := none, pos := ⟨1, 1⟩, sels :=
      [.field ⟨1, 3⟩ none "g" "g" none [] [
        .field ⟨1, 7⟩ none "p" "p" none [] [
          .field ⟨1, 11⟩ none "items" "items" none [] [
            .field ⟨1, 19⟩ none "id" "id" none [] [],
            .spread ⟨1, 22⟩ "F" []],
          .inline ⟨1, 29⟩ (some "Holder") [] [
            .field ⟨1, 45⟩ none "items" "items" none [] [.spread ⟨1, 53⟩ "F" []]]]]] }],
    frags := [{ name := "F", tc := "Item", sels := [.field ⟨1, 85⟩ none "name" "name" none [] []] }] }

def item (n : Int) (s : String) : RVal := .obj "Item" [.mk "id" (.val (.leaf (.int .int n))), .mk "name" (.val (.leaf (.str s)))]

/-- the second item of the `[Node!]!` list is null -/
def W : RVal :=
  .obj "Query" [.mk "g" (.val (.obj "Root" [.mk "p" (.val (.obj "Holder" [.mk "items" (.val (.list [item 1 "a", .null, item 3 "c"]))]))]))]

/-- no failure -/
def Wok : RVal :=
  .obj "Query" [.mk "g" (.val (.obj "Root" [.mk "p" (.val (.obj "Holder" [.mk "items" (.val (.list [item 1 "a", item 3 "c"]))]))]))]

def nullErr : Err := { msg := .nullNonNull, path := [.key "g", .key "p", .key "items", .idx 1], locs := [⟨1, 11⟩] }

/-- the positions hypothesis is satisfiable -/
example : (D.nodes.map Selection.pos).Nodup := by decide

/-- The failing item nulls the list, the list's non-null wrapper hands the error to `p` (nullable,
    the nearest nullable ancestor), `g` (non-null grandparent) survives. -/
example : execute true S D (fuelFor S D) "" W = .ok { data := some (.obj [("g", .obj [("p", .null)])]), errors := [nullErr] } := by
  rfl

/-- The reference agrees: that error is both the only possible and the required one. -/
example : Spec.executeRequest S D (fuelFor S D) "" W =
    .executed { data := some (.obj [("g", .obj [("p", .null)])]), all := [nullErr], req := [nullErr], undef := false } := by
  rfl

/-- Without the failure: merged `items`, interface field `id`, fragment field `name`, in document order. -/
example : execute true S D (fuelFor S D) "" Wok =
    .ok { data := some (.obj [("g", .obj [("p", .obj [("items", .arr [.obj [("id", .int 1), ("name", .str "a")],
                                                                         .obj [("id", .int 3), ("name", .str "c")]])])])]),
          errors := [] } := by
  rfl

/-- `exec_data_eq_ref` / `errors_sandwich` instantiated: all hypotheses hold for the example. -/
example (resp : Response) (s : Spec.SOut) (hm : execute true S D (fuelFor S D) "" W = .ok resp)
    (hs : Spec.executeRequest S D (fuelFor S D) "" W = .executed s) (hu : s.undef = false) :
    resp.data = s.data ∧ s.req ⊆ₘ resp.errors ∧ resp.errors ⊆ₘ s.all :=
  ⟨exec_data_eq_ref S D (by decide) _ _ _ _ resp s hm hs hu, errors_sandwich S D (by decide) (by decide) _ _ _ _ resp s hm hs⟩

/-- The example document has a descent certificate (nested selections lie further right; the fragment
    is defined after both spreads): `exec_fuel_sufficient` applies with L = 100, W = 3. -/
example : D.descentCheck (fun s => 100 - s.pos.col) = true := by decide

example (fuel : Nat) (h : needSel S.maxWrappers 100 ≤ fuel) (root : RVal) :
    execute true S D fuel "" root ≠ .error .outOfFuel :=
  exec_fuel_sufficient true S D (by decide) (fun s => 100 - s.pos.col) (by decide) 100
    (by decide) fuel h "" root

/-- `exec_correct_total` applies to the example: every hypothesis is a decidable test. -/
example (fuel : Nat) (h : needSel S.maxWrappers 100 ≤ fuel) (root : RVal) :
    ∃ resp, execute true S D fuel "" root = .ok resp ∧
      ((Spec.executeRequest S D fuel "" root = .requestError ∧ resp.data = none ∧
          ∃ e, resp.errors = [e] ∧ e.path = []) ∨
       (∃ s, Spec.executeRequest S D fuel "" root = .executed s ∧
          resp.data.map Json.strip = s.data ∧ s.req ⊆ₘ resp.errors ∧ resp.errors ⊆ₘ s.all ∧
          ∀ e ∈ s.req, resp.errors.count e = 1)) :=
  exec_correct_total S D (by decide) (by decide) (by decide) (by decide) (fun s => 100 - s.pos.col) (by decide) 100
    (by decide) fuel h "" root

/-- A document outside the validated shape: `nope` is not a field of `Root`. The executor leaves the
    blank slot, the reference skips the field and flags `undef`; erased, the data agree
    (`exec_data_eq_ref_all_documents`). -/
def Dbad : Document :=
  { ops := [{ kind := .query, name := none, pos := ⟨1, 1⟩, sels :=
      [.field ⟨1, 3⟩ none "g" "g" none [] [.field ⟨1, 7⟩ none "nope" "nope" none [] [], .field ⟨1, 12⟩ none "p" "p" none [] [
        .field ⟨1, 16⟩ none "__typename" "__typename" none [] []]]] }],
    frags := [] }

example : execute true S Dbad (fuelFor S Dbad) "" Wok =
    .ok { data := some (.obj [("g", .obj [("", .null), ("p", .obj [("__typename", .str "Holder")])])]), errors := [] } := by
  rfl

example : Spec.executeRequest S Dbad (fuelFor S Dbad) "" Wok =
    .executed { data := some (.obj [("g", .obj [("p", .obj [("__typename", .str "Holder")])])]), all := [], req := [], undef := true } := by
  rfl

example : (Json.obj [("g", .obj [("", .null), ("p", .obj [("__typename", .str "Holder")])])]).strip =
    .obj [("g", .obj [("p", .obj [("__typename", .str "Holder")])])] := by
  simp [Json.strip, stripFields]

end Example

end ApiFu.C01
