/-
  C01 — the reference semantics does not depend on its fuel: a run of `Spec.executeRequest` that is not
  `stuck` returns the same result with any larger fuel (`spec_executeRequest_mono`), so two runs that
  both answer agree (`spec_fuel_irrelevant`). This makes the *fuel-free* reference
  `Spec.Answers S D opName root r` (∃ fuel, the run answers `r`) a partial function (PropsDriver.lean).
-/
import ApiFu.C01.Lemmas

namespace ApiFu.C01

theorem option_mapM_mono {α β : Type} (f g : α → Option β) (l : List α)
    (h : ∀ a ∈ l, ∀ b, f a = some b → g a = some b) (rs : List β) (hf : l.mapM f = some rs) :
    l.mapM g = some rs := by
  induction l generalizing rs with
  | nil => simpa using hf
  | cons a rest ih =>
    obtain ⟨b, bs, hb, hbs, rfl⟩ := option_mapM_cons f a rest rs hf
    have h1 := h a (List.mem_cons_self ..) b hb
    have h2 := ih (fun x hx => h x (List.mem_cons_of_mem _ hx)) bs hbs
    simp [List.mapM_cons, h1, h2]

theorem option_foldlM_mono {α β : Type} (f g : β → α → Option β) (l : List α)
    (h : ∀ acc a r, f acc a = some r → g acc a = some r) (acc r : β) (hf : l.foldlM f acc = some r) :
    l.foldlM g acc = some r := by
  induction l generalizing acc with
  | nil => simpa using hf
  | cons a rest ih =>
    simp only [List.foldlM_cons] at hf ⊢
    cases h1 : f acc a with
    | none => simp [h1] at hf
    | some acc1 =>
      simp only [h1, Option.bind_eq_bind, Option.bind_some] at hf
      simp only [h _ _ _ h1, Option.bind_eq_bind, Option.bind_some]
      exact ih acc1 hf

theorem spec_collectSelection_mono (S : Schema) (D : Document) (o : ObjT)
    (r0 r1 : List Selection → List String → Option (Spec.GroupedFieldSet × List String))
    (h : ∀ sels vis r, r0 sels vis = some r → r1 sels vis = some r)
    (acc : Spec.GroupedFieldSet × List String) (sel : Selection) (res : Spec.GroupedFieldSet × List String)
    (hs : Spec.collectSelection S D o r0 acc sel = some res) :
    Spec.collectSelection S D o r1 acc sel = some res := by
  obtain ⟨grouped, visited⟩ := acc
  unfold Spec.collectSelection at hs ⊢
  simp only at hs ⊢
  by_cases hex : Spec.excluded sel.dirs = true
  · simpa [hex] using hs
  · simp only [hex, if_false, Bool.false_eq_true] at hs ⊢
    cases sel with
    | field pos alias name wkey ae dirs sub => simpa using hs
    | spread pos name dirs =>
      simp only at hs ⊢
      by_cases hv : name ∈ visited
      · simpa [hv] using hs
      · simp only [hv, if_false] at hs ⊢
        cases hf : Spec.fragmentNamed D name with
        | none => simpa [hf] using hs
        | some fr =>
          simp only [hf] at hs ⊢
          by_cases ha : Spec.doesFragmentTypeApply S o fr.tc = true
          · simp only [ha, if_true] at hs ⊢
            cases hr : r0 fr.sels (name :: visited) with
            | none => simp [hr] at hs
            | some p => rw [h _ _ _ hr]; simpa [hr] using hs
          · simpa [ha] using hs
    | inline pos tc dirs sub =>
      have key : ∀ (app : Bool),
          (if app = true then
              match r0 sub visited with
              | none => none
              | some (fg, visited) => some (Spec.mergeGroups grouped fg, visited)
            else some (grouped, visited)) = some res →
          (if app = true then
              match r1 sub visited with
              | none => none
              | some (fg, visited) => some (Spec.mergeGroups grouped fg, visited)
            else some (grouped, visited)) = some res := by
        intro app happ
        cases app with
        | false => simpa using happ
        | true =>
          simp only [if_true] at happ ⊢
          cases hr : r0 sub visited with
          | none => simp [hr] at happ
          | some p => rw [h _ _ _ hr]; simpa [hr] using happ
      exact key _ hs

theorem spec_collectFields_mono (S : Schema) (D : Document) (o : ObjT) (fuel : Nat) :
    ∀ sels vis r, Spec.collectFields S D o fuel sels vis = some r →
      Spec.collectFields S D o (fuel + 1) sels vis = some r := by
  induction fuel with
  | zero => intro sels vis r h; simp [Spec.collectFields] at h
  | succ fuel ih =>
    intro sels vis r h
    rw [Spec.collectFields] at h ⊢
    exact option_foldlM_mono _ _ sels
      (fun acc a r => spec_collectSelection_mono S D o _ _ ih acc a r) _ r h

theorem spec_executeEntry_mono (o : ObjT) (objVal : RVal) (path : Path)
    (c0 c1 : TypeRef → List FieldNode → FieldNode → RVal → Path → Option Spec.SOut)
    (h : ∀ t fields f0 v p r, c0 t fields f0 v p = some r → c1 t fields f0 v p = some r)
    (p : String × List FieldNode) (r : Option (String × Spec.SOut))
    (hs : Spec.executeEntry o objVal path c0 p = some r) : Spec.executeEntry o objVal path c1 p = some r := by
  unfold Spec.executeEntry at hs ⊢
  simp only at hs ⊢
  cases hfs : p.2 with
  | nil => simp [hfs] at hs
  | cons f0 tl =>
    simp only [hfs] at hs ⊢
    by_cases htn : f0.name = "__typename"
    · simpa [htn] using hs
    · simp only [htn, if_false] at hs ⊢
      cases hfd : o.fields.find? (fun (fd : FieldDef) => fd.name = f0.name) with
      | none => simpa [hfd] using hs
      | some fd =>
        simp only [hfd] at hs ⊢
        cases hae : f0.argErr with
        | some ae => simpa [hae] using hs
        | none =>
          simp only [hae] at hs ⊢
          cases hres : resolve objVal f0.wkey with
          | err m => simpa [hres] using hs
          | val v =>
            simp only [hres] at hs ⊢
            cases hc : c0 fd.type (f0 :: tl) f0 v (path ++ [PathSeg.key p.1]) with
            | none => simp [hc] at hs
            | some r0 => rw [h _ _ _ _ _ _ hc]; simpa [hc] using hs

def SpecMonoS (S : Schema) (D : Document) (f g : Nat) : Prop :=
  ∀ o sels v path r, Spec.executeSelectionSet S D f o sels v path = some r →
    Spec.executeSelectionSet S D g o sels v path = some r

def SpecMonoC (S : Schema) (D : Document) (f g : Nat) : Prop :=
  ∀ t fields f0 v path r, Spec.completeValue S D f t fields f0 v path = some r →
    Spec.completeValue S D g t fields f0 v path = some r

theorem specMonoS_step (S : Schema) (D : Document) (f g : Nat)
    (hcol : ∀ o sels vis r, Spec.collectFields S D o f sels vis = some r → Spec.collectFields S D o g sels vis = some r)
    (ihC : SpecMonoC S D f g) : SpecMonoS S D (f + 1) (g + 1) := by
  intro o sels v path r h
  simp only [Spec.executeSelectionSet] at h ⊢
  cases hc : Spec.collectFields S D o f sels [] with
  | none => simp [hc] at h
  | some p =>
    obtain ⟨grouped, vis⟩ := p
    simp only [hc] at h
    simp only [hcol o sels [] _ hc]
    cases hm : grouped.mapM (Spec.executeEntry o v path (Spec.completeValue S D f)) with
    | none => simp [hm] at h
    | some rs =>
      rw [option_mapM_mono _ (Spec.executeEntry o v path (Spec.completeValue S D g)) grouped
        (fun a _ b hb => spec_executeEntry_mono o v path _ _ ihC a b hb) rs hm]
      simpa [hm] using h

theorem specMonoC_step (S : Schema) (D : Document) (f g : Nat) (ihC : SpecMonoC S D f g) (ihS : SpecMonoS S D f g) :
    SpecMonoC S D (f + 1) (g + 1) := by
  intro t fields f0 v path r h
  cases t with
  | nonNull inner =>
    simp only [Spec.completeValue] at h ⊢
    cases hc : Spec.completeValue S D f inner fields f0 v path with
    | none => simp [hc] at h
    | some r0 => rw [ihC _ _ _ _ _ _ hc]; simpa [hc] using h
  | list inner =>
    simp only [Spec.completeValue] at h ⊢
    by_cases hn : Spec.isNullish v = true
    · simpa [hn] using h
    · simp only [hn, if_false, Bool.false_eq_true] at h ⊢
      cases v with
      | list items =>
        simp only at h ⊢
        cases hm : (items.zipIdx).mapM (Spec.completeItem inner path (Spec.completeValue S D f inner fields f0)) with
        | none => simp [hm] at h
        | some rs =>
          rw [option_mapM_mono _ (Spec.completeItem inner path (Spec.completeValue S D g inner fields f0)) _
            (fun a _ b hb => by
              unfold Spec.completeItem at hb ⊢
              cases hc : Spec.completeValue S D f inner fields f0 a.1 (path ++ [PathSeg.idx a.2]) with
              | none => simp [hc] at hb
              | some r0 => rw [ihC _ _ _ _ _ _ hc]; simpa [hc] using hb) rs hm]
          simpa [hm] using h
      | leaf g => exact h
      | null => exact h
      | tnil => exact h
      | obj ty es => exact h
  | named n =>
    simp only [Spec.completeValue] at h ⊢
    by_cases hn : Spec.isNullish v = true
    · simpa [hn] using h
    · simp only [hn, if_false, Bool.false_eq_true] at h ⊢
      cases hl : S.lookup n with
      | none => simp [hl] at h
      | some td =>
        simp only [hl] at h ⊢
        cases td with
        | scalar k => exact h
        | enum vs => exact h
        | object fs is => exact ihS _ _ _ _ _ h
        | interface fs =>
          simp only at h ⊢
          cases hf : (Spec.possibleTypes S n).find? (fun t => isTypeOf t v) with
          | none => simpa [hf] using h
          | some tn =>
            simp only [hf] at h ⊢
            cases ho : S.object? tn with
            | none => simp [ho] at h
            | some ob => simp only [ho] at h ⊢; exact ihS _ _ _ _ _ h
        | union ms =>
          simp only at h ⊢
          cases hf : (Spec.possibleTypes S n).find? (fun t => isTypeOf t v) with
          | none => simpa [hf] using h
          | some tn =>
            simp only [hf] at h ⊢
            cases ho : S.object? tn with
            | none => simp [ho] at h
            | some ob => simp only [ho] at h ⊢; exact ihS _ _ _ _ _ h

theorem specMono_main (S : Schema) (D : Document) (fuel : Nat) :
    SpecMonoS S D fuel (fuel + 1) ∧ SpecMonoC S D fuel (fuel + 1) := by
  induction fuel with
  | zero =>
    constructor
    · intro o sels v path r h; simp [Spec.executeSelectionSet] at h
    · intro t fields f0 v path r h; simp [Spec.completeValue] at h
  | succ fuel ih =>
    exact ⟨specMonoS_step S D fuel (fuel + 1) (fun o => spec_collectFields_mono S D o fuel) ih.2,
      specMonoC_step S D fuel (fuel + 1) ih.2 ih.1⟩

/-- a reference run that is not stuck returns the same result with more fuel -/
theorem spec_executeRequest_mono (S : Schema) (D : Document) (fuel k : Nat) (opName : String) (root : RVal)
    (r : Spec.Result) (hr : r ≠ .stuck) (h : Spec.executeRequest S D fuel opName root = r) :
    Spec.executeRequest S D (fuel + k) opName root = r := by
  induction k with
  | zero => exact h
  | succ k ih =>
    unfold Spec.executeRequest at ih ⊢
    cases hgo : Spec.getOperation D opName with
    | none => simp only [hgo] at ih ⊢; exact ih
    | some op =>
      simp only [hgo] at ih ⊢
      cases hroot : (Spec.rootType S op.kind).bind S.object? with
      | none => simp only [hroot] at ih ⊢; exact ih
      | some o =>
        simp only [hroot] at ih ⊢
        cases hss : Spec.executeSelectionSet S D (fuel + k) o op.sels root [] with
        | none => simp only [hss] at ih; exact absurd ih.symm hr
        | some out =>
          rw [show fuel + (k + 1) = fuel + k + 1 from rfl, (specMono_main S D (fuel + k)).1 _ _ _ _ _ hss]
          simpa [hss] using ih

/-- two reference runs that both answer (neither is stuck) agree, whatever their fuels -/
theorem spec_fuel_irrelevant (S : Schema) (D : Document) (f1 f2 : Nat) (opName : String) (root : RVal)
    (h1 : Spec.executeRequest S D f1 opName root ≠ .stuck) (h2 : Spec.executeRequest S D f2 opName root ≠ .stuck) :
    Spec.executeRequest S D f1 opName root = Spec.executeRequest S D f2 opName root := by
  rcases Nat.le_total f1 f2 with h | h
  · obtain ⟨k, rfl⟩ := Nat.exists_eq_add_of_le h
    exact (spec_executeRequest_mono S D f1 k opName root _ h1 rfl).symm
  · obtain ⟨k, rfl⟩ := Nat.exists_eq_add_of_le h
    exact spec_executeRequest_mono S D f2 k opName root _ h2 rfl

end ApiFu.C01
