/-
  C01 — a decidable fact about accepted schemas that the link to validation (FromC04.lean) uses: every root
  operation type the schema names is an object type (`schema.New`: "schemas must define the query operation",
  root types are `*ObjectType`). Evaluated by the driver for every case (part of `hyp`).
-/
import ApiFu.C01.Syntactic

namespace ApiFu.C01

def Schema.rootsCheck (S : Schema) : Bool :=
  isObjectType S S.query &&
  (match S.mutation with
   | some r => isObjectType S r
   | none => true) &&
  (match S.subscription with
   | some r => isObjectType S r
   | none => true)

theorem rootsCheck_spec (S : Schema) (h : S.rootsCheck = true) (k : OpKind) (r : String)
    (hr : rootTypeName S k = some r) : isObjectType S r = true := by
  unfold Schema.rootsCheck at h
  simp only [Bool.and_eq_true] at h
  cases k with
  | query => simp only [rootTypeName, Option.some.injEq] at hr; subst hr; exact h.1.1
  | mutation => simp only [rootTypeName] at hr; simpa [hr] using h.1.2
  | subscription => simp only [rootTypeName] at hr; simpa [hr] using h.2

end ApiFu.C01
