/-
  C01 ← C04, fragment cycles: a document that satisfies C04's rules "fragment spreads must not form cycles"
  (`Spec.noFragmentCycles`, §5.5.2.2) and "fragment name uniqueness" (§5.5.1.1) passes C01's decidable test
  `Document.noSpreadCycle` — hence has a descent certificate, and the fuel the driver computes suffices.
  This is the completeness of `noSpreadCycle` that Acyclic.lean left open (soundness is there).

  Proof: C04 shows `noFragmentCycles` ⇔ no fragment name reaches itself (`C04.noFragmentCycles_iff`, inductive
  `Reach` over `fragDeps`). A spread path of the translated document is a `Reach` chain, so its names are
  pairwise different; they are fragment names, so by the pigeonhole principle (`C04.length_le_of_nodup_subset`)
  a path has at most `#fragments` elements; `fragDepth_path` turns a depth into a path, and
  `noSpreadCycle_of_bound` (AcyclicComplete.lean) concludes.
-/
import ApiFu.C01.FromC04
import ApiFu.C01.AcyclicComplete
import ApiFu.C04.Lemmas

namespace ApiFu.C01

/-- the spreads written in a selection (set, list) of the real AST are those of its translation -/
theorem spreads_toSel (a : Ann) :
    (∀ s : C04.Selection, (toSel a s).spreads = C04.Spec.spreadsInSel s) ∧
    (∀ ss : C04.SelSet, spreadsList (toSet a ss) = C04.Spec.spreadsInSet ss) ∧
    (∀ sels : List C04.Selection, spreadsList (toSels a sels) = C04.Spec.spreadsInSels sels) := by
  apply c04_sel_induction
  · intro al n np args dirs; simp [toSel, Selection.spreads, spreadsList, C04.Spec.spreadsInSel]
  · intro al n np args dirs ss ih; simpa [toSel, Selection.spreads, C04.Spec.spreadsInSel] using ih
  · intro n np dirs p; simp [toSel, Selection.spreads, C04.Spec.spreadsInSel]
  · intro tc dirs ss p ih; simpa [toSel, Selection.spreads, C04.Spec.spreadsInSel] using ih
  · intro sels p ih; simpa [toSet, C04.Spec.spreadsInSet] using ih
  · simp [toSels, spreadsList, C04.Spec.spreadsInSels]
  · intro s rest ihs ihr; simp [toSels, spreadsList, C04.Spec.spreadsInSels, ihs, ihr]

theorem toDoc_frag_names (a : Ann) (D4 : C04.Document) :
    (toDoc a D4).frags.map (·.name) = C04.Spec.fragNames D4 := by
  unfold toDoc C04.Spec.fragNames C04.Spec.fragDefs
  induction D4 with
  | nil => rfl
  | cons d rest ih =>
    cases d with
    | op kind name vars dirs sel => simpa [List.filterMap_cons, toFrag?] using ih
    | frag n np tc tcp dirs sel p =>
      simp only [List.filterMap_cons, toFrag?, List.map_cons]
      simp only at ih
      rw [ih]

theorem mem_toDoc_frags (a : Ann) (D4 : C04.Document) (fr : Frag) (h : fr ∈ (toDoc a D4).frags) :
    ∃ tc sel, (fr.name, tc, sel) ∈ C04.Spec.fragDefs D4 ∧ fr.sels = toSet a sel := by
  simp only [toDoc, List.mem_filterMap] at h
  obtain ⟨d, hd, hfr⟩ := h
  cases d with
  | op kind name vars dirs sel => simp [toFrag?] at hfr
  | frag n np tc tcp dirs sel p =>
    simp only [toFrag?, Option.some.injEq] at hfr
    subst hfr
    refine ⟨tc, sel, ?_, rfl⟩
    simp only [C04.Spec.fragDefs, List.mem_filterMap]
    exact ⟨_, hd, rfl⟩

/-- an edge of the translated document's spread graph is an edge of C04's `fragDeps` -/
theorem edge_fragDeps (a : Ann) (D4 : C04.Document) (x y : String) (fr : Frag)
    (hf : (toDoc a D4).frag? x = some fr) (hy : y ∈ spreadsList fr.sels) : y ∈ C04.Spec.fragDeps D4 x := by
  have hm := frag?_mem _ x fr hf
  have hn := frag?_name _ x fr hf
  obtain ⟨tc, sel, hdef, hsels⟩ := mem_toDoc_frags a D4 fr hm
  rw [hsels, (spreads_toSel a).2.1 sel] at hy
  unfold C04.Spec.fragDeps
  simp only [List.mem_flatMap]
  exact ⟨_, hdef, by simpa [hn] using hy⟩

theorem nodup_of_spec_nodup (l : List String) (h : C04.Spec.nodup l = true) : l.Nodup := by
  induction l with
  | nil => exact List.nodup_nil
  | cons x rest ih =>
    simp only [C04.nodup_cons, Bool.and_eq_true, Bool.not_eq_true', List.contains_eq_mem, decide_eq_false_iff_not] at h
    exact List.nodup_cons.mpr ⟨h.1, ih h.2⟩

/-- with unique fragment names every fragment definition is the one its name looks up -/
theorem frag?_of_unique (D : Document) (h : (D.frags.map (·.name)).Nodup) (fr : Frag) (hfr : fr ∈ D.frags) :
    D.frag? fr.name = some fr := by
  unfold Document.frag?
  cases hf : D.frags.reverse.find? (fun f => f.name == fr.name) with
  | none =>
    have := List.find?_eq_none.mp hf fr (by simpa using hfr)
    simp at this
  | some fr' =>
    have hm : fr' ∈ D.frags := by simpa using List.mem_of_find?_eq_some hf
    have hn : fr'.name = fr.name := by simpa using List.find?_some hf
    rw [eq_of_nodup_map (·.name) D.frags h fr' fr hm hfr hn]

theorem path_reach (a : Ann) (D4 : C04.Document) (x : String) (p : List String)
    (h : IsPath (toDoc a D4) (x :: p)) : ∀ y ∈ p, C04.Reach (C04.Spec.fragDeps D4) x y := by
  induction p generalizing x with
  | nil => intro y hy; simp at hy
  | cons b rest ih =>
    obtain ⟨⟨fr, hf, hb⟩, hrest⟩ := h
    have hedge := edge_fragDeps a D4 x b fr hf hb
    intro y hy
    rcases List.mem_cons.mp hy with rfl | hy
    · exact .step hedge
    · exact .trans hedge (ih b hrest y hy)

theorem path_defined (D : Document) (p : List String) (h : IsPath D p) : ∀ y ∈ p, (D.frag? y).isSome = true := by
  induction p with
  | nil => intro y hy; simp at hy
  | cons x rest ih =>
    cases rest with
    | nil => intro y hy; simp only [List.mem_singleton] at hy; subst hy; exact h
    | cons b rest' =>
      obtain ⟨⟨fr, hf, _⟩, hrest⟩ := h
      intro y hy
      rcases List.mem_cons.mp hy with rfl | hy
      · simp [hf]
      · exact ih hrest y hy

theorem defined_mem_fragNames (a : Ann) (D4 : C04.Document) (y : String) (h : ((toDoc a D4).frag? y).isSome = true) :
    y ∈ C04.Spec.fragNames D4 := by
  obtain ⟨fr, hf⟩ := Option.isSome_iff_exists.mp h
  rw [← toDoc_frag_names a D4, ← frag?_name _ y fr hf]
  exact List.mem_map_of_mem (f := (·.name)) (frag?_mem _ y fr hf)

theorem path_nodup (a : Ann) (D4 : C04.Document)
    (hacyc : ∀ n ∈ C04.Spec.fragNames D4, ¬ C04.Reach (C04.Spec.fragDeps D4) n n)
    (p : List String) (h : IsPath (toDoc a D4) p) : C04.Spec.nodup p = true := by
  induction p with
  | nil => rfl
  | cons x rest ih =>
    rw [C04.nodup_cons]
    simp only [Bool.and_eq_true, Bool.not_eq_true', List.contains_eq_mem, decide_eq_false_iff_not]
    constructor
    · intro hx
      have hdef := path_defined _ _ h x (List.mem_cons_self ..)
      exact hacyc x (defined_mem_fragNames a D4 x hdef) (path_reach a D4 x rest h x hx)
    · cases rest with
      | nil => rfl
      | cons b rest' => exact ih h.2

/-- no exploration of the spread graph of a cycle-free document exceeds the number of fragment definitions -/
theorem fragDepth_bound (a : Ann) (D4 : C04.Document)
    (hacyc : ∀ n ∈ C04.Spec.fragNames D4, ¬ C04.Reach (C04.Spec.fragDeps D4) n n)
    (fuel : Nat) (name : String) : fragDepth (toDoc a D4) fuel name ≤ (toDoc a D4).frags.length := by
  cases hk : fragDepth (toDoc a D4) fuel name with
  | zero => exact Nat.zero_le _
  | succ k =>
    obtain ⟨p, hp, hl⟩ := fragDepth_path _ fuel name k hk
    have hnd := path_nodup a D4 hacyc _ hp
    have hsub : ∀ y ∈ name :: p, y ∈ C04.Spec.fragNames D4 :=
      fun y hy => defined_mem_fragNames a D4 y (path_defined _ _ hp y hy)
    have := C04.length_le_of_nodup_subset (name :: p) (C04.Spec.fragNames D4) hnd hsub
    rw [← toDoc_frag_names a D4] at this
    simp only [List.length_cons, List.length_map] at this
    omega

/-- **noSpreadCycle_of_valid** — a document whose fragment names are unique (§5.5.1.1) and whose spreads form
    no cycle (§5.5.2.2), as C04's judgement states them, passes C01's test `noSpreadCycle`: the longest-chain
    depth is a strict topological order bounded by the number of fragments. (Completeness of the test.) -/
theorem noSpreadCycle_of_valid (a : Ann) (D4 : C04.Document)
    (hunique : C04.Spec.fragmentNamesUnique D4 = true) (hcycles : C04.Spec.noFragmentCycles D4 = true) :
    (toDoc a D4).noSpreadCycle = true := by
  have hacyc := (C04.noFragmentCycles_iff D4).mp hcycles
  apply noSpreadCycle_of_bound
  · exact fragDepth_bound a D4 hacyc
  · apply frag?_of_unique
    rw [toDoc_frag_names]
    exact nodup_of_spec_nodup _ hunique

end ApiFu.C01
