/-
  C01 — completeness of the decidable test `Document.noSpreadCycle` (Acyclic.lean), graph part.

  `noSpreadCycle` checks that the longest-spread-chain depth `rank` (explored `#fragments + 1` deep) is a
  strict topological order of the spread graph bounded by `#fragments`. Here:
    * `fragDepth_le_fuel`, `fragDepth_mono`, `fragDepth_stable` — the exploration is monotone in its fuel and
      once a value is below the fuel it is final;
    * `fragDepth_path` — a depth of `k+1` is witnessed by a spread path of `k+1` defined fragments;
    * `noSpreadCycle_of_bound` — if no exploration ever exceeds `#fragments` (which is what acyclicity
      gives, by the pigeonhole principle: FromC04Cycles.lean) and fragment names are unique, the test passes.
-/
import ApiFu.C01.Acyclic

namespace ApiFu.C01

theorem foldl_max_le_of_all (l : List Nat) (init b : Nat) (hi : init ≤ b) (h : ∀ x ∈ l, x ≤ b) :
    l.foldl max init ≤ b := by
  induction l generalizing init with
  | nil => simpa using hi
  | cons a rest ih =>
    simp only [List.foldl_cons]
    have ha := h a (List.mem_cons_self ..)
    exact ih (max init a) (by omega) (fun x hx => h x (List.mem_cons_of_mem _ hx))

/-- the maximum of a list is its start value or one of its elements -/
theorem foldl_max_attained (l : List Nat) (init : Nat) : l.foldl max init = init ∨ l.foldl max init ∈ l := by
  induction l generalizing init with
  | nil => simp
  | cons a rest ih =>
    simp only [List.foldl_cons, List.mem_cons]
    rcases ih (max init a) with h | h
    · rw [h]
      rcases Nat.le_total init a with hle | hle
      · right; left; omega
      · left; omega
    · exact Or.inr (Or.inr h)

theorem fragDepth_succ (D : Document) (fuel : Nat) (name : String) :
    fragDepth D (fuel + 1) name =
      match D.frag? name with
      | none => 0
      | some fr => 1 + ((spreadsList fr.sels).map (fragDepth D fuel)).foldl max 0 := rfl

theorem fragDepth_zero (D : Document) (name : String) : fragDepth D 0 name = 0 := rfl

theorem fragDepth_le_fuel (D : Document) (fuel : Nat) (name : String) : fragDepth D fuel name ≤ fuel := by
  induction fuel generalizing name with
  | zero => simp [fragDepth]
  | succ fuel ih =>
    simp only [fragDepth]
    cases hf : D.frag? name with
    | none => simp
    | some fr =>
      simp only
      have := foldl_max_le_of_all ((spreadsList fr.sels).map (fragDepth D fuel)) 0 fuel (Nat.zero_le _) (by
        intro x hx
        simp only [List.mem_map] at hx
        obtain ⟨g, _, rfl⟩ := hx
        exact ih g)
      omega

/-- **fragDepth_stable** — a value below the exploration depth is final. -/
theorem fragDepth_stable (D : Document) (m : Nat) (name : String) (h : fragDepth D (m + 1) name ≠ fragDepth D m name) :
    fragDepth D (m + 1) name = m + 1 := by
  induction m generalizing name with
  | zero =>
    rw [fragDepth_succ] at h ⊢
    rw [fragDepth_zero] at h
    cases hf : D.frag? name with
    | none => simp [hf] at h
    | some fr =>
      simp only
      have := foldl_max_le_of_all ((spreadsList fr.sels).map (fragDepth D 0)) 0 0 (Nat.le_refl _) (by
        intro x hx
        simp only [List.mem_map] at hx
        obtain ⟨g, _, rfl⟩ := hx
        simp [fragDepth_zero])
      omega
  | succ m ih =>
    rw [fragDepth_succ D (m + 1)] at h ⊢
    rw [fragDepth_succ D m] at h
    cases hf : D.frag? name with
    | none => simp [hf] at h
    | some fr =>
      simp only [hf] at h ⊢
      have hA := foldl_max_le_of_all ((spreadsList fr.sels).map (fragDepth D (m + 1))) 0 (m + 1) (Nat.zero_le _) (by
        intro x hx
        simp only [List.mem_map] at hx
        obtain ⟨g, _, rfl⟩ := hx
        exact fragDepth_le_fuel D (m + 1) g)
      by_cases hlt : ((spreadsList fr.sels).map (fragDepth D (m + 1))).foldl max 0 = m + 1
      · omega
      · exfalso
        apply h
        have hall : ∀ g ∈ spreadsList fr.sels, fragDepth D (m + 1) g = fragDepth D m g := by
          intro g hg
          have hle := (foldl_max_le ((spreadsList fr.sels).map (fragDepth D (m + 1))) 0).2 _
            (List.mem_map_of_mem (f := fragDepth D (m + 1)) hg)
          by_cases he : fragDepth D (m + 1) g = fragDepth D m g
          · exact he
          · have := ih g he; omega
        rw [List.map_congr_left hall]

/-- a spread path: every element is a defined fragment, each next one is spread inside the definition of
    the one before it -/
def IsPath (D : Document) : List String → Prop
  | [] => False
  | [a] => (D.frag? a).isSome
  | a :: b :: rest => (∃ fr, D.frag? a = some fr ∧ b ∈ spreadsList fr.sels) ∧ IsPath D (b :: rest)

/-- **fragDepth_path** — a depth of `k + 1` is witnessed by a spread path of `k + 1` fragments from `name`. -/
theorem fragDepth_path (D : Document) (fuel : Nat) (name : String) (k : Nat) (h : fragDepth D fuel name = k + 1) :
    ∃ p, IsPath D (name :: p) ∧ p.length = k := by
  induction fuel generalizing name k with
  | zero => simp [fragDepth] at h
  | succ fuel ih =>
    simp only [fragDepth] at h
    cases hf : D.frag? name with
    | none => simp [hf] at h
    | some fr =>
      simp only [hf] at h
      have hk : ((spreadsList fr.sels).map (fragDepth D fuel)).foldl max 0 = k := by omega
      cases k with
      | zero => exact ⟨[], by simp [IsPath, hf], rfl⟩
      | succ k =>
        rcases foldl_max_attained ((spreadsList fr.sels).map (fragDepth D fuel)) 0 with h0 | hm
        · omega
        · rw [hk] at hm
          simp only [List.mem_map] at hm
          obtain ⟨g, hg, hgk⟩ := hm
          obtain ⟨p, hp, hl⟩ := ih g k hgk
          exact ⟨g :: p, ⟨⟨fr, hf, hg⟩, hp⟩, by simp [hl]⟩

/-- **noSpreadCycle_of_bound** — if no exploration exceeds the number of fragment definitions and every
    fragment definition is the one its name looks up (unique names), the document passes `noSpreadCycle`. -/
theorem noSpreadCycle_of_bound (D : Document)
    (hbound : ∀ fuel name, fragDepth D fuel name ≤ D.frags.length)
    (huniq : ∀ fr ∈ D.frags, D.frag? fr.name = some fr) : D.noSpreadCycle = true := by
  unfold Document.noSpreadCycle
  rw [List.all_eq_true]
  intro fr hfr
  simp only [Bool.and_eq_true, decide_eq_true_eq, List.all_eq_true]
  refine ⟨hbound _ _, ?_⟩
  intro g hg
  cases hfg : D.frag? g with
  | none => rfl
  | some fr' =>
    show decide (D.rank g < D.rank fr.name) = true
    rw [decide_eq_true_eq]
    unfold Document.rank
    have hstab : fragDepth D (D.frags.length + 1) g = fragDepth D D.frags.length g := by
      by_cases he : fragDepth D (D.frags.length + 1) g = fragDepth D D.frags.length g
      · exact he
      · have := fragDepth_stable D _ g he
        have := hbound (D.frags.length + 1) g
        omega
    rw [hstab, fragDepth_succ D D.frags.length fr.name, huniq fr hfr]
    simp only
    have hle := (foldl_max_le ((spreadsList fr.sels).map (fragDepth D D.frags.length)) 0).2 _
      (List.mem_map_of_mem (f := fragDepth D D.frags.length) hg)
    omega

end ApiFu.C01
