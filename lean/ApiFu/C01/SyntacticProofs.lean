/-
  C01 — proof that the syntactic typing judgement (Syntactic.lean: `Document.typed`, `Schema.wfCheck`,
  `Document.mergeOK`) implies that the reference never meets an undefined field
  (`syntactic_undef_free`). Invariant of a merged selection set executed for object type `o` (`Inv`): it
  is a concatenation of parts, each typed in a scope `o` belongs to, whose field sets (collectAll) can
  merge pairwise; CollectFields then only collects fields selected in scopes `o` belongs to
  (`spec_collect_groupsFrom`), fields of one group have one name (`MergeProp`), the field is defined
  on `o` with a covariant type (`fieldOn_runtime`), and the invariant is inherited by the merged
  sub-selections for every object type the value can have (`inv_next`).
-/
import ApiFu.C01.Syntactic

namespace ApiFu.C01

/-! ### collectAll -/

/-- what `collectAll` returns for a selection list contains what it returns for the pieces -/
theorem collectAll_fold_mem (S : Schema) (D : Document) (fuel : Nat) (scope : String)
    (sels : List Selection) (acc L : List (String × Selection))
    (h : sels.foldlM (init := acc) (fun acc sel =>
      match sel with
      | .field .. => some (acc ++ [(scope, sel)])
      | .inline _ tc _ sub => (collectAll S D fuel (tc.getD scope) sub).map (acc ++ ·)
      | .spread _ name _ =>
        match D.frag? name with
        | some fr => (collectAll S D fuel fr.tc fr.sels).map (acc ++ ·)
        | none => some acc) = some L) :
    (∀ x ∈ acc, x ∈ L) ∧
    ∀ sel ∈ sels,
      (∀ pos alias name wkey ae dirs sub, sel = .field pos alias name wkey ae dirs sub → (scope, sel) ∈ L) ∧
      (∀ pos tc dirs sub, sel = .inline pos tc dirs sub →
        ∃ L', collectAll S D fuel (tc.getD scope) sub = some L' ∧ ∀ x ∈ L', x ∈ L) ∧
      (∀ pos name dirs fr, sel = .spread pos name dirs → D.frag? name = some fr →
        ∃ L', collectAll S D fuel fr.tc fr.sels = some L' ∧ ∀ x ∈ L', x ∈ L) := by
  induction sels generalizing acc with
  | nil =>
    simp only [List.foldlM_nil, pure, Option.some.injEq] at h
    subst h
    exact ⟨fun x hx => hx, by intro sel hs; simp at hs⟩
  | cons sel rest ih =>
    simp only [List.foldlM_cons] at h
    cases sel with
    | field pos alias name wkey ae dirs sub =>
      simp only [Option.bind_eq_bind, Option.bind_some] at h
      obtain ⟨h1, h2⟩ := ih _ h
      refine ⟨fun x hx => h1 x (List.mem_append_left _ hx), ?_⟩
      intro s hs
      rcases List.mem_cons.mp hs with rfl | hs
      · refine ⟨?_, ?_, ?_⟩
        · intro _ _ _ _ _ _ _ _; exact h1 _ (by simp)
        · intro _ _ _ _ he; cases he
        · intro _ _ _ _ he; cases he
      · exact h2 s hs
    | inline pos tc dirs sub =>
      simp only at h
      cases hc : collectAll S D fuel (tc.getD scope) sub with
      | none => simp [hc] at h
      | some L' =>
        simp only [hc, Option.map_some, Option.bind_eq_bind, Option.bind_some] at h
        obtain ⟨h1, h2⟩ := ih _ h
        refine ⟨fun x hx => h1 x (List.mem_append_left _ hx), ?_⟩
        intro s hs
        rcases List.mem_cons.mp hs with rfl | hs
        · refine ⟨?_, ?_, ?_⟩
          · intro _ _ _ _ _ _ _ he; cases he
          · intro p t d sb he
            cases he
            exact ⟨L', hc, fun x hx => h1 x (List.mem_append_right _ hx)⟩
          · intro _ _ _ _ he; cases he
        · exact h2 s hs
    | spread pos name dirs =>
      simp only at h
      cases hf : D.frag? name with
      | none =>
        simp only [hf, Option.bind_eq_bind, Option.bind_some] at h
        obtain ⟨h1, h2⟩ := ih _ h
        refine ⟨h1, ?_⟩
        intro s hs
        rcases List.mem_cons.mp hs with rfl | hs
        · refine ⟨?_, ?_, ?_⟩
          · intro _ _ _ _ _ _ _ he; cases he
          · intro _ _ _ _ he; cases he
          · intro p n d fr he hfr; cases he; rw [hf] at hfr; cases hfr
        · exact h2 s hs
      | some fr0 =>
        simp only [hf] at h
        cases hc : collectAll S D fuel fr0.tc fr0.sels with
        | none => simp [hc] at h
        | some L' =>
          simp only [hc, Option.map_some, Option.bind_eq_bind, Option.bind_some] at h
          obtain ⟨h1, h2⟩ := ih _ h
          refine ⟨fun x hx => h1 x (List.mem_append_left _ hx), ?_⟩
          intro s hs
          rcases List.mem_cons.mp hs with rfl | hs
          · refine ⟨?_, ?_, ?_⟩
            · intro _ _ _ _ _ _ _ he; cases he
            · intro _ _ _ _ he; cases he
            · intro p n d fr he hfr
              cases he
              rw [hf] at hfr
              cases hfr
              exact ⟨L', hc, fun x hx => h1 x (List.mem_append_right _ hx)⟩
          · exact h2 s hs

/-- `InSet L scope sels`: the field set of `(scope, sels)` is computed by `collectAll` and lies in `L` -/
def InSet (S : Schema) (D : Document) (L : List (String × Selection)) (scope : String) (sels : List Selection) : Prop :=
  ∃ fuel L', collectAll S D fuel scope sels = some L' ∧ ∀ x ∈ L', x ∈ L

theorem inSet_sel (S : Schema) (D : Document) (L : List (String × Selection)) (scope : String) (sels : List Selection)
    (h : InSet S D L scope sels) (sel : Selection) (hs : sel ∈ sels) :
    (∀ pos alias name wkey ae dirs sub, sel = .field pos alias name wkey ae dirs sub → (scope, sel) ∈ L) ∧
    (∀ pos tc dirs sub, sel = .inline pos tc dirs sub → InSet S D L (tc.getD scope) sub) ∧
    (∀ pos name dirs fr, sel = .spread pos name dirs → D.frag? name = some fr → InSet S D L fr.tc fr.sels) := by
  obtain ⟨fuel, L', hc, hsub⟩ := h
  cases fuel with
  | zero => simp [collectAll] at hc
  | succ fuel =>
    rw [collectAll] at hc
    obtain ⟨_, h2⟩ := collectAll_fold_mem S D fuel scope sels [] L' hc
    obtain ⟨ha, hb, hc'⟩ := h2 sel hs
    refine ⟨?_, ?_, ?_⟩
    · intro pos alias name wkey ae dirs sub he
      exact hsub _ (ha pos alias name wkey ae dirs sub he)
    · intro pos tc dirs sub he
      obtain ⟨L'', h1, h2'⟩ := hb pos tc dirs sub he
      exact ⟨fuel, L'', h1, fun x hx => hsub x (h2' x hx)⟩
    · intro pos name dirs fr he hfr
      obtain ⟨L'', h1, h2'⟩ := hc' pos name dirs fr he hfr
      exact ⟨fuel, L'', h1, fun x hx => hsub x (h2' x hx)⟩


/-! ### what the reference's CollectFields collects from typed selections -/

/-- the field node of a field selection -/
def Selection.node? : Selection → Option FieldNode
  | .field pos alias name wkey ae _ sub => some { pos, alias, name, wkey, argErr := ae, sels := sub }
  | _ => none

/-- `f` was selected by a typed field selection of the set `L`, in a scope the object type belongs to -/
def FromSet (S : Schema) (o : ObjT) (L : List (String × Selection)) (f : FieldNode) : Prop :=
  ∃ scope sel, fragmentApplies S o scope = .yes ∧ typedSel S scope sel = true ∧ (scope, sel) ∈ L ∧ sel.node? = some f

/-- a selection that is typed in a scope the object type belongs to, whose field set lies in `L` -/
def CondSel (S : Schema) (D : Document) (o : ObjT) (L : List (String × Selection)) (sel : Selection) : Prop :=
  ∃ scope, fragmentApplies S o scope = .yes ∧ typedSel S scope sel = true ∧
    (∀ f, sel.node? = some f → (scope, sel) ∈ L) ∧
    (∀ pos tc dirs sub, sel = .inline pos tc dirs sub → InSet S D L (tc.getD scope) sub) ∧
    (∀ pos name dirs fr, sel = .spread pos name dirs → D.frag? name = some fr → InSet S D L fr.tc fr.sels)

theorem typedList_mem (S : Schema) (scope : String) (l : List Selection) (h : typedList S scope l = true)
    (s : Selection) (hs : s ∈ l) : typedSel S scope s = true := by
  induction l with
  | nil => simp at hs
  | cons a rest ih =>
    simp only [typedList, Bool.and_eq_true] at h
    rcases List.mem_cons.mp hs with rfl | hs
    · exact h.1
    · exact ih h.2 hs

/-- every selection of a typed selection list whose field set lies in `L` satisfies `CondSel` -/
theorem condSel_of_list (S : Schema) (D : Document) (o : ObjT) (L : List (String × Selection)) (scope : String)
    (sels : List Selection) (hsub : fragmentApplies S o scope = .yes) (ht : typedList S scope sels = true)
    (hin : InSet S D L scope sels) : ∀ sel ∈ sels, CondSel S D o L sel := by
  intro sel hs
  obtain ⟨ha, hb, hc⟩ := inSet_sel S D L scope sels hin sel hs
  refine ⟨scope, hsub, typedList_mem S scope sels ht sel hs, ?_, hb, hc⟩
  intro f hf
  cases sel with
  | field pos alias name wkey ae dirs sub => exact ha _ _ _ _ _ _ _ rfl
  | spread pos name dirs => simp [Selection.node?] at hf
  | inline pos tc dirs sub => simp [Selection.node?] at hf

def GroupsFrom (S : Schema) (o : ObjT) (L : List (String × Selection)) (g : Grouped) : Prop :=
  ∀ p ∈ g, ∀ f ∈ p.2, FromSet S o L f ∧ f.responseKey = p.1

theorem addToGroup_groupsFrom (S : Schema) (o : ObjT) (L : List (String × Selection)) (g : Grouped) (k : String)
    (fs : List FieldNode) (hg : GroupsFrom S o L g) (hfs : ∀ f ∈ fs, FromSet S o L f ∧ f.responseKey = k) :
    GroupsFrom S o L (Spec.addToGroup g k fs) := by
  induction g with
  | nil =>
    intro p hp f hf
    simp only [Spec.addToGroup, List.mem_singleton] at hp
    subst hp
    exact hfs f hf
  | cons q rest ih =>
    obtain ⟨k', g'⟩ := q
    by_cases hk : k' = k
    · rw [addToGroup_cons_eq _ _ _ _ _ hk]
      intro p hp f hf
      rcases List.mem_cons.mp hp with rfl | hp
      · rcases List.mem_append.mp hf with hf | hf
        · exact hg (k', g') (List.mem_cons_self ..) f hf
        · have := hfs f hf
          exact ⟨this.1, by rw [this.2, hk]⟩
      · exact hg p (List.mem_cons_of_mem _ hp) f hf
    · rw [addToGroup_cons_ne _ _ _ _ _ hk]
      intro p hp f hf
      rcases List.mem_cons.mp hp with rfl | hp
      · exact hg (k', g') (List.mem_cons_self ..) f hf
      · exact ih (fun p hp => hg p (List.mem_cons_of_mem _ hp)) p hp f hf

theorem mergeGroups_groupsFrom (S : Schema) (o : ObjT) (L : List (String × Selection)) (g fg : Grouped)
    (hg : GroupsFrom S o L g) (hfg : GroupsFrom S o L fg) : GroupsFrom S o L (Spec.mergeGroups g fg) := by
  unfold Spec.mergeGroups
  induction fg generalizing g with
  | nil => exact hg
  | cons q rest ih =>
    simp only [List.foldl_cons]
    apply ih
    · exact addToGroup_groupsFrom S o L g q.1 q.2 hg (hfg q (List.mem_cons_self ..))
    · exact fun p hp => hfg p (List.mem_cons_of_mem _ hp)

theorem doesApply_yes (S : Schema) (o : ObjT) (tc : String) (h : Spec.doesFragmentTypeApply S o tc = true) :
    fragmentApplies S o tc = .yes := by
  unfold Spec.doesFragmentTypeApply at h
  unfold fragmentApplies
  cases hl : S.lookup tc with
  | none => simp [hl] at h
  | some td =>
    cases td with
    | scalar k => simp [hl] at h
    | enum vs => simp [hl] at h
    | object fs is =>
      simp only [hl, decide_eq_true_eq] at h
      simp [h]
    | interface fs =>
      simp only [hl, decide_eq_true_eq] at h
      simp [h]
    | union ms =>
      simp only [hl, decide_eq_true_eq] at h
      simp [h]

theorem collectSelection_groupsFrom (S : Schema) (D : Document) (o : ObjT) (L : List (String × Selection))
    (hfrags : ∀ fr ∈ D.frags, typedList S fr.tc fr.sels = true)
    (recur : List Selection → List String → Option (Grouped × List String))
    (hrec : ∀ sels vis r, (∀ sel ∈ sels, CondSel S D o L sel) → recur sels vis = some r → GroupsFrom S o L r.1)
    (acc : Grouped × List String) (sel : Selection) (r : Grouped × List String)
    (hacc : GroupsFrom S o L acc.1) (hsel : CondSel S D o L sel)
    (h : Spec.collectSelection S D o recur acc sel = some r) : GroupsFrom S o L r.1 := by
  unfold Spec.collectSelection at h
  obtain ⟨grouped, visited⟩ := acc
  simp only at h hacc
  obtain ⟨scope, hsub, htyped, hfield, hinl, hspr⟩ := hsel
  by_cases hx : Spec.excluded sel.dirs = true
  · simp only [hx, if_true, Option.some.injEq] at h; subst h; exact hacc
  · simp only [hx, Bool.false_eq_true, if_false] at h
    cases sel with
    | field pos alias name wkey argErr dirs sub =>
      simp only [Option.some.injEq] at h; subst h
      apply addToGroup_groupsFrom S o L _ _ _ hacc
      intro f hf
      simp only [List.mem_singleton] at hf
      subst hf
      refine ⟨⟨scope, _, hsub, htyped, hfield _ rfl, rfl⟩, ?_⟩
      simp [Spec.toFieldNode, FieldNode.responseKey, Spec.responseKeyOf]
      cases alias <;> rfl
    | spread pos name dirs =>
      simp only [fragmentNamed_eq] at h
      by_cases hv : name ∈ visited
      · simp only [hv, if_true, Option.some.injEq] at h; subst h; exact hacc
      · simp only [hv, if_false] at h
        cases hf : D.frag? name with
        | none => simp only [hf, Option.some.injEq] at h; subst h; exact hacc
        | some fr =>
          simp only [hf] at h
          by_cases ha : Spec.doesFragmentTypeApply S o fr.tc = true
          · simp only [ha, if_true] at h
            cases hr : recur fr.sels (name :: visited) with
            | none => simp [hr] at h
            | some q =>
              obtain ⟨fg, v⟩ := q
              simp only [hr, Option.some.injEq] at h; subst h
              apply mergeGroups_groupsFrom S o L _ _ hacc
              apply hrec _ _ _ _ hr
              exact condSel_of_list S D o L fr.tc fr.sels (doesApply_yes S o fr.tc ha)
                (hfrags fr (frag?_mem D name fr hf)) (hspr pos name dirs fr rfl hf)
          · simp only [ha, Bool.false_eq_true, if_false, Option.some.injEq] at h; subst h; exact hacc
    | inline pos tc dirs sub =>
      have htl : typedList S (tc.getD scope) sub = true := by simpa [typedSel] using htyped
      have hin := hinl pos tc dirs sub rfl
      have key : ∀ (hsub' : fragmentApplies S o (tc.getD scope) = .yes) (q : Grouped × List String),
          recur sub visited = some q → GroupsFrom S o L (Spec.mergeGroups grouped q.1) := by
        intro hsub' q hr
        apply mergeGroups_groupsFrom S o L _ _ hacc
        exact hrec _ _ _ (condSel_of_list S D o L (tc.getD scope) sub hsub' htl hin) hr
      cases hr : recur sub visited with
      | none =>
        cases tc with
        | none => simp [hr] at h
        | some t =>
          by_cases ha : Spec.doesFragmentTypeApply S o t = true
          · simp [ha, hr] at h
          · simp only [ha, Bool.false_eq_true, if_false, Option.some.injEq] at h; subst h; exact hacc
      | some q =>
        obtain ⟨fg, v⟩ := q
        cases tc with
        | none =>
          simp only [hr, if_true, Option.some.injEq] at h; subst h
          exact key (by simpa using hsub) (fg, v) hr
        | some t =>
          by_cases ha : Spec.doesFragmentTypeApply S o t = true
          · simp only [ha, hr, if_true, Option.some.injEq] at h; subst h
            exact key (by simpa using doesApply_yes S o t ha) (fg, v) hr
          · simp only [ha, Bool.false_eq_true, if_false, Option.some.injEq] at h; subst h; exact hacc

theorem spec_collect_groupsFrom (S : Schema) (D : Document) (o : ObjT) (L : List (String × Selection))
    (hfrags : ∀ fr ∈ D.frags, typedList S fr.tc fr.sels = true)
    (fuel : Nat) (sels : List Selection) (vis : List String) (r : Grouped × List String)
    (hsels : ∀ sel ∈ sels, CondSel S D o L sel)
    (h : Spec.collectFields S D o fuel sels vis = some r) : GroupsFrom S o L r.1 := by
  induction fuel generalizing sels vis r with
  | zero => simp [Spec.collectFields] at h
  | succ fuel ih =>
    simp only [Spec.collectFields] at h
    have fold : ∀ (sels : List Selection) (acc r : Grouped × List String), GroupsFrom S o L acc.1 →
        (∀ sel ∈ sels, CondSel S D o L sel) →
        sels.foldlM (Spec.collectSelection S D o (Spec.collectFields S D o fuel)) acc = some r → GroupsFrom S o L r.1 := by
      intro sels
      induction sels with
      | nil =>
        intro acc r hacc _ h
        simp only [List.foldlM_nil, pure, Option.some.injEq] at h
        subst h; exact hacc
      | cons sel rest ihl =>
        intro acc r hacc hs h
        simp only [List.foldlM_cons] at h
        cases h1 : Spec.collectSelection S D o (Spec.collectFields S D o fuel) acc sel with
        | none => simp [h1] at h
        | some acc' =>
          simp only [h1, Option.bind_eq_bind, Option.bind_some] at h
          exact ihl acc' r
            (collectSelection_groupsFrom S D o L hfrags _ (fun sels vis r hs hr => ih sels vis r hs hr) acc sel acc' hacc
              (hs sel (List.mem_cons_self ..)) h1)
            (fun s hs' => hs s (List.mem_cons_of_mem _ hs')) h
    exact fold sels ([], vis) r (by intro p hp; simp at hp) hsels h


/-! ### schema facts -/

theorem wfCheck_spec (S : Schema) (h : S.wfCheck = true) :
    (S.types.map (·.1)).Nodup ∧
    ∀ n fs is, (n, TypeDef.object fs is) ∈ S.types → ∀ i ∈ is, ∀ ifs, S.lookup i = some (.interface ifs) →
      ∀ ifd ∈ ifs, ∃ fd, fs.find? (fun f => f.name == ifd.name) = some fd ∧ subBase S fd.type.base ifd.type.base = true := by
  unfold Schema.wfCheck at h
  simp only [Bool.and_eq_true, decide_eq_true_eq, List.all_eq_true] at h
  refine ⟨h.1, ?_⟩
  intro n fs is hm i hi ifs hl ifd hifd
  have := h.2 _ hm
  simp only [List.all_eq_true] at this
  have := this i hi
  simp only [hl, List.all_eq_true] at this
  have := this ifd hifd
  cases hf : fs.find? (fun f => f.name == ifd.name) with
  | none => simp [hf] at this
  | some fd => exact ⟨fd, rfl, by simpa [hf] using this⟩

theorem lookup_of_mem (S : Schema) (hnd : (S.types.map (·.1)).Nodup) (p : String × TypeDef) (hp : p ∈ S.types) :
    S.lookup p.1 = some p.2 := by
  unfold Schema.lookup
  cases hf : S.types.find? (fun q => q.1 == p.1) with
  | none =>
    have := List.find?_eq_none.mp hf p hp
    simp at this
  | some q =>
    have hq := List.mem_of_find?_eq_some hf
    have hk : q.1 = p.1 := by simpa using List.find?_some hf
    have := eq_of_nodup_map (·.1) S.types hnd q p hq hp hk
    rw [this]

theorem object?_unfold (S : Schema) (n : String) (o : ObjT) (h : S.object? n = some o) :
    S.lookup n = some (.object o.fields o.ifaces) ∧ o.name = n := by
  unfold Schema.object? at h
  cases hl : S.lookup n with
  | none => simp [hl] at h
  | some td =>
    cases td with
    | object fs is => simp only [hl, Option.some.injEq] at h; subst h; exact ⟨rfl, rfl⟩
    | scalar k => simp [hl] at h
    | interface fs => simp [hl] at h
    | union ms => simp [hl] at h
    | enum vs => simp [hl] at h

/-- an object type a value of type `a` can have is a well-formed object type of the schema and belongs to `a` -/
theorem runtimeObjects_spec (S : Schema) (hnd : (S.types.map (·.1)).Nodup) (a : String) (o' : ObjT)
    (h : o' ∈ runtimeObjects S a) : S.object? o'.name = some o' ∧ fragmentApplies S o' a = .yes := by
  unfold runtimeObjects at h
  cases hl : S.lookup a with
  | none => simp [hl] at h
  | some td =>
    cases td with
    | scalar k => simp [hl] at h
    | enum vs => simp [hl] at h
    | object fs is =>
      simp only [hl, List.mem_singleton] at h
      subst h
      exact ⟨object?_of_lookup S a fs is hl, by simp [fragmentApplies, hl]⟩
    | interface ifs =>
      simp only [hl, List.mem_filterMap] at h
      obtain ⟨tn, htn, ho⟩ := h
      refine ⟨object?_name S tn o' ho, ?_⟩
      unfold Schema.implementations at htn
      simp only [List.mem_filterMap] at htn
      obtain ⟨p, hp, hq⟩ := htn
      cases hp2 : p.2 with
      | object fs is =>
        simp only [hp2] at hq
        split at hq
        · rename_i hc
          simp only [Option.some.injEq] at hq
          have hlk := lookup_of_mem S hnd p hp
          rw [hq, hp2] at hlk
          obtain ⟨h1, _⟩ := object?_unfold S tn o' ho
          rw [hlk] at h1
          simp only [Option.some.injEq, TypeDef.object.injEq] at h1
          have hmem : a ∈ is := by simpa using hc
          simp [fragmentApplies, hl, ← h1.2, hmem]
        · simp at hq
      | scalar k => simp [hp2] at hq
      | interface f => simp [hp2] at hq
      | union ms => simp [hp2] at hq
      | enum vs => simp [hp2] at hq
    | union ms =>
      simp only [hl, List.mem_filterMap] at h
      obtain ⟨tn, htn, ho⟩ := h
      refine ⟨object?_name S tn o' ho, ?_⟩
      obtain ⟨_, hname⟩ := object?_unfold S tn o' ho
      simp [fragmentApplies, hl, hname, htn]

theorem subBase_refl (S : Schema) (hnd : (S.types.map (·.1)).Nodup) (a : String) : subBase S a a = true := by
  unfold subBase
  rw [List.all_eq_true]
  intro o' ho'
  simp [(runtimeObjects_spec S hnd a o' ho').2]

/-- a field defined on a scope the object type belongs to is defined on the object type, with a
    covariant type -/
theorem fieldOn_runtime (S : Schema) (hwf : S.wfCheck = true) (o : ObjT) (ho : S.object? o.name = some o)
    (scope name : String) (fd : FieldDef) (hsub : fragmentApplies S o scope = .yes)
    (hfd : S.fieldOn scope name = some fd) :
    ∃ fd', o.getField name = some fd' ∧ subBase S fd'.type.base fd.type.base = true := by
  obtain ⟨hnd, himpl⟩ := wfCheck_spec S hwf
  obtain ⟨hlo, _⟩ := object?_unfold S o.name o ho
  unfold Schema.fieldOn Schema.fieldsOf at hfd
  unfold fragmentApplies at hsub
  cases hl : S.lookup scope with
  | none => simp [hl] at hfd
  | some td =>
    cases td with
    | scalar k => simp [hl] at hfd
    | enum vs => simp [hl] at hfd
    | union ms => simp [hl] at hfd
    | object fs is =>
      simp only [hl] at hfd hsub
      have hname : o.name = scope := by
        by_cases e : o.name = scope
        · exact e
        · simp [e] at hsub
      rw [hname, hl] at hlo
      simp only [Option.some.injEq, TypeDef.object.injEq] at hlo
      refine ⟨fd, ?_, subBase_refl S hnd _⟩
      rw [getField_eq, ← hlo.1]
      have : (fun (f : FieldDef) => decide (f.name = name)) = (fun f => f.name == name) := by
        funext f; by_cases e : f.name = name <;> simp [e]
      rw [this]; exact hfd
    | interface ifs =>
      simp only [hl] at hfd hsub
      have hmem : scope ∈ o.ifaces := by
        by_cases e : scope ∈ o.ifaces
        · exact e
        · simp [e] at hsub
      have hfdm : fd ∈ ifs := List.mem_of_find?_eq_some hfd
      have hfdn : fd.name = name := by simpa using List.find?_some hfd
      obtain ⟨fd', hf', hsb⟩ := himpl o.name o.fields o.ifaces (lookup_mem S o.name _ hlo) scope hmem ifs hl fd hfdm
      refine ⟨fd', ?_, hsb⟩
      rw [getField_eq]
      have : (fun (f : FieldDef) => decide (f.name = name)) = (fun f => f.name == fd.name) := by
        funext f; rw [hfdn]; by_cases e : f.name = name <;> simp [e]
      rw [this]; exact hf'


/-! ### merging -/

/-- the pairwise condition `canMerge` checks on a field set -/
def MergeProp (S : Schema) (D : Document) (cf : Nat) (L : List (String × Selection)) : Prop :=
  ∀ a ∈ L, ∀ b ∈ L, a.2.fieldKey = b.2.fieldKey →
    ¬ (isObjectType S a.1 = true ∧ isObjectType S b.1 = true ∧ a.1 ≠ b.1) →
    a.2.fieldName = b.2.fieldName ∧
    ∀ fa fb, S.fieldOn a.1 a.2.fieldName = some fa → S.fieldOn b.1 b.2.fieldName = some fb →
      ∃ mf, canMerge S D cf mf [(fa.type.base, a.2.subs), (fb.type.base, b.2.subs)] = true

theorem canMerge_unfold (S : Schema) (D : Document) (cf mf : Nat) (p q : String × List Selection)
    (h : canMerge S D cf mf [p, q] = true) :
    ∃ Lp Lq, collectAll S D cf p.1 p.2 = some Lp ∧ collectAll S D cf q.1 q.2 = some Lq ∧ MergeProp S D cf (Lp ++ Lq) := by
  cases mf with
  | zero => simp [canMerge] at h
  | succ mf =>
    rw [canMerge] at h
    cases hp : collectAll S D cf p.1 p.2 with
    | none => simp [List.mapM_cons, hp] at h
    | some Lp =>
      cases hq : collectAll S D cf q.1 q.2 with
      | none => simp [List.mapM_cons, hp, hq] at h
      | some Lq =>
        refine ⟨Lp, Lq, rfl, rfl, ?_⟩
        simp only [List.mapM_cons, List.mapM_nil, hp, hq, pure, Option.bind_eq_bind, Option.bind_some,
          List.flatten_cons, List.flatten_nil, List.append_nil, List.all_eq_true] at h
        intro a ha b hb hkey hnot
        have hab := h a ha b hb
        simp only [hkey, beq_self_eq_true, if_true] at hab
        by_cases hobj : (isObjectType S a.1 && isObjectType S b.1 && a.1 != b.1) = true
        · exfalso
          apply hnot
          simp only [Bool.and_eq_true, bne_iff_ne, ne_eq] at hobj
          exact ⟨hobj.1.1, hobj.1.2, hobj.2⟩
        · simp only [hobj, Bool.false_eq_true, if_false, Bool.and_eq_true, beq_iff_eq] at hab
          refine ⟨hab.1, ?_⟩
          intro fa fb hfa hfb
          have := hab.2
          simp only [hfa, hfb] at this
          exact ⟨mf, this⟩

theorem node_facts (sel : Selection) (f : FieldNode) (h : sel.node? = some f) :
    sel.fieldKey = f.responseKey ∧ sel.fieldName = f.name ∧ sel.subs = f.sels := by
  cases sel with
  | field pos alias name wkey ae dirs sub =>
    simp only [Selection.node?, Option.some.injEq] at h
    subst h
    refine ⟨?_, rfl, rfl⟩
    simp only [Selection.fieldKey, FieldNode.responseKey]
    cases alias <;> rfl
  | spread pos name dirs => simp [Selection.node?] at h
  | inline pos tc dirs sub => simp [Selection.node?] at h

theorem typedSel_field (S : Schema) (scope : String) (sel : Selection) (f : FieldNode) (h : sel.node? = some f)
    (ht : typedSel S scope sel = true) (hn : f.name ≠ "__typename") :
    ∃ fd, S.fieldOn scope f.name = some fd ∧ typedList S fd.type.base f.sels = true := by
  cases sel with
  | field pos alias name wkey ae dirs sub =>
    simp only [Selection.node?, Option.some.injEq] at h
    subst h
    simp only [typedSel, Bool.or_eq_true, beq_iff_eq] at ht
    rcases ht with ht | ht
    · exact absurd ht hn
    · cases hf : S.fieldOn scope name with
      | none => simp [hf] at ht
      | some fd => exact ⟨fd, rfl, by simpa [hf] using ht⟩
  | spread pos name dirs => simp [Selection.node?] at h
  | inline pos tc dirs sub => simp [Selection.node?] at h

theorem sub_object_name (S : Schema) (o : ObjT) (scope : String) (h : fragmentApplies S o scope = .yes)
    (hobj : isObjectType S scope = true) : o.name = scope := by
  unfold isObjectType at hobj
  unfold fragmentApplies at h
  cases hl : S.lookup scope with
  | none => simp [hl] at hobj
  | some td =>
    cases td with
    | object fs is =>
      simp only [hl] at h
      by_cases e : o.name = scope
      · exact e
      · simp [e] at h
    | scalar k => simp [hl] at hobj
    | interface fs => simp [hl] at hobj
    | union ms => simp [hl] at hobj
    | enum vs => simp [hl] at hobj

/-- the invariant of a merged selection set executed for object type `o` -/
def Inv (S : Schema) (D : Document) (cf : Nat) (o : ObjT) (sels : List Selection) : Prop :=
  ∃ (parts : List (String × List Selection)) (L : List (String × Selection)),
    sels = parts.flatMap (·.2) ∧
    (∀ p ∈ parts, fragmentApplies S o p.1 = .yes ∧ typedList S p.1 p.2 = true ∧ InSet S D L p.1 p.2) ∧
    MergeProp S D cf L

theorem inv_condSel (S : Schema) (D : Document) (cf : Nat) (o : ObjT) (sels : List Selection) (h : Inv S D cf o sels) :
    ∃ L, MergeProp S D cf L ∧ ∀ sel ∈ sels, CondSel S D o L sel := by
  obtain ⟨parts, L, rfl, hparts, hm⟩ := h
  refine ⟨L, hm, ?_⟩
  intro sel hs
  simp only [List.mem_flatMap] at hs
  obtain ⟨p, hp, hsp⟩ := hs
  obtain ⟨h1, h2, h3⟩ := hparts p hp
  exact condSel_of_list S D o L p.1 p.2 h1 h2 h3 sel hsp


/-- a part of the next level's merged selection set: the sub-selections of a field of the group, in the
    scope of the field's declared type on the scope it was selected in -/
def PartOK (S : Schema) (o o' : ObjT) (L : List (String × Selection)) (fields : List FieldNode)
    (p : String × List Selection) : Prop :=
  ∃ f ∈ fields, ∃ scope sel fd, (scope, sel) ∈ L ∧ sel.node? = some f ∧ fragmentApplies S o scope = .yes ∧
    S.fieldOn scope f.name = some fd ∧ p = (fd.type.base, f.sels) ∧ typedList S fd.type.base f.sels = true ∧
    fragmentApplies S o' fd.type.base = .yes

theorem partOK_of_field (S : Schema) (D : Document) (cf : Nat) (hwf : S.wfCheck = true) (o : ObjT)
    (ho : S.object? o.name = some o) (L : List (String × Selection)) (hm : MergeProp S D cf L)
    (key : String) (fields : List FieldNode)
    (hfields : ∀ f ∈ fields, FromSet S o L f ∧ f.responseKey = key)
    (f0 : FieldNode) (hf0 : f0 ∈ fields) (hn : f0.name ≠ "__typename")
    (fd' : FieldDef) (hfd' : o.getField f0.name = some fd') (o' : ObjT) (ho' : o' ∈ runtimeObjects S fd'.type.base)
    (f : FieldNode) (hf : f ∈ fields) : ∃ p, PartOK S o o' L fields p ∧ p.2 = f.sels := by
  obtain ⟨⟨scope, sel, hsub, htyped, hmem, hnode⟩, hkey⟩ := hfields f hf
  obtain ⟨⟨scope0, sel0, hsub0, _, hmem0, hnode0⟩, hkey0⟩ := hfields f0 hf0
  obtain ⟨k1, n1, s1⟩ := node_facts sel f hnode
  obtain ⟨k0, n0, _⟩ := node_facts sel0 f0 hnode0
  -- same response key, compatible parents: same name
  have hname : f.name = f0.name := by
    have := (hm (scope, sel) hmem (scope0, sel0) hmem0 (by simp only; rw [k1, k0, hkey, hkey0]) (by
      rintro ⟨h1, h2, h3⟩
      exact h3 ((sub_object_name S o scope hsub h1).symm.trans (sub_object_name S o scope0 hsub0 h2)))).1
    simp only at this
    rw [n1, n0] at this
    exact this
  obtain ⟨fd, hfd, htl⟩ := typedSel_field S scope sel f hnode htyped (by rw [hname]; exact hn)
  obtain ⟨fd'', hget, hsb⟩ := fieldOn_runtime S hwf o ho scope f.name fd hsub hfd
  rw [hname, hfd'] at hget
  have : fd'' = fd' := (Option.some.inj hget).symm
  subst this
  have hsub' : fragmentApplies S o' fd.type.base = .yes := by
    unfold subBase at hsb
    rw [List.all_eq_true] at hsb
    simpa using hsb o' ho'
  exact ⟨(fd.type.base, f.sels), ⟨f, hf, scope, sel, fd, hmem, hnode, hsub, hfd, rfl, htl, hsub'⟩, rfl⟩

theorem parts_exist (S : Schema) (o o' : ObjT) (L : List (String × Selection)) (fields : List FieldNode)
    (h : ∀ f ∈ fields, ∃ p, PartOK S o o' L fields p ∧ p.2 = f.sels) (sub : List FieldNode) (hsub : ∀ f ∈ sub, f ∈ fields) :
    ∃ parts : List (String × List Selection), parts.flatMap (·.2) = mergeSelectionSets sub ∧ ∀ p ∈ parts, PartOK S o o' L fields p := by
  induction sub with
  | nil => exact ⟨[], rfl, by intro p hp; simp at hp⟩
  | cons f rest ih =>
    obtain ⟨parts, h1, h2⟩ := ih (fun x hx => hsub x (List.mem_cons_of_mem _ hx))
    obtain ⟨p, hp, hps⟩ := h f (hsub f (List.mem_cons_self ..))
    refine ⟨p :: parts, ?_, ?_⟩
    · simp only [List.flatMap_cons, mergeSelectionSets, hps] at h1 ⊢
      rw [h1]
    · intro q hq
      rcases List.mem_cons.mp hq with rfl | hq
      · exact hp
      · exact h2 q hq

/-- **The invariant is inherited by the merged sub-selections of a group, for every object type the
    field's value can have.** -/
theorem inv_next (S : Schema) (D : Document) (cf : Nat) (hwf : S.wfCheck = true) (o : ObjT)
    (ho : S.object? o.name = some o) (L : List (String × Selection)) (hm : MergeProp S D cf L)
    (key : String) (fields : List FieldNode)
    (hfields : ∀ f ∈ fields, FromSet S o L f ∧ f.responseKey = key)
    (f0 : FieldNode) (hf0 : f0 ∈ fields) (hn : f0.name ≠ "__typename")
    (fd' : FieldDef) (hfd' : o.getField f0.name = some fd') (o' : ObjT) (ho' : o' ∈ runtimeObjects S fd'.type.base) :
    Inv S D cf o' (mergeSelectionSets fields) := by
  have hpart : ∀ f ∈ fields, ∃ p, PartOK S o o' L fields p ∧ p.2 = f.sels :=
    fun f hf => partOK_of_field S D cf hwf o ho L hm key fields hfields f0 hf0 hn fd' hfd' o' ho' f hf
  obtain ⟨parts, hflat, hparts⟩ := parts_exist S o o' L fields hpart fields (fun f hf => hf)
  -- any two parts can merge
  have hpair : ∀ p ∈ parts, ∀ q ∈ parts, ∃ mf, canMerge S D cf mf [p, q] = true := by
    intro p hp q hq
    obtain ⟨f, hf, scope, sel, fd, hmem, hnode, hsub, hfd, rfl, _, _⟩ := hparts p hp
    obtain ⟨g, hg, scope2, sel2, fd2, hmem2, hnode2, hsub2, hfd2, rfl, _, _⟩ := hparts q hq
    obtain ⟨k1, n1, s1⟩ := node_facts sel f hnode
    obtain ⟨k2, n2, s2⟩ := node_facts sel2 g hnode2
    have := (hm (scope, sel) hmem (scope2, sel2) hmem2 (by
        simp only; rw [k1, k2, (hfields f hf).2, (hfields g hg).2]) (by
      rintro ⟨h1, h2, h3⟩
      exact h3 ((sub_object_name S o scope hsub h1).symm.trans (sub_object_name S o scope2 hsub2 h2)))).2 fd fd2
      (by simp only; rw [n1]; exact hfd) (by simp only; rw [n2]; exact hfd2)
    simp only [s1, s2] at this
    exact this
  let L' : List (String × Selection) := parts.flatMap fun p => (collectAll S D cf p.1 p.2).getD []
  refine ⟨parts, L', hflat.symm, ?_, ?_⟩
  · intro p hp
    obtain ⟨f, hf, scope, sel, fd, hmem, hnode, hsub, hfd, rfl, htl, hsub'⟩ := hparts p hp
    refine ⟨hsub', htl, ?_⟩
    obtain ⟨mf, hcm⟩ := hpair _ hp _ hp
    obtain ⟨Lp, _, hLp, _, _⟩ := canMerge_unfold S D cf mf _ _ hcm
    refine ⟨cf, Lp, hLp, ?_⟩
    intro x hx
    simp only [L', List.mem_flatMap]
    exact ⟨_, hp, by simp only [hLp, Option.getD_some]; exact hx⟩
  · intro a ha b hb hkey hnot
    simp only [L', List.mem_flatMap] at ha hb
    obtain ⟨p, hp, hap⟩ := ha
    obtain ⟨q, hq, hbq⟩ := hb
    obtain ⟨mf, hcm⟩ := hpair p hp q hq
    obtain ⟨Lp, Lq, hLp, hLq, hmp⟩ := canMerge_unfold S D cf mf p q hcm
    simp only [hLp, Option.getD_some] at hap
    simp only [hLq, Option.getD_some] at hbq
    exact hmp a (List.mem_append_left _ hap) b (List.mem_append_right _ hbq) hkey hnot


/-! ### the main induction -/

/-- `SubsUndefFree` for the reference's fuels below `n` -/
def SubsUndefFreeBelow (S : Schema) (D : Document) (n : Nat) (base : String) (fields : List FieldNode) : Prop :=
  ∀ o' ∈ runtimeObjects S base, ∀ fuel, fuel < n → ∀ v path s,
    Spec.executeSelectionSet S D fuel o' (mergeSelectionSets fields) v path = some s → s.undef = false

theorem completeValue_undef_below (S : Schema) (D : Document) (n : Nat) (fields : List FieldNode) (f0 : FieldNode)
    (fuel : Nat) (hle : fuel ≤ n) (t : TypeRef) (v : RVal) (path : Path) (r : Spec.SOut)
    (H : SubsUndefFreeBelow S D n t.base fields)
    (h : Spec.completeValue S D fuel t fields f0 v path = some r) : r.undef = false := by
  induction fuel generalizing t v path r with
  | zero => simp [Spec.completeValue] at h
  | succ fuel ih =>
    cases t with
    | nonNull inner =>
      simp only [Spec.completeValue] at h
      cases hin : Spec.completeValue S D fuel inner fields f0 v path with
      | none => simp [hin] at h
      | some r0 =>
        simp only [hin] at h
        have h0 := ih (by omega) inner v path r0 (by simpa [TypeRef.base] using H) hin
        cases hd : r0.data with
        | none => simp only [hd, Option.some.injEq] at h; subst h; exact h0
        | some j =>
          cases j <;> simp only [hd, Option.some.injEq] at h <;> subst h <;> exact h0
    | list inner =>
      simp only [Spec.completeValue] at h
      by_cases hnil : Spec.isNullish v = true
      · simp only [hnil, if_true, Option.some.injEq] at h; subst h; rfl
      · simp only [hnil, Bool.false_eq_true, if_false] at h
        cases v with
        | list items =>
          simp only at h
          cases hrs : (items.zipIdx).mapM (Spec.completeItem inner path (Spec.completeValue S D fuel inner fields f0)) with
          | none => simp [hrs] at h
          | some rs =>
            simp only [hrs, Option.map_some, Option.some.injEq] at h
            subst h
            apply combineItems_undef
            intro s hs
            obtain ⟨p, _, hp⟩ := option_mapM_mem _ _ _ hrs s hs
            simp only [Spec.completeItem] at hp
            cases hc : Spec.completeValue S D fuel inner fields f0 p.1 (path ++ [PathSeg.idx p.2]) with
            | none => simp [hc] at hp
            | some r0 =>
              simp only [hc, Option.map_some, Option.some.injEq] at hp
              subst hp
              rw [atPosition_undef]
              exact ih (by omega) inner _ _ r0 (by simpa [TypeRef.base] using H) hc
        | leaf g => simp only [Option.some.injEq] at h; subst h; rfl
        | null => simp [Spec.isNullish] at hnil
        | tnil => simp [Spec.isNullish] at hnil
        | obj ty es => simp only [Option.some.injEq] at h; subst h; rfl
    | named n =>
      simp only [Spec.completeValue] at h
      simp only [TypeRef.base] at H
      by_cases hnil : Spec.isNullish v = true
      · simp only [hnil, if_true, Option.some.injEq] at h; subst h; rfl
      · simp only [hnil, Bool.false_eq_true, if_false] at h
        cases hl : S.lookup n with
        | none => simp [hl] at h
        | some td =>
          cases td with
          | scalar k =>
            simp only [hl] at h
            cases v with
            | leaf g =>
              simp only at h
              cases hc : Spec.resultCoerce k g <;> simp only [hc, Option.some.injEq] at h <;> subst h <;> rfl
            | null => simp [Spec.isNullish] at hnil
            | tnil => simp [Spec.isNullish] at hnil
            | list items => simp only [Option.some.injEq] at h; subst h; rfl
            | obj ty es => simp only [Option.some.injEq] at h; subst h; rfl
          | enum values =>
            simp only [hl] at h
            cases v with
            | leaf g =>
              simp only at h
              cases hc : Spec.enumCoerce values g <;> simp only [hc, Option.some.injEq] at h <;> subst h <;> rfl
            | null => simp [Spec.isNullish] at hnil
            | tnil => simp [Spec.isNullish] at hnil
            | list items => simp only [Option.some.injEq] at h; subst h; rfl
            | obj ty es => simp only [Option.some.injEq] at h; subst h; rfl
          | object fs is =>
            simp only [hl, mergeSelectionSets_eq] at h
            exact H _ (by simp [runtimeObjects, hl]) _ (by omega) _ _ _ h
          | interface fs =>
            simp only [hl, mergeSelectionSets_eq, implementations_eq S n fs hl] at h
            cases hf : (S.implementations n).find? (fun t => isTypeOf t v) with
            | none => simp only [hf, Option.some.injEq] at h; subst h; rfl
            | some tn =>
              simp only [hf] at h
              cases ho : S.object? tn with
              | none => simp [ho] at h
              | some o =>
                simp only [ho] at h
                refine H o ?_ _ (by omega) _ _ _ h
                simp only [runtimeObjects, hl, List.mem_filterMap]
                exact ⟨tn, List.mem_of_find?_eq_some hf, ho⟩
          | union ms =>
            simp only [hl, mergeSelectionSets_eq, possibleTypes_union S n ms hl] at h
            cases hf : ms.find? (fun t => isTypeOf t v) with
            | none => simp only [hf, Option.some.injEq] at h; subst h; rfl
            | some tn =>
              simp only [hf] at h
              cases ho : S.object? tn with
              | none => simp [ho] at h
              | some o =>
                simp only [ho] at h
                refine H o ?_ _ (by omega) _ _ _ h
                simp only [runtimeObjects, hl, List.mem_filterMap]
                exact ⟨tn, List.mem_of_find?_eq_some hf, ho⟩


/-- **A merged selection set satisfying the invariant never makes the reference meet an undefined field.** -/
theorem inv_undef_free (S : Schema) (D : Document) (cf : Nat) (hwf : S.wfCheck = true)
    (hfrags : ∀ fr ∈ D.frags, typedList S fr.tc fr.sels = true)
    (fuel : Nat) (o : ObjT) (sels : List Selection) (v : RVal) (path : Path) (s : Spec.SOut)
    (hinv : Inv S D cf o sels) (ho : S.object? o.name = some o)
    (hs : Spec.executeSelectionSet S D fuel o sels v path = some s) : s.undef = false := by
  induction fuel using Nat.strongRecOn generalizing o sels v path s with
  | _ fuel ih =>
    cases fuel with
    | zero => simp [Spec.executeSelectionSet] at hs
    | succ fuel =>
      simp only [Spec.executeSelectionSet] at hs
      cases hcs : Spec.collectFields S D o fuel sels [] with
      | none => simp [hcs] at hs
      | some gv =>
        obtain ⟨g, vis⟩ := gv
        simp only [hcs] at hs
        obtain ⟨L, hm, hcond⟩ := inv_condSel S D cf o sels hinv
        have hgf := spec_collect_groupsFrom S D o L hfrags fuel sels [] (g, vis) hcond hcs
        cases hrs : g.mapM (Spec.executeEntry o v path (Spec.completeValue S D fuel)) with
        | none => simp [hrs] at hs
        | some rs =>
          simp only [hrs, Option.map_some, Option.some.injEq] at hs
          subst hs
          apply combineFields_undef
          intro entry hentry
          obtain ⟨p, hp, hpe⟩ := option_mapM_mem _ _ _ hrs entry hentry
          have hgroup := hgf p hp
          obtain ⟨key, fields⟩ := p
          cases fields with
          | nil => simp [Spec.executeEntry] at hpe
          | cons f0 tl =>
            simp only [Spec.executeEntry] at hpe
            by_cases htn : f0.name = "__typename"
            · simp only [htn, if_true, Option.some.injEq] at hpe
              exact ⟨key, _, hpe.symm, rfl⟩
            · simp only [htn, if_false] at hpe
              -- the field is defined on the object type
              obtain ⟨⟨scope0, sel0, hsub0, htyped0, _, hnode0⟩, _⟩ := hgroup f0 (List.mem_cons_self ..)
              obtain ⟨fd0, hfd0, _⟩ := typedSel_field S scope0 sel0 f0 hnode0 htyped0 htn
              obtain ⟨fd', hget, _⟩ := fieldOn_runtime S hwf o ho scope0 f0.name fd0 hsub0 hfd0
              have hfind : o.fields.find? (fun (fd : FieldDef) => decide (fd.name = f0.name)) = some fd' := by
                rw [← getField_eq]; exact hget
              simp only [hfind] at hpe
              have hsub : SubsUndefFreeBelow S D (fuel + 1) fd'.type.base (f0 :: tl) := by
                intro o' ho' fuel' hlt v' path' s' hs'
                obtain ⟨hnd, _⟩ := wfCheck_spec S hwf
                exact ih fuel' hlt o' _ v' path' s'
                  (inv_next S D cf hwf o ho L hm key (f0 :: tl) hgroup f0 (List.mem_cons_self ..) htn fd' hget o' ho')
                  (runtimeObjects_spec S hnd _ o' ho').1 hs'
              cases hae : f0.argErr with
              | some ae =>
                simp only [hae, Option.map_some, Option.some.injEq] at hpe
                exact ⟨key, _, hpe.symm, by rw [atPosition_undef]; rfl⟩
              | none =>
                simp only [hae] at hpe
                cases hres : resolve v f0.wkey with
                | err m =>
                  simp only [hres, Option.map_some, Option.some.injEq] at hpe
                  exact ⟨key, _, hpe.symm, by rw [atPosition_undef]; rfl⟩
                | val rv =>
                  simp only [hres] at hpe
                  cases hcv : Spec.completeValue S D fuel fd'.type (f0 :: tl) f0 rv (path ++ [PathSeg.key key]) with
                  | none => simp [hcv] at hpe
                  | some r0 =>
                    simp only [hcv, Option.map_some, Option.some.injEq] at hpe
                    refine ⟨key, _, hpe.symm, ?_⟩
                    rw [atPosition_undef]
                    exact completeValue_undef_below S D (fuel + 1) (f0 :: tl) f0 fuel (by omega) fd'.type rv _ r0 hsub hcv

theorem typed_spec (D : Document) (S : Schema) (h : D.typed S = true) :
    (∀ fr ∈ D.frags, typedList S fr.tc fr.sels = true) ∧
    ∀ op ∈ D.ops, ∀ r, rootTypeName S op.kind = some r → typedList S r op.sels = true := by
  unfold Document.typed at h
  simp only [Bool.and_eq_true, List.all_eq_true] at h
  refine ⟨h.1, ?_⟩
  intro op hop r hr
  have := h.2 op hop
  simpa [hr] using this

/-- **syntactic_no_undefined_field** — a document that is typed (every selected field is defined on its
    parent type, in the scopes type conditions establish), over a well-formed schema (interfaces
    implemented covariantly), whose fields can merge, never makes the reference meet an undefined
    field — for every world, operation name and fuel. -/
theorem syntactic_undef_free (S : Schema) (D : Document) (htyped : D.typed S = true) (hwf : S.wfCheck = true)
    (hmerge : D.mergeOK S = true)
    (fuel : Nat) (opName : String) (root : RVal) (s : Spec.SOut)
    (hs : Spec.executeRequest S D fuel opName root = .executed s) : s.undef = false := by
  obtain ⟨hfrags, hops⟩ := typed_spec D S htyped
  unfold Spec.executeRequest at hs
  cases hgo : Spec.getOperation D opName with
  | none => simp [hgo] at hs
  | some op =>
    simp only [hgo, rootType_eq] at hs
    have hop := spec_getOperation_mem D opName op hgo
    cases hk : rootTypeName S op.kind with
    | none => simp [hk] at hs
    | some r =>
      simp only [hk, Option.bind_some] at hs
      cases hroot : S.object? r with
      | none => simp [hroot] at hs
      | some o =>
        simp only [hroot] at hs
        cases hss : Spec.executeSelectionSet S D fuel o op.sels root [] with
        | none => simp [hss] at hs
        | some s' =>
          simp only [hss, Spec.Result.executed.injEq] at hs
          subst hs
          obtain ⟨hlo, hname⟩ := object?_unfold S r o hroot
          have ho : S.object? o.name = some o := object?_name S r o hroot
          have hsub : fragmentApplies S o r = .yes := by simp [fragmentApplies, hlo, hname]
          -- the operation's selections can merge with themselves
          unfold Document.mergeOK at hmerge
          simp only [List.all_eq_true] at hmerge
          have hcm := hmerge op hop
          simp only [hk] at hcm
          obtain ⟨Lp, Lq, hLp, _, hmp⟩ := canMerge_unfold S D (D.nodes.length + D.frags.length + 2)
            (D.nodes.length + D.frags.length + 2) (r, op.sels) (r, op.sels) hcm
          refine inv_undef_free S D (D.nodes.length + D.frags.length + 2) hwf hfrags fuel o op.sels root [] s' ?_ ho hss
          refine ⟨[(r, op.sels)], Lp ++ Lq, by simp, ?_, hmp⟩
          intro p hp
          simp only [List.mem_singleton] at hp
          subst hp
          exact ⟨hsub, hops op hop r hk, _, Lp, hLp, fun x hx => List.mem_append_left _ hx⟩

end ApiFu.C01
