/-
  C19 — the resolver envelope (`EnvOK`) and the proof that inside it RefStatus is always a
  three-digit status code (so `WriteHeader` never panics). Core Lean only.
-/
import ApiFu.C19.Lemmas

namespace ApiFu.C19

open Spec

def InRange (n : Nat) : Prop := 100 ≤ n ∧ n ≤ 999

instance (n : Nat) : Decidable (InRange n) := by unfold InRange; exact inferInstance

/-- An error whose Status is empty or the text of an HTTP status code. -/
def ErrOK (e : Err) : Prop := e.status = .empty ∨ ∃ n, e.status = .num n ∧ InRange n

def RelOK : RelDef → Prop
  | .toOne _ o => ∀ e, o = .error e → ErrOK e
  | .toMany _ o a r =>
    (∀ e, o = .error e → ErrOK e) ∧ (∀ e, a = some (.error e) → ErrOK e) ∧ (∀ e, r = some (.error e) → ErrOK e)

structure TypeOK (t : TypeDef) : Prop where
  attrs : ∀ a ∈ t.attrs, ∀ e, a.2 = .error e → ErrOK e
  rels : ∀ x ∈ t.rels, RelOK x.2
  get : ∀ g, t.get = some g → ∀ id e, g id = .error e → ErrOK e
  patch : ∀ g, t.patch = some g → ∀ id e, g id = .error e → ErrOK e
  create : ∀ e, t.create = some (.error e) → ErrOK e
  delete : ∀ f, t.delete = some f → ∀ id e, f id = some e → ErrOK e

/-- Every error any resolver of the schema can return is inside the envelope. -/
def EnvOK (s : Schema) : Prop := ∀ x ∈ s, TypeOK x.2

theorem errStatus_range {e : Err} (h : ErrOK e) : InRange (errStatus e) := by
  unfold errStatus
  rcases h with h | ⟨n, h, hn⟩
  · rw [h]; decide
  · rw [h]; exact hn

theorem lookup_mem {β : Type} (l : List (String × β)) (k : String) (v : β) (h : l.lookup k = some v) :
    (k, v) ∈ l := by
  induction l with
  | nil => simp [List.lookup] at h
  | cons x xs ih =>
    obtain ⟨k', v'⟩ := x
    unfold List.lookup at h
    split at h
    · rename_i heq
      have : k = k' := by simpa using heq
      simp at h
      simp [this, h]
    · exact List.mem_cons_of_mem _ (ih h)

theorem typeOK_of_lookup {s : Schema} (hs : EnvOK s) {ty : String} {t : TypeDef} (h : s.lookup ty = some t) :
    TypeOK t := hs (ty, t) (lookup_mem s ty t h)

theorem completionError_ok {t : TypeDef} (ht : TypeOK t) {e : Err} (h : completionError t = some e) : ErrOK e := by
  unfold completionError at h
  split at h
  · rename_i e' he
    obtain ⟨a, ha, hf⟩ := List.exists_of_findSome?_eq_some he
    have : e' = e := by simpa using h
    subst this
    unfold attrError at hf
    split at hf
    · rename_i e'' hout
      have : e'' = e' := by simpa using hf
      subst this
      exact ht.attrs a ha _ hout
    · simp at hf
  · obtain ⟨x, hx, hf⟩ := List.exists_of_findSome?_eq_some h
    have hrel := ht.rels x hx
    unfold defaultRelError at hf
    split at hf
    · rename_i e' hd
      have : e' = e := by simpa using hf
      subst this
      rw [hd] at hrel
      exact hrel _ rfl
    · rename_i e' _ _ hd
      have : e' = e := by simpa using hf
      subst this
      rw [hd] at hrel
      exact hrel.1 _ rfl
    · simp at hf

theorem sendResource_range {t : TypeDef} (ht : TypeOK t) {ok : Nat} (hok : InRange ok) :
    InRange (sendResource t ok) := by
  unfold sendResource
  split
  · rename_i e he; exact errStatus_range (completionError_ok ht he)
  · split
    · decide
    · exact hok

theorem viaHandler_range {t : TypeDef} (ht : TypeOK t) (h : Option (String → ResOut))
    (hh : ∀ g, h = some g → ∀ id e, g id = .error e → ErrOK e) (id : String) :
    InRange (Spec.viaHandler t h id) := by
  unfold Spec.viaHandler
  split
  · decide
  · rename_i f
    split
    · rename_i e he; exact errStatus_range (hh f rfl id e he)
    · decide
    · exact sendResource_range ht (by decide)

theorem withRelationship_range {t : TypeDef} (ht : TypeOK t) (h : Option (String → ResOut))
    (hh : ∀ g, h = some g → ∀ id e, g id = .error e → ErrOK e) (id rel : String) (k : RelDef → Nat)
    (hk : ∀ d, RelOK d → InRange (k d)) :
    InRange (withRelationship t h id rel k) := by
  unfold withRelationship
  split
  · decide
  · rename_i f
    split
    · rename_i e he; exact errStatus_range (hh f rfl id e he)
    · decide
    · split
      · decide
      · rename_i d hd
        exact hk d (ht.rels (rel, d) (lookup_mem _ _ _ hd))

theorem requestedLinkage_error {d : RelDef} (hd : RelOK d) {e : Err} (h : requestedLinkage d = .error e) : ErrOK e := by
  cases d with
  | toOne b o => cases o <;> simp [requestedLinkage] at h; subst h; exact hd _ rfl
  | toMany b o a r => cases o <;> simp [requestedLinkage] at h; subst h; exact hd.1 _ rfl

theorem linkageStatus_range {d : RelDef} (hd : RelOK d) : InRange (linkageStatus d) := by
  unfold linkageStatus
  split
  · rename_i e he; exact errStatus_range (requestedLinkage_error hd he)
  · decide

theorem membersStatus_range (h : Option ManyOut) (hh : ∀ e, h = some (.error e) → ErrOK e) :
    InRange (membersStatus h) := by
  unfold membersStatus
  split
  · decide
  · rename_i e; exact errStatus_range (hh e rfl)
  · decide

theorem addStatus_range {d : RelDef} (hd : RelOK d) : InRange (addStatus d) := by
  cases d with
  | toOne b o => simp only [addStatus]; decide
  | toMany b o a r => exact membersStatus_range a hd.2.1

theorem removeStatus_range {d : RelDef} (hd : RelOK d) : InRange (removeStatus d) := by
  cases d with
  | toOne b o => simp only [removeStatus]; decide
  | toMany b o a r => exact membersStatus_range r hd.2.2

theorem relatedFailure_range {s : Schema} (hs : EnvOK s) (rid : RId) {n : Nat}
    (h : relatedFailure s rid = some n) : InRange n := by
  unfold relatedFailure at h
  split at h
  · simp at h
  · rename_i t ht
    have hT := typeOK_of_lookup hs ht
    split at h
    · have : n = 405 := by simpa using h.symm
      subst this; decide
    · rename_i g hg
      split at h
      · rename_i e he
        have : errStatus e = n := by simpa using h
        subst this
        exact errStatus_range (hT.get g hg _ e he)
      · simp at h
      · cases hc : completionError t with
        | none => simp [hc] at h
        | some e =>
          simp [hc] at h
          subst h
          exact errStatus_range (completionError_ok hT hc)

theorem fetchRelatedStatus_range {s : Schema} (hs : EnvOK s) {d : RelDef} (hd : RelOK d) :
    InRange (fetchRelatedStatus s d) := by
  unfold fetchRelatedStatus
  split
  · rename_i e he; exact errStatus_range (requestedLinkage_error hd he)
  · decide
  · split
    · rename_i n hn; exact relatedFailure_range hs _ hn
    · split <;> decide
  · split
    · rename_i rids _ n hn
      obtain ⟨rid, _, hf⟩ := List.exists_of_findSome?_eq_some hn
      exact relatedFailure_range hs rid hf
    · split <;> decide

theorem resourceBody_range (body : Body) (id : RId) {k : Nat} (hk : InRange k) :
    InRange (resourceBody body id k) := by
  unfold resourceBody
  split
  · decide
  · split
    · decide
    · exact hk

theorem updateRelatedStatus_range {s : Schema} (hs : EnvOK s) (body : Body) {d : RelDef} (hd : RelOK d) :
    InRange (updateRelatedStatus s body d) := by
  unfold updateRelatedStatus
  split
  · rename_i e he; exact errStatus_range (requestedLinkage_error hd he)
  · split
    · decide
    · rename_i rt hrt
      have hT := typeOK_of_lookup hs hrt
      exact resourceBody_range _ _ (viaHandler_range hT _ hT.patch _)
  · decide

theorem createStatus_range {t : TypeDef} (ht : TypeOK t) (body : Body) (ty : String) :
    InRange (createStatus t body ty) := by
  unfold createStatus
  split
  · decide
  · split
    · decide
    · split
      · decide
      · rename_i e he; exact errStatus_range (ht.create e he)
      · decide
      · exact sendResource_range ht (by decide)

theorem deleteStatus_range {t : TypeDef} (ht : TypeOK t) (id : String) : InRange (deleteStatus t id) := by
  unfold deleteStatus
  split
  · decide
  · rename_i f hf
    split
    · rename_i e he; exact errStatus_range (ht.delete f hf id e he)
    · decide

theorem opStatus_range {s : Schema} (hs : EnvOK s) (body : Body) (op : Op) :
    InRange (opStatus s body (fun ty => s.lookup ty) op) := by
  cases op <;> simp only [opStatus] <;> (try decide) <;> split <;> (try decide)
  all_goals rename_i t ht
  all_goals have hT := typeOK_of_lookup hs ht
  · exact createStatus_range hT _ _
  · exact viaHandler_range hT _ hT.get _
  · exact resourceBody_range _ _ (viaHandler_range hT _ hT.patch _)
  · exact deleteStatus_range hT _
  · exact withRelationship_range hT _ hT.get _ _ _ (fun d hd => fetchRelatedStatus_range hs hd)
  · exact withRelationship_range hT _ hT.get _ _ _ (fun d hd => updateRelatedStatus_range hs body hd)
  · exact withRelationship_range hT _ hT.get _ _ _ (fun d hd => linkageStatus_range hd)
  · split
    · decide
    · exact withRelationship_range hT _ hT.patch _ _ _ (fun d hd => linkageStatus_range hd)
  · split
    · decide
    · exact withRelationship_range hT _ hT.get _ _ _ (fun d hd => addStatus_range hd)
  · split
    · decide
    · exact withRelationship_range hT _ hT.get _ _ _ (fun d hd => removeStatus_range hd)

theorem refStatus_range {s : Schema} (hs : EnvOK s) (r : Req) : InRange (refStatus s r) := by
  unfold refStatus
  split
  · decide
  · split
    · decide
    · exact opStatus_range hs _ _

end ApiFu.C19
