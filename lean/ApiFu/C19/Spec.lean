/-
  C19 — `RefStatus`: the HTTP status the property demands for a request against a resource schema,
  written as a priority list of *rules* (not as a transliteration of the router):

    R1  406  no Accept instance offers `application/vnd.api+json` without parameters other than
             `profile` (handler.go:133-141, quoting JSON:API §"Server responsibilities")
    R2  400  some query parameter is not `family([name])*` with member-name-conforming parts, or its
             family is all-lowercase (reserved for the specification) and not `page`
             (handler.go:175-216, JSON:API §"Query parameters")
    R3  404  the path addresses nothing: unknown type, depth 1 with a method other than POST,
             depth 4 without `relationships`, depth ≥ 5
    R4  405  the route exists but does not offer the method
    R5  400  the route reads a body and the body does not decode
    R6  409  the decoded resource object's type (and id, for PATCH) differ from the endpoint's
    R7  405  the operation needs a handler the type does not define (Get / Patch / Create / Delete,
             AddMembers / RemoveMembers; to-one relationships define no member operations)
    R8  the status of the first error a resolver returns (500 when it carries none)
    R9  404  a resolver answers nil / the relationship name is unknown
    R10 500  the document cannot be marshalled;  otherwise 200 (201 for a created resource)

  The status is a function of the *outcomes* of the resolvers only (never of documents): every rule
  is stated with `find?`-style searches over the schema, not by building the response.
  The Go harness carries an independent Go transcription of the same rules (refStatus in
  harness/cmd/c19/ref.go); the two are compared on every request.
-/
import ApiFu.C19.Model

namespace ApiFu.C19.Spec

open ApiFu.C19

/-! ### R1 -/

def acceptableInstance (a : AcceptInst) : Bool :=
  !a.err && a.media == jsonApiMediaType && a.params.all (fun p => p == "profile")

def acceptable (as : List AcceptInst) : Bool := as.any acceptableInstance

/-! ### R2: the query-parameter grammar `family ( '[' name ']' )*` -/

def nameChar (c : Char) : Bool :=
  c.isAlphanum || c == '-' || c == '_'

/-- JSON:API member name: non-empty, only a-z A-Z 0-9 - _, first and last alphanumeric. -/
def memberName (n : List Char) : Bool :=
  match n.head?, n.getLast? with
  | some a, some z => a.isAlphanum && z.isAlphanum && n.all nameChar
  | _, _ => false

/-- `[name]` -/
def bracket (n : List Char) : List Char := '[' :: n ++ [']']

/-- JSON:API §"Query parameter families": a base name followed by zero or more `[name]` instances,
    every name a member name. (The declarative grammar; `supportedKey` below decides it.) -/
def ParamGrammar (k family : List Char) (names : List (List Char)) : Prop :=
  k = family ++ names.flatMap bracket ∧ memberName family = true ∧ ∀ n ∈ names, memberName n = true

/-- A parameter the server processes: grammatical, and its family is `page` or carries a non a-z
    character (an implementation-specific family, which this handler ignores). Every other key must
    be answered with 400. -/
def Supported (k : List Char) : Prop :=
  ∃ family names, ParamGrammar k family names ∧
    (family = "page".toList ∨ ∃ c ∈ family, ¬ ('a' ≤ c ∧ c ≤ 'z'))

/-- Parse `( '[' name ']' )*` to the end of the key; `none` = malformed. Fuel = remaining length. -/
def groups : Nat → List Char → Option (List (List Char))
  | _, [] => some []
  | 0, _ :: _ => none
  | fuel + 1, c :: rest =>
    if c == '[' then
      let name := rest.takeWhile (fun c => c != '[' && c != ']')
      match rest.dropWhile (fun c => c != '[' && c != ']') with
      | ']' :: rest' => if memberName name then (groups fuel rest').map (fun l => name :: l) else none
      | _ => none
    else none

/-- A key the server must process (`true`) or reject with 400 (`false`). -/
def supportedKey (k : List Char) : Bool :=
  let family := k.takeWhile (fun c => c != '[')
  let rest := k.dropWhile (fun c => c != '[')
  memberName family && (groups rest.length rest).isSome &&
    (family == "page".toList || family.any (fun c => !('a' ≤ c && c ≤ 'z')))

/-! ### R3/R4: what the path and method address -/

inductive Op where
  | create (type : String)
  | fetch (id : RId) | update (id : RId) | remove (id : RId)
  | fetchRelated (id : RId) (rel : String) | updateRelated (id : RId) (rel : String)
  | fetchRel (id : RId) (rel : String) | replaceRel (id : RId) (rel : String)
  | addRel (id : RId) (rel : String) | removeRel (id : RId) (rel : String)
  | methodNotAllowed
  | unknown
  deriving Repr, DecidableEq

def classify (known : String → Bool) (method : String) (path : List String) : Op :=
  match path with
  | [ty] => if known ty && method == "POST" then .create ty else .unknown
  | [ty, id] =>
    if !known ty then .unknown
    else if method == "GET" then .fetch ⟨ty, id⟩
    else if method == "PATCH" then .update ⟨ty, id⟩
    else if method == "DELETE" then .remove ⟨ty, id⟩
    else .methodNotAllowed
  | [ty, id, rel] =>
    if !known ty then .unknown
    else if method == "GET" then .fetchRelated ⟨ty, id⟩ rel
    else if method == "PATCH" then .updateRelated ⟨ty, id⟩ rel
    else .methodNotAllowed
  | [ty, id, mid, rel] =>
    if mid ≠ "relationships" then .unknown
    else if !known ty then .unknown
    else if method == "GET" then .fetchRel ⟨ty, id⟩ rel
    else if method == "PATCH" then .replaceRel ⟨ty, id⟩ rel
    else if method == "POST" then .addRel ⟨ty, id⟩ rel
    else if method == "DELETE" then .removeRel ⟨ty, id⟩ rel
    else .methodNotAllowed
  | _ => .unknown

/-! ### R8: status carried by an error -/

def errStatus (e : Err) : Nat :=
  match e.status with
  | .empty => 500
  | .num n => n
  | .junk => 0          -- outside the envelope (see `EnvOK` in Props)

/-- "The status of the first error carrying one, 500 if none does", stated with `find?`. -/
def firstErrorStatus (es : List Err) : Nat :=
  match es.find? (fun e => e.status != .empty) with
  | some e => errStatus e
  | none => 500

/-! ### status of sending a completed resource of type `t` as primary data -/

def attrError (a : String × AttrOut) : Option Err :=
  match a.2 with
  | .error e => some e
  | _ => none

/-- The error a relationship contributes to a resource object (only relationships that are resolved
    by default are resolved there). -/
def defaultRelError (x : String × RelDef) : Option Err :=
  match x.2 with
  | .toOne true (.error e) => some e
  | .toMany true (.error e) _ _ => some e
  | _ => none

def hasUnmarshalable (t : TypeDef) : Bool := t.attrs.any (fun a => a.2 == .unmarshalable)

/-- First resolver error while completing a resource (attributes first, then relationships). -/
def completionError (t : TypeDef) : Option Err :=
  match t.attrs.findSome? attrError with
  | some e => some e
  | none => t.rels.findSome? defaultRelError

def sendResource (t : TypeDef) (ok : Nat) : Nat :=
  match completionError t with
  | some e => errStatus e
  | none => if hasUnmarshalable t then 500 else ok

/-- R7–R10 for an operation that runs handler `h` on `id` and answers with the resource. -/
def viaHandler (t : TypeDef) (h : Option (String → ResOut)) (id : String) : Nat :=
  match h with
  | none => 405
  | some f =>
    match f id with
    | .error e => errStatus e
    | .nil => 404
    | .found => sendResource t 200

/-! ### relationships -/

/-- Linkage of a relationship when its data is requested. -/
def requestedLinkage : RelDef → Except Err Linkage
  | .toOne _ (.error e) => .error e
  | .toOne _ (.id r) => .ok (.one r)
  | .toOne _ .nil => .ok .null
  | .toMany _ (.error e) _ _ => .error e
  | .toMany _ (.ids rs) _ _ => .ok (.many rs)
  | .toMany _ .nil _ _ => .ok (.many [])

/-- R7–R9 for locating relationship `rel` of the resource `id` through handler `h`; `k` continues
    with the relationship's definition. -/
def withRelationship (t : TypeDef) (h : Option (String → ResOut)) (id : String) (rel : String)
    (k : RelDef → Nat) : Nat :=
  match h with
  | none => 405
  | some f =>
    match f id with
    | .error e => errStatus e
    | .nil => 404
    | .found =>
      match t.rels.lookup rel with
      | none => 404
      | some d => k d

def linkageStatus (d : RelDef) : Nat :=
  match requestedLinkage d with
  | .error e => errStatus e
  | .ok _ => 200

def membersStatus (h : Option ManyOut) : Nat :=
  match h with
  | none => 405
  | some (.error e) => errStatus e
  | some _ => 200

/-- Why fetching the related resource `rid` fails (`none` = it does not: unknown types and nil
    resources are simply absent from the answer). -/
def relatedFailure (s : Schema) (rid : RId) : Option Nat :=
  match s.lookup rid.type with
  | none => none
  | some t =>
    match t.get with
    | none => some 405
    | some g =>
      match g rid.id with
      | .error e => some (errStatus e)
      | .nil => none
      | .found => (completionError t).map errStatus

/-- The related resource `rid` is part of the answer and cannot be marshalled. -/
def relatedUnmarshalable (s : Schema) (rid : RId) : Bool :=
  match s.lookup rid.type with
  | none => false
  | some t =>
    match t.get with
    | none => false
    | some g => g rid.id == .found && hasUnmarshalable t

def fetchRelatedStatus (s : Schema) (d : RelDef) : Nat :=
  match requestedLinkage d with
  | .error e => errStatus e
  | .ok .null => 200
  | .ok (.one rid) =>
    match relatedFailure s rid with
    | some n => n
    | none => if relatedUnmarshalable s rid then 500 else 200
  | .ok (.many rids) =>
    match rids.findSome? (relatedFailure s) with
    | some n => n
    | none => if rids.any (relatedUnmarshalable s) then 500 else 200

/-- R5/R6 for a body that must be a resource object addressing `id`, then `k`. -/
def resourceBody (body : Body) (id : RId) (k : Nat) : Nat :=
  match body.patchRes with
  | none => 400
  | some b => if b ≠ id then 409 else k

/-- R5–R10 for `POST /{ty}`. -/
def createStatus (td : TypeDef) (body : Body) (ty : String) : Nat :=
  match body.postRes with
  | none => 400
  | some bty =>
    if bty ≠ ty then 409
    else match td.create with
      | none => 405
      | some (.error e) => errStatus e
      | some .nil => 404
      | some (.created _) => sendResource td 201

/-- R7/R8/R10 for `DELETE /{type}/{id}`. -/
def deleteStatus (td : TypeDef) (id : String) : Nat :=
  match td.delete with
  | none => 405
  | some f =>
    match f id with
    | some e => errStatus e
    | none => 200

def addStatus : RelDef → Nat
  | .toOne _ _ => 405
  | .toMany _ _ add _ => membersStatus add

def removeStatus : RelDef → Nat
  | .toOne _ _ => 405
  | .toMany _ _ _ remove => membersStatus remove

/-- PATCH on the related-resource route updates the to-one related resource. -/
def updateRelatedStatus (s : Schema) (body : Body) (d : RelDef) : Nat :=
  match requestedLinkage d with
  | .error e => errStatus e
  | .ok (.one rid) =>
    match s.lookup rid.type with
    | none => 404
    | some rt => resourceBody body rid (viaHandler rt rt.patch rid.id)
  | .ok _ => 404

/-! ### RefStatus -/

def opStatus (s : Schema) (body : Body) (t : String → Option TypeDef) : Op → Nat
  | .unknown => 404
  | .methodNotAllowed => 405
  | .create ty => match t ty with
    | none => 404
    | some td => createStatus td body ty
  | .fetch id => match t id.type with
    | none => 404
    | some td => viaHandler td td.get id.id
  | .update id => match t id.type with
    | none => 404
    | some td => resourceBody body id (viaHandler td td.patch id.id)
  | .remove id => match t id.type with
    | none => 404
    | some td => deleteStatus td id.id
  | .fetchRelated id rel => match t id.type with
    | none => 404
    | some td => withRelationship td td.get id.id rel (fetchRelatedStatus s)
  | .updateRelated id rel => match t id.type with
    | none => 404
    | some td => withRelationship td td.get id.id rel (updateRelatedStatus s body)
  | .fetchRel id rel => match t id.type with
    | none => 404
    | some td => withRelationship td td.get id.id rel linkageStatus
  | .replaceRel id rel => match t id.type with
    | none => 404
    | some td => if !body.relData then 400 else withRelationship td td.patch id.id rel linkageStatus
  | .addRel id rel => match t id.type with
    | none => 404
    | some td => if !body.members then 400 else withRelationship td td.get id.id rel addStatus
  | .removeRel id rel => match t id.type with
    | none => 404
    | some td => if !body.members then 400 else withRelationship td td.get id.id rel removeStatus

/-- **RefStatus**: the status the property demands. -/
def refStatus (s : Schema) (r : Req) : Nat :=
  if !acceptable r.accept then 406
  else if !r.query.all supportedKey then 400
  else opStatus s r.body (fun ty => s.lookup ty) (classify (fun ty => (s.lookup ty).isSome) r.method r.path)

end ApiFu.C19.Spec
