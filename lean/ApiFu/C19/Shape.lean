/-
  C19 — the shape of every response the router builds: exactly one error and nothing else, or no
  error; where the returned resource objects come from (identity) and which links they carry.
  Core Lean only.
-/
import ApiFu.C19.Lemmas

namespace ApiFu.C19

open Spec

/-- The resource objects of primary data. -/
def Data.resourceObjects : Data → List Resource
  | .resource r => [r]
  | .resources rs => rs
  | _ => []

def Doc.resourceObjects (d : Doc) : List Resource :=
  match d.data with
  | some x => x.resourceObjects
  | none => []

/-- Every relationship of the resource object carries exactly the documented links
    `self = /{type}/{id}/relationships/{name}`, `related = /{type}/{id}/{name}`. -/
def LinksOK (res : Resource) : Prop :=
  ∀ p ∈ res.rels, p.2.links = stdLinks ⟨res.type, res.id⟩ p.1

/-- The identifiers a linkage names. -/
def Linkage.ids : Linkage → List RId
  | .null => []
  | .one r => [r]
  | .many rs => rs

/-- A router response: one error and nothing else, or no errors and status 0 (→ 200) or 201. -/
inductive Shaped : Response → Prop
  | err (e : Err) : Shaped (errResponse e)
  | ok (d : Option Data) (links : Links) (hs : List (String × String)) (st : Nat) (h : st = 0 ∨ st = 201) :
      Shaped { doc := { data := d, links := links }, headers := hs, status := st }

structure RouteFacts (P : Resource → Prop) (resp : Response) : Prop where
  shaped : Shaped resp
  res : ∀ x ∈ resp.doc.resourceObjects, LinksOK x ∧ P x

theorem facts_err (P : Resource → Prop) (e : Err) : RouteFacts P (errResponse e) :=
  ⟨.err e, by simp [errResponse, errDoc, Doc.resourceObjects]⟩

theorem facts_status (P : Resource → Prop) (n : Nat) : RouteFacts P (statusResponse n) := facts_err P _

theorem facts_resource (P : Resource → Prop) (res : Resource) (links : Links) (hs : List (String × String))
    (st : Nat) (hst : st = 0 ∨ st = 201) (hl : LinksOK res) (hp : P res) :
    RouteFacts P { doc := { data := some (.resource res), links := links }, headers := hs, status := st } :=
  ⟨.ok _ _ _ _ hst, by
    intro x hx
    simp [Doc.resourceObjects, Data.resourceObjects] at hx
    subst hx; exact ⟨hl, hp⟩⟩

theorem complete_good (t : TypeDef) (id : RId) (o : Option Resource) (h : t.complete id = .ok o) :
    ∃ res, o = some res ∧ res.type = id.type ∧ res.id = id.id ∧ LinksOK res := by
  have hc := complete_spec t id
  split at hc
  · rw [hc] at h; cases h
  · obtain ⟨res, hres, h1, h2, _, h4⟩ := hc
    rw [hres] at h
    cases h
    refine ⟨res, rfl, h1, h2, ?_⟩
    intro p hp
    have := h4 p hp
    rw [this, h1, h2]

theorem viaHandler_good (t : TypeDef) (h : Option (String → ResOut)) (id : RId) (res : Resource)
    (hv : t.viaHandler h id = .ok (some res)) : res.type = id.type ∧ res.id = id.id ∧ LinksOK res := by
  unfold TypeDef.viaHandler at hv
  split at hv
  · cases hv
  · split at hv
    · cases hv
    · cases hv
    · obtain ⟨res', h1, h2⟩ := complete_good t id _ hv
      cases h1; exact h2

theorem createRes_good (t : TypeDef) (res : Resource) (hv : t.createRes = .ok (some res)) :
    t.create = some (.created ⟨res.type, res.id⟩) ∧ LinksOK res := by
  unfold TypeDef.createRes at hv
  split at hv
  · cases hv
  · cases hv
  · cases hv
  · rename_i cid hc
    obtain ⟨res', h1, h2, h3, h4⟩ := complete_good t cid _ hv
    cases h1
    refine ⟨?_, h4⟩
    rw [hc, h2, h3]

theorem getResource_good (s : Schema) (rid : RId) (d : Data) (h : getResource s rid = .ok d) :
    ∀ x ∈ d.resourceObjects, LinksOK x ∧ (⟨x.type, x.id⟩ : RId) = rid := by
  unfold getResource at h
  split at h
  · cases h; simp [Data.resourceObjects]
  · rename_i t _
    split at h
    · cases h
    · cases h; simp [Data.resourceObjects]
    · rename_i res hres
      cases h
      have := viaHandler_good t t.get rid res hres
      intro x hx
      simp [Data.resourceObjects] at hx
      subst hx
      exact ⟨this.2.2, by rw [this.1, this.2.1]⟩

theorem getResourcesList_good (s : Schema) (ids : List RId) (l : List Resource)
    (h : getResourcesList s ids = .ok l) :
    ∀ x ∈ l, LinksOK x ∧ (⟨x.type, x.id⟩ : RId) ∈ ids := by
  induction ids generalizing l with
  | nil => simp [getResourcesList] at h; subst h; simp
  | cons rid rest ih =>
    unfold getResourcesList at h
    split at h
    · intro x hx
      have := ih l h x hx
      exact ⟨this.1, List.mem_cons_of_mem _ this.2⟩
    · rename_i t _
      split at h
      · cases h
      · intro x hx
        have := ih l h x hx
        exact ⟨this.1, List.mem_cons_of_mem _ this.2⟩
      · rename_i res hres
        cases hl : getResourcesList s rest with
        | error e => simp [hl, Except.map] at h
        | ok l' =>
          simp [hl, Except.map] at h
          subst h
          have hg := viaHandler_good t t.get rid res hres
          intro x hx
          rcases List.mem_cons.mp hx with rfl | hx
          · exact ⟨hg.2.2, by rw [hg.1, hg.2.1]; simp⟩
          · have := ih l' hl x hx
            exact ⟨this.1, List.mem_cons_of_mem _ this.2⟩

theorem getResources_good (s : Schema) (ids : List RId) (d : Data) (h : getResources s ids = .ok d) :
    ∀ x ∈ d.resourceObjects, LinksOK x ∧ (⟨x.type, x.id⟩ : RId) ∈ ids := by
  unfold getResources at h
  split at h
  · cases h
  · cases h; simp [Data.resourceObjects]
  · rename_i r rs hl
    cases h
    exact getResourcesList_good s ids _ hl

/-! ### the routes -/

theorem patch_facts (r : Req) (t : TypeDef) (id : RId) (resp : Response)
    (h : (handlePatchResourceRequest r t id).map (fun d => ({ doc := d } : Response)) = some resp) :
    RouteFacts (fun x => (⟨x.type, x.id⟩ : RId) = id) resp := by
  unfold handlePatchResourceRequest at h
  split at h
  · simp at h; subst h; exact facts_err _ _
  · split at h
    · simp at h; subst h; exact facts_err _ _
    · split at h
      · simp at h; subst h; exact facts_err _ _
      · rename_i res hres
        simp at h; subst h
        have := viaHandler_good t t.patch id res hres
        exact facts_resource _ res _ [] 0 (Or.inl rfl) this.2.2 (by rw [this.1, this.2.1])
      · simp at h

theorem createRoute_facts (r : Req) (ty : String) (t : TypeDef) (resp : Response)
    (h : createRoute r ty t = some resp) :
    RouteFacts (fun x => t.create = some (.created ⟨x.type, x.id⟩)) resp := by
  unfold createRoute at h
  split at h
  · cases h; exact facts_status _ _
  · split at h
    · cases h; exact facts_status _ _
    · split at h
      · cases h; exact facts_err _ _
      · cases h
      · rename_i res hres
        cases h
        have := createRes_good t res hres
        exact facts_resource _ res _ _ 201 (Or.inr rfl) this.2 this.1

theorem resourceRoute_facts (r : Req) (t : TypeDef) (id : RId) (resp : Response)
    (h : resourceRoute r t id = some resp) :
    RouteFacts (fun x => (⟨x.type, x.id⟩ : RId) = id) resp := by
  unfold resourceRoute at h
  split at h
  · split at h
    · cases h; exact facts_err _ _
    · rename_i res hres
      cases h
      have := viaHandler_good t t.get id res hres
      exact facts_resource _ res _ [] 0 (Or.inl rfl) this.2.2 (by rw [this.1, this.2.1])
    · cases h
  · split at h
    · exact patch_facts r t id resp h
    · split at h
      · split at h
        · cases h; exact facts_err _ _
        · cases h
          exact ⟨.ok none [] [] 0 (Or.inl rfl), by simp [Doc.resourceObjects]⟩
      · cases h; exact facts_status _ _

/-- Where the resource objects of a related-resource answer come from. -/
def FromRelationship (t : TypeDef) (name : String) (x : Resource) : Prop :=
  ∃ d l, t.rels.lookup name = some d ∧ requestedLinkage d = .ok l ∧ (⟨x.type, x.id⟩ : RId) ∈ l.ids

theorem getRelationship_some (t : TypeDef) (id : RId) (name : String) (rel : Relationship)
    (h : t.getRelationship id name = .ok (some rel)) :
    ∃ d l, t.rels.lookup name = some d ∧ requestedLinkage d = .ok l ∧
      rel = { links := stdLinks id name, data := some l } := by
  unfold TypeDef.getRelationship at h
  split at h
  · cases h
  · split at h
    · cases h
    · cases h
    · rw [completeRelationship_cases] at h
      split at h
      · cases h
      · rename_i d hd
        split at h
        · cases h
        · rename_i l hl
          cases h
          exact ⟨d, l, hd, hl, rfl⟩

theorem relatedRoute_facts (s : Schema) (r : Req) (t : TypeDef) (id : RId) (name : String) (resp : Response)
    (h : relatedRoute s r t id name = some resp) :
    RouteFacts (FromRelationship t name) resp := by
  unfold relatedRoute at h
  split at h
  · split at h
    · cases h; exact facts_err _ _
    · cases h
    · rename_i rel hrel
      obtain ⟨d, l, hd, hl, rfl⟩ := getRelationship_some t id name rel hrel
      simp only at h
      cases l with
      | null =>
        simp at h; subst h
        exact ⟨.ok _ _ [] 0 (Or.inl rfl), by simp [Doc.resourceObjects, Data.resourceObjects]⟩
      | one rid =>
        simp only at h
        cases hg : getResource s rid with
        | error e => simp [hg] at h; subst h; exact facts_err _ _
        | ok dat =>
          simp [hg] at h; subst h
          refine ⟨.ok _ _ [] 0 (Or.inl rfl), ?_⟩
          intro x hx
          have := getResource_good s rid dat hg x (by simpa [Doc.resourceObjects] using hx)
          exact ⟨this.1, d, _, hd, hl, by simp [Linkage.ids, this.2]⟩
      | many rids =>
        simp only at h
        cases hg : getResources s rids with
        | error e => simp [hg] at h; subst h; exact facts_err _ _
        | ok dat =>
          simp [hg] at h; subst h
          refine ⟨.ok _ _ [] 0 (Or.inl rfl), ?_⟩
          intro x hx
          have := getResources_good s rids dat hg x (by simpa [Doc.resourceObjects] using hx)
          exact ⟨this.1, d, _, hd, hl, by simpa [Linkage.ids] using this.2⟩
  · split at h
    · split at h
      · cases h; exact facts_err _ _
      · cases h
      · rename_i rel hrel
        obtain ⟨d, l, hd, hl, rfl⟩ := getRelationship_some t id name rel hrel
        simp only at h
        split at h
        · rename_i rid heq
          have hl' : l = .one rid := by simpa using heq
          subst hl'
          split at h
          · cases h
          · rename_i rt _
            have := patch_facts r rt rid resp h
            refine ⟨this.shaped, ?_⟩
            intro x hx
            have hx' := this.res x hx
            exact ⟨hx'.1, d, _, hd, hl, by simp [Linkage.ids, hx'.2]⟩
        · cases h
    · cases h; exact facts_status _ _

/-- A relationship route answers with an error, or with linkage (no resource objects) and exactly
    the standard links. -/
structure RelationshipFacts (id : RId) (name : String) (resp : Response) : Prop where
  shaped : Shaped resp
  noResources : resp.doc.resourceObjects = []
  links : resp.doc.errors = [] → resp.doc.links = stdLinks id name

theorem relFacts_err (id : RId) (name : String) (e : Err) : RelationshipFacts id name (errResponse e) :=
  ⟨.err e, by simp [errResponse, errDoc, Doc.resourceObjects], by simp [errResponse, errDoc]⟩

theorem relationshipAnswer_facts (id : RId) (name : String) (x : Except Err (Option Relationship))
    (hx : ∀ rel, x = .ok (some rel) → rel.links = stdLinks id name) (resp : Response)
    (h : relationshipAnswer x = some resp) : RelationshipFacts id name resp := by
  unfold relationshipAnswer at h
  split at h
  · cases h; exact relFacts_err _ _ _
  · cases h
  · rename_i rel
    cases h
    refine ⟨.ok _ _ [] 0 (Or.inl rfl), ?_, fun _ => hx rel rfl⟩
    cases rel.data <;> simp [Doc.resourceObjects, Data.resourceObjects]

theorem located_links (t : TypeDef) (h : Option (String → ResOut)) (id : RId) (name : String) (rel : Relationship)
    (hx : (match h with
         | none => (.error (errorForHTTPStatus 405) : Except Err (Option Relationship))
         | some g =>
           match g id.id with
           | .error e => .error e
           | .nil => .ok none
           | .found => t.completeRelationship id name) = .ok (some rel)) :
    rel.links = stdLinks id name := by
  split at hx
  · cases hx
  · split at hx
    · cases hx
    · cases hx
    · rw [completeRelationship_cases] at hx
      split at hx
      · cases hx
      · split at hx
        · cases hx
        · cases hx; rfl

theorem resolver_links_nil (op : RelDef → Except Err Relationship)
    (hop : op = addRelationshipMembers ∨ op = removeRelationshipMembers) (d : RelDef) (rel : Relationship)
    (h : op d = .ok rel) : rel.links = [] := by
  have hm : ∀ o rel, membersResult o = .ok rel → rel.links = [] := by
    intro o rel h
    unfold membersResult at h
    split at h <;> cases h <;> rfl
  rcases hop with rfl | rfl
  · cases d with
    | toOne b o => simp [addRelationshipMembers] at h
    | toMany b o a r => exact hm a rel h
  · cases d with
    | toOne b o => simp [removeRelationshipMembers] at h
    | toMany b o a r => exact hm r rel h

theorem changeMembers_links (t : TypeDef) (op : RelDef → Except Err Relationship)
    (hop : op = addRelationshipMembers ∨ op = removeRelationshipMembers)
    (id : RId) (name : String) (rel : Relationship)
    (h : t.changeMembers op id name = .ok (some rel)) : rel.links = stdLinks id name := by
  unfold TypeDef.changeMembers at h
  split at h
  · cases h
  · split at h
    · cases h
    · cases h
    · split at h
      · cases h
      · rename_i d _
        split at h
        · cases h
        · rename_i rel' hrel
          cases h
          have := resolver_links_nil op hop d rel' hrel
          simp [addStandardRelationshipLinks, stdLinks, this]

theorem relationshipRoute_facts (r : Req) (t : TypeDef) (id : RId) (name : String) (resp : Response)
    (h : relationshipRoute r t id name = some resp) : RelationshipFacts id name resp := by
  unfold relationshipRoute at h
  split at h
  · exact relationshipAnswer_facts id name _ (fun rel hrel => located_links t t.get id name rel hrel) resp h
  · split at h
    · split at h
      · cases h; exact relFacts_err _ _ _
      · exact relationshipAnswer_facts id name _ (fun rel hrel => located_links t t.patch id name rel hrel) resp h
    · split at h
      · split at h
        · cases h; exact relFacts_err _ _ _
        · exact relationshipAnswer_facts id name _ (fun rel hrel => changeMembers_links t _ (Or.inl rfl) id name rel hrel) resp h
      · split at h
        · split at h
          · cases h; exact relFacts_err _ _ _
          · exact relationshipAnswer_facts id name _ (fun rel hrel => changeMembers_links t _ (Or.inr rfl) id name rel hrel) resp h
        · cases h; exact relFacts_err _ _ _

/-! ### the router as a whole -/

/-- Which route produced a router answer. -/
theorem route_cases (s : Schema) (r : Req) (resp : Response) (h : route s r = some resp) :
    (∃ ty t, r.path = [ty] ∧ s.lookup ty = some t ∧ createRoute r ty t = some resp) ∨
    (∃ ty id t, r.path = [ty, id] ∧ s.lookup ty = some t ∧ resourceRoute r t ⟨ty, id⟩ = some resp) ∨
    (∃ ty id name t, r.path = [ty, id, name] ∧ s.lookup ty = some t ∧
        relatedRoute s r t ⟨ty, id⟩ name = some resp) ∨
    (∃ ty id name t, r.path = [ty, id, "relationships", name] ∧ s.lookup ty = some t ∧
        relationshipRoute r t ⟨ty, id⟩ name = some resp) := by
  unfold route at h
  split at h
  · cases h
  · rename_i ty rest hp
    split at h
    · cases h
    · rename_i t ht
      split at h
      · split at h
        · exact Or.inl ⟨ty, t, hp, ht, h⟩
        · cases h
      · rename_i id rest2
        simp only at h
        split at h
        · exact Or.inr (Or.inl ⟨ty, id, t, hp, ht, h⟩)
        · rename_i name
          exact Or.inr (Or.inr (Or.inl ⟨ty, id, name, t, hp, ht, h⟩))
        · rename_i c2 name
          split at h
          · rename_i hc
            have : c2 = "relationships" := by simpa using hc
            subst this
            exact Or.inr (Or.inr (Or.inr ⟨ty, id, name, t, hp, ht, h⟩))
          · cases h
        · cases h

theorem route_shaped (s : Schema) (r : Req) (resp : Response) (h : route s r = some resp) : Shaped resp := by
  rcases route_cases s r resp h with ⟨ty, t, _, _, h⟩ | ⟨ty, id, t, _, _, h⟩ | ⟨ty, id, name, t, _, _, h⟩ | ⟨ty, id, name, t, _, _, h⟩
  · exact (createRoute_facts r ty t resp h).shaped
  · exact (resourceRoute_facts r t _ resp h).shaped
  · exact (relatedRoute_facts s r t _ name resp h).shaped
  · exact (relationshipRoute_facts r t _ name resp h).shaped

theorem route_links (s : Schema) (r : Req) (resp : Response) (h : route s r = some resp) :
    ∀ x ∈ resp.doc.resourceObjects, LinksOK x := by
  rcases route_cases s r resp h with ⟨ty, t, _, _, h⟩ | ⟨ty, id, t, _, _, h⟩ | ⟨ty, id, name, t, _, _, h⟩ | ⟨ty, id, name, t, _, _, h⟩
  · exact fun x hx => ((createRoute_facts r ty t resp h).res x hx).1
  · exact fun x hx => ((resourceRoute_facts r t _ resp h).res x hx).1
  · exact fun x hx => ((relatedRoute_facts s r t _ name resp h).res x hx).1
  · intro x hx
    rw [(relationshipRoute_facts r t _ name resp h).noResources] at hx
    cases hx

/-- `executeRequest` answers with a negotiation/parameter/not-found error or with a route's answer. -/
theorem executeRequest_cases (s : Schema) (r : Req) :
    (∃ n, executeRequest s r = statusResponse n) ∨ route s r = some (executeRequest s r) := by
  unfold executeRequest
  split
  · exact Or.inl ⟨406, rfl⟩
  · split
    · exact Or.inl ⟨400, rfl⟩
    · cases h : route s r with
      | none => exact Or.inl ⟨404, rfl⟩
      | some resp => right; rfl

theorem executeRequest_shaped (s : Schema) (r : Req) : Shaped (executeRequest s r) := by
  rcases executeRequest_cases s r with ⟨n, h⟩ | h
  · rw [h]; exact .err _
  · exact route_shaped s r _ h

/-- What was written is the router's document plus the `jsonapi` member, or the marshal fallback. -/
theorem written_cases (s : Schema) (r : Req) (st : Nat) (ct : String) (hs : List (String × String)) (body : Doc)
    (h : serveHTTP s r = .wrote st ct hs body) :
    ct = contentType ∧
    ((body = { (executeRequest s r).doc with jsonapi := some jsonApiVersion } ∧
        hs = (executeRequest s r).headers ∧ st = (executeRequest s r).rawStatus ∧
        (executeRequest s r).doc.marshalable = true) ∨
     (body = { errors := [errorForHTTPStatus 500], jsonapi := some jsonApiVersion } ∧ hs = [] ∧ st = 500 ∧
        (executeRequest s r).doc.marshalable = false)) := by
  rw [serveHTTP_eq] at h
  split at h
  · rename_i hm
    split at h
    · cases h
    · cases h
      exact ⟨rfl, Or.inl ⟨rfl, rfl, rfl, hm⟩⟩
  · rename_i hm
    cases h
    exact ⟨rfl, Or.inr ⟨rfl, rfl, rfl, by simpa using hm⟩⟩

end ApiFu.C19
