/-
  C19 — where the member names of an emitted document come from.

  `newSchemaOK` transliterates the name checks of `NewSchema` (schema.go:13-24: every resource type
  name is a member name; resource.go:259-282 `validate`: attribute and relationship names are member
  names, are not `id` / `type`, an attribute does not share its name with a relationship). The
  remaining checks of `validate` (a resolver is present) have no counterpart in the abstract schema,
  where every attribute / relationship has an outcome.

  The lemmas follow every route of the router and show that each resource object of the answer was
  built by `complete` from a type definition of the schema, with exactly that definition's attribute
  and relationship names in the definition's order, and that the top-level links object only has the
  members `self` / `related`. Core Lean only.
-/
import ApiFu.C19.Shape
import ApiFu.C19.MemberNames

namespace ApiFu.C19.MemberNames

open ApiFu.C19 ApiFu.C19.Spec

/-! ## NewSchema's name validation -/

/-- resource.go:259 `ResourceType.validate`, the name checks (`true` = nil error). -/
def typeNamesOK (t : TypeDef) : Bool :=
  t.attrs.all (fun a => a.1 != "id" && a.1 != "type" && !(t.rels.any (fun r => r.1 == a.1)) &&
    validateMemberName a.1.toList) &&
  t.rels.all (fun r => r.1 != "id" && r.1 != "type" && validateMemberName r.1.toList)

/-- schema.go:13 `NewSchema` (`true` = the schema is accepted). -/
def newSchemaOK (s : Schema) : Bool :=
  s.all (fun p => validateMemberName p.1.toList && typeNamesOK p.2)

/-! ## Provenance of resource objects -/

/-- The resource object has exactly the attribute and relationship names of the definition. -/
def NamesFrom (t : TypeDef) (x : Resource) : Prop :=
  x.attrs.map (·.1) = t.attrs.map (·.1) ∧ x.rels.map (·.1) = t.rels.map (·.1)

/-- The definition is registered in the schema. -/
def InSchema (s : Schema) (t : TypeDef) : Prop := ∃ ty, s.lookup ty = some t

def LinkNamesOK (links : Links) : Prop := ∀ l ∈ links, l.1 = "self" ∨ l.1 = "related"

structure NameFacts (s : Schema) (resp : Response) : Prop where
  res : ∀ x ∈ resp.doc.resourceObjects, ∃ t, InSchema s t ∧ NamesFrom t x
  links : LinkNamesOK resp.doc.links

theorem completeAttrs_names (as : List (String × AttrOut)) (l : List (String × Bool))
    (h : completeAttrs as = .ok l) : l.map (·.1) = as.map (·.1) := by
  induction as generalizing l with
  | nil => simp [completeAttrs] at h; subst h; rfl
  | cons a rest ih =>
    obtain ⟨name, out⟩ := a
    cases out with
    | error e => simp [completeAttrs] at h
    | value =>
      cases hr : completeAttrs rest with
      | error e => simp [completeAttrs, hr, Except.map] at h
      | ok l' =>
        simp [completeAttrs, hr, Except.map] at h
        subst h
        simp [ih l' hr]
    | unmarshalable =>
      cases hr : completeAttrs rest with
      | error e => simp [completeAttrs, hr, Except.map] at h
      | ok l' =>
        simp [completeAttrs, hr, Except.map] at h
        subst h
        simp [ih l' hr]

theorem completeRels_names (id : RId) (rs : List (String × RelDef)) (l : List (String × Relationship))
    (h : completeRels id rs = .ok l) : l.map (·.1) = rs.map (·.1) := by
  induction rs generalizing l with
  | nil => simp [completeRels] at h; subst h; rfl
  | cons a rest ih =>
    obtain ⟨name, d⟩ := a
    cases hd : resolveRelationship d false with
    | error e => simp [completeRels, hd] at h
    | ok rel =>
      cases hr : completeRels id rest with
      | error e => simp [completeRels, hd, hr, Except.map] at h
      | ok l' =>
        simp [completeRels, hd, hr, Except.map] at h
        subst h
        simp [ih l' hr]

theorem complete_names (t : TypeDef) (id : RId) (res : Resource) (h : t.complete id = .ok (some res)) :
    NamesFrom t res := by
  unfold TypeDef.complete at h
  split at h
  · cases h
  · rename_i as has
    split at h
    · cases h
    · rename_i rs hrs
      cases h
      exact ⟨completeAttrs_names _ _ has, completeRels_names _ _ _ hrs⟩

theorem viaHandler_names (t : TypeDef) (h : Option (String → ResOut)) (id : RId) (res : Resource)
    (hv : t.viaHandler h id = .ok (some res)) : NamesFrom t res := by
  unfold TypeDef.viaHandler at hv
  split at hv
  · cases hv
  · split at hv
    · cases hv
    · cases hv
    · exact complete_names t id res hv

theorem createRes_names (t : TypeDef) (res : Resource) (hv : t.createRes = .ok (some res)) :
    NamesFrom t res := by
  unfold TypeDef.createRes at hv
  split at hv
  · cases hv
  · cases hv
  · cases hv
  · exact complete_names t _ res hv

theorem getResource_names (s : Schema) (rid : RId) (d : Data) (h : getResource s rid = .ok d) :
    ∀ x ∈ d.resourceObjects, ∃ t, InSchema s t ∧ NamesFrom t x := by
  unfold getResource at h
  split at h
  · cases h; simp [Data.resourceObjects]
  · rename_i t ht
    split at h
    · cases h
    · cases h; simp [Data.resourceObjects]
    · rename_i res hres
      cases h
      intro x hx
      simp [Data.resourceObjects] at hx
      subst hx
      exact ⟨t, ⟨_, ht⟩, viaHandler_names t t.get rid _ hres⟩

theorem getResourcesList_names (s : Schema) (ids : List RId) (l : List Resource)
    (h : getResourcesList s ids = .ok l) : ∀ x ∈ l, ∃ t, InSchema s t ∧ NamesFrom t x := by
  induction ids generalizing l with
  | nil => simp [getResourcesList] at h; subst h; simp
  | cons rid rest ih =>
    unfold getResourcesList at h
    split at h
    · exact ih l h
    · rename_i t ht
      split at h
      · cases h
      · exact ih l h
      · rename_i res hres
        cases hl : getResourcesList s rest with
        | error e => simp [hl, Except.map] at h
        | ok l' =>
          simp [hl, Except.map] at h
          subst h
          intro x hx
          rcases List.mem_cons.mp hx with rfl | hx
          · exact ⟨t, ⟨_, ht⟩, viaHandler_names t t.get rid _ hres⟩
          · exact ih l' hl x hx

theorem getResources_names (s : Schema) (ids : List RId) (d : Data) (h : getResources s ids = .ok d) :
    ∀ x ∈ d.resourceObjects, ∃ t, InSchema s t ∧ NamesFrom t x := by
  unfold getResources at h
  split at h
  · cases h
  · cases h; simp [Data.resourceObjects]
  · rename_i r rs hl
    cases h
    exact getResourcesList_names s ids _ hl

/-! ## The routes -/

theorem names_err (s : Schema) (e : Err) : NameFacts s (errResponse e) :=
  ⟨by simp [errResponse, errDoc, Doc.resourceObjects], by simp [errResponse, errDoc, LinkNamesOK]⟩

theorem names_status (s : Schema) (n : Nat) : NameFacts s (statusResponse n) := names_err s _

theorem names_resource (s : Schema) (res : Resource) (links : Links) (hs : List (String × String)) (st : Nat)
    (hl : LinkNamesOK links) (hp : ∃ t, InSchema s t ∧ NamesFrom t res) :
    NameFacts s { doc := { data := some (.resource res), links := links }, headers := hs, status := st } :=
  ⟨by
    intro x hx
    simp [Doc.resourceObjects, Data.resourceObjects] at hx
    subst hx; exact hp, hl⟩

theorem self_link_ok (u : String) : LinkNamesOK [("self", u)] := by
  intro l hl
  simp at hl
  subst hl; exact Or.inl rfl

theorem stdLinks_ok (id : RId) (name : String) : LinkNamesOK (stdLinks id name) := by
  intro l hl
  simp [stdLinks] at hl
  rcases hl with rfl | rfl
  · exact Or.inl rfl
  · exact Or.inr rfl

theorem patch_names (s : Schema) (r : Req) (t : TypeDef) (ht : InSchema s t) (id : RId) (resp : Response)
    (h : (handlePatchResourceRequest r t id).map (fun d => ({ doc := d } : Response)) = some resp) :
    NameFacts s resp := by
  unfold handlePatchResourceRequest at h
  split at h
  · simp at h; subst h; exact names_err _ _
  · split at h
    · simp at h; subst h; exact names_err _ _
    · split at h
      · simp at h; subst h; exact names_err _ _
      · rename_i res hres
        simp at h; subst h
        exact names_resource s res _ [] 0 (self_link_ok _) ⟨t, ht, viaHandler_names t t.patch id res hres⟩
      · simp at h

theorem createRoute_names (s : Schema) (r : Req) (ty : String) (t : TypeDef) (ht : InSchema s t) (resp : Response)
    (h : createRoute r ty t = some resp) : NameFacts s resp := by
  unfold createRoute at h
  split at h
  · cases h; exact names_status _ _
  · split at h
    · cases h; exact names_status _ _
    · split at h
      · cases h; exact names_err _ _
      · cases h
      · rename_i res hres
        cases h
        exact names_resource s res _ _ 201 (self_link_ok _) ⟨t, ht, createRes_names t res hres⟩

theorem resourceRoute_names (s : Schema) (r : Req) (t : TypeDef) (ht : InSchema s t) (id : RId) (resp : Response)
    (h : resourceRoute r t id = some resp) : NameFacts s resp := by
  unfold resourceRoute at h
  split at h
  · split at h
    · cases h; exact names_err _ _
    · rename_i res hres
      cases h
      exact names_resource s res _ [] 0 (self_link_ok _) ⟨t, ht, viaHandler_names t t.get id res hres⟩
    · cases h
  · split at h
    · exact patch_names s r t ht id resp h
    · split at h
      · split at h
        · cases h; exact names_err _ _
        · cases h
          exact ⟨by simp [Doc.resourceObjects], by simp [LinkNamesOK]⟩
      · cases h; exact names_status _ _

theorem relatedRoute_names (s : Schema) (r : Req) (t : TypeDef) (id : RId) (name : String) (resp : Response)
    (h : relatedRoute s r t id name = some resp) : NameFacts s resp := by
  unfold relatedRoute at h
  split at h
  · split at h
    · cases h; exact names_err _ _
    · cases h
    · rename_i rel hrel
      obtain ⟨d, l, hd, hl, rfl⟩ := getRelationship_some t id name rel hrel
      simp only at h
      cases l with
      | null =>
        simp at h; subst h
        exact ⟨by simp [Doc.resourceObjects, Data.resourceObjects], self_link_ok _⟩
      | one rid =>
        simp only at h
        cases hg : getResource s rid with
        | error e => simp [hg] at h; subst h; exact names_err _ _
        | ok dat =>
          simp [hg] at h; subst h
          refine ⟨?_, self_link_ok _⟩
          intro x hx
          exact getResource_names s rid dat hg x (by simpa [Doc.resourceObjects] using hx)
      | many rids =>
        simp only at h
        cases hg : getResources s rids with
        | error e => simp [hg] at h; subst h; exact names_err _ _
        | ok dat =>
          simp [hg] at h; subst h
          refine ⟨?_, self_link_ok _⟩
          intro x hx
          exact getResources_names s rids dat hg x (by simpa [Doc.resourceObjects] using hx)
  · split at h
    · split at h
      · cases h; exact names_err _ _
      · cases h
      · rename_i rel hrel
        obtain ⟨d, l, hd, hl, rfl⟩ := getRelationship_some t id name rel hrel
        simp only at h
        split at h
        · rename_i rid heq
          split at h
          · cases h
          · rename_i rt hrt
            exact patch_names s r rt ⟨_, hrt⟩ rid resp h
        · cases h
    · cases h; exact names_status _ _

theorem relationshipRoute_names (s : Schema) (r : Req) (t : TypeDef) (id : RId) (name : String) (resp : Response)
    (h : relationshipRoute r t id name = some resp) : NameFacts s resp := by
  have hf := relationshipRoute_facts r t id name resp h
  refine ⟨by rw [hf.noResources]; simp, ?_⟩
  cases hf.shaped with
  | err e => simp [errResponse, errDoc, LinkNamesOK]
  | ok d links hs st hst =>
    have := hf.links rfl
    simp only at this
    simp only [this]
    exact stdLinks_ok id name

theorem route_names (s : Schema) (r : Req) (resp : Response) (h : route s r = some resp) : NameFacts s resp := by
  rcases route_cases s r resp h with ⟨ty, t, _, ht, h⟩ | ⟨ty, id, t, _, ht, h⟩ | ⟨ty, id, name, t, _, _, h⟩ | ⟨ty, id, name, t, _, _, h⟩
  · exact createRoute_names s r ty t ⟨_, ht⟩ resp h
  · exact resourceRoute_names s r t ⟨_, ht⟩ _ resp h
  · exact relatedRoute_names s r t _ name resp h
  · exact relationshipRoute_names s r t _ name resp h

theorem executeRequest_names (s : Schema) (r : Req) : NameFacts s (executeRequest s r) := by
  rcases executeRequest_cases s r with ⟨n, h⟩ | h
  · rw [h]; exact names_status _ _
  · exact route_names s r _ h

/-! ## From provenance to valid names -/

theorem lookup_mem' {β : Type} (l : List (String × β)) (k : String) (v : β) (h : l.lookup k = some v) :
    (k, v) ∈ l := by
  induction l with
  | nil => simp [List.lookup] at h
  | cons a rest ih =>
    obtain ⟨k', v'⟩ := a
    simp only [List.lookup] at h
    split at h
    · rename_i heq
      have : k = k' := by simpa using heq
      cases h; subst this; simp
    · exact List.mem_cons_of_mem _ (ih h)

theorem inSchema_namesOK {s : Schema} (hs : newSchemaOK s = true) {t : TypeDef} (ht : InSchema s t) :
    typeNamesOK t = true := by
  obtain ⟨ty, hty⟩ := ht
  have hm := lookup_mem' s ty t hty
  have := List.all_eq_true.mp hs _ hm
  simp only [Bool.and_eq_true] at this
  exact this.2

theorem attr_name_ok {t : TypeDef} (ht : typeNamesOK t = true) {n : String} (hn : n ∈ t.attrs.map (·.1)) :
    validateMemberName n.toList = true ∧ n ≠ "id" ∧ n ≠ "type" ∧ n ∉ t.rels.map (·.1) := by
  obtain ⟨a, ha, rfl⟩ := List.mem_map.mp hn
  simp only [typeNamesOK, Bool.and_eq_true] at ht
  have := List.all_eq_true.mp ht.1 a ha
  simp only [Bool.and_eq_true, bne_iff_ne, ne_eq, Bool.not_eq_true', List.any_eq_false, beq_iff_eq] at this
  refine ⟨this.2, this.1.1.1, this.1.1.2, ?_⟩
  intro hmem
  obtain ⟨r, hr, hra⟩ := List.mem_map.mp hmem
  exact this.1.2 r hr hra

theorem rel_name_ok {t : TypeDef} (ht : typeNamesOK t = true) {n : String} (hn : n ∈ t.rels.map (·.1)) :
    validateMemberName n.toList = true ∧ n ≠ "id" ∧ n ≠ "type" := by
  obtain ⟨a, ha, rfl⟩ := List.mem_map.mp hn
  simp only [typeNamesOK, Bool.and_eq_true] at ht
  have := List.all_eq_true.mp ht.2 a ha
  simp only [Bool.and_eq_true, bne_iff_ne, ne_eq] at this
  exact ⟨this.2, this.1.1, this.1.2⟩

end ApiFu.C19.MemberNames
