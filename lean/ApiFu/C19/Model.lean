/-
  C19 — executable model of the JSON:API handler (jsonapi/handler.go, resource.go, resolvers.go,
  jsonapi.go) *as written, after the two `fix:` patches of repo-patches/C19*:

    * `serveHTTP`        = `API.ServeHTTP`            handler.go:15-57  (status derivation, content
                                                       type, marshal fallback — fixed: the fallback
                                                       body is a document, patch 01)
    * `executeRequest`   = `API.executeRequest`       handler.go:132-457 (Accept negotiation, query
                                                       parameter check, routing by depth and method)
    * `handlePatch…`     = `handlePatchResourceRequest` handler.go:87-124
    * `TypeDef.getRes / patchRes / createRes / deleteRes / getRelationship / patchRelationship /
       addMembers / removeMembers / complete / completeRelationship`
                         = the methods of `ResourceType[T]`, resource.go:74-254 (fixed: a missing
                           `Get` gives 405 on the relationship routes, patch 02)
    * `resolveRelationship / addRelationshipMembers / removeRelationshipMembers`
                         = `ToOneRelationshipResolver`, `ToManyRelationshipResolver`, resolvers.go:57-131
    * `validateMemberName` = jsonapi.go:14-34

  What is a parameter (abstracted by the harness, not modelled): `mime.ParseMediaType` (each Accept
  header line arrives as media type, parameter names, error flag), `url.URL.Query()` (the list of
  keys arrives as runes), `strings.Split` of the path (the components arrive as strings),
  json-iterator decoding of the body into the four request structs (only the outcome arrives: error
  or the decoded `data.type` / `data.id`), the application's resolvers (their outcomes — value, nil,
  error with/without status, unmarshalable attribute value — are the *abstract resource schema*).
  Go map iteration order (`complete` ranges over maps) is the order of the lists here; the theorems
  hold for every order.
-/
namespace ApiFu.C19

/-! ## Errors -/

/-- `types.Error.Status` as `ServeHTTP` reads it: `""`, the decimal text of a number, or text that
    `strconv.ParseInt` rejects (its result 0 is then used). -/
inductive ErrStatus where
  | empty
  | num (n : Nat)
  | junk
  deriving Repr, DecidableEq

structure Err where
  status : ErrStatus
  deriving Repr, DecidableEq

/-- handler.go:59 `errorForHTTPStatus`. -/
def errorForHTTPStatus (n : Nat) : Err := ⟨.num n⟩

/-! ## The abstract resource schema (resolver outcomes) -/

structure RId where
  type : String
  id : String
  deriving Repr, DecidableEq

/-- Outcome of `Get(ctx, id)` / `Patch(ctx, id, …)`: a resource value, a nil value, an error. -/
inductive ResOut where
  | found
  | nil
  | error (e : Err)
  deriving Repr, DecidableEq

/-- Outcome of an attribute resolver: a JSON-serialisable value, a value json-iterator cannot
    marshal (NaN, ±Inf, channel …), or an error. -/
inductive AttrOut where
  | value
  | unmarshalable
  | error (e : Err)
  deriving Repr, DecidableEq

/-- Outcome of `ToOneRelationshipResolver.Resolve`. -/
inductive OneOut where
  | id (r : RId)
  | nil
  | error (e : Err)
  deriving Repr, DecidableEq

/-- Outcome of `ToManyRelationshipResolver.Resolve` / `AddMembers` / `RemoveMembers`
    (`nil` = a nil slice). -/
inductive ManyOut where
  | ids (rs : List RId)
  | nil
  | error (e : Err)
  deriving Repr, DecidableEq

inductive RelDef where
  | toOne (byDefault : Bool) (resolve : OneOut)
  | toMany (byDefault : Bool) (resolve : ManyOut) (add : Option ManyOut) (remove : Option ManyOut)
  deriving Repr, DecidableEq

/-- Outcome of `Create`. -/
inductive CreateOut where
  | created (id : RId)
  | nil
  | error (e : Err)
  deriving Repr, DecidableEq

/-- `ResourceType[T]`: handlers are optional (`none` = the Go field is nil). -/
structure TypeDef where
  attrs : List (String × AttrOut)
  rels : List (String × RelDef)
  get : Option (String → ResOut)
  patch : Option (String → ResOut)
  create : Option CreateOut
  delete : Option (String → Option Err)

/-- `Schema.resourceTypes` (a Go map; names are unique, lookup = first match). -/
abbrev Schema := List (String × TypeDef)

/-! ## Documents -/

abbrev Links := List (String × String)

/-- `*any` of `Relationship.Data` / the relationship routes' `Document.Data` once non-nil:
    JSON `null` (nil interface or nil slice), one identifier, a list. -/
inductive Linkage where
  | null
  | one (r : RId)
  | many (rs : List RId)
  deriving Repr, DecidableEq

structure Relationship where
  links : Links := []
  data : Option Linkage := none
  deriving Repr, DecidableEq

/-- `types.Resource`; an attribute is (name, value is marshalable). -/
structure Resource where
  type : String
  id : String
  attrs : List (String × Bool)
  rels : List (String × Relationship)
  deriving Repr, DecidableEq

/-- What `Document.Data` points to. -/
inductive Data where
  | null                              -- typed-nil `*Resource`, nil `[]Resource`
  | resource (r : Resource)
  | resources (rs : List Resource)    -- non-empty `[]Resource`
  | linkage (l : Linkage)
  deriving Repr, DecidableEq

/-- `types.ResponseDocument` (Meta is never set by the handler). -/
structure Doc where
  data : Option Data := none
  errors : List Err := []
  links : Links := []
  jsonapi : Option String := none
  deriving Repr, DecidableEq

/-- handler.go:126 `response`. -/
structure Response where
  doc : Doc
  headers : List (String × String) := []
  status : Nat := 0
  deriving Repr, DecidableEq

/-- What reaches the `http.ResponseWriter`. `panic` = `WriteHeader` with a code outside 100..999. -/
inductive Written where
  | panic
  | wrote (status : Nat) (contentType : String) (headers : List (String × String)) (body : Doc)
  deriving Repr, DecidableEq

/-! ## The abstract request -/

/-- One `Accept` header line after `mime.ParseMediaType`. On `ErrInvalidMediaParameter` Go returns
    the media type *and* the error, hence both fields. -/
structure AcceptInst where
  media : String
  params : List String
  err : Bool
  deriving Repr, DecidableEq

/-- Outcome of decoding the body into each of the request structs the routes use. -/
structure Body where
  patchRes : Option RId       -- `PatchResourceRequest`: `none` = decode error, else data.type/data.id
  postRes : Option String     -- `PostResourceRequest`: data.type
  relData : Bool              -- `RelationshipData` decodes
  members : Bool              -- `PostRelationshipRequest` / `DeleteRelationshipRequest` decodes
  deriving Repr, DecidableEq

structure Req where
  method : String
  leadingSlash : Bool                 -- `r.URL.Path` starts with "/"
  path : List String                  -- strings.Split(strings.TrimPrefix(r.URL.Path, "/"), "/")
  accept : List AcceptInst            -- r.Header.Values("Accept")
  query : List (List Char)            -- keys of r.URL.Query(), as runes
  body : Body
  deriving Repr, DecidableEq

def jsonApiMediaType : String := "application/vnd.api+json"

/-- `r.URL.Path`, rebuilt from the components. -/
def Req.urlPath (r : Req) : String :=
  (if r.leadingSlash then "/" else "") ++ "/".intercalate r.path

/-! ## jsonapi.go: member names -/

def isGloballyAllowedCharacter (c : Char) : Bool :=
  ('a' ≤ c && c ≤ 'z') || ('A' ≤ c && c ≤ 'Z') || ('0' ≤ c && c ≤ '9')

def isInternallyAllowedCharacter (c : Char) : Bool :=
  isGloballyAllowedCharacter c || c == '-' || c == '_'

/-- jsonapi.go:23 `validateMemberName` (`true` = nil error). -/
def validateMemberName (name : List Char) : Bool :=
  match name, name.getLast? with
  | first :: _, some last =>
    if name.any (fun c => !isInternallyAllowedCharacter c) then false
    else if !isGloballyAllowedCharacter first || !isGloballyAllowedCharacter last then false
    else true
  | _, _ => false          -- len(name) < 1

/-! ## handler.go:132-216: Accept negotiation and the query-parameter check -/

def hasUnsupportedParams (ps : List String) : Bool := ps.any (fun k => k != "profile")

/-- The loop over `r.Header.Values("Accept")`. -/
def isAcceptable : List AcceptInst → Bool
  | [] => false
  | a :: rest =>
    if a.media != jsonApiMediaType || a.err then isAcceptable rest
    else if hasUnsupportedParams a.params then isAcceptable rest
    else true

/-- `strings.Split(k, "[")` on runes (always at least one part). -/
def splitOn (sep : Char) : List Char → List (List Char)
  | [] => [[]]
  | c :: cs =>
    if c == sep then [] :: splitOn sep cs
    else match splitOn sep cs with
      | [] => [[c]]
      | p :: ps => (c :: p) :: ps

/-- The condition of handler.go:181 negated: the bracketed part is `name]` with a valid name. -/
def partOK (part : List Char) : Bool :=
  match part.getLast? with
  | none => false
  | some last => last == ']' && validateMemberName part.dropLast

def isLowerAlpha (c : Char) : Bool := 'a' ≤ c && c ≤ 'z'

def pageFamily : List Char := ['p', 'a', 'g', 'e']

/-- Body of the loop over the query keys: `true` = this key makes the handler answer 400. -/
def keyRejected (k : List Char) : Bool :=
  match splitOn '[' k with
  | [] => true                      -- unreachable (Split never returns an empty slice); Go would panic on parts[0]
  | family :: parts =>
    if parts.any (fun p => !partOK p) then true
    else if !validateMemberName family then true
    else if family.all isLowerAlpha then
      (if family == pageFamily then false else true)
    else false

/-! ## resolvers.go -/

/-- `ResolveRelationship(ctx, resource, dataRequested, params)` of the two stock resolvers. -/
def resolveRelationship (d : RelDef) (dataRequested : Bool) : Except Err Relationship :=
  match d with
  | .toOne byDefault out =>
    if dataRequested || byDefault then
      match out with
      | .error e => .error e
      | .id r => .ok { data := some (.one r) }
      | .nil => .ok { data := some .null }
    else .ok {}
  | .toMany byDefault out _ _ =>
    if dataRequested || byDefault then
      match out with
      | .error e => .error e
      | .ids rs => .ok { data := some (.many rs) }
      | .nil => .ok { data := some (.many []) }      -- resolvers.go:96 nil → empty slice
    else .ok {}

/-- `AddMembers`/`RemoveMembers` result wrapped as in resolvers.go:111-131 (a nil slice stays nil and
    marshals as `null`). -/
def membersResult (h : Option ManyOut) : Except Err Relationship :=
  match h with
  | none => .error (errorForHTTPStatus 405)
  | some (.error e) => .error e
  | some (.ids rs) => .ok { data := some (.many rs) }
  | some .nil => .ok { data := some .null }

def addRelationshipMembers : RelDef → Except Err Relationship
  | .toOne _ _ => .error (errorForHTTPStatus 405)
  | .toMany _ _ add _ => membersResult add

def removeRelationshipMembers : RelDef → Except Err Relationship
  | .toOne _ _ => .error (errorForHTTPStatus 405)
  | .toMany _ _ _ remove => membersResult remove

/-! ## resource.go -/

/-- resource.go:88 `addStandardRelationshipLinks` (the stock resolvers return no links of their own). -/
def addStandardRelationshipLinks (id : RId) (name : String) (rel : Relationship) : Relationship :=
  { rel with links :=
      [("self", "/" ++ id.type ++ "/" ++ id.id ++ "/relationships/" ++ name),
       ("related", "/" ++ id.type ++ "/" ++ id.id ++ "/" ++ name)] ++ rel.links }

/-- The attribute loop of `complete` (first error wins). -/
def completeAttrs : List (String × AttrOut) → Except Err (List (String × Bool))
  | [] => .ok []
  | (name, out) :: rest =>
    match out with
    | .error e => .error e
    | .value => (completeAttrs rest).map (fun l => (name, true) :: l)
    | .unmarshalable => (completeAttrs rest).map (fun l => (name, false) :: l)

/-- The relationship loop of `complete` (`dataRequested = false`). -/
def completeRels (id : RId) : List (String × RelDef) → Except Err (List (String × Relationship))
  | [] => .ok []
  | (name, d) :: rest =>
    match resolveRelationship d false with
    | .error e => .error e
    | .ok rel => (completeRels id rest).map (fun l => (name, addStandardRelationshipLinks id name rel) :: l)

/-- resource.go:99 `complete`. -/
def TypeDef.complete (t : TypeDef) (id : RId) : Except Err (Option Resource) :=
  match completeAttrs t.attrs with
  | .error e => .error e
  | .ok as =>
    match completeRels id t.rels with
    | .error e => .error e
    | .ok rs => .ok (some { type := id.type, id := id.id, attrs := as, rels := rs })

/-- The common shape of get/patch: missing handler → 405, error, nil, or `complete`. -/
def TypeDef.viaHandler (t : TypeDef) (h : Option (String → ResOut)) (id : RId) : Except Err (Option Resource) :=
  match h with
  | none => .error (errorForHTTPStatus 405)
  | some f =>
    match f id.id with
    | .error e => .error e
    | .nil => .ok none
    | .found => t.complete id

/-- resource.go:74 `get`. -/
def TypeDef.getRes (t : TypeDef) (id : RId) : Except Err (Option Resource) := t.viaHandler t.get id

/-- resource.go:133 `patch`. -/
def TypeDef.patchRes (t : TypeDef) (id : RId) : Except Err (Option Resource) := t.viaHandler t.patch id

/-- resource.go:147 `create` (the resource is completed under the id `Create` returned). -/
def TypeDef.createRes (t : TypeDef) : Except Err (Option Resource) :=
  match t.create with
  | none => .error (errorForHTTPStatus 405)
  | some (.error e) => .error e
  | some .nil => .ok none
  | some (.created id) => t.complete id

/-- resource.go:161 `delete`. -/
def TypeDef.deleteRes (t : TypeDef) (id : RId) : Option Err :=
  match t.delete with
  | none => some (errorForHTTPStatus 405)
  | some f => f id.id

/-- resource.go:170 `completeRelationship` (`dataRequested = true`). -/
def TypeDef.completeRelationship (t : TypeDef) (id : RId) (name : String) : Except Err (Option Relationship) :=
  match t.rels.lookup name with
  | none => .ok none
  | some d =>
    match resolveRelationship d true with
    | .error e => .error e
    | .ok rel => .ok (some (addStandardRelationshipLinks id name rel))

/-- resource.go:183 `getRelationship` (fixed by patch 02: missing `Get` → 405). -/
def TypeDef.getRelationship (t : TypeDef) (id : RId) (name : String) : Except Err (Option Relationship) :=
  match t.get with
  | none => .error (errorForHTTPStatus 405)
  | some g =>
    match g id.id with
    | .error e => .error e
    | .nil => .ok none
    | .found => t.completeRelationship id name

/-- resource.go:197 `patchRelationship`. -/
def TypeDef.patchRelationship (t : TypeDef) (id : RId) (name : String) : Except Err (Option Relationship) :=
  match t.patch with
  | none => .error (errorForHTTPStatus 405)
  | some p =>
    match p id.id with
    | .error e => .error e
    | .nil => .ok none
    | .found => t.completeRelationship id name

/-- resource.go:211/235 `addRelationshipMembers` / `removeRelationshipMembers`
    (fixed by patch 02: missing `Get` → 405). -/
def TypeDef.changeMembers (t : TypeDef) (op : RelDef → Except Err Relationship) (id : RId) (name : String) :
    Except Err (Option Relationship) :=
  match t.get with
  | none => .error (errorForHTTPStatus 405)
  | some g =>
    match g id.id with
    | .error e => .error e
    | .nil => .ok none
    | .found =>
      match t.rels.lookup name with
      | none => .ok none
      | some d =>
        match op d with
        | .error e => .error e
        | .ok rel => .ok (some (addStandardRelationshipLinks id name rel))

/-! ## handler.go: routing -/

def errDoc (e : Err) : Doc := { errors := [e] }
def errResponse (e : Err) : Response := { doc := errDoc e }
def statusResponse (n : Nat) : Response := errResponse (errorForHTTPStatus n)

/-- handler.go:66 `getResource`. -/
def getResource (s : Schema) (id : RId) : Except Err Data :=
  match s.lookup id.type with
  | none => .ok .null
  | some t =>
    match t.getRes id with
    | .error e => .error e
    | .ok none => .ok .null
    | .ok (some r) => .ok (.resource r)

/-- handler.go:73 `getResources` (unknown types and nil resources are skipped, first error wins). -/
def getResourcesList (s : Schema) : List RId → Except Err (List Resource)
  | [] => .ok []
  | id :: rest =>
    match s.lookup id.type with
    | none => getResourcesList s rest
    | some t =>
      match t.getRes id with
      | .error e => .error e
      | .ok none => getResourcesList s rest
      | .ok (some r) => (getResourcesList s rest).map (fun l => r :: l)

def getResources (s : Schema) (ids : List RId) : Except Err Data :=
  match getResourcesList s ids with
  | .error e => .error e
  | .ok [] => .ok .null                      -- `var ret []types.Resource` stays nil
  | .ok (r :: rs) => .ok (.resources (r :: rs))

/-- handler.go:87 `handlePatchResourceRequest` (`none` = the Go function returns nil). -/
def handlePatchResourceRequest (r : Req) (t : TypeDef) (id : RId) : Option Doc :=
  match r.body.patchRes with
  | none => some (errDoc (errorForHTTPStatus 400))
  | some d =>
    if d.type != id.type || d.id != id.id then some (errDoc (errorForHTTPStatus 409))
    else
      match t.patchRes id with
      | .error e => some (errDoc e)
      | .ok (some res) => some { data := some (.resource res), links := [("self", r.urlPath)] }
      | .ok none => none

/-- A relationship route's answer from `(*Relationship, *Error)`. -/
def relationshipAnswer (x : Except Err (Option Relationship)) : Option Response :=
  match x with
  | .error e => some (errResponse e)
  | .ok none => none
  | .ok (some rel) => some { doc := { data := rel.data.map Data.linkage, links := rel.links } }

/-- handler.go:221-262: `POST /{type}`. -/
def createRoute (r : Req) (typeName : String) (t : TypeDef) : Option Response :=
  match r.body.postRes with
  | none => some (statusResponse 400)
  | some ty =>
    if ty != typeName then some (statusResponse 409)
    else
      match t.createRes with
      | .error e => some (errResponse e)
      | .ok none => none
      | .ok (some res) =>
        some { doc := { data := some (.resource res), links := [("self", "/" ++ res.type ++ "/" ++ res.id)] },
               headers := [("Location", "/" ++ res.type ++ "/" ++ res.id)],
               status := 201 }

/-- handler.go:269-311: `/{type}/{id}`. -/
def resourceRoute (r : Req) (t : TypeDef) (id : RId) : Option Response :=
  if r.method == "GET" then
    match t.getRes id with
    | .error e => some (errResponse e)
    | .ok (some res) => some { doc := { data := some (.resource res), links := [("self", r.urlPath)] } }
    | .ok none => none
  else if r.method == "PATCH" then
    (handlePatchResourceRequest r t id).map (fun d => { doc := d })
  else if r.method == "DELETE" then
    match t.deleteRes id with
    | some e => some (errResponse e)
    | none => some { doc := {} }
  else some (statusResponse 405)

/-- handler.go:312-367: `/{type}/{id}/{relationship}`. -/
def relatedRoute (s : Schema) (r : Req) (t : TypeDef) (id : RId) (name : String) : Option Response :=
  if r.method == "GET" then
    match t.getRelationship id name with
    | .error e => some (errResponse e)
    | .ok none => none
    | .ok (some rel) =>
      match rel.data with
      | none => none          -- unreachable with the stock resolvers (a nil `Data` would be dereferenced: F-19d)
      | some l =>
        let fetched : Except Err Data :=
          match l with
          | .one rid => getResource s rid
          | .many rids => getResources s rids
          | .null => .ok .null     -- `var data any = nil`
        match fetched with
        | .error e => some (errResponse e)
        | .ok d => some { doc := { data := some d, links := [("self", r.urlPath)] } }
  else if r.method == "PATCH" then
    match t.getRelationship id name with
    | .error e => some (errResponse e)
    | .ok none => none
    | .ok (some rel) =>
      match rel.data with
      | some (.one rid) =>
        match s.lookup rid.type with
        | none => none
        | some rt => (handlePatchResourceRequest r rt rid).map (fun d => { doc := d })
      | _ => none
  else some (statusResponse 405)

/-- handler.go:368-447: `/{type}/{id}/relationships/{relationship}`. -/
def relationshipRoute (r : Req) (t : TypeDef) (id : RId) (name : String) : Option Response :=
  if r.method == "GET" then
    relationshipAnswer (t.getRelationship id name)
  else if r.method == "PATCH" then
    if !r.body.relData then some (statusResponse 400)
    else relationshipAnswer (t.patchRelationship id name)
  else if r.method == "POST" then
    if !r.body.members then some (statusResponse 400)
    else relationshipAnswer (t.changeMembers addRelationshipMembers id name)
  else if r.method == "DELETE" then
    if !r.body.members then some (statusResponse 400)
    else relationshipAnswer (t.changeMembers removeRelationshipMembers id name)
  else some (statusResponse 405)

/-- handler.go:218-451: routing by type, depth and method (`none` = fall through to the final 404). -/
def route (s : Schema) (r : Req) : Option Response :=
  match r.path with
  | [] => none                                   -- len(pathComponents) >= 1 (always true in Go)
  | typeName :: rest =>
    match s.lookup typeName with
    | none => none
    | some t =>
      match rest with
      | [] => if r.method == "POST" then createRoute r typeName t else none
      | id :: rest2 =>
        let rid : RId := { type := typeName, id := id }
        match rest2 with
        | [] => resourceRoute r t rid
        | [name] => relatedRoute s r t rid name
        | [c2, name] => if c2 == "relationships" then relationshipRoute r t rid name else none
        | _ => none

/-- handler.go:132 `executeRequest`. -/
def executeRequest (s : Schema) (r : Req) : Response :=
  if !isAcceptable r.accept then statusResponse 406
  else if r.query.any keyRejected then statusResponse 400
  else (route s r).getD (statusResponse 404)

/-! ## handler.go:15-57 `ServeHTTP` -/

/-- The loop of handler.go:31-40: 500, or the parsed status of the first error that carries one
    (`ParseInt` failure → 0). -/
def statusOfErrors : List Err → Nat
  | [] => 500
  | e :: rest =>
    match e.status with
    | .empty => statusOfErrors rest
    | .num n => n
    | .junk => 0

def Resource.marshalable (r : Resource) : Bool := r.attrs.all (fun a => a.2)

/-- `jsoniter.Marshal(resp.Document)` succeeds (only attribute values can be unmarshalable). -/
def Doc.marshalable (d : Doc) : Bool :=
  match d.data with
  | some (.resource r) => r.marshalable
  | some (.resources rs) => rs.all Resource.marshalable
  | _ => true

def contentType : String := "application/vnd.api+json"
def jsonApiVersion : String := "1.1"

/-- handler.go:17-56: everything `ServeHTTP` does with the router's answer. -/
def serveResponse (resp : Response) : Written :=
  let doc : Doc := { resp.doc with jsonapi := some jsonApiVersion }
  let status := if resp.status != 0 then resp.status else 200
  let status := if doc.errors.length > 0 then statusOfErrors doc.errors else status
  if doc.marshalable then
    if status < 100 || status > 999 then .panic
    else .wrote status contentType resp.headers doc
  else
    -- fixed fallback (patch 01): a document with the 500 error and the jsonapi member
    .wrote 500 contentType [] { errors := [errorForHTTPStatus 500], jsonapi := doc.jsonapi }

def serveHTTP (s : Schema) (r : Req) : Written := serveResponse (executeRequest s r)

end ApiFu.C19
