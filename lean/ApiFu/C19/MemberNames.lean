/-
  C19 — JSON:API member names: the specification's grammar for ALL strings, the library's predicate
  (`validateMemberName`, jsonapi.go:14-34, transliterated in `Model.lean`) and the exact relation
  between the two. Core Lean only.

  The text the code cites (https://jsonapi.org/format/#document-member-names, JSON:API 1.1):

    Member names MUST contain at least one character, contain only the allowed characters listed
    below, start and end with a "globally allowed character". To enable an easy mapping of member
    names to URLs, it is RECOMMENDED that member names use only non-reserved, URL safe characters
    specified in RFC 3986.
    Globally allowed: U+0061..U+007A a-z, U+0041..U+005A A-Z, U+0030..U+0039 0-9, U+0080 and above
    (non-ASCII Unicode characters; not recommended, not URL safe).
    Additionally allowed except as first or last character: U+002D '-', U+005F '_', U+0020 ' '
    (space: not recommended, not URL safe).
    Reserved, MUST NOT be used: + , . [ ] ! " # $ % & ' ( ) * / : ; < = > ? @ \ ^ ` { | } ~ DEL,
    U+0000..U+001F.

  The library enforces the RECOMMENDED form: a member name by the MUST rules whose characters all are
  RFC 3986 unreserved characters (ALPHA / DIGIT / "-" / "." / "_" / "~"). That is what
  `memberName_eq_spec` states, for every string; `alias_rejected` is the lesson of seed C19-22 (a
  rune ≥ U+0080 is rejected at every position, whatever its low byte is).
-/
import ApiFu.C19.Lemmas

namespace ApiFu.C19.MemberNames

open ApiFu.C19 ApiFu.C19.Spec

/-! ## The specification's character classes (by code point) -/

/-- "globally allowed characters": may be used anywhere in a member name. -/
def globallyAllowed (c : Char) : Bool :=
  (0x61 ≤ c.toNat && c.toNat ≤ 0x7A) || (0x41 ≤ c.toNat && c.toNat ≤ 0x5A) ||
  (0x30 ≤ c.toNat && c.toNat ≤ 0x39) || 0x80 ≤ c.toNat

/-- Additionally allowed, except as the first or last character. -/
def innerAllowed (c : Char) : Bool :=
  c.toNat == 0x2D || c.toNat == 0x5F || c.toNat == 0x20

/-- The reserved characters, as the specification lists them. -/
def reservedCodes : List Nat :=
  [0x2B, 0x2C, 0x2E, 0x5B, 0x5D, 0x21, 0x22, 0x23, 0x24, 0x25, 0x26, 0x27, 0x28, 0x29, 0x2A, 0x2F,
   0x3A, 0x3B, 0x3C, 0x3D, 0x3E, 0x3F, 0x40, 0x5C, 0x5E, 0x60, 0x7B, 0x7C, 0x7D, 0x7E, 0x7F]

def reserved (c : Char) : Bool := reservedCodes.contains c.toNat || c.toNat ≤ 0x1F

/-- Allowed somewhere in a member name. -/
def allowed (c : Char) : Bool := globallyAllowed c || innerAllowed c

/-- The MUST rules: at least one character, only allowed characters, first and last globally
    allowed. -/
def SpecMemberName (n : List Char) : Prop :=
  (∀ c ∈ n, allowed c = true) ∧
  (∃ a, n.head? = some a ∧ globallyAllowed a = true) ∧
  (∃ z, n.getLast? = some z ∧ globallyAllowed z = true)

/-- RFC 3986 §2.3 unreserved characters ("URL safe"): ALPHA / DIGIT / "-" / "." / "_" / "~". -/
def unreserved (c : Char) : Bool :=
  (0x61 ≤ c.toNat && c.toNat ≤ 0x7A) || (0x41 ≤ c.toNat && c.toNat ≤ 0x5A) ||
  (0x30 ≤ c.toNat && c.toNat ≤ 0x39) ||
  c.toNat == 0x2D || c.toNat == 0x2E || c.toNat == 0x5F || c.toNat == 0x7E

/-- The RECOMMENDED form: a member name made of URL-safe characters only. -/
def RecommendedMemberName (n : List Char) : Prop :=
  SpecMemberName n ∧ ∀ c ∈ n, unreserved c = true

/-! ## The three lists of the specification partition the code points -/

private def classCount (n : Nat) : Nat :=
  let c := Char.ofNat n
  (if globallyAllowed c then 1 else 0) + (if innerAllowed c then 1 else 0) + (if reserved c then 1 else 0)

private theorem ascii_partition : ∀ n, n < 128 → classCount n = 1 := by decide

/-- Every character is in exactly one of: globally allowed, allowed inside only, reserved — the
    transcription above leaves no code point unclassified or doubly classified. -/
theorem classes_partition (c : Char) :
    (globallyAllowed c = true ∧ innerAllowed c = false ∧ reserved c = false) ∨
    (globallyAllowed c = false ∧ innerAllowed c = true ∧ reserved c = false) ∨
    (globallyAllowed c = false ∧ innerAllowed c = false ∧ reserved c = true) := by
  by_cases h : c.toNat < 128
  · have := ascii_partition c.toNat h
    simp only [classCount, Char.ofNat_toNat] at this
    cases hg : globallyAllowed c <;> cases hi : innerAllowed c <;> cases hr : reserved c <;>
      simp [hg, hi, hr] at this ⊢
  · have h' : 128 ≤ c.toNat := Nat.le_of_not_lt h
    refine Or.inl ⟨?_, ?_, ?_⟩
    · simp only [globallyAllowed, Bool.or_eq_true, decide_eq_true_eq]; exact Or.inr h'
    · simp only [innerAllowed, Bool.or_eq_false_iff, beq_eq_false_iff_ne, ne_eq]
      refine ⟨⟨?_, ?_⟩, ?_⟩ <;> omega
    · have hlt : ∀ k ∈ reservedCodes, k < 128 := by decide
      have hnot : reservedCodes.contains c.toNat = false := by
        cases hh : reservedCodes.contains c.toNat with
        | false => rfl
        | true =>
          have := hlt c.toNat (by simpa using hh)
          omega
      simp only [reserved, hnot, Bool.false_or, decide_eq_false_iff_not]
      omega

/-! ## The library's classes in terms of code points -/

theorem glob_code (c : Char) : isGloballyAllowedCharacter c =
    ((0x61 ≤ c.toNat && c.toNat ≤ 0x7A) || (0x41 ≤ c.toNat && c.toNat ≤ 0x5A) || (0x30 ≤ c.toNat && c.toNat ≤ 0x39)) := by
  simp only [isGloballyAllowedCharacter, Char.le_def, UInt32.le_iff_toNat_le, Char.toNat]
  rfl

theorem char_eq_code (c d : Char) : (c == d) = (c.toNat == d.toNat) := by
  by_cases h : c = d
  · subst h; simp
  · have hne : c.toNat ≠ d.toNat := fun e => h (Char.toNat_inj.mp e)
    have h1 : (c == d) = false := beq_eq_false_iff_ne.mpr h
    have h2 : (c.toNat == d.toNat) = false := beq_eq_false_iff_ne.mpr hne
    rw [h1, h2]

theorem internal_code (c : Char) : isInternallyAllowedCharacter c =
    (isGloballyAllowedCharacter c || c.toNat == 0x2D || c.toNat == 0x5F) := by
  simp only [isInternallyAllowedCharacter, char_eq_code]
  rfl

/-- The library's "globally allowed" = the specification's, restricted to URL-safe characters. -/
theorem glob_iff (c : Char) :
    isGloballyAllowedCharacter c = true ↔ globallyAllowed c = true ∧ unreserved c = true := by
  rw [glob_code]
  simp only [globallyAllowed, unreserved, Bool.or_eq_true, Bool.and_eq_true, decide_eq_true_eq, beq_iff_eq]
  omega

/-- The library's "internally allowed" = the specification's allowed characters, restricted to
    URL-safe ones (no space, nothing ≥ U+0080; '.' and '~' are URL safe but reserved). -/
theorem internal_iff (c : Char) :
    isInternallyAllowedCharacter c = true ↔ allowed c = true ∧ unreserved c = true := by
  rw [internal_code, glob_code]
  simp only [allowed, globallyAllowed, innerAllowed, unreserved, Bool.or_eq_true, Bool.and_eq_true,
    decide_eq_true_eq, beq_iff_eq]
  omega

/-! ## The library's predicate decides the RECOMMENDED member-name grammar, for every string -/

/-- `validateMemberName` in closed form (the three `if`s of the Go function). -/
theorem validate_iff (n : List Char) :
    validateMemberName n = true ↔
      (∀ c ∈ n, isInternallyAllowedCharacter c = true) ∧
      (∃ a, n.head? = some a ∧ isGloballyAllowedCharacter a = true) ∧
      (∃ z, n.getLast? = some z ∧ isGloballyAllowedCharacter z = true) := by
  unfold validateMemberName
  cases n with
  | nil => simp
  | cons a t =>
    cases hz : (a :: t).getLast? with
    | none => simp at hz
    | some z =>
      simp only [List.head?_cons, Option.some.injEq, exists_eq_left']
      by_cases hany : ((a :: t).any fun c => !isInternallyAllowedCharacter c) = true
      · simp only [hany, if_true]
        constructor
        · intro h; cases h
        · intro h
          obtain ⟨x, hx, hn⟩ := List.any_eq_true.mp hany
          have := h.1 x hx
          simp [this] at hn
      · have hall : ∀ c ∈ a :: t, isInternallyAllowedCharacter c = true := by
          intro c hc
          cases hi : isInternallyAllowedCharacter c with
          | true => rfl
          | false => exact absurd (List.any_eq_true.mpr ⟨c, hc, by simp [hi]⟩) hany
        have hany' : ((a :: t).any fun c => !isInternallyAllowedCharacter c) = false := by simpa using hany
        simp only [hany']
        have hall_a := hall a (by simp)
        have hall_t : ∀ c ∈ t, isInternallyAllowedCharacter c = true := fun c hc => hall c (List.mem_cons_of_mem _ hc)
        cases ha : isGloballyAllowedCharacter a <;> cases hzz : isGloballyAllowedCharacter z <;> simp [hall_a] <;> exact hall_t

/-- **`memberName_eq_spec`**: for every string, the library accepts it as a member name exactly
    when it is a JSON:API member name in the RECOMMENDED (URL-safe) form. -/
theorem memberName_eq_spec (n : List Char) : validateMemberName n = true ↔ RecommendedMemberName n := by
  rw [validate_iff]
  unfold RecommendedMemberName SpecMemberName
  constructor
  · rintro ⟨hall, ⟨a, ha, hga⟩, ⟨z, hz, hgz⟩⟩
    exact ⟨⟨fun c hc => ((internal_iff c).mp (hall c hc)).1, ⟨a, ha, ((glob_iff a).mp hga).1⟩,
      ⟨z, hz, ((glob_iff z).mp hgz).1⟩⟩, fun c hc => ((internal_iff c).mp (hall c hc)).2⟩
  · rintro ⟨⟨hall, ⟨a, ha, hga⟩, ⟨z, hz, hgz⟩⟩, hu⟩
    have mem_head : a ∈ n := List.mem_of_mem_head? (by rw [ha]; rfl)
    have mem_last : z ∈ n := List.mem_of_getLast? hz
    exact ⟨fun c hc => (internal_iff c).mpr ⟨hall c hc, hu c hc⟩,
      ⟨a, ha, (glob_iff a).mpr ⟨hga, hu a mem_head⟩⟩, ⟨z, hz, (glob_iff z).mpr ⟨hgz, hu z mem_last⟩⟩⟩

/-- Every name the library accepts is a member name by the specification's MUST rules. -/
theorem accepted_is_spec_memberName (n : List Char) (h : validateMemberName n = true) : SpecMemberName n :=
  ((memberName_eq_spec n).mp h).1

/-- The independent `Spec.memberName` (used by the parameter grammar and RefStatus) is the same
    predicate. -/
theorem spec_memberName_iff (n : List Char) : Spec.memberName n = true ↔ RecommendedMemberName n := by
  rw [← memberName_eq]; exact memberName_eq_spec n

/-- The only specification-valid names the library refuses are the ones the specification marks
    "not recommended, not URL safe": they contain a space or a character ≥ U+0080. -/
theorem refused_spec_name (n : List Char) (hs : SpecMemberName n) (hv : validateMemberName n = false) :
    ∃ c ∈ n, c.toNat = 0x20 ∨ 0x80 ≤ c.toNat := by
  have : ¬ ∀ c ∈ n, unreserved c = true := fun hu => by
    have := (memberName_eq_spec n).mpr ⟨hs, hu⟩
    rw [hv] at this; cases this
  simp only [Classical.not_forall] at this
  obtain ⟨c, hc, hn⟩ := this
  refine ⟨c, hc, ?_⟩
  have ha := hs.1 c hc
  simp only [allowed, globallyAllowed, innerAllowed, Bool.or_eq_true, Bool.and_eq_true, decide_eq_true_eq, beq_iff_eq] at ha
  simp only [unreserved, Bool.or_eq_true, Bool.and_eq_true, decide_eq_true_eq, beq_iff_eq] at hn
  omega

/-! ## Truncation aliases (seed C19-22) -/

/-- A character that is not one of the 64 URL-safe member-name characters makes the name invalid at
    EVERY position — first, inner or last. -/
theorem bad_char_rejected (c : Char) (hc : isInternallyAllowedCharacter c = false) (pre post : List Char) :
    validateMemberName (pre ++ c :: post) = false := by
  cases h : validateMemberName (pre ++ c :: post) with
  | false => rfl
  | true =>
    have := ((validate_iff _).mp h).1 c (by simp)
    rw [hc] at this; cases this

/-- **`alias_rejected`**: a character ≥ U+0080 is rejected at every position of a name, whatever its
    code point is congruent to modulo 2^7, 2^8 or 2^16 (U+0161 ≡ 'a', U+4E2D ≡ '-' mod 256 …). -/
theorem alias_rejected (c : Char) (hc : 0x80 ≤ c.toNat) (pre post : List Char) :
    validateMemberName (pre ++ c :: post) = false := by
  apply bad_char_rejected
  rw [internal_code, glob_code]
  simp only [Bool.or_eq_false_iff, Bool.and_eq_false_iff, decide_eq_false_iff_not, beq_eq_false_iff_ne, ne_eq]
  omega

/-- … and so is every query key that carries such a character in its family or in a bracketed
    name: the handler answers 400 (`keyRejected`), by the proved grammar equivalence. -/
theorem alias_key_rejected (c : Char) (hc : 0x80 ≤ c.toNat) (pre post : List Char) :
    keyRejected (pre ++ c :: post) = true := by
  cases h : keyRejected (pre ++ c :: post) with
  | true => rfl
  | false =>
    obtain ⟨family, names, ⟨hk, hfam, hnames⟩, _⟩ := (keyRejected_false_iff _).mp h
    have hmem : c ∈ family ++ names.flatMap bracket := by rw [← hk]; simp
    have hbad : nameChar c = false := by
      rw [← internal_eq, internal_code, glob_code]
      simp only [Bool.or_eq_false_iff, Bool.and_eq_false_iff, decide_eq_false_iff_not, beq_eq_false_iff_ne, ne_eq]
      omega
    rcases List.mem_append.mp hmem with hf | hb
    · have := memberName_all hfam c hf
      rw [hbad] at this; cases this
    · obtain ⟨nm, hnm, hcn⟩ := List.mem_flatMap.mp hb
      simp only [bracket, List.mem_cons, List.mem_append] at hcn
      rcases hcn with (rfl | hcn) | hcn
      · revert hc; decide
      · have := memberName_all (hnames nm hnm) c hcn
        rw [hbad] at this; cases this
      · simp only [List.not_mem_nil, or_false] at hcn
        subst hcn; revert hc; decide

/-! ### Non-vacuity -/

example : validateMemberName "a-b_9".toList = true := by decide
example : RecommendedMemberName "a-b_9".toList := (memberName_eq_spec _).mp (by decide)
/-- `pšge` (U+0161 ≡ 'a' mod 256), the key of seed C19-22's demonstration. -/
example : validateMemberName ['p', Char.ofNat 0x161, 'g', 'e'] = false := alias_rejected _ (by decide) ['p'] ['g', 'e']
example : keyRejected ['p', Char.ofNat 0x161, 'g', 'e'] = true := alias_key_rejected _ (by decide) ['p'] ['g', 'e']
/-- valid by the MUST rules, refused by the library (space; non-ASCII) -/
example : SpecMemberName "a b".toList ∧ validateMemberName "a b".toList = false := by
  refine ⟨⟨by decide, ⟨'a', rfl, by decide⟩, ⟨'b', rfl, by decide⟩⟩, by decide⟩

end ApiFu.C19.MemberNames
