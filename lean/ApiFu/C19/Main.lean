/-
  C19 model driver. One S-expression per line.

    (schema TYPE…)                                   → ok          -- sets the current resource schema
      TYPE   := (type NAME GET PATCH CREATE DELETE (attrs (NAME AOUT)…) (rels (NAME REL)…))
      GET, PATCH := none | (tbl OUT (ID OUT)…)         OUT  := found | nil | (err ST)
      CREATE := none | (created T I) | nil | (err ST)
      DELETE := none | (tbl DOUT (ID DOUT)…)           DOUT := ok | (err ST)
      AOUT   := val | nan | (err ST)                   ST   := empty | junk | <nat>
      REL    := (one BOOL ONE) | (many BOOL MANY ADD REMOVE)
      ONE    := (id T I) | nil | (err ST)              MANY := (ids (T I)…) | nil | (err ST)
      ADD, REMOVE := none | MANY
    (req METHOD SLASH (path C…) (accept (MEDIA (P…) ERR)…) (query K…) (body PATCH POST REL MEM))
                                                     → (out WRITTEN REFSTATUS)
    (newschema TYPE…)                                → accept | reject   -- MemberNames.newSchemaOK (NewSchema's name
                                                       checks) on that schema; the current schema is kept
    (membername K)                                   → (name VALIDATE SPEC GRAMMAR)   -- validateMemberName (transliterated Go),
                                                       Spec.memberName, MemberNames.recommendedB (specification text)
    (inject ST…)                                     → (out WRITTEN FIRSTERRORSTATUS)   -- serveResponse on a
                                                       document with exactly these errors (verif hook)
      PATCH := err | (ok T I)   POST := err | (ok T)   REL, MEM := err | ok
      WRITTEN := (panic) | (wrote STATUS CTYPE (headers (K V)…) DOC)
      DOC  := (doc (jsonapi V|none) DATA (errors ST…) (links (K V)…))
      DATA := nodata | null | (obj R) | (list R…)       -- identifiers print as objects without members
      R    := (T I (attrs NAME…) (rels (NAME (links (K V)…) DATA)…))
    Maps (links, attributes, relationships, headers) are printed sorted by key.
-/
import ApiFu.Common.Sexp
import ApiFu.Common.Loop
import ApiFu.C19.Model
import ApiFu.C19.Spec
import ApiFu.C19.EmittedNames
import ApiFu.C19.MemberNamesDecide

open ApiFu ApiFu.C19

namespace ApiFu.C19.Driver

def parseST : Sexp → Option ErrStatus
  | .atom "empty" => some .empty
  | .atom "junk" => some .junk
  | x => x.nat?.map ErrStatus.num

def parseErr : Sexp → Option Err
  | .list [.atom "err", st] => (parseST st).map (fun s => ⟨s⟩)
  | _ => none

def parseRId : Sexp → Option RId
  | .list [.atom t, .atom i] => some ⟨t, i⟩
  | _ => none

def parseOut : Sexp → Option ResOut
  | .atom "found" => some .found
  | .atom "nil" => some .nil
  | x => (parseErr x).map ResOut.error

def parseDOut : Sexp → Option (Option Err)
  | .atom "ok" => some none
  | x => (parseErr x).map some

def parseRows {α : Type} (p : Sexp → Option α) : List Sexp → Option (List (String × α))
  | [] => some []
  | .list [.atom id, o] :: rest =>
    match p o, parseRows p rest with
    | some v, some l => some ((id, v) :: l)
    | _, _ => none
  | _ => none

def parseTable {α : Type} (p : Sexp → Option α) : Sexp → Option (Option (String → α))
  | .atom "none" => some none
  | .list (.atom "tbl" :: d :: rows) =>
    match p d, parseRows p rows with
    | some dv, some l => some (some (fun id => (l.lookup id).getD dv))
    | _, _ => none
  | _ => none

def parseCreate : Sexp → Option (Option CreateOut)
  | .atom "none" => some none
  | .atom "nil" => some (some .nil)
  | .list [.atom "created", .atom t, .atom i] => some (some (.created ⟨t, i⟩))
  | x => (parseErr x).map (fun e => some (.error e))

def parseAOut : Sexp → Option AttrOut
  | .atom "val" => some .value
  | .atom "nan" => some .unmarshalable
  | x => (parseErr x).map AttrOut.error

def parseBool : Sexp → Option Bool
  | .atom "true" => some true
  | .atom "false" => some false
  | _ => none

def parseOne : Sexp → Option OneOut
  | .atom "nil" => some .nil
  | .list [.atom "id", .atom t, .atom i] => some (.id ⟨t, i⟩)
  | x => (parseErr x).map OneOut.error

def parseMany : Sexp → Option ManyOut
  | .atom "nil" => some .nil
  | .list (.atom "ids" :: ids) => (ids.mapM parseRId).map ManyOut.ids
  | x => (parseErr x).map ManyOut.error

def parseOptMany : Sexp → Option (Option ManyOut)
  | .atom "none" => some none
  | x => (parseMany x).map some

def parseRel : Sexp → Option RelDef
  | .list [.atom "one", b, o] =>
    match parseBool b, parseOne o with
    | some b, some o => some (.toOne b o)
    | _, _ => none
  | .list [.atom "many", b, o, a, r] =>
    match parseBool b, parseMany o, parseOptMany a, parseOptMany r with
    | some b, some o, some a, some r => some (.toMany b o a r)
    | _, _, _, _ => none
  | _ => none

def parseNamed {α : Type} (p : Sexp → Option α) : Sexp → Option (String × α)
  | .list [.atom n, x] => (p x).map (fun v => (n, v))
  | _ => none

def parseType : Sexp → Option (String × TypeDef)
  | .list [.atom "type", .atom name, g, p, c, d, .list (.atom "attrs" :: as), .list (.atom "rels" :: rs)] =>
    match parseTable parseOut g, parseTable parseOut p, parseCreate c, parseTable parseDOut d,
          as.mapM (parseNamed parseAOut), rs.mapM (parseNamed parseRel) with
    | some g, some p, some c, some d, some as, some rs =>
      some (name, { attrs := as, rels := rs, get := g, patch := p, create := c, delete := d })
    | _, _, _, _, _, _ => none
  | _ => none

def parseAccept : Sexp → Option AcceptInst
  | .list [.atom m, .list ps, e] =>
    match ps.mapM Sexp.atom?, parseBool e with
    | some ps, some e => some { media := m, params := ps, err := e }
    | _, _ => none
  | _ => none

def parseBody : Sexp → Option Body
  | .list [.atom "body", p, q, r, m] =>
    let pr : Option (Option RId) := match p with
      | .atom "err" => some none
      | .list [.atom "ok", .atom t, .atom i] => some (some ⟨t, i⟩)
      | _ => none
    let po : Option (Option String) := match q with
      | .atom "err" => some none
      | .list [.atom "ok", .atom t] => some (some t)
      | _ => none
    let ok? : Sexp → Option Bool := fun x => match x with
      | .atom "ok" => some true
      | .atom "err" => some false
      | _ => none
    match pr, po, ok? r, ok? m with
    | some pr, some po, some r, some m => some { patchRes := pr, postRes := po, relData := r, members := m }
    | _, _, _, _ => none
  | _ => none

def parseReq : Sexp → Option Req
  | .list [.atom "req", .atom method, slash, .list (.atom "path" :: cs), .list (.atom "accept" :: as),
           .list (.atom "query" :: ks), body] =>
    match parseBool slash, cs.mapM Sexp.atom?, as.mapM parseAccept, ks.mapM Sexp.atom?, parseBody body with
    | some sl, some cs, some as, some ks, some b =>
      some { method := method, leadingSlash := sl, path := cs, accept := as, query := ks.map String.toList, body := b }
    | _, _, _, _, _ => none
  | _ => none

/-! printing -/

def insertBy {α : Type} (key : α → String) (x : α) : List α → List α
  | [] => [x]
  | y :: ys => if key x < key y then x :: y :: ys else y :: insertBy key x ys

def sortBy {α : Type} (key : α → String) (l : List α) : List α := l.foldr (insertBy key) []

def stSexp : ErrStatus → Sexp
  | .empty => .atom "empty"
  | .junk => .atom "junk"
  | .num n => Sexp.ofNat n

def kvSexp (tag : String) (l : List (String × String)) : Sexp :=
  Sexp.node tag ((sortBy (·.1) l).map (fun p => .list [.atom p.1, .atom p.2]))

def ridSexp (r : RId) : Sexp :=
  .list [.atom r.type, .atom r.id, Sexp.node "attrs" [], Sexp.node "rels" []]

/-- A resource identifier object and a resource object without attributes and relationships are the
    same JSON; both print as `(T I (attrs) (rels))`. -/
def linkageSexp : Option Linkage → Sexp
  | none => .atom "nodata"
  | some .null => .atom "null"
  | some (.one r) => Sexp.node "obj" [ridSexp r]
  | some (.many rs) => Sexp.node "list" (rs.map ridSexp)

def resSexp (r : Resource) : Sexp :=
  .list [.atom r.type, .atom r.id,
    Sexp.node "attrs" ((sortBy id (r.attrs.map (·.1))).map Sexp.atom),
    Sexp.node "rels" ((sortBy (·.1) r.rels).map (fun p =>
      .list [.atom p.1, kvSexp "links" p.2.links, linkageSexp p.2.data]))]

def dataSexp : Option Data → Sexp
  | none => .atom "nodata"
  | some .null => .atom "null"
  | some (.resource r) => Sexp.node "obj" [resSexp r]
  | some (.resources rs) => Sexp.node "list" (rs.map resSexp)
  | some (.linkage l) => linkageSexp (some l)

def docSexp (d : Doc) : Sexp :=
  Sexp.node "doc" [
    Sexp.node "jsonapi" [.atom (d.jsonapi.getD "none")],
    dataSexp d.data,
    Sexp.node "errors" (d.errors.map (fun e => stSexp e.status)),
    kvSexp "links" d.links]

def writtenSexp : Written → Sexp
  | .panic => Sexp.node "panic" []
  | .wrote st ct hs body => Sexp.node "wrote" [Sexp.ofNat st, .atom ct, kvSexp "headers" hs, docSexp body]

def handle (s : Schema) (line : String) : Schema × String :=
  match Sexp.parse line with
  | some (.list (.atom "schema" :: ts)) =>
    match ts.mapM parseType with
    | some s' => (s', "ok")
    | none => (s, "bad-schema")
  | some (.list (.atom "newschema" :: ts)) =>
    match ts.mapM parseType with
    | some s' => (s, if MemberNames.newSchemaOK s' then "accept" else "reject")
    | none => (s, "bad-schema")
  | some (.list [.atom "membername", .atom k]) =>
    let n := k.toList
    (s, toString (Sexp.node "name" [.atom (toString (validateMemberName n)), .atom (toString (Spec.memberName n)),
      .atom (toString (MemberNames.recommendedB n))]))
  | some (.list (.atom "inject" :: sts)) =>
    match sts.mapM parseST with
    | some l =>
      let es : List Err := l.map (fun st => ⟨st⟩)
      (s, toString (Sexp.node "out" [writtenSexp (serveResponse { doc := { errors := es } }),
        Sexp.ofNat (if es.isEmpty then 200 else Spec.firstErrorStatus es)]))
    | none => (s, "bad-op")
  | some x =>
    match parseReq x with
    | some r =>
      (s, toString (Sexp.node "out" [writtenSexp (serveHTTP s r), Sexp.ofNat (Spec.refStatus s r)]))
    | none => (s, "bad-op")
  | none => (s, "bad-op")

end ApiFu.C19.Driver

def main : IO Unit := ApiFu.lineLoop ApiFu.C19.Driver.handle []
