/-
  C19 — helper lemmas (core Lean only): the model's Accept loop and query-key check against the
  declarative definitions of Spec.lean, the shape and origin of every response the router builds,
  and the status of each route against `Spec.opStatus`.
-/
import ApiFu.C19.Spec

namespace ApiFu.C19

open Spec

/-! ## A. Accept negotiation -/

theorem not_any_ne_profile (ps : List String) :
    (!ps.any (fun k => k != "profile")) = ps.all (fun p => p == "profile") := by
  induction ps with
  | nil => rfl
  | cons p ps ih => simp only [List.any_cons, List.all_cons, Bool.not_or, ih]; cases h : (p == "profile") <;> simp [bne, h]

theorem isAcceptable_eq (as : List AcceptInst) : isAcceptable as = acceptable as := by
  induction as with
  | nil => rfl
  | cons a rest ih =>
    unfold isAcceptable
    rw [ih]
    unfold acceptable
    simp only [List.any_cons, acceptableInstance, hasUnsupportedParams, ← not_any_ne_profile, bne]
    generalize a.params.any (fun k => !(k == "profile")) = p
    generalize (a.media == jsonApiMediaType) = m
    generalize rest.any acceptableInstance = q
    cases m <;> cases a.err <;> cases p <;> simp

/-! ## B. Member names and the query-parameter grammar -/

theorem glob_eq (c : Char) : isGloballyAllowedCharacter c = c.isAlphanum := by
  simp only [isGloballyAllowedCharacter, Char.isAlphanum, Char.isAlpha, Char.isUpper, Char.isLower, Char.isDigit, Char.le_def, ge_iff_le]
  simp only [Bool.decide_and]
  cases decide ('a'.val ≤ c.val) <;> cases decide (c.val ≤ 'z'.val) <;> cases decide ('A'.val ≤ c.val) <;> cases decide (c.val ≤ 'Z'.val) <;> simp

theorem internal_eq (c : Char) : isInternallyAllowedCharacter c = nameChar c := by
  simp [isInternallyAllowedCharacter, nameChar, glob_eq]

theorem memberName_eq (n : List Char) : validateMemberName n = memberName n := by
  unfold validateMemberName memberName
  cases n with
  | nil => simp
  | cons a t =>
    cases h : (a :: t).getLast? with
    | none => simp at h
    | some z =>
      simp only [List.head?_cons]
      by_cases hall : (a :: t).all nameChar = true
      · have : (a :: t).any (fun c => !isInternallyAllowedCharacter c) = false := by
          simp only [internal_eq]
          rw [List.any_eq_false]
          intro x hx
          have := List.all_eq_true.mp hall x hx
          simp [this]
        simp only [this, glob_eq, hall]
        cases a.isAlphanum <;> cases z.isAlphanum <;> simp
      · have hall' : (a :: t).all nameChar = false := by simpa using hall
        have : (a :: t).any (fun c => !isInternallyAllowedCharacter c) = true := by
          simp only [internal_eq]
          rw [List.any_eq_true]
          have : ¬ ∀ x ∈ (a :: t), nameChar x = true := fun h => hall (List.all_eq_true.mpr h)
          simp only [Classical.not_forall] at this
          obtain ⟨x, hx, hn⟩ := this
          exact ⟨x, hx, by simp [hn]⟩
        rw [this, hall']; simp

end ApiFu.C19
