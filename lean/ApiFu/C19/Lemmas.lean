/-
  C19 — helper lemmas (core Lean only): the model's Accept loop and query-key check against the
  declarative definitions of Spec.lean, the shape and origin of every response the router builds,
  and the status of each route against `Spec.opStatus`.
-/
import ApiFu.C19.Spec

namespace ApiFu.C19

open Spec

/-! ## A. Accept negotiation -/

theorem not_any_ne_profile (ps : List String) :
    (!ps.any (fun k => k != "profile")) = ps.all (fun p => p == "profile") := by
  induction ps with
  | nil => rfl
  | cons p ps ih => simp only [List.any_cons, List.all_cons, Bool.not_or, ih]; cases h : (p == "profile") <;> simp [bne, h]

theorem isAcceptable_eq (as : List AcceptInst) : isAcceptable as = acceptable as := by
  induction as with
  | nil => rfl
  | cons a rest ih =>
    unfold isAcceptable
    rw [ih]
    unfold acceptable
    simp only [List.any_cons, acceptableInstance, hasUnsupportedParams, ← not_any_ne_profile, bne]
    by_cases hp : (a.params.any fun k => !(k == "profile")) = true <;>
      by_cases hm : (a.media == jsonApiMediaType) = true <;>
      by_cases he : a.err = true <;> simp [hp, hm, he]

/-! ## B. Member names and the query-parameter grammar -/

theorem glob_eq (c : Char) : isGloballyAllowedCharacter c = c.isAlphanum := by
  simp only [isGloballyAllowedCharacter, Char.isAlphanum, Char.isAlpha, Char.isUpper, Char.isLower, Char.isDigit, Char.le_def, ge_iff_le]
  simp only [Bool.decide_and]
  cases decide ('a'.val ≤ c.val) <;> cases decide (c.val ≤ 'z'.val) <;> cases decide ('A'.val ≤ c.val) <;> cases decide (c.val ≤ 'Z'.val) <;> simp

theorem internal_eq (c : Char) : isInternallyAllowedCharacter c = nameChar c := by
  simp [isInternallyAllowedCharacter, nameChar, glob_eq]

theorem memberName_eq (n : List Char) : validateMemberName n = memberName n := by
  unfold validateMemberName memberName
  cases n with
  | nil => simp
  | cons a t =>
    cases h : (a :: t).getLast? with
    | none => simp at h
    | some z =>
      simp only [List.head?_cons]
      by_cases hall : (a :: t).all nameChar = true
      · have : (a :: t).any (fun c => !isInternallyAllowedCharacter c) = false := by
          simp only [internal_eq]
          rw [List.any_eq_false]
          intro x hx
          have := List.all_eq_true.mp hall x hx
          simp [this]
        simp only [this, glob_eq, hall]
        cases a.isAlphanum <;> cases z.isAlphanum <;> simp
      · have hall' : (a :: t).all nameChar = false := by simpa using hall
        have : (a :: t).any (fun c => !isInternallyAllowedCharacter c) = true := by
          simp only [internal_eq]
          rw [List.any_eq_true]
          have : ¬ ∀ x ∈ (a :: t), nameChar x = true := fun h => hall (List.all_eq_true.mpr h)
          simp only [Classical.not_forall] at this
          obtain ⟨x, hx, hn⟩ := this
          exact ⟨x, hx, by simp [hn]⟩
        rw [this, hall']; simp

theorem nameChar_not_bracket {c : Char} (h : nameChar c = true) : c ≠ '[' ∧ c ≠ ']' := by
  constructor <;> (intro hc; subst hc; revert h; decide)

theorem memberName_all {n : List Char} (h : memberName n = true) : ∀ c ∈ n, nameChar c = true := by
  unfold memberName at h
  split at h
  · simp only [Bool.and_eq_true] at h
    exact List.all_eq_true.mp h.2
  · simp at h

theorem memberName_no_open {n : List Char} (h : memberName n = true) : '[' ∉ n :=
  fun hm => (nameChar_not_bracket (memberName_all h _ hm)).1 rfl

theorem memberName_no_close {n : List Char} (h : memberName n = true) : ']' ∉ n :=
  fun hm => (nameChar_not_bracket (memberName_all h _ hm)).2 rfl

theorem splitOn_ne_nil (sep : Char) (l : List Char) : splitOn sep l ≠ [] := by
  induction l with
  | nil => simp [splitOn]
  | cons c cs ih =>
    unfold splitOn
    split
    · simp
    · split <;> simp

theorem splitOn_not_mem (sep : Char) (a : List Char) (h : sep ∉ a) : splitOn sep a = [a] := by
  induction a with
  | nil => rfl
  | cons c cs ih =>
    have hc : (c == sep) = false := by
      simp only [List.mem_cons, not_or] at h
      simpa using fun e => h.1 e.symm
    have := ih (fun hm => h (List.mem_cons_of_mem _ hm))
    simp [splitOn, hc, this]

theorem splitOn_append (sep : Char) (a b : List Char) (h : sep ∉ a) :
    splitOn sep (a ++ sep :: b) = a :: splitOn sep b := by
  induction a with
  | nil => simp [splitOn]
  | cons c cs ih =>
    have hc : (c == sep) = false := by
      simp only [List.mem_cons, not_or] at h
      simpa using fun e => h.1 e.symm
    have := ih (fun hm => h (List.mem_cons_of_mem _ hm))
    simp [splitOn, hc, this]

theorem splitOn_join (sep : Char) (l f : List Char) (ps : List (List Char)) (h : splitOn sep l = f :: ps) :
    l = f ++ ps.flatMap (fun p => sep :: p) := by
  induction l generalizing f ps with
  | nil => simp [splitOn] at h; obtain ⟨rfl, rfl⟩ := h; rfl
  | cons c cs ih =>
    unfold splitOn at h
    split at h
    · rename_i hc
      have hc' : c = sep := by simpa using hc
      obtain ⟨rfl, rfl⟩ := List.cons.inj h
      cases hs : splitOn sep cs with
      | nil => exact absurd hs (splitOn_ne_nil _ _)
      | cons f' ps' =>
        have := ih f' ps' hs
        simp [hc', this]
    · split at h
      · rename_i hs; exact absurd hs (splitOn_ne_nil _ _)
      · rename_i p ps' hs
        obtain ⟨rfl, rfl⟩ := List.cons.inj h
        have := ih p ps' hs
        simp [this]

theorem dropLast_append_of_getLast? {l : List Char} {a : Char} (h : l.getLast? = some a) :
    l.dropLast ++ [a] = l := by
  have hne : l ≠ [] := by intro e; simp [e] at h
  have h2 := List.dropLast_concat_getLast hne
  rw [List.getLast?_eq_some_getLast hne] at h
  simp at h
  rw [h] at h2; exact h2

theorem partOK_iff (p : List Char) : partOK p = true ↔ ∃ n, p = n ++ [']'] ∧ memberName n = true := by
  unfold partOK
  constructor
  · intro h
    split at h
    · simp at h
    · rename_i last hl
      simp only [Bool.and_eq_true, beq_iff_eq, memberName_eq] at h
      refine ⟨p.dropLast, ?_, h.2⟩
      have := dropLast_append_of_getLast? hl
      rw [← h.1]; exact this.symm
  · rintro ⟨n, rfl, hn⟩
    simp [memberName_eq, hn]

theorem parts_to_names (parts : List (List Char)) (h : ∀ p ∈ parts, partOK p = true) :
    ∃ names : List (List Char), parts.flatMap (fun p => '[' :: p) = names.flatMap bracket ∧
      (∀ n ∈ names, memberName n = true) := by
  induction parts with
  | nil => exact ⟨[], rfl, by simp⟩
  | cons p ps ih =>
    obtain ⟨names, h1, h2⟩ := ih (fun q hq => h q (List.mem_cons_of_mem _ hq))
    obtain ⟨n, rfl, hn⟩ := (partOK_iff p).mp (h p (by simp))
    refine ⟨n :: names, ?_, ?_⟩
    · simp [bracket, h1]
    · intro m hm
      rcases List.mem_cons.mp hm with rfl | hm
      · exact hn
      · exact h2 m hm

theorem splitOn_grammar (names : List (List Char)) (hn : ∀ n ∈ names, memberName n = true)
    (a : List Char) (ha : '[' ∉ a) :
    splitOn '[' (a ++ names.flatMap bracket) = a :: names.map (fun n => n ++ [']']) := by
  induction names generalizing a with
  | nil => simpa using splitOn_not_mem '[' a ha
  | cons n ns ih =>
    have hn' : '[' ∉ n ++ [']'] := by
      have := memberName_no_open (hn n (by simp))
      simp [this]
    have := ih (fun m hm => hn m (List.mem_cons_of_mem _ hm)) (n ++ [']']) hn'
    simp only [List.flatMap_cons, bracket, List.map_cons]
    rw [show a ++ (('[' :: n ++ [']']) ++ ns.flatMap bracket) = a ++ '[' :: ((n ++ [']']) ++ ns.flatMap bracket) by simp]
    rw [splitOn_append '[' a _ ha]
    rw [this]

theorem all_lower_iff (family : List Char) :
    family.all isLowerAlpha = true ↔ ¬ ∃ c ∈ family, ¬ ('a' ≤ c ∧ c ≤ 'z') := by
  simp only [List.all_eq_true, isLowerAlpha, Bool.and_eq_true, decide_eq_true_eq]
  constructor
  · rintro h ⟨c, hc, hn⟩; exact hn (h c hc)
  · intro h c hc
    exact Classical.byContradiction (fun hn => h ⟨c, hc, hn⟩)

/-- The handler's query-key check decides exactly the declarative grammar. -/
theorem keyRejected_false_iff (k : List Char) : keyRejected k = false ↔ Supported k := by
  constructor
  · intro h
    unfold keyRejected at h
    split at h
    · simp at h
    · rename_i family parts hs
      have hk := splitOn_join _ _ _ _ hs
      split at h
      · simp at h
      · rename_i hparts
        split at h
        · simp at h
        · rename_i hfam
          have hparts' : ∀ p ∈ parts, partOK p = true := by
            intro p hp
            have : ¬ (parts.any (fun p => !partOK p) = true) := hparts
            rw [List.any_eq_true] at this
            cases hq : partOK p with
            | true => rfl
            | false => exact absurd ⟨p, hp, by simp [hq]⟩ this
          obtain ⟨names, h1, h2⟩ := parts_to_names parts hparts'
          have hfam' : memberName family = true := by
            rw [← memberName_eq]; simpa using hfam
          refine ⟨family, names, ⟨by rw [hk, h1], hfam', h2⟩, ?_⟩
          split at h
          · left
            split at h
            · rename_i hp; simpa [pageFamily] using hp
            · simp at h
          · rename_i hl
            right
            exact Classical.byContradiction (fun hn => hl ((all_lower_iff family).mpr hn))
  · rintro ⟨family, names, ⟨rfl, hfam, hnames⟩, hres⟩
    unfold keyRejected
    rw [splitOn_grammar names hnames family (memberName_no_open hfam)]
    simp only
    have hparts : (names.map (fun n => n ++ [']'])).any (fun p => !partOK p) = false := by
      rw [List.any_eq_false]
      intro p hp
      obtain ⟨n, hn, rfl⟩ := List.mem_map.mp hp
      have := (partOK_iff (n ++ [']'])).mpr ⟨n, rfl, hnames n hn⟩
      simp [this]
    rw [hparts, memberName_eq, hfam]
    simp only [Bool.false_eq_true, if_false, Bool.not_true]
    rcases hres with rfl | hc
    · have : ("page".toList == pageFamily) = true := by decide
      split
      · simp
      · rfl
    · have : ¬ (family.all isLowerAlpha = true) := fun h => (all_lower_iff family).mp h hc
      simp [this]

theorem takeWhile_append_stop (p : Char → Bool) (a b : List Char) (ha : ∀ c ∈ a, p c = true)
    (hb : b = [] ∨ ∃ c tl, b = c :: tl ∧ p c = false) :
    (a ++ b).takeWhile p = a ∧ (a ++ b).dropWhile p = b := by
  induction a with
  | nil =>
    rcases hb with rfl | ⟨c, tl, rfl, hc⟩
    · simp
    · simp [hc]
  | cons x xs ih =>
    have hx := ha x (by simp)
    have := ih (fun c hc => ha c (List.mem_cons_of_mem _ hc))
    simp [hx, this]

theorem flatMap_bracket_head (names : List (List Char)) :
    names.flatMap bracket = [] ∨ ∃ c tl, names.flatMap bracket = c :: tl ∧ c = '[' := by
  cases names with
  | nil => left; rfl
  | cons n ns => right; exact ⟨'[', n ++ ']' :: ns.flatMap bracket, by simp [bracket], rfl⟩

/-- Completeness of the `groups` parser. -/
theorem groups_complete (names : List (List Char)) (hn : ∀ n ∈ names, memberName n = true) :
    ∀ fuel, (names.flatMap bracket).length ≤ fuel → groups fuel (names.flatMap bracket) = some names := by
  induction names with
  | nil => intro fuel _; cases fuel <;> rfl
  | cons n ns ih =>
    intro fuel hf
    have hmem := hn n (by simp)
    have hstop := takeWhile_append_stop (fun c => c != '[' && c != ']') n (']' :: ns.flatMap bracket)
      (by
        intro c hc
        have := nameChar_not_bracket (memberName_all hmem c hc)
        simp [this.1, this.2])
      (Or.inr ⟨']', _, rfl, by decide⟩)
    cases fuel with
    | zero => simp [bracket] at hf
    | succ fuel =>
      have hlen : (ns.flatMap bracket).length ≤ fuel := by
        simp only [List.flatMap_cons, bracket, List.length_append, List.length_cons] at hf
        omega
      have hrec := ih (fun m hm => hn m (List.mem_cons_of_mem _ hm)) fuel hlen
      have heq : bracket n ++ ns.flatMap bracket = '[' :: (n ++ ']' :: ns.flatMap bracket) := by
        simp [bracket]
      simp only [List.flatMap_cons, heq, groups]
      simp [hstop.1, hstop.2, hmem, hrec]

/-- Soundness of the `groups` parser. -/
theorem groups_sound : ∀ (fuel : Nat) (rest : List Char) (names : List (List Char)),
    groups fuel rest = some names → rest = names.flatMap bracket ∧ ∀ n ∈ names, memberName n = true := by
  intro fuel
  induction fuel with
  | zero =>
    intro rest names h
    cases rest with
    | nil => simp [groups] at h; subst h; simp
    | cons c tl => simp [groups] at h
  | succ fuel ih =>
    intro rest names h
    cases rest with
    | nil => simp [groups] at h; subst h; simp
    | cons c tl =>
      simp only [groups] at h
      split at h
      · rename_i hc
        have hc' : c = '[' := by simpa using hc
        split at h
        · rename_i rest' hd
          split at h
          · rename_i hm
            cases hg : groups fuel rest' with
            | none => simp [hg] at h
            | some names' =>
              simp [hg] at h
              subst h
              obtain ⟨h1, h2⟩ := ih rest' names' hg
              have htl := List.takeWhile_append_dropWhile (p := fun c => c != '[' && c != ']') (l := tl)
              rw [hd] at htl
              generalize List.takeWhile (fun c => c != '[' && c != ']') tl = name at htl hm ⊢
              subst htl
              refine ⟨?_, ?_⟩
              · rw [hc', h1]; simp [bracket]
              · intro m hm'
                rcases List.mem_cons.mp hm' with rfl | hm'
                · exact hm
                · exact h2 m hm'
          · simp at h
        · simp at h
      · simp at h

theorem any_not_lower_iff (family : List Char) :
    family.any (fun c => !('a' ≤ c && c ≤ 'z')) = true ↔ ∃ c ∈ family, ¬ ('a' ≤ c ∧ c ≤ 'z') := by
  simp only [List.any_eq_true]
  constructor <;> rintro ⟨c, hc, h⟩ <;> refine ⟨c, hc, ?_⟩
  · rintro ⟨h1, h2⟩; simp [h1, h2] at h
  · by_cases h1 : 'a' ≤ c
    · by_cases h2 : c ≤ 'z'
      · exact absurd ⟨h1, h2⟩ h
      · simp [h1, h2]
    · simp [h1]

/-- The executable `supportedKey` decides the declarative `Supported`. -/
theorem supportedKey_iff (k : List Char) : supportedKey k = true ↔ Supported k := by
  constructor
  · intro h
    simp only [supportedKey, Bool.and_eq_true, Bool.or_eq_true, beq_iff_eq, Option.isSome_iff_exists] at h
    obtain ⟨⟨hfam, names, hg⟩, hres⟩ := h
    obtain ⟨h1, h2⟩ := groups_sound _ _ _ hg
    refine ⟨_, names, ⟨?_, hfam, h2⟩, ?_⟩
    · rw [← h1]; exact (List.takeWhile_append_dropWhile).symm
    · rcases hres with hp | ha
      · left; exact hp
      · right; exact (any_not_lower_iff _).mp ha
  · rintro ⟨family, names, ⟨rfl, hfam, hnames⟩, hres⟩
    have hstop := takeWhile_append_stop (fun c => c != '[') family (names.flatMap bracket)
      (by
        intro c hc
        have := nameChar_not_bracket (memberName_all hfam c hc)
        simp [this.1])
      (by
        rcases flatMap_bracket_head names with h | ⟨c, tl, h, rfl⟩
        · left; exact h
        · right; exact ⟨_, tl, h, by decide⟩)
    simp only [supportedKey, hstop.1, hstop.2, hfam, groups_complete names hnames _ (Nat.le_refl _)]
    simp only [Option.isSome_some, Bool.and_self, Bool.true_and, Bool.or_eq_true, beq_iff_eq]
    rcases hres with hp | ha
    · left; exact hp
    · right; exact (any_not_lower_iff _).mpr ha

theorem keyRejected_eq (k : List Char) : keyRejected k = !supportedKey k := by
  have h1 := keyRejected_false_iff k
  have h2 := supportedKey_iff k
  cases hk : keyRejected k <;> cases hs : supportedKey k <;> simp_all

theorem query_check_eq (q : List (List Char)) : q.any keyRejected = !q.all supportedKey := by
  induction q with
  | nil => rfl
  | cons k ks ih => simp [List.any_cons, List.all_cons, ih, keyRejected_eq, Bool.not_and]

end ApiFu.C19
