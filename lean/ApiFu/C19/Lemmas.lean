/-
  C19 — helper lemmas (core Lean only): the model's Accept loop and query-key check against the
  declarative definitions of Spec.lean, the shape and origin of every response the router builds,
  and the status of each route against `Spec.opStatus`.
-/
import ApiFu.C19.Spec

namespace ApiFu.C19

open Spec

/-! ## A. Accept negotiation -/

theorem not_any_ne_profile (ps : List String) :
    (!ps.any (fun k => k != "profile")) = ps.all (fun p => p == "profile") := by
  induction ps with
  | nil => rfl
  | cons p ps ih => simp only [List.any_cons, List.all_cons, Bool.not_or, ih]; cases h : (p == "profile") <;> simp [bne, h]

theorem isAcceptable_eq (as : List AcceptInst) : isAcceptable as = acceptable as := by
  induction as with
  | nil => rfl
  | cons a rest ih =>
    unfold isAcceptable
    rw [ih]
    unfold acceptable
    simp only [List.any_cons, acceptableInstance, hasUnsupportedParams, ← not_any_ne_profile, bne]
    by_cases hp : (a.params.any fun k => !(k == "profile")) = true <;>
      by_cases hm : (a.media == jsonApiMediaType) = true <;>
      by_cases he : a.err = true <;> simp [hp, hm, he]

/-! ## B. Member names and the query-parameter grammar -/

theorem glob_eq (c : Char) : isGloballyAllowedCharacter c = c.isAlphanum := by
  simp only [isGloballyAllowedCharacter, Char.isAlphanum, Char.isAlpha, Char.isUpper, Char.isLower, Char.isDigit, Char.le_def, ge_iff_le]
  simp only [Bool.decide_and]
  cases decide ('a'.val ≤ c.val) <;> cases decide (c.val ≤ 'z'.val) <;> cases decide ('A'.val ≤ c.val) <;> cases decide (c.val ≤ 'Z'.val) <;> simp

theorem internal_eq (c : Char) : isInternallyAllowedCharacter c = nameChar c := by
  simp [isInternallyAllowedCharacter, nameChar, glob_eq]

theorem memberName_eq (n : List Char) : validateMemberName n = memberName n := by
  unfold validateMemberName memberName
  cases n with
  | nil => simp
  | cons a t =>
    cases h : (a :: t).getLast? with
    | none => simp at h
    | some z =>
      simp only [List.head?_cons]
      by_cases hall : (a :: t).all nameChar = true
      · have : (a :: t).any (fun c => !isInternallyAllowedCharacter c) = false := by
          simp only [internal_eq]
          rw [List.any_eq_false]
          intro x hx
          have := List.all_eq_true.mp hall x hx
          simp [this]
        simp only [this, glob_eq, hall]
        cases a.isAlphanum <;> cases z.isAlphanum <;> simp
      · have hall' : (a :: t).all nameChar = false := by simpa using hall
        have : (a :: t).any (fun c => !isInternallyAllowedCharacter c) = true := by
          simp only [internal_eq]
          rw [List.any_eq_true]
          have : ¬ ∀ x ∈ (a :: t), nameChar x = true := fun h => hall (List.all_eq_true.mpr h)
          simp only [Classical.not_forall] at this
          obtain ⟨x, hx, hn⟩ := this
          exact ⟨x, hx, by simp [hn]⟩
        rw [this, hall']; simp

theorem nameChar_not_bracket {c : Char} (h : nameChar c = true) : c ≠ '[' ∧ c ≠ ']' := by
  constructor <;> (intro hc; subst hc; revert h; decide)

theorem memberName_all {n : List Char} (h : memberName n = true) : ∀ c ∈ n, nameChar c = true := by
  unfold memberName at h
  split at h
  · simp only [Bool.and_eq_true] at h
    exact List.all_eq_true.mp h.2
  · simp at h

theorem memberName_no_open {n : List Char} (h : memberName n = true) : '[' ∉ n :=
  fun hm => (nameChar_not_bracket (memberName_all h _ hm)).1 rfl

theorem memberName_no_close {n : List Char} (h : memberName n = true) : ']' ∉ n :=
  fun hm => (nameChar_not_bracket (memberName_all h _ hm)).2 rfl

theorem splitOn_ne_nil (sep : Char) (l : List Char) : splitOn sep l ≠ [] := by
  induction l with
  | nil => simp [splitOn]
  | cons c cs ih =>
    unfold splitOn
    split
    · simp
    · split <;> simp

theorem splitOn_not_mem (sep : Char) (a : List Char) (h : sep ∉ a) : splitOn sep a = [a] := by
  induction a with
  | nil => rfl
  | cons c cs ih =>
    have hc : (c == sep) = false := by
      simp only [List.mem_cons, not_or] at h
      simpa using fun e => h.1 e.symm
    have := ih (fun hm => h (List.mem_cons_of_mem _ hm))
    simp [splitOn, hc, this]

theorem splitOn_append (sep : Char) (a b : List Char) (h : sep ∉ a) :
    splitOn sep (a ++ sep :: b) = a :: splitOn sep b := by
  induction a with
  | nil => simp [splitOn]
  | cons c cs ih =>
    have hc : (c == sep) = false := by
      simp only [List.mem_cons, not_or] at h
      simpa using fun e => h.1 e.symm
    have := ih (fun hm => h (List.mem_cons_of_mem _ hm))
    simp [splitOn, hc, this]

theorem splitOn_join (sep : Char) (l f : List Char) (ps : List (List Char)) (h : splitOn sep l = f :: ps) :
    l = f ++ ps.flatMap (fun p => sep :: p) := by
  induction l generalizing f ps with
  | nil => simp [splitOn] at h; obtain ⟨rfl, rfl⟩ := h; rfl
  | cons c cs ih =>
    unfold splitOn at h
    split at h
    · rename_i hc
      have hc' : c = sep := by simpa using hc
      obtain ⟨rfl, rfl⟩ := List.cons.inj h
      cases hs : splitOn sep cs with
      | nil => exact absurd hs (splitOn_ne_nil _ _)
      | cons f' ps' =>
        have := ih f' ps' hs
        simp [hc', this]
    · split at h
      · rename_i hs; exact absurd hs (splitOn_ne_nil _ _)
      · rename_i p ps' hs
        obtain ⟨rfl, rfl⟩ := List.cons.inj h
        have := ih p ps' hs
        simp [this]

theorem dropLast_append_of_getLast? {l : List Char} {a : Char} (h : l.getLast? = some a) :
    l.dropLast ++ [a] = l := by
  have hne : l ≠ [] := by intro e; simp [e] at h
  have h2 := List.dropLast_concat_getLast hne
  rw [List.getLast?_eq_some_getLast hne] at h
  simp at h
  rw [h] at h2; exact h2

theorem partOK_iff (p : List Char) : partOK p = true ↔ ∃ n, p = n ++ [']'] ∧ memberName n = true := by
  unfold partOK
  constructor
  · intro h
    split at h
    · simp at h
    · rename_i last hl
      simp only [Bool.and_eq_true, beq_iff_eq, memberName_eq] at h
      refine ⟨p.dropLast, ?_, h.2⟩
      have := dropLast_append_of_getLast? hl
      rw [← h.1]; exact this.symm
  · rintro ⟨n, rfl, hn⟩
    simp [memberName_eq, hn]

theorem parts_to_names (parts : List (List Char)) (h : ∀ p ∈ parts, partOK p = true) :
    ∃ names : List (List Char), parts.flatMap (fun p => '[' :: p) = names.flatMap bracket ∧
      (∀ n ∈ names, memberName n = true) := by
  induction parts with
  | nil => exact ⟨[], rfl, by simp⟩
  | cons p ps ih =>
    obtain ⟨names, h1, h2⟩ := ih (fun q hq => h q (List.mem_cons_of_mem _ hq))
    obtain ⟨n, rfl, hn⟩ := (partOK_iff p).mp (h p (by simp))
    refine ⟨n :: names, ?_, ?_⟩
    · simp [bracket, h1]
    · intro m hm
      rcases List.mem_cons.mp hm with rfl | hm
      · exact hn
      · exact h2 m hm

theorem splitOn_grammar (names : List (List Char)) (hn : ∀ n ∈ names, memberName n = true)
    (a : List Char) (ha : '[' ∉ a) :
    splitOn '[' (a ++ names.flatMap bracket) = a :: names.map (fun n => n ++ [']']) := by
  induction names generalizing a with
  | nil => simpa using splitOn_not_mem '[' a ha
  | cons n ns ih =>
    have hn' : '[' ∉ n ++ [']'] := by
      have := memberName_no_open (hn n (by simp))
      simp [this]
    have := ih (fun m hm => hn m (List.mem_cons_of_mem _ hm)) (n ++ [']']) hn'
    simp only [List.flatMap_cons, bracket, List.map_cons]
    rw [show a ++ (('[' :: n ++ [']']) ++ ns.flatMap bracket) = a ++ '[' :: ((n ++ [']']) ++ ns.flatMap bracket) by simp]
    rw [splitOn_append '[' a _ ha]
    rw [this]

theorem all_lower_iff (family : List Char) :
    family.all isLowerAlpha = true ↔ ¬ ∃ c ∈ family, ¬ ('a' ≤ c ∧ c ≤ 'z') := by
  simp only [List.all_eq_true, isLowerAlpha, Bool.and_eq_true, decide_eq_true_eq]
  constructor
  · rintro h ⟨c, hc, hn⟩; exact hn (h c hc)
  · intro h c hc
    exact Classical.byContradiction (fun hn => h ⟨c, hc, hn⟩)

/-- The handler's query-key check decides exactly the declarative grammar. -/
theorem keyRejected_false_iff (k : List Char) : keyRejected k = false ↔ Supported k := by
  constructor
  · intro h
    unfold keyRejected at h
    split at h
    · simp at h
    · rename_i family parts hs
      have hk := splitOn_join _ _ _ _ hs
      split at h
      · simp at h
      · rename_i hparts
        split at h
        · simp at h
        · rename_i hfam
          have hparts' : ∀ p ∈ parts, partOK p = true := by
            intro p hp
            have : ¬ (parts.any (fun p => !partOK p) = true) := hparts
            rw [List.any_eq_true] at this
            cases hq : partOK p with
            | true => rfl
            | false => exact absurd ⟨p, hp, by simp [hq]⟩ this
          obtain ⟨names, h1, h2⟩ := parts_to_names parts hparts'
          have hfam' : memberName family = true := by
            rw [← memberName_eq]; simpa using hfam
          refine ⟨family, names, ⟨by rw [hk, h1], hfam', h2⟩, ?_⟩
          split at h
          · left
            split at h
            · rename_i hp; simpa [pageFamily] using hp
            · simp at h
          · rename_i hl
            right
            exact Classical.byContradiction (fun hn => hl ((all_lower_iff family).mpr hn))
  · rintro ⟨family, names, ⟨rfl, hfam, hnames⟩, hres⟩
    unfold keyRejected
    rw [splitOn_grammar names hnames family (memberName_no_open hfam)]
    simp only
    have hparts : (names.map (fun n => n ++ [']'])).any (fun p => !partOK p) = false := by
      rw [List.any_eq_false]
      intro p hp
      obtain ⟨n, hn, rfl⟩ := List.mem_map.mp hp
      have := (partOK_iff (n ++ [']'])).mpr ⟨n, rfl, hnames n hn⟩
      simp [this]
    rw [hparts, memberName_eq, hfam]
    simp only [Bool.false_eq_true, if_false, Bool.not_true]
    rcases hres with rfl | hc
    · have : ("page".toList == pageFamily) = true := by decide
      split
      · simp
      · rfl
    · have : ¬ (family.all isLowerAlpha = true) := fun h => (all_lower_iff family).mp h hc
      simp [this]

theorem takeWhile_append_stop (p : Char → Bool) (a b : List Char) (ha : ∀ c ∈ a, p c = true)
    (hb : b = [] ∨ ∃ c tl, b = c :: tl ∧ p c = false) :
    (a ++ b).takeWhile p = a ∧ (a ++ b).dropWhile p = b := by
  induction a with
  | nil =>
    rcases hb with rfl | ⟨c, tl, rfl, hc⟩
    · simp
    · simp [hc]
  | cons x xs ih =>
    have hx := ha x (by simp)
    have := ih (fun c hc => ha c (List.mem_cons_of_mem _ hc))
    simp [hx, this]

theorem flatMap_bracket_head (names : List (List Char)) :
    names.flatMap bracket = [] ∨ ∃ c tl, names.flatMap bracket = c :: tl ∧ c = '[' := by
  cases names with
  | nil => left; rfl
  | cons n ns => right; exact ⟨'[', n ++ ']' :: ns.flatMap bracket, by simp [bracket], rfl⟩

/-- Completeness of the `groups` parser. -/
theorem groups_complete (names : List (List Char)) (hn : ∀ n ∈ names, memberName n = true) :
    ∀ fuel, (names.flatMap bracket).length ≤ fuel → groups fuel (names.flatMap bracket) = some names := by
  induction names with
  | nil => intro fuel _; cases fuel <;> rfl
  | cons n ns ih =>
    intro fuel hf
    have hmem := hn n (by simp)
    have hstop := takeWhile_append_stop (fun c => c != '[' && c != ']') n (']' :: ns.flatMap bracket)
      (by
        intro c hc
        have := nameChar_not_bracket (memberName_all hmem c hc)
        simp [this.1, this.2])
      (Or.inr ⟨']', _, rfl, by decide⟩)
    cases fuel with
    | zero => simp [bracket] at hf
    | succ fuel =>
      have hlen : (ns.flatMap bracket).length ≤ fuel := by
        simp only [List.flatMap_cons, bracket, List.length_append, List.length_cons] at hf
        omega
      have hrec := ih (fun m hm => hn m (List.mem_cons_of_mem _ hm)) fuel hlen
      have heq : bracket n ++ ns.flatMap bracket = '[' :: (n ++ ']' :: ns.flatMap bracket) := by
        simp [bracket]
      simp only [List.flatMap_cons, heq, groups]
      simp [hstop.1, hstop.2, hmem, hrec]

/-- Soundness of the `groups` parser. -/
theorem groups_sound : ∀ (fuel : Nat) (rest : List Char) (names : List (List Char)),
    groups fuel rest = some names → rest = names.flatMap bracket ∧ ∀ n ∈ names, memberName n = true := by
  intro fuel
  induction fuel with
  | zero =>
    intro rest names h
    cases rest with
    | nil => simp [groups] at h; subst h; simp
    | cons c tl => simp [groups] at h
  | succ fuel ih =>
    intro rest names h
    cases rest with
    | nil => simp [groups] at h; subst h; simp
    | cons c tl =>
      simp only [groups] at h
      split at h
      · rename_i hc
        have hc' : c = '[' := by simpa using hc
        split at h
        · rename_i rest' hd
          split at h
          · rename_i hm
            cases hg : groups fuel rest' with
            | none => simp [hg] at h
            | some names' =>
              simp [hg] at h
              subst h
              obtain ⟨h1, h2⟩ := ih rest' names' hg
              have htl := List.takeWhile_append_dropWhile (p := fun c => c != '[' && c != ']') (l := tl)
              rw [hd] at htl
              generalize List.takeWhile (fun c => c != '[' && c != ']') tl = name at htl hm ⊢
              subst htl
              refine ⟨?_, ?_⟩
              · rw [hc', h1]; simp [bracket]
              · intro m hm'
                rcases List.mem_cons.mp hm' with rfl | hm'
                · exact hm
                · exact h2 m hm'
          · simp at h
        · simp at h
      · simp at h

theorem any_not_lower_iff (family : List Char) :
    family.any (fun c => !('a' ≤ c && c ≤ 'z')) = true ↔ ∃ c ∈ family, ¬ ('a' ≤ c ∧ c ≤ 'z') := by
  simp only [List.any_eq_true]
  constructor <;> rintro ⟨c, hc, h⟩ <;> refine ⟨c, hc, ?_⟩
  · rintro ⟨h1, h2⟩; simp [h1, h2] at h
  · by_cases h1 : 'a' ≤ c
    · by_cases h2 : c ≤ 'z'
      · exact absurd ⟨h1, h2⟩ h
      · simp [h1, h2]
    · simp [h1]

/-- The executable `supportedKey` decides the declarative `Supported`. -/
theorem supportedKey_iff (k : List Char) : supportedKey k = true ↔ Supported k := by
  constructor
  · intro h
    simp only [supportedKey, Bool.and_eq_true, Bool.or_eq_true, beq_iff_eq, Option.isSome_iff_exists] at h
    obtain ⟨⟨hfam, names, hg⟩, hres⟩ := h
    obtain ⟨h1, h2⟩ := groups_sound _ _ _ hg
    refine ⟨_, names, ⟨?_, hfam, h2⟩, ?_⟩
    · rw [← h1]; exact (List.takeWhile_append_dropWhile).symm
    · rcases hres with hp | ha
      · left; exact hp
      · right; exact (any_not_lower_iff _).mp ha
  · rintro ⟨family, names, ⟨rfl, hfam, hnames⟩, hres⟩
    have hstop := takeWhile_append_stop (fun c => c != '[') family (names.flatMap bracket)
      (by
        intro c hc
        have := nameChar_not_bracket (memberName_all hfam c hc)
        simp [this.1])
      (by
        rcases flatMap_bracket_head names with h | ⟨c, tl, h, rfl⟩
        · left; exact h
        · right; exact ⟨_, tl, h, by decide⟩)
    simp only [supportedKey, hstop.1, hstop.2, hfam, groups_complete names hnames _ (Nat.le_refl _)]
    simp only [Option.isSome_some, Bool.and_self, Bool.true_and, Bool.or_eq_true, beq_iff_eq]
    rcases hres with hp | ha
    · left; exact hp
    · right; exact (any_not_lower_iff _).mpr ha

theorem keyRejected_eq (k : List Char) : keyRejected k = !supportedKey k := by
  have h1 := keyRejected_false_iff k
  have h2 := supportedKey_iff k
  cases hk : keyRejected k <;> cases hs : supportedKey k <;> simp_all

theorem query_check_eq (q : List (List Char)) : q.any keyRejected = !q.all supportedKey := by
  induction q with
  | nil => rfl
  | cons k ks ih => simp [List.any_cons, List.all_cons, ih, keyRejected_eq, Bool.not_and]

/-! ## C. `complete` -/

/-- The standard links of relationship `name` of resource `id`. -/
def stdLinks (id : RId) (name : String) : Links :=
  [("self", "/" ++ id.type ++ "/" ++ id.id ++ "/relationships/" ++ name),
   ("related", "/" ++ id.type ++ "/" ++ id.id ++ "/" ++ name)]

theorem resolveRelationship_links (d : RelDef) (b : Bool) (rel : Relationship)
    (h : resolveRelationship d b = .ok rel) : rel.links = [] := by
  unfold resolveRelationship at h
  split at h <;> (split at h) <;> (try split at h) <;> simp_all <;> (subst h; rfl)

theorem completeAttrs_spec (as : List (String × AttrOut)) :
    match as.findSome? attrError with
    | some e => completeAttrs as = .error e
    | none => ∃ l, completeAttrs as = .ok l ∧
        l.all (fun a => a.2) = !(as.any (fun a => a.2 == .unmarshalable)) := by
  induction as with
  | nil => exact ⟨[], rfl, rfl⟩
  | cons a rest ih =>
    obtain ⟨name, out⟩ := a
    cases out with
    | error e => simp [List.findSome?_cons, attrError, completeAttrs]
    | value =>
      simp only [List.findSome?_cons, attrError, completeAttrs]
      split at ih
      · rename_i e he; simp [he, ih, Except.map]
      · rename_i he
        obtain ⟨l, hl, hall⟩ := ih
        simp [he, hl, Except.map, hall]
    | unmarshalable =>
      simp only [List.findSome?_cons, attrError, completeAttrs]
      split at ih
      · rename_i e he; simp [he, ih, Except.map]
      · rename_i he
        obtain ⟨l, hl, hall⟩ := ih
        simp [he, hl, Except.map]

theorem resolve_default_error (d : RelDef) (name : String) :
    match defaultRelError (name, d) with
    | some e => resolveRelationship d false = .error e
    | none => ∃ rel, resolveRelationship d false = .ok rel := by
  cases d with
  | toOne b out => cases b <;> cases out <;> simp [defaultRelError, resolveRelationship]
  | toMany b out a r => cases b <;> cases out <;> simp [defaultRelError, resolveRelationship]

theorem completeRels_spec (id : RId) (rels : List (String × RelDef)) :
    match rels.findSome? defaultRelError with
    | some e => completeRels id rels = .error e
    | none => ∃ l, completeRels id rels = .ok l ∧
        ∀ p ∈ l, p.2.links = stdLinks id p.1 := by
  induction rels with
  | nil => exact ⟨[], rfl, by simp⟩
  | cons a rest ih =>
    obtain ⟨name, d⟩ := a
    have hd := resolve_default_error d name
    simp only [List.findSome?_cons, completeRels]
    split at hd
    · rename_i e he; simp [he, hd]
    · rename_i he
      obtain ⟨rel, hrel⟩ := hd
      have hl := resolveRelationship_links d false rel hrel
      simp only [he, hrel]
      split at ih
      · rename_i e he'; simp [he', ih, Except.map]
      · rename_i he'
        obtain ⟨l, hl', hall⟩ := ih
        simp only [he']
        refine ⟨(name, addStandardRelationshipLinks id name rel) :: l, by simp [hl', Except.map], ?_⟩
        intro p hp
        rcases List.mem_cons.mp hp with rfl | hp
        · simp [addStandardRelationshipLinks, stdLinks, hl]
        · exact hall p hp

/-- What `complete` yields, in terms of the specification's `completionError`. -/
theorem complete_spec (t : TypeDef) (id : RId) :
    match completionError t with
    | some e => t.complete id = .error e
    | none => ∃ res, t.complete id = .ok (some res) ∧ res.type = id.type ∧ res.id = id.id ∧
        res.marshalable = !hasUnmarshalable t ∧ ∀ p ∈ res.rels, p.2.links = stdLinks id p.1 := by
  have ha := completeAttrs_spec t.attrs
  have hr := completeRels_spec id t.rels
  unfold completionError TypeDef.complete
  split at ha
  · rename_i e he; simp [he, ha]
  · rename_i he
    obtain ⟨as, has, hall⟩ := ha
    simp only [he, has]
    split at hr
    · rename_i e he'; simp [hr]
    · rename_i he'
      obtain ⟨rs, hrs, hlinks⟩ := hr
      simp only [hrs]
      exact ⟨_, rfl, rfl, rfl, by simp [Resource.marshalable, hall, hasUnmarshalable], hlinks⟩

/-! ## D. The status `ServeHTTP` derives from a router response -/

/-- The status `ServeHTTP` hands to `WriteHeader` for a router response. -/
def Response.rawStatus (resp : Response) : Nat :=
  if resp.doc.marshalable then
    if resp.doc.errors.length > 0 then statusOfErrors resp.doc.errors
    else if resp.status != 0 then resp.status else 200
  else 500

theorem serveResponse_eq (resp : Response) :
    serveResponse resp =
      if resp.doc.marshalable then
        if resp.rawStatus < 100 || resp.rawStatus > 999 then .panic
        else .wrote resp.rawStatus contentType resp.headers { resp.doc with jsonapi := some jsonApiVersion }
      else .wrote 500 contentType [] { errors := [errorForHTTPStatus 500], jsonapi := some jsonApiVersion } := by
  unfold serveResponse Response.rawStatus
  simp only [Doc.marshalable]
  split <;> simp_all

theorem serveHTTP_eq (s : Schema) (r : Req) :
    serveHTTP s r =
      if (executeRequest s r).doc.marshalable then
        if (executeRequest s r).rawStatus < 100 || (executeRequest s r).rawStatus > 999 then .panic
        else .wrote (executeRequest s r).rawStatus contentType (executeRequest s r).headers
          { (executeRequest s r).doc with jsonapi := some jsonApiVersion }
      else .wrote 500 contentType [] { errors := [errorForHTTPStatus 500], jsonapi := some jsonApiVersion } :=
  serveResponse_eq _

theorem statusOfErrors_single (e : Err) : statusOfErrors [e] = errStatus e := by
  unfold statusOfErrors errStatus
  cases e.status <;> simp [statusOfErrors]

theorem rawStatus_err (e : Err) : (errResponse e).rawStatus = errStatus e := by
  simp [Response.rawStatus, errResponse, errDoc, Doc.marshalable, statusOfErrors_single]

theorem rawStatus_status (n : Nat) : (statusResponse n).rawStatus = n := by
  simp [statusResponse, rawStatus_err, errStatus, errorForHTTPStatus]

theorem rawStatus_errDoc (e : Err) : ({ doc := errDoc e } : Response).rawStatus = errStatus e :=
  rawStatus_err e

theorem rawStatus_resource (res : Resource) (links : Links) (hs : List (String × String)) (st : Nat) :
    ({ doc := { data := some (.resource res), links := links }, headers := hs, status := st } : Response).rawStatus
      = if res.marshalable then (if st != 0 then st else 200) else 500 := by
  simp [Response.rawStatus, Doc.marshalable]

theorem rawStatus_linkage (l : Option Linkage) (links : Links) :
    ({ doc := { data := l.map Data.linkage, links := links } } : Response).rawStatus = 200 := by
  cases l <;> simp [Response.rawStatus, Doc.marshalable]

theorem rid_ne_iff (a b : RId) : (a.type != b.type || a.id != b.id) = true ↔ a ≠ b := by
  obtain ⟨at_, ai⟩ := a
  obtain ⟨bt, bi⟩ := b
  simp only [bne_iff_ne, Bool.or_eq_true, ne_eq, RId.mk.injEq, not_and]
  constructor
  · rintro (h | h) <;> intro h' <;> simp_all
  · intro h
    by_cases h1 : at_ = bt
    · right; exact h h1
    · left; exact h1

/-! ## E. Every route against `Spec.opStatus` -/

def NF : Response := statusResponse 404

theorem rawStatus_NF : NF.rawStatus = 404 := rawStatus_status 404

/-- A route that runs handler `h` and answers with the completed resource. -/
theorem via_status (t : TypeDef) (h : Option (String → ResOut)) (id : RId) (mk : Resource → Response)
    (hmk : ∀ res, (mk res).rawStatus = if res.marshalable then 200 else 500) :
    ((match t.viaHandler h id with
      | .error e => some (errResponse e)
      | .ok (some res) => some (mk res)
      | .ok none => none).getD NF).rawStatus = Spec.viaHandler t h id.id := by
  unfold TypeDef.viaHandler Spec.viaHandler
  cases h with
  | none => simp [rawStatus_err, errStatus, errorForHTTPStatus]
  | some f =>
    simp only
    cases hf : f id.id with
    | error e => simp [rawStatus_err]
    | nil => simp [rawStatus_NF]
    | found =>
      simp only
      have hc := complete_spec t id
      unfold sendResource
      split at hc
      · rename_i e he; simp [hc, rawStatus_err, he]
      · rename_i he
        obtain ⟨res, hres, _, _, hm, _⟩ := hc
        simp only [hres, Option.getD_some, hmk, hm, he]
        cases hasUnmarshalable t <;> simp

theorem patch_status (r : Req) (t : TypeDef) (id : RId) :
    (((handlePatchResourceRequest r t id).map (fun d => ({ doc := d } : Response))).getD NF).rawStatus =
      resourceBody r.body id (Spec.viaHandler t t.patch id.id) := by
  unfold handlePatchResourceRequest resourceBody
  cases hb : r.body.patchRes with
  | none => simp [rawStatus_errDoc, errStatus, errorForHTTPStatus]
  | some b =>
    simp only
    by_cases hne : b ≠ id
    · have := (rid_ne_iff b id).mpr hne
      simp [this, hne, rawStatus_errDoc, errStatus, errorForHTTPStatus]
    · have hne' : ¬ ((b.type != id.type || b.id != id.id) = true) := fun h => hne ((rid_ne_iff b id).mp h)
      simp only [hne', hne, if_false]
      have := via_status t t.patch id
        (fun res => { doc := { data := some (.resource res), links := [("self", r.urlPath)] } })
        (fun res => by rw [rawStatus_resource]; simp)
      rw [← this]
      unfold TypeDef.patchRes
      cases t.viaHandler t.patch id with
      | error e => simp [errResponse]
      | ok o => cases o <;> simp

theorem resolve_requested (d : RelDef) :
    resolveRelationship d true = (requestedLinkage d).map (fun l => ({ data := some l } : Relationship)) := by
  cases d with
  | toOne b out => cases out <;> simp [resolveRelationship, requestedLinkage, Except.map]
  | toMany b out a r => cases out <;> simp [resolveRelationship, requestedLinkage, Except.map]

theorem completeRelationship_cases (t : TypeDef) (id : RId) (name : String) :
    t.completeRelationship id name =
      match t.rels.lookup name with
      | none => .ok none
      | some d =>
        match requestedLinkage d with
        | .error e => .error e
        | .ok l => .ok (some { links := stdLinks id name, data := some l }) := by
  unfold TypeDef.completeRelationship
  cases t.rels.lookup name with
  | none => rfl
  | some d =>
    simp only [resolve_requested]
    cases requestedLinkage d <;> simp [Except.map, addStandardRelationshipLinks, stdLinks]

/-- A relationship route that locates the relationship through handler `h` (Get or Patch). -/
theorem locate_status (t : TypeDef) (h : Option (String → ResOut)) (id : RId) (name : String) :
    ((relationshipAnswer
        (match h with
         | none => .error (errorForHTTPStatus 405)
         | some g =>
           match g id.id with
           | .error e => .error e
           | .nil => .ok none
           | .found => t.completeRelationship id name)).getD NF).rawStatus =
      withRelationship t h id.id name linkageStatus := by
  unfold withRelationship relationshipAnswer
  cases h with
  | none => simp [rawStatus_err, errStatus, errorForHTTPStatus]
  | some g =>
    simp only
    cases g id.id with
    | error e => simp [rawStatus_err]
    | nil => simp [rawStatus_NF]
    | found =>
      simp only [completeRelationship_cases]
      cases t.rels.lookup name with
      | none => simp [rawStatus_NF]
      | some d =>
        simp only [linkageStatus]
        cases requestedLinkage d with
        | error e => simp [rawStatus_err]
        | ok l => simpa using rawStatus_linkage (some l) (stdLinks id name)

theorem members_status (op : RelDef → Except Err Relationship) (sel : RelDef → Nat)
    (hop : ∀ d, match op d with
      | .error e => sel d = errStatus e
      | .ok _ => sel d = 200)
    (t : TypeDef) (id : RId) (name : String) :
    ((relationshipAnswer (t.changeMembers op id name)).getD NF).rawStatus =
      withRelationship t t.get id.id name sel := by
  unfold withRelationship relationshipAnswer TypeDef.changeMembers
  cases t.get with
  | none => simp [rawStatus_err, errStatus, errorForHTTPStatus]
  | some g =>
    simp only
    cases g id.id with
    | error e => simp [rawStatus_err]
    | nil => simp [rawStatus_NF]
    | found =>
      simp only
      cases t.rels.lookup name with
      | none => simp [rawStatus_NF]
      | some d =>
        have := hop d
        simp only
        cases hd : op d with
        | error e => simp [hd] at this; simp [rawStatus_err, this]
        | ok rel => simp [hd] at this; simp [rawStatus_linkage, this]

theorem membersResult_status (h : Option ManyOut) :
    match membersResult h with
    | .error e => membersStatus h = errStatus e
    | .ok _ => membersStatus h = 200 := by
  cases h with
  | none => simp [membersResult, membersStatus, errStatus, errorForHTTPStatus]
  | some o => cases o <;> simp [membersResult, membersStatus]

/-- Marshalability of primary data. -/
def Data.marshalable : Data → Bool
  | .resource r => r.marshalable
  | .resources rs => rs.all Resource.marshalable
  | _ => true

theorem rawStatus_data (d : Data) (links : Links) :
    ({ doc := { data := some d, links := links } } : Response).rawStatus = if d.marshalable then 200 else 500 := by
  cases d with
  | null => simp [Response.rawStatus, Doc.marshalable, Data.marshalable]
  | linkage l => simp [Response.rawStatus, Doc.marshalable, Data.marshalable]
  | resource r => cases h : r.marshalable <;> simp [Response.rawStatus, Doc.marshalable, Data.marshalable, h]
  | resources rs =>
    cases h : rs.all Resource.marshalable <;> simp [Response.rawStatus, Doc.marshalable, Data.marshalable, h]

/-- `get` of a related resource against `relatedFailure` / `relatedUnmarshalable`. -/
theorem getRes_related (s : Schema) (rid : RId) (t : TypeDef) (ht : s.lookup rid.type = some t) :
    match t.getRes rid with
    | .error e => relatedFailure s rid = some (errStatus e)
    | .ok none => relatedFailure s rid = none ∧ relatedUnmarshalable s rid = false
    | .ok (some res) => relatedFailure s rid = none ∧ res.marshalable = !relatedUnmarshalable s rid := by
  unfold TypeDef.getRes TypeDef.viaHandler relatedFailure relatedUnmarshalable
  simp only [ht]
  cases t.get with
  | none => simp [errStatus, errorForHTTPStatus]
  | some g =>
    simp only
    cases hg : g rid.id with
    | error e => simp
    | nil => simp
    | found =>
      simp only
      have hc := complete_spec t rid
      split at hc
      · rename_i e he; simp [hc, he]
      · rename_i he
        obtain ⟨res, hres, _, _, hm, _⟩ := hc
        simp [hres, he, hm]

theorem getResource_spec (s : Schema) (rid : RId) :
    match getResource s rid with
    | .error e => relatedFailure s rid = some (errStatus e)
    | .ok d => relatedFailure s rid = none ∧ d.marshalable = !relatedUnmarshalable s rid := by
  unfold getResource
  cases ht : s.lookup rid.type with
  | none => simp [relatedFailure, relatedUnmarshalable, ht, Data.marshalable]
  | some t =>
    simp only
    have := getRes_related s rid t ht
    cases hg : t.getRes rid with
    | error e => simpa [hg] using this
    | ok o =>
      cases o with
      | none => simp [hg] at this; simp [this, Data.marshalable]
      | some res => simp [hg] at this; simp [this, Data.marshalable]

theorem getResourcesList_spec (s : Schema) (ids : List RId) :
    match getResourcesList s ids with
    | .error e => ids.findSome? (relatedFailure s) = some (errStatus e)
    | .ok l => ids.findSome? (relatedFailure s) = none ∧
        l.all Resource.marshalable = !ids.any (relatedUnmarshalable s) := by
  induction ids with
  | nil => simp [getResourcesList]
  | cons rid rest ih =>
    unfold getResourcesList
    cases ht : s.lookup rid.type with
    | none =>
      have h1 : relatedFailure s rid = none := by simp [relatedFailure, ht]
      have h2 : relatedUnmarshalable s rid = false := by simp [relatedUnmarshalable, ht]
      simp only [List.findSome?_cons, h1, List.any_cons, h2, Bool.false_or]
      exact ih
    | some t =>
      simp only
      have := getRes_related s rid t ht
      cases hg : t.getRes rid with
      | error e => simp only [hg] at this; simp only [List.findSome?_cons, this]
      | ok o =>
        cases o with
        | none =>
          simp only [hg] at this
          simp only [List.findSome?_cons, this.1, List.any_cons, this.2, Bool.false_or]
          exact ih
        | some res =>
          simp only [hg] at this
          simp only [List.findSome?_cons, this.1, List.any_cons]
          cases hl : getResourcesList s rest with
          | error e => simp only [hl] at ih; simp only [Except.map, ih]
          | ok l =>
            simp only [hl] at ih
            simp only [Except.map, ih.1, List.all_cons, ih.2, this.2, Bool.not_or, and_self]

theorem getResources_spec (s : Schema) (ids : List RId) :
    match getResources s ids with
    | .error e => ids.findSome? (relatedFailure s) = some (errStatus e)
    | .ok d => ids.findSome? (relatedFailure s) = none ∧
        d.marshalable = !ids.any (relatedUnmarshalable s) := by
  unfold getResources
  have := getResourcesList_spec s ids
  cases hl : getResourcesList s ids with
  | error e => simpa [hl] using this
  | ok l =>
    simp only [hl] at this
    cases l with
    | nil => simpa [Data.marshalable] using this
    | cons r rs => simp only [Data.marshalable]; exact this

/-- GET on the related-resource route. -/
theorem fetchRelated_status (s : Schema) (r : Req) (t : TypeDef) (id : RId) (name : String)
    (hm : (r.method == "GET") = true) :
    ((relatedRoute s r t id name).getD NF).rawStatus =
      withRelationship t t.get id.id name (fetchRelatedStatus s) := by
  unfold relatedRoute withRelationship TypeDef.getRelationship
  simp only [hm, if_true]
  cases t.get with
  | none => simp [rawStatus_err, errStatus, errorForHTTPStatus]
  | some g =>
    simp only
    cases g id.id with
    | error e => simp [rawStatus_err]
    | nil => simp [rawStatus_NF]
    | found =>
      simp only [completeRelationship_cases]
      cases t.rels.lookup name with
      | none => simp [rawStatus_NF]
      | some d =>
        simp only [fetchRelatedStatus]
        cases requestedLinkage d with
        | error e => simp [rawStatus_err]
        | ok l =>
          cases l with
          | null => simp [rawStatus_data, Data.marshalable]
          | one rid =>
            simp only
            have := getResource_spec s rid
            cases hg : getResource s rid with
            | error e => simp only [hg] at this; simp [rawStatus_err, this]
            | ok d =>
              simp only [hg] at this
              simp only [Option.getD_some, rawStatus_data, this.1, this.2]
              cases relatedUnmarshalable s rid <;> simp
          | many rids =>
            simp only
            have := getResources_spec s rids
            cases hg : getResources s rids with
            | error e => simp only [hg] at this; simp [rawStatus_err, this]
            | ok d =>
              simp only [hg] at this
              simp only [Option.getD_some, rawStatus_data, this.1, this.2]
              cases rids.any (relatedUnmarshalable s) <;> simp

/-- PATCH on the related-resource route. -/
theorem updateRelated_status (s : Schema) (r : Req) (t : TypeDef) (id : RId) (name : String)
    (hg : (r.method == "GET") = false) (hm : (r.method == "PATCH") = true) :
    ((relatedRoute s r t id name).getD NF).rawStatus =
      withRelationship t t.get id.id name (updateRelatedStatus s r.body) := by
  unfold relatedRoute withRelationship TypeDef.getRelationship
  simp only [hg, hm, if_true, Bool.false_eq_true, if_false]
  cases t.get with
  | none => simp [rawStatus_err, errStatus, errorForHTTPStatus]
  | some g =>
    simp only
    cases g id.id with
    | error e => simp [rawStatus_err]
    | nil => simp [rawStatus_NF]
    | found =>
      simp only [completeRelationship_cases]
      cases t.rels.lookup name with
      | none => simp [rawStatus_NF]
      | some d =>
        simp only [updateRelatedStatus]
        cases requestedLinkage d with
        | error e => simp [rawStatus_err]
        | ok l =>
          cases l with
          | null => simp [rawStatus_NF]
          | many rids => simp [rawStatus_NF]
          | one rid =>
            simp only
            cases s.lookup rid.type with
            | none => simp [rawStatus_NF]
            | some rt => simp only [patch_status]

theorem createRoute_status (r : Req) (ty : String) (t : TypeDef) :
    ((createRoute r ty t).getD NF).rawStatus = createStatus t r.body ty := by
  unfold createStatus
  unfold createRoute
  cases r.body.postRes with
  | none => simp [rawStatus_status]
  | some bty =>
    simp only
    by_cases hb : bty = ty
    · simp only [hb, bne_self_eq_false, Bool.false_eq_true, if_false, ne_eq, not_true_eq_false]
      unfold TypeDef.createRes
      cases t.create with
      | none => simp [rawStatus_err, errStatus, errorForHTTPStatus]
      | some c =>
        cases c with
        | error e => simp [rawStatus_err]
        | nil => simp [rawStatus_NF]
        | created id =>
          simp only
          have hc := complete_spec t id
          unfold sendResource
          split at hc
          · rename_i e he; simp [hc, rawStatus_err, he]
          · rename_i he
            obtain ⟨res, hres, _, _, hm, _⟩ := hc
            simp only [hres, Option.getD_some, rawStatus_resource, hm, he]
            cases hasUnmarshalable t <;> simp
    · have : (bty != ty) = true := by simpa using hb
      simp [this, hb, rawStatus_status]

theorem resourceRoute_status (r : Req) (t : TypeDef) (id : RId) :
    ((resourceRoute r t id).getD NF).rawStatus =
      if r.method == "GET" then Spec.viaHandler t t.get id.id
      else if r.method == "PATCH" then resourceBody r.body id (Spec.viaHandler t t.patch id.id)
      else if r.method == "DELETE" then deleteStatus t id.id
      else 405 := by
  unfold deleteStatus
  unfold resourceRoute
  by_cases hg : (r.method == "GET") = true
  · simp only [hg, if_true]
    have := via_status t t.get id
      (fun res => { doc := { data := some (.resource res), links := [("self", r.urlPath)] } })
      (fun res => by rw [rawStatus_resource]; simp)
    rw [← this]
    unfold TypeDef.getRes
    cases t.viaHandler t.get id with
    | error e => rfl
    | ok o => cases o <;> rfl
  · simp only [hg]
    by_cases hp : (r.method == "PATCH") = true
    · simp only [hp, if_true]
      exact patch_status r t id
    · simp only [hp]
      by_cases hd : (r.method == "DELETE") = true
      · simp only [hd, if_true]
        unfold TypeDef.deleteRes
        cases t.delete with
        | none => simp [rawStatus_err, errStatus, errorForHTTPStatus]
        | some f =>
          simp only
          cases f id.id with
          | none => simp [Response.rawStatus, Doc.marshalable]
          | some e => simp [rawStatus_err]
      · simp [hd, rawStatus_status]

theorem relatedRoute_status (s : Schema) (r : Req) (t : TypeDef) (id : RId) (name : String) :
    ((relatedRoute s r t id name).getD NF).rawStatus =
      if r.method == "GET" then withRelationship t t.get id.id name (fetchRelatedStatus s)
      else if r.method == "PATCH" then withRelationship t t.get id.id name (updateRelatedStatus s r.body)
      else 405 := by
  by_cases hg : (r.method == "GET") = true
  · simp only [hg, if_true]; exact fetchRelated_status s r t id name hg
  · have hg' : (r.method == "GET") = false := by simpa using hg
    simp only [hg', Bool.false_eq_true, if_false]
    by_cases hp : (r.method == "PATCH") = true
    · simp only [hp, if_true]; exact updateRelated_status s r t id name hg' hp
    · simp [relatedRoute, hg', hp, rawStatus_status]

theorem relationshipRoute_status (r : Req) (t : TypeDef) (id : RId) (name : String) :
    ((relationshipRoute r t id name).getD NF).rawStatus =
      if r.method == "GET" then withRelationship t t.get id.id name linkageStatus
      else if r.method == "PATCH" then
        (if !r.body.relData then 400 else withRelationship t t.patch id.id name linkageStatus)
      else if r.method == "POST" then
        (if !r.body.members then 400 else withRelationship t t.get id.id name addStatus)
      else if r.method == "DELETE" then
        (if !r.body.members then 400 else withRelationship t t.get id.id name removeStatus)
      else 405 := by
  unfold relationshipRoute
  by_cases hg : (r.method == "GET") = true
  · simp only [hg, if_true]
    exact locate_status t t.get id name
  · simp only [hg]
    by_cases hp : (r.method == "PATCH") = true
    · simp only [hp, if_true]
      cases r.body.relData with
      | false => simp [rawStatus_status]
      | true =>
        simp only [Bool.not_true, Bool.false_eq_true, if_false]
        exact locate_status t t.patch id name
    · simp only [hp]
      by_cases ho : (r.method == "POST") = true
      · simp only [ho, if_true]
        cases r.body.members with
        | false => simp [rawStatus_status]
        | true =>
          simp only [Bool.not_true, Bool.false_eq_true, if_false]
          apply members_status
          intro d
          cases d with
          | toOne b o => simp [addRelationshipMembers, addStatus, errStatus, errorForHTTPStatus]
          | toMany b o a rm => exact membersResult_status a
      · simp only [ho]
        by_cases hd : (r.method == "DELETE") = true
        · simp only [hd, if_true]
          cases r.body.members with
          | false => simp [rawStatus_status]
          | true =>
            simp only [Bool.not_true, Bool.false_eq_true, if_false]
            apply members_status
            intro d
            cases d with
            | toOne b o => simp [removeRelationshipMembers, removeStatus, errStatus, errorForHTTPStatus]
            | toMany b o a rm => exact membersResult_status rm
        · simp [hd, rawStatus_status]

theorem classify_unknown_type (known : String → Bool) (m ty : String) (rest : List String)
    (hk : known ty = false) : classify known m (ty :: rest) = .unknown := by
  cases rest with
  | nil => simp [classify, hk]
  | cons a r1 =>
    cases r1 with
    | nil => simp [classify, hk]
    | cons b r2 =>
      cases r2 with
      | nil => simp [classify, hk]
      | cons c r3 =>
        cases r3 with
        | nil => by_cases hb : b = "relationships" <;> simp [classify, hk, hb]
        | cons d r4 => simp [classify]

/-- The router against the rule list: routing by type, depth and method. -/
theorem route_status (s : Schema) (r : Req) :
    ((route s r).getD NF).rawStatus =
      opStatus s r.body (fun ty => s.lookup ty)
        (classify (fun ty => (s.lookup ty).isSome) r.method r.path) := by
  unfold route
  cases hp : r.path with
  | nil => simp [classify, opStatus, rawStatus_NF]
  | cons ty rest =>
    simp only
    cases ht : s.lookup ty with
    | none =>
      rw [classify_unknown_type _ _ _ _ (by simp [ht])]
      simp [opStatus, rawStatus_NF]
    | some t =>
      simp only
      cases rest with
      | nil =>
        cases hm : (r.method == "POST") with
        | true =>
          simp only [if_true, classify, ht, Option.isSome_some, Bool.and_self, opStatus, hm]
          rw [createRoute_status]
        | false => simp [hm, classify, opStatus, rawStatus_NF]
      | cons id rest2 =>
        cases rest2 with
        | nil =>
          simp only [resourceRoute_status, classify, ht, Option.isSome_some, Bool.not_true, Bool.false_eq_true, if_false]
          cases hg : (r.method == "GET") with
          | true => simp [opStatus, ht]
          | false =>
            cases hpa : (r.method == "PATCH") with
            | true =>
              simp only [if_true, Bool.false_eq_true, if_false, opStatus, ht]
            | false =>
              cases hd : (r.method == "DELETE") with
              | true => simp [opStatus, ht]
              | false => simp [opStatus]
        | cons name rest3 =>
          cases rest3 with
          | nil =>
            simp only [relatedRoute_status, classify, ht, Option.isSome_some, Bool.not_true, Bool.false_eq_true, if_false]
            cases hg : (r.method == "GET") with
            | true => simp [opStatus, ht]
            | false =>
              cases hpa : (r.method == "PATCH") with
              | true => simp [opStatus, ht]
              | false => simp [opStatus]
          | cons name2 rest4 =>
            cases rest4 with
            | nil =>
              by_cases hrel : name = "relationships"
              · subst hrel
                simp only [beq_self_eq_true, if_true, relationshipRoute_status, classify, ht, Option.isSome_some,
                  Bool.not_true, Bool.false_eq_true, if_false, ne_eq, not_true_eq_false]
                cases hg : (r.method == "GET") with
                | true => simp [opStatus, ht]
                | false =>
                  cases hpa : (r.method == "PATCH") with
                  | true => simp [opStatus, ht]
                  | false =>
                    cases ho : (r.method == "POST") with
                    | true => simp [opStatus, ht]
                    | false =>
                      cases hd : (r.method == "DELETE") with
                      | true => simp [opStatus, ht]
                      | false => simp [opStatus]
              · have hrel' : (name == "relationships") = false := by simpa using hrel
                simp [hrel', hrel, classify, opStatus, rawStatus_NF]
            | cons c rest5 => simp [classify, opStatus, rawStatus_NF]

/-- **The router's status is RefStatus** (before the range check of `WriteHeader`). -/
theorem executeRequest_status (s : Schema) (r : Req) :
    (executeRequest s r).rawStatus = refStatus s r := by
  unfold executeRequest refStatus
  rw [isAcceptable_eq, query_check_eq]
  by_cases ha : acceptable r.accept = true
  · simp only [ha, Bool.not_true, Bool.false_eq_true, if_false]
    by_cases hq : r.query.all supportedKey = true
    · simp only [hq, Bool.not_true, Bool.false_eq_true, if_false]
      exact route_status s r
    · simp [hq, rawStatus_status]
  · simp [ha, rawStatus_status]

end ApiFu.C19
