/-
  C19 — an executable decision of the specification-text grammar `RecommendedMemberName`
  (MemberNames.lean), so that the driver can answer with the grammar's own verdict (not only with the
  transliterated `validateMemberName`) and the harness can compare it with `jsonapi.NewSchema` and the
  handler on every probe name. Core Lean only.
-/
import ApiFu.C19.MemberNames

namespace ApiFu.C19.MemberNames

/-- Decides the MUST rules + the URL-safe recommendation, straight from the character lists. -/
def recommendedB (n : List Char) : Bool :=
  n.all (fun c => allowed c && unreserved c) &&
  (match n.head? with | some a => globallyAllowed a | none => false) &&
  (match n.getLast? with | some z => globallyAllowed z | none => false)

theorem recommendedB_iff (n : List Char) : recommendedB n = true ↔ RecommendedMemberName n := by
  unfold recommendedB RecommendedMemberName SpecMemberName
  simp only [Bool.and_eq_true, List.all_eq_true]
  constructor
  · rintro ⟨⟨hall, hh⟩, hl⟩
    refine ⟨⟨fun c hc => (hall c hc).1, ?_, ?_⟩, fun c hc => (hall c hc).2⟩
    · cases h : n.head? with
      | none => simp [h] at hh
      | some a => exact ⟨a, rfl, by simpa [h] using hh⟩
    · cases h : n.getLast? with
      | none => simp [h] at hl
      | some z => exact ⟨z, rfl, by simpa [h] using hl⟩
  · rintro ⟨⟨hall, ⟨a, ha, hga⟩, ⟨z, hz, hgz⟩⟩, hu⟩
    refine ⟨⟨fun c hc => ⟨hall c hc, hu c hc⟩, ?_⟩, ?_⟩
    · simp [ha, hga]
    · simp [hz, hgz]

/-- The executable grammar and the library's predicate agree on every string. -/
theorem recommendedB_eq_validate (n : List Char) : recommendedB n = validateMemberName n := by
  cases h : validateMemberName n with
  | true => exact (recommendedB_iff n).mpr ((memberName_eq_spec n).mp h)
  | false =>
    cases h' : recommendedB n with
    | false => rfl
    | true =>
      have := (memberName_eq_spec n).mpr ((recommendedB_iff n).mp h')
      rw [h] at this; cases this

end ApiFu.C19.MemberNames
