/-
  C19 — property theorems. Every theorem is about `serveHTTP s r` for *every* abstract resource
  schema `s` (any handler subset, any attributes/relationships, any resolver outcome, any order of
  the attribute/relationship maps) and *every* abstract request `r` (any method string, any path,
  any list of Accept instances, any query keys, any body decode outcome). `Spec.refStatus` is the
  property's RefStatus; `Spec.Supported` the declarative query-parameter grammar.

  Envelope (`EnvOK`, Envelope.lean): the property quantifies over "resolvers returning values, nil
  or errors"; an error's Status is the text of an HTTP status code (JSON:API: "the HTTP status code
  applicable to this problem, expressed as a string value") or absent. Outside it `WriteHeader`
  panics (F-19c, not claimed); `status_eq_refStatus` says exactly when.
-/
import ApiFu.C19.Envelope
import ApiFu.C19.Shape

namespace ApiFu.C19

open Spec

def Written.status : Written → Option Nat
  | .panic => none
  | .wrote st _ _ _ => some st

/-! ## status = RefStatus -/

/-- **status_eq_refStatus** (model = RefStatus on all abstract requests, no hypothesis): the handler
    writes exactly `RefStatus(request, schema)`, and it panics (in `WriteHeader`) exactly when
    RefStatus is not a three-digit code — which only an out-of-envelope resolver error can cause
    (`never_panics`). -/
theorem status_eq_refStatus (s : Schema) (r : Req) :
    (serveHTTP s r).status = if InRange (refStatus s r) then some (refStatus s r) else none := by
  rw [serveHTTP_eq]
  have hraw := executeRequest_status s r
  by_cases hm : (executeRequest s r).doc.marshalable = true
  · simp only [hm, if_true, hraw]
    by_cases hr : InRange (refStatus s r)
    · have : ¬ ((refStatus s r < 100 || refStatus s r > 999) = true) := by
        unfold InRange at hr; simp; omega
      simp [this, hr, Written.status]
    · have : (refStatus s r < 100 || refStatus s r > 999) = true := by
        unfold InRange at hr; simp; omega
      simp [this, hr, Written.status]
  · have h500 : refStatus s r = 500 := by
      rw [← hraw]; simp [Response.rawStatus, hm]
    simp [hm, h500, Written.status, InRange]

/-- If RefStatus is a three-digit code, that is the status written. -/
theorem status_of_refStatus (s : Schema) (r : Req) (n : Nat) (h : refStatus s r = n) (hn : InRange n) :
    (serveHTTP s r).status = some n := by
  rw [status_eq_refStatus, h]; simp [hn]

/-- **never_panics**: inside the resolver envelope every request is answered (no `WriteHeader`
    panic; the other panic sites of the Go code — `parts[0]`, `*relationship.Data` — are explicit
    branches of the model that `keyRejected`/`relatedRoute` show unreachable with the stock
    resolvers), and the status is RefStatus. -/
theorem never_panics (s : Schema) (r : Req) (hs : EnvOK s) :
    ∃ ct hd body, serveHTTP s r = .wrote (refStatus s r) ct hd body := by
  have h := status_eq_refStatus s r
  simp only [refStatus_range hs r, if_true] at h
  cases hw : serveHTTP s r with
  | panic => simp [hw, Written.status] at h
  | wrote st ct hd body =>
    simp [hw, Written.status] at h
    exact ⟨ct, hd, body, by rw [h]⟩

/-- The two other panic sites of the Go code are explicit branches of the model; both are
    unreachable. (1) `parts[0]` after `strings.Split(k, "[")` (handler.go:178): the split of any key
    has at least one part. -/
theorem query_key_split_nonempty (k : List Char) : splitOn '[' k ≠ [] := splitOn_ne_nil _ _

/-- (2) `*relationship.Data` on the related-resource routes (handler.go:325, 353): with the stock
    to-one/to-many resolvers a located relationship always carries data when data is requested, so the
    nil dereference of F-19d (a custom resolver omitting `Data`, outside the envelope) cannot occur. -/
theorem related_data_present (t : TypeDef) (id : RId) (name : String) (rel : Relationship)
    (h : t.getRelationship id name = .ok (some rel)) : rel.data ≠ none := by
  obtain ⟨d, l, _, _, rfl⟩ := getRelationship_some t id name rel h
  simp

/-! ## the document invariants -/

/-- **media_type_and_version**: whatever is written carries the JSON:API media type and a document
    with the `jsonapi.version` member. -/
theorem media_type_and_version (s : Schema) (r : Req) (st : Nat) (ct : String) (hs : List (String × String))
    (body : Doc) (h : serveHTTP s r = .wrote st ct hs body) :
    ct = "application/vnd.api+json" ∧ body.jsonapi = some "1.1" := by
  obtain ⟨hct, hb | hb⟩ := written_cases s r st ct hs body h
  · exact ⟨hct, by rw [hb.1]; rfl⟩
  · exact ⟨hct, by rw [hb.1]; rfl⟩

/-- **never_data_and_errors**: no document has both `data` and `errors`. -/
theorem never_data_and_errors (s : Schema) (r : Req) (st : Nat) (ct : String) (hs : List (String × String))
    (body : Doc) (h : serveHTTP s r = .wrote st ct hs body) :
    body.data = none ∨ body.errors = [] := by
  obtain ⟨_, hb | hb⟩ := written_cases s r st ct hs body h
  · rw [hb.1]
    have hsh := executeRequest_shaped s r
    generalize executeRequest s r = resp at hsh
    cases hsh with
    | err e => left; rfl
    | ok d links hs' st' _ => right; rfl
  · rw [hb.1]; left; rfl

/-- The status-derivation loop of `ServeHTTP` computes `firstErrorStatus` for *every* error list
    (the router itself only ever produces one-element lists). -/
theorem statusOfErrors_eq_first (es : List Err) : statusOfErrors es = firstErrorStatus es := by
  induction es with
  | nil => rfl
  | cons e rest ih =>
    unfold statusOfErrors firstErrorStatus
    cases hst : e.status with
    | empty =>
      have : (e.status != ErrStatus.empty) = false := by simp [hst]
      simp only [List.find?_cons, this]
      exact ih
    | num n =>
      simp [errStatus, hst]
    | junk =>
      simp [errStatus, hst]

/-- The response-writing half of `ServeHTTP` on a document carrying an *arbitrary* error list (what
    the `verif` hook injects): the status is that of the first error carrying one, 500 if none does;
    200 for the empty list. This is the part of `status_from_errors` that no request can reach
    through the router (which only builds one-element lists). -/
theorem status_from_injected_errors (es : List Err) :
    (serveResponse { doc := { errors := es } }).status =
      if es = [] then some 200
      else if InRange (firstErrorStatus es) then some (firstErrorStatus es) else none := by
  rw [serveResponse_eq]
  have hm : ({ errors := es } : Doc).marshalable = true := rfl
  simp only [hm, if_true, Response.rawStatus]
  cases es with
  | nil => simp [Written.status]
  | cons e rest =>
    simp only [List.length_cons, Nat.zero_lt_succ, if_true, statusOfErrors_eq_first, reduceCtorEq, if_false]
    by_cases hr : InRange (firstErrorStatus (e :: rest))
    · have : ¬ ((firstErrorStatus (e :: rest) < 100 || firstErrorStatus (e :: rest) > 999) = true) := by
        unfold InRange at hr; simp; omega
      simp [this, hr, Written.status]
    · have : (firstErrorStatus (e :: rest) < 100 || firstErrorStatus (e :: rest) > 999) = true := by
        unfold InRange at hr; simp; omega
      simp [this, hr, Written.status]

example : (serveResponse { doc := { errors := [⟨.empty⟩, ⟨.num 403⟩, ⟨.num 404⟩] } }).status = some 403 := by decide

/-- **status_from_errors**: errors present → the HTTP status is that of the first error carrying
    one (500 if none does); no errors → 2xx (200, or 201 for a created resource). -/
theorem status_from_errors (s : Schema) (r : Req) (st : Nat) (ct : String) (hs : List (String × String))
    (body : Doc) (h : serveHTTP s r = .wrote st ct hs body) :
    (body.errors ≠ [] → st = firstErrorStatus body.errors) ∧
    (body.errors = [] → st = 200 ∨ st = 201) := by
  obtain ⟨_, hb | hb⟩ := written_cases s r st ct hs body h
  · obtain ⟨hbody, _, hst, hm⟩ := hb
    rw [hbody, hst]
    simp only [Response.rawStatus, hm, if_true]
    have hsh := executeRequest_shaped s r
    generalize executeRequest s r = resp at hsh
    cases hsh with
    | err e =>
      refine ⟨fun _ => ?_, fun hne => ?_⟩
      · simp [errResponse, errDoc, statusOfErrors_eq_first]
      · simp [errResponse, errDoc] at hne
    | ok d links hs' st' hst' =>
      refine ⟨fun hne => absurd rfl hne, fun _ => ?_⟩
      rcases hst' with rfl | rfl <;> simp
  · obtain ⟨hbody, _, hst, _⟩ := hb
    rw [hbody, hst]
    refine ⟨fun _ => by decide, fun hne => ?_⟩
    simp at hne

/-! ## the status rules -/

/-- **status_rule_406**: if no Accept instance offers the JSON:API media type without parameters
    other than `profile` — in particular when every instance of the media type is modified by an
    unsupported parameter — the answer is 406, before anything else is looked at. -/
theorem status_rule_406 (s : Schema) (r : Req)
    (h : ∀ a ∈ r.accept, a.media = jsonApiMediaType → a.err = false → ∃ p ∈ a.params, p ≠ "profile") :
    (serveHTTP s r).status = some 406 := by
  apply status_of_refStatus _ _ _ _ (by decide)
  have : acceptable r.accept = false := by
    unfold acceptable
    rw [List.any_eq_false]
    intro a ha
    unfold acceptableInstance
    by_cases h1 : a.media = jsonApiMediaType
    · cases h2 : a.err with
      | true => simp
      | false =>
        obtain ⟨p, hp, hne⟩ := h a ha h1 h2
        have : a.params.all (fun p => p == "profile") = false := by
          rw [List.all_eq_false]
          exact ⟨p, hp, by simpa using hne⟩
        simp [this]
    · simp [h1]
  simp [refStatus, this]

/-- Non-vacuity of `status_rule_406`: `Accept: application/vnd.api+json; ext=…` against any schema. -/
example (s : Schema) :
    (serveHTTP s { method := "GET", leadingSlash := true, path := ["a", "1"],
                   accept := [⟨jsonApiMediaType, ["ext"], false⟩], query := [], body := ⟨none, none, false, false⟩ }).status
      = some 406 :=
  status_rule_406 s _ (by
    intro a ha _ _
    simp at ha; subst ha
    exact ⟨"ext", by simp, by decide⟩)

/-- The converse: with an acceptable instance the handler's own negotiation never answers 406
    (RefStatus moves on to the later rules). -/
theorem acceptable_iff_offer (as : List AcceptInst) :
    acceptable as = true ↔
      ∃ a ∈ as, a.media = jsonApiMediaType ∧ a.err = false ∧ ∀ p ∈ a.params, p = "profile" := by
  unfold acceptable acceptableInstance
  simp only [List.any_eq_true, Bool.and_eq_true, Bool.not_eq_true', beq_iff_eq, List.all_eq_true]
  constructor
  · rintro ⟨a, ha, ⟨h1, h2⟩, h3⟩; exact ⟨a, ha, h2, h1, h3⟩
  · rintro ⟨a, ha, h1, h2, h3⟩; exact ⟨a, ha, ⟨h2, h1⟩, h3⟩

/-- **negotiation_any_position**: the Accept header matters only through "is there an acceptable
    instance *anywhere* in it": replacing the header by any other with the same verdict — in
    particular moving the acceptable instance to another position, or putting unacceptable JSON:API
    instances after it — leaves the written status unchanged. (Round-3 seed C19-7 let the last
    JSON:API instance decide.) -/
theorem negotiation_any_position (s : Schema) (r : Req) (as' : List AcceptInst)
    (h : acceptable as' = acceptable r.accept) :
    (serveHTTP s { r with accept := as' }).status = (serveHTTP s r).status := by
  rw [status_eq_refStatus, status_eq_refStatus]
  simp [refStatus, h]

/-- One acceptable instance anywhere — first, in the middle or last, whatever surrounds it — makes
    the header acceptable. -/
theorem acceptable_of_mem (pre post : List AcceptInst) (a : AcceptInst)
    (h1 : a.media = jsonApiMediaType) (h2 : a.err = false) (h3 : ∀ p ∈ a.params, p = "profile") :
    isAcceptable (pre ++ a :: post) = true := by
  rw [isAcceptable_eq, acceptable_iff_offer]
  exact ⟨a, by simp, h1, h2, h3⟩

/-- Non-vacuity: a clean instance followed by one carrying `ext` (and the reverse order). -/
example :
    isAcceptable [⟨jsonApiMediaType, [], false⟩, ⟨jsonApiMediaType, ["ext"], false⟩] = true ∧
    isAcceptable [⟨jsonApiMediaType, ["ext"], false⟩, ⟨jsonApiMediaType, [], false⟩] = true ∧
    isAcceptable [⟨jsonApiMediaType, ["profile"], false⟩, ⟨"text/html", [], false⟩, ⟨jsonApiMediaType, ["q"], false⟩] = true := by
  decide

/-- **status_rule_400**: after negotiation succeeded, a query parameter that is not of the form
    `family([name])*` with member-name-conforming parts, or whose family is all-lowercase and not
    `page`, gives 400 — before the path or the method are looked at (so also for unknown paths). -/
theorem status_rule_400 (s : Schema) (r : Req) (ha : acceptable r.accept = true)
    (k : List Char) (hk : k ∈ r.query) (hbad : ¬ Supported k) :
    (serveHTTP s r).status = some 400 := by
  apply status_of_refStatus _ _ _ _ (by decide)
  have : r.query.all supportedKey = false := by
    rw [List.all_eq_false]
    refine ⟨k, hk, ?_⟩
    intro hs
    exact hbad ((supportedKey_iff k).mp hs)
  simp [refStatus, ha, this]

/-- Non-vacuity of `status_rule_400`: `?sort=…` (a reserved family this handler does not support). -/
example : ¬ Supported "sort".toList := by
  rw [← supportedKey_iff]; decide

example : Supported "page[size]".toList ∧ Supported "fooBar[a-b][c_d]".toList ∧ ¬ Supported "page[size".toList ∧
    ¬ Supported "page[size]]".toList ∧ ¬ Supported "foo".toList ∧ ¬ Supported "a:b".toList := by
  simp only [← supportedKey_iff]; decide

/-- What the later rules presuppose: negotiation and the parameter check passed. -/
def Admitted (r : Req) : Prop :=
  acceptable r.accept = true ∧ ∀ k ∈ r.query, Supported k

theorem refStatus_admitted (s : Schema) (r : Req) (h : Admitted r) :
    refStatus s r = opStatus s r.body (fun ty => s.lookup ty)
      (classify (fun ty => (s.lookup ty).isSome) r.method r.path) := by
  have : r.query.all supportedKey = true := by
    rw [List.all_eq_true]
    exact fun k hk => (supportedKey_iff k).mpr (h.2 k hk)
  simp [refStatus, h.1, this]

/-- **status_rule_409**: a decodable resource object whose type (for PATCH: type or id) differs from
    the endpoint's gives 409 — on `POST /{type}`, on `PATCH /{type}/{id}` and on
    `PATCH /{type}/{id}/{rel}` (where the endpoint is the to-one related resource). -/
inductive Conflict (s : Schema) (r : Req) : Prop
  | create (ty : String) (t : TypeDef) (bty : String) :
      r.path = [ty] → r.method = "POST" → s.lookup ty = some t →
      r.body.postRes = some bty → bty ≠ ty → Conflict s r
  | update (ty id : String) (t : TypeDef) (b : RId) :
      r.path = [ty, id] → r.method = "PATCH" → s.lookup ty = some t →
      r.body.patchRes = some b → b ≠ ⟨ty, id⟩ → Conflict s r
  | updateRelated (ty id rel : String) (t rt : TypeDef) (g : String → ResOut) (d : RelDef) (rid b : RId) :
      r.path = [ty, id, rel] → r.method = "PATCH" → s.lookup ty = some t →
      t.get = some g → g id = .found → t.rels.lookup rel = some d → requestedLinkage d = .ok (.one rid) →
      s.lookup rid.type = some rt →
      r.body.patchRes = some b → b ≠ rid → Conflict s r

theorem status_rule_409 (s : Schema) (r : Req) (ha : Admitted r) (h : Conflict s r) :
    (serveHTTP s r).status = some 409 := by
  apply status_of_refStatus _ _ _ _ (by decide)
  rw [refStatus_admitted s r ha]
  cases h with
  | create ty t bty hp hm ht hb hne =>
    simp [hp, hm, classify, ht, opStatus, createStatus, hb, hne]
  | update ty id t b hp hm ht hb hne =>
    simp [hp, hm, classify, ht, opStatus, resourceBody, hb, hne]
  | updateRelated ty id rel t rt g d rid b hp hm ht hg hf hd hl hrt hb hne =>
    simp [hp, hm, classify, ht, opStatus, withRelationship, hg, hf, hd, updateRelatedStatus, hl, hrt,
      resourceBody, hb, hne]

/-- **status_rule_405**: an operation the resource type does not define. Either the route does not
    offer the method, or the handler the operation needs (Get, Patch, Create, Delete; for member
    operations the relationship's AddMembers/RemoveMembers, which to-one relationships never have) is
    absent. Body rules (400/409) come first where the route reads a body, exactly as in RefStatus. -/
inductive Undefined (s : Schema) (r : Req) : Prop
  | resourceMethod (ty id : String) (t : TypeDef) :
      r.path = [ty, id] → s.lookup ty = some t →
      r.method ≠ "GET" → r.method ≠ "PATCH" → r.method ≠ "DELETE" → Undefined s r
  | relatedMethod (ty id rel : String) (t : TypeDef) :
      r.path = [ty, id, rel] → s.lookup ty = some t →
      r.method ≠ "GET" → r.method ≠ "PATCH" → Undefined s r
  | relationshipMethod (ty id rel : String) (t : TypeDef) :
      r.path = [ty, id, "relationships", rel] → s.lookup ty = some t →
      r.method ≠ "GET" → r.method ≠ "PATCH" → r.method ≠ "POST" → r.method ≠ "DELETE" → Undefined s r
  | noGet (ty id : String) (t : TypeDef) :
      r.path = [ty, id] → s.lookup ty = some t → r.method = "GET" → t.get = none → Undefined s r
  | noDelete (ty id : String) (t : TypeDef) :
      r.path = [ty, id] → s.lookup ty = some t → r.method = "DELETE" → t.delete = none → Undefined s r
  | noPatch (ty id : String) (t : TypeDef) :
      r.path = [ty, id] → s.lookup ty = some t → r.method = "PATCH" →
      r.body.patchRes = some ⟨ty, id⟩ → t.patch = none → Undefined s r
  | noCreate (ty : String) (t : TypeDef) :
      r.path = [ty] → s.lookup ty = some t → r.method = "POST" →
      r.body.postRes = some ty → t.create = none → Undefined s r
  | relatedNoGet (ty id rel : String) (t : TypeDef) :
      r.path = [ty, id, rel] → s.lookup ty = some t → (r.method = "GET" ∨ r.method = "PATCH") →
      t.get = none → Undefined s r
  | relationshipNoGet (ty id rel : String) (t : TypeDef) :
      r.path = [ty, id, "relationships", rel] → s.lookup ty = some t →
      (r.method = "GET" ∨ ((r.method = "POST" ∨ r.method = "DELETE") ∧ r.body.members = true)) →
      t.get = none → Undefined s r
  | relationshipNoPatch (ty id rel : String) (t : TypeDef) :
      r.path = [ty, id, "relationships", rel] → s.lookup ty = some t → r.method = "PATCH" →
      r.body.relData = true → t.patch = none → Undefined s r
  | noAddMembers (ty id rel : String) (t : TypeDef) (g : String → ResOut) (d : RelDef) :
      r.path = [ty, id, "relationships", rel] → s.lookup ty = some t → r.method = "POST" →
      r.body.members = true → t.get = some g → g id = .found → t.rels.lookup rel = some d →
      addStatus d = 405 → Undefined s r
  | noRemoveMembers (ty id rel : String) (t : TypeDef) (g : String → ResOut) (d : RelDef) :
      r.path = [ty, id, "relationships", rel] → s.lookup ty = some t → r.method = "DELETE" →
      r.body.members = true → t.get = some g → g id = .found → t.rels.lookup rel = some d →
      removeStatus d = 405 → Undefined s r

theorem status_rule_405 (s : Schema) (r : Req) (ha : Admitted r) (h : Undefined s r) :
    (serveHTTP s r).status = some 405 := by
  apply status_of_refStatus _ _ _ _ (by decide)
  rw [refStatus_admitted s r ha]
  cases h with
  | resourceMethod ty id t hp ht h1 h2 h3 => simp [hp, classify, ht, h1, h2, h3, opStatus]
  | relatedMethod ty id rel t hp ht h1 h2 => simp [hp, classify, ht, h1, h2, opStatus]
  | relationshipMethod ty id rel t hp ht h1 h2 h3 h4 => simp [hp, classify, ht, h1, h2, h3, h4, opStatus]
  | noGet ty id t hp ht hm hg => simp [hp, classify, ht, hm, opStatus, Spec.viaHandler, hg]
  | noDelete ty id t hp ht hm hd => simp [hp, classify, ht, hm, opStatus, deleteStatus, hd]
  | noPatch ty id t hp ht hm hb hpa =>
    simp [hp, classify, ht, hm, opStatus, resourceBody, hb, Spec.viaHandler, hpa]
  | noCreate ty t hp ht hm hb hc => simp [hp, classify, ht, hm, opStatus, createStatus, hb, hc]
  | relatedNoGet ty id rel t hp ht hm hg =>
    rcases hm with hm | hm <;> simp [hp, classify, ht, hm, opStatus, withRelationship, hg]
  | relationshipNoGet ty id rel t hp ht hm hg =>
    rcases hm with hm | ⟨hm | hm, hb⟩
    · simp [hp, classify, ht, hm, opStatus, withRelationship, hg]
    · simp [hp, classify, ht, hm, opStatus, withRelationship, hg, hb]
    · simp [hp, classify, ht, hm, opStatus, withRelationship, hg, hb]
  | relationshipNoPatch ty id rel t hp ht hm hb hpa =>
    simp [hp, classify, ht, hm, opStatus, withRelationship, hpa, hb]
  | noAddMembers ty id rel t g d hp ht hm hb hg hf hd h405 =>
    simp [hp, classify, ht, hm, opStatus, withRelationship, hg, hf, hd, hb, h405]
  | noRemoveMembers ty id rel t g d hp ht hm hb hg hf hd h405 =>
    simp [hp, classify, ht, hm, opStatus, withRelationship, hg, hf, hd, hb, h405]

/-- A to-one relationship, and a to-many one without the handler, define no member operation. -/
theorem addStatus_405 (d : RelDef) : (∃ b o, d = .toOne b o) ∨ (∃ b o rm, d = .toMany b o none rm) → addStatus d = 405 := by
  rintro (⟨b, o, rfl⟩ | ⟨b, o, rm, rfl⟩) <;> rfl

theorem removeStatus_405 (d : RelDef) : (∃ b o, d = .toOne b o) ∨ (∃ b o a, d = .toMany b o a none) → removeStatus d = 405 := by
  rintro (⟨b, o, rfl⟩ | ⟨b, o, a, rfl⟩) <;> rfl

/-- **status_rule_404**: anything unknown — no such type, a path shape no route has (depth 1 with a
    method other than POST, depth 4 without `relationships`, depth 0 or ≥ 5), a resource the handler
    reports as nil, a relationship name the type does not have. -/
inductive Unknown (s : Schema) (r : Req) : Prop
  | noPath : r.path = [] → Unknown s r
  | noType (ty : String) (rest : List String) : r.path = ty :: rest → s.lookup ty = none → Unknown s r
  | collection (ty : String) : r.path = [ty] → r.method ≠ "POST" → Unknown s r
  | notRelationships (ty id mid rel : String) : r.path = [ty, id, mid, rel] → mid ≠ "relationships" → Unknown s r
  | tooDeep (a b c d e : String) (rest : List String) : r.path = a :: b :: c :: d :: e :: rest → Unknown s r
  | nilResource (ty id : String) (t : TypeDef) (g : String → ResOut) :
      r.path = [ty, id] → s.lookup ty = some t → r.method = "GET" → t.get = some g → g id = .nil → Unknown s r
  | nilOwner (ty id rel : String) (t : TypeDef) (g : String → ResOut) (mid : List String) :
      r.path = ty :: id :: (mid ++ [rel]) → (mid = [] ∨ mid = ["relationships"]) →
      s.lookup ty = some t → r.method = "GET" → t.get = some g → g id = .nil → Unknown s r
  | noRelationship (ty id rel : String) (t : TypeDef) (g : String → ResOut) (mid : List String) :
      r.path = ty :: id :: (mid ++ [rel]) → (mid = [] ∨ mid = ["relationships"]) →
      s.lookup ty = some t → r.method = "GET" → t.get = some g → g id = .found →
      t.rels.lookup rel = none → Unknown s r

theorem status_rule_404 (s : Schema) (r : Req) (ha : Admitted r) (h : Unknown s r) :
    (serveHTTP s r).status = some 404 := by
  apply status_of_refStatus _ _ _ _ (by decide)
  rw [refStatus_admitted s r ha]
  cases h with
  | noPath hp => simp [hp, classify, opStatus]
  | noType ty rest hp ht =>
    rw [hp, classify_unknown_type _ _ _ _ (by simp [ht])]; rfl
  | collection ty hp hm =>
    cases ht : s.lookup ty with
    | none => rw [hp, classify_unknown_type _ _ _ _ (by simp [ht])]; rfl
    | some t => simp [hp, classify, hm, opStatus]
  | notRelationships ty id mid rel hp hm => simp [hp, classify, hm, opStatus]
  | tooDeep a b c d e rest hp => simp [hp, classify, opStatus]
  | nilResource ty id t g hp ht hm hg hf => simp [hp, classify, ht, hm, opStatus, Spec.viaHandler, hg, hf]
  | nilOwner ty id rel t g mid hp hmid ht hm hg hf =>
    rcases hmid with rfl | rfl <;> simp [hp, classify, ht, hm, opStatus, withRelationship, hg, hf]
  | noRelationship ty id rel t g mid hp hmid ht hm hg hf hr =>
    rcases hmid with rfl | rfl <;> simp [hp, classify, ht, hm, opStatus, withRelationship, hg, hf, hr]

/-! ## resource identity and link form -/

/-- **links_form** (resource objects): every resource object in primary data carries, for each of
    its relationships `name`, exactly the links `self = /{type}/{id}/relationships/{name}` and
    `related = /{type}/{id}/{name}` built from the object's own type and id. -/
theorem links_form (s : Schema) (r : Req) (st : Nat) (ct : String) (hs : List (String × String))
    (body : Doc) (h : serveHTTP s r = .wrote st ct hs body) :
    ∀ x ∈ body.resourceObjects, ∀ p ∈ x.rels,
      p.2.links = [("self", "/" ++ x.type ++ "/" ++ x.id ++ "/relationships/" ++ p.1),
                   ("related", "/" ++ x.type ++ "/" ++ x.id ++ "/" ++ p.1)] := by
  obtain ⟨_, hb | hb⟩ := written_cases s r st ct hs body h
  · rw [hb.1]
    intro x hx
    have hx' : x ∈ (executeRequest s r).doc.resourceObjects := hx
    rcases executeRequest_cases s r with ⟨n, hn⟩ | hr
    · rw [hn] at hx'; simp [statusResponse, errResponse, errDoc, Doc.resourceObjects] at hx'
    · exact route_links s r _ hr x hx'
  · rw [hb.1]; intro x hx; simp [Doc.resourceObjects] at hx

/-- **standard_links_with_additional**: whatever links a (custom) resolver returned with the
    relationship, `addStandardRelationshipLinks` yields the documented self/related links *of the
    resource it is called for* followed by the resolver's additional links, unchanged — the result
    depends on (id, name, the resolver's links) only, never on an earlier call (the Go code must build
    a fresh map; round-5 seed C19-13 wrote into the resolver's shared map). Additional links are links
    under other names than self/related; the stock resolvers return none. -/
theorem standard_links_with_additional (id : RId) (name : String) (rel : Relationship) :
    (addStandardRelationshipLinks id name rel).links = stdLinks id name ++ rel.links ∧
    (addStandardRelationshipLinks id name rel).links.lookup "self" =
      some ("/" ++ id.type ++ "/" ++ id.id ++ "/relationships/" ++ name) ∧
    (addStandardRelationshipLinks id name rel).links.lookup "related" =
      some ("/" ++ id.type ++ "/" ++ id.id ++ "/" ++ name) ∧
    (addStandardRelationshipLinks id name rel).data = rel.data := by
  refine ⟨rfl, ?_, ?_, rfl⟩ <;> simp [addStandardRelationshipLinks, List.lookup]

/-- **links_form** (relationship routes): a successful answer on
    `/{type}/{id}/relationships/{name}` carries exactly the documented `self` and `related` links. -/
theorem links_form_relationship (s : Schema) (r : Req) (ty id name : String)
    (hp : r.path = [ty, id, "relationships", name])
    (st : Nat) (ct : String) (hs : List (String × String)) (body : Doc)
    (h : serveHTTP s r = .wrote st ct hs body) (hok : body.errors = []) :
    body.links = [("self", "/" ++ ty ++ "/" ++ id ++ "/relationships/" ++ name),
                  ("related", "/" ++ ty ++ "/" ++ id ++ "/" ++ name)] := by
  obtain ⟨_, hb | hb⟩ := written_cases s r st ct hs body h
  · rw [hb.1] at hok ⊢
    rcases executeRequest_cases s r with ⟨n, hn⟩ | hr
    · rw [hn] at hok; simp [statusResponse, errResponse, errDoc] at hok
    · rcases route_cases s r _ hr with ⟨ty', t, hp', _, _⟩ | ⟨ty', id', t, hp', _, _⟩ | ⟨ty', id', name', t, hp', _, _⟩ | ⟨ty', id', name', t, hp', _, hroute⟩
      · rw [hp] at hp'; simp at hp'
      · rw [hp] at hp'; simp at hp'
      · rw [hp] at hp'; simp at hp'
      · rw [hp] at hp'
        simp at hp'
        obtain ⟨rfl, rfl, rfl⟩ := hp'
        exact (relationshipRoute_facts r t _ _ _ hroute).links hok
  · rw [hb.1] at hok; simp at hok

/-- **resource_identity** (`/{type}/{id}`): a returned resource object carries the addressed type
    and id. -/
theorem resource_identity (s : Schema) (r : Req) (ty id : String) (hp : r.path = [ty, id])
    (st : Nat) (ct : String) (hs : List (String × String)) (body : Doc)
    (h : serveHTTP s r = .wrote st ct hs body) :
    ∀ x ∈ body.resourceObjects, x.type = ty ∧ x.id = id := by
  obtain ⟨_, hb | hb⟩ := written_cases s r st ct hs body h
  · rw [hb.1]
    intro x hx
    have hx' : x ∈ (executeRequest s r).doc.resourceObjects := hx
    rcases executeRequest_cases s r with ⟨n, hn⟩ | hr
    · rw [hn] at hx'; simp [statusResponse, errResponse, errDoc, Doc.resourceObjects] at hx'
    · rcases route_cases s r _ hr with ⟨ty', t, hp', _, _⟩ | ⟨ty', id', t, hp', _, hroute⟩ | ⟨ty', id', name', t, hp', _, _⟩ | ⟨ty', id', name', t, hp', _, _⟩
      · rw [hp] at hp'; simp at hp'
      · rw [hp] at hp'
        simp at hp'
        obtain ⟨rfl, rfl⟩ := hp'
        have := ((resourceRoute_facts r t _ _ hroute).res x hx').2
        simp at this
        exact this
      · rw [hp] at hp'; simp at hp'
      · rw [hp] at hp'; simp at hp'
  · rw [hb.1]; intro x hx; simp [Doc.resourceObjects] at hx

/-- **resource_identity** (`POST /{type}`): the returned resource object carries the type and id
    that the type's `Create` handler returned. -/
theorem resource_identity_created (s : Schema) (r : Req) (ty : String) (hp : r.path = [ty])
    (st : Nat) (ct : String) (hs : List (String × String)) (body : Doc)
    (h : serveHTTP s r = .wrote st ct hs body) :
    ∀ x ∈ body.resourceObjects, ∃ t, s.lookup ty = some t ∧ t.create = some (.created ⟨x.type, x.id⟩) := by
  obtain ⟨_, hb | hb⟩ := written_cases s r st ct hs body h
  · rw [hb.1]
    intro x hx
    have hx' : x ∈ (executeRequest s r).doc.resourceObjects := hx
    rcases executeRequest_cases s r with ⟨n, hn⟩ | hr
    · rw [hn] at hx'; simp [statusResponse, errResponse, errDoc, Doc.resourceObjects] at hx'
    · rcases route_cases s r _ hr with ⟨ty', t, hp', ht, hroute⟩ | ⟨ty', id', t, hp', _, _⟩ | ⟨ty', id', name', t, hp', _, _⟩ | ⟨ty', id', name', t, hp', _, _⟩
      · rw [hp] at hp'
        simp at hp'
        subst hp'
        exact ⟨t, ht, ((createRoute_facts r _ t _ hroute).res x hx').2⟩
      · rw [hp] at hp'; simp at hp'
      · rw [hp] at hp'; simp at hp'
      · rw [hp] at hp'; simp at hp'
  · rw [hb.1]; intro x hx; simp [Doc.resourceObjects] at hx

/-- **resource_identity** (`/{type}/{id}/{rel}`): every returned resource object is one the
    relationship's linkage names (for PATCH: the to-one related resource that was updated). -/
theorem resource_identity_related (s : Schema) (r : Req) (ty id rel : String) (hp : r.path = [ty, id, rel])
    (st : Nat) (ct : String) (hs : List (String × String)) (body : Doc)
    (h : serveHTTP s r = .wrote st ct hs body) :
    ∀ x ∈ body.resourceObjects, ∃ t d l, s.lookup ty = some t ∧ t.rels.lookup rel = some d ∧
      requestedLinkage d = .ok l ∧ (⟨x.type, x.id⟩ : RId) ∈ l.ids := by
  obtain ⟨_, hb | hb⟩ := written_cases s r st ct hs body h
  · rw [hb.1]
    intro x hx
    have hx' : x ∈ (executeRequest s r).doc.resourceObjects := hx
    rcases executeRequest_cases s r with ⟨n, hn⟩ | hr
    · rw [hn] at hx'; simp [statusResponse, errResponse, errDoc, Doc.resourceObjects] at hx'
    · rcases route_cases s r _ hr with ⟨ty', t, hp', _, _⟩ | ⟨ty', id', t, hp', _, _⟩ | ⟨ty', id', name', t, hp', ht, hroute⟩ | ⟨ty', id', name', t, hp', ht, hroute⟩
      · rw [hp] at hp'; simp at hp'
      · rw [hp] at hp'; simp at hp'
      · rw [hp] at hp'
        simp at hp'
        obtain ⟨rfl, rfl, rfl⟩ := hp'
        obtain ⟨d, l, h1, h2, h3⟩ := ((relatedRoute_facts s r t _ _ _ hroute).res x hx').2
        exact ⟨t, d, l, ht, h1, h2, h3⟩
      · rw [hp] at hp'; simp at hp'
  · rw [hb.1]; intro x hx; simp [Doc.resourceObjects] at hx

/-! ## Non-vacuity: a concrete schema and requests satisfying the hypotheses of the rule theorems -/

namespace Demo
def people : TypeDef :=
  { attrs := [("name", .value)], rels := [],
    get := some (fun id => if id == "7" then .error ⟨.num 403⟩ else .found),
    patch := some (fun _ => .found), create := none, delete := none }
def articles : TypeDef :=
  { attrs := [("title", .value)],
    rels := [("author", .toOne true (.id ⟨"people", "9"⟩)), ("tags", .toMany false (.ids []) none none)],
    get := some (fun id => if id == "0" then .nil else .found), patch := none,
    create := some (.created ⟨"articles", "new"⟩), delete := none }
def noget : TypeDef :=
  { attrs := [], rels := [("r", .toOne false .nil)], get := none, patch := none, create := none, delete := none }
/-- A to-many linkage with runs of unregistered type names (and the empty name) around a registered
    member: every member is looked up on its own, unknown ones are left out. -/
def lists : TypeDef :=
  { attrs := [],
    rels := [("members", .toMany false
      (.ids [⟨"ghost", "1"⟩, ⟨"ghost", "2"⟩, ⟨"", "3"⟩, ⟨"", "4"⟩, ⟨"people", "9"⟩, ⟨"ghost", "5"⟩, ⟨"ghost", "5"⟩]) none none)],
    get := some (fun _ => .found), patch := none, create := none, delete := none }
def schema : Schema := [("articles", articles), ("people", people), ("noget", noget), ("lists", lists)]
def accept : List AcceptInst := [⟨jsonApiMediaType, [], false⟩]
def req (m : String) (p : List String) (b : Body) : Req :=
  { method := m, leadingSlash := true, path := p, accept := accept, query := [], body := b }
def noBody : Body := ⟨none, none, false, false⟩

theorem admitted (m : String) (p : List String) (b : Body) : Admitted (req m p b) :=
  ⟨by show acceptable accept = true; decide, by intro k hk; simp [req] at hk⟩

theorem envOK : EnvOK schema := by
  intro x hx
  simp only [schema, List.mem_cons, List.not_mem_nil, or_false] at hx
  rcases hx with rfl | rfl | rfl | rfl
  · constructor <;> simp [articles, RelOK]
    intro id e h; split at h <;> cases h
  · constructor <;> simp [people]
    intro id e h
    split at h
    · cases h; exact Or.inr ⟨403, rfl, by decide⟩
    · cases h
  · constructor <;> simp [noget, RelOK]
  · constructor <;> simp [lists, RelOK]

example : Conflict schema (req "PATCH" ["articles", "1", "author"] ⟨some ⟨"people", "10"⟩, some "people", true, false⟩) :=
  .updateRelated "articles" "1" "author" articles people _ _ ⟨"people", "9"⟩ ⟨"people", "10"⟩ rfl rfl rfl rfl rfl rfl rfl rfl rfl (by decide)
example : Conflict schema (req "POST" ["articles"] ⟨none, some "people", false, false⟩) :=
  .create "articles" articles "people" rfl rfl rfl rfl (by decide)
example : Conflict schema (req "PATCH" ["people", "1"] ⟨some ⟨"people", "2"⟩, some "people", true, false⟩) :=
  .update "people" "1" people ⟨"people", "2"⟩ rfl rfl rfl rfl (by decide)
example : Undefined schema (req "GET" ["noget", "1", "relationships", "r"] noBody) :=
  .relationshipNoGet "noget" "1" "r" noget rfl rfl (Or.inl rfl) rfl
example : Undefined schema (req "GET" ["noget", "1", "r"] noBody) :=
  .relatedNoGet "noget" "1" "r" noget rfl rfl (Or.inl rfl) rfl
example : Undefined schema (req "POST" ["articles", "1", "relationships", "tags"] ⟨none, none, true, true⟩) :=
  .noAddMembers "articles" "1" "tags" articles _ _ rfl rfl rfl rfl rfl rfl rfl rfl
example : Undefined schema (req "PUT" ["articles", "1"] noBody) :=
  .resourceMethod "articles" "1" articles rfl rfl (by decide) (by decide) (by decide)
example : Unknown schema (req "GET" ["articles", "0"] noBody) :=
  .nilResource "articles" "0" articles _ rfl rfl rfl rfl rfl
example : Unknown schema (req "GET" ["ghost", "1"] noBody) := .noType "ghost" ["1"] rfl rfl
example : Unknown schema (req "GET" ["articles", "1", "relationships", "nope"] noBody) :=
  .noRelationship "articles" "1" "nope" articles _ ["relationships"] rfl (Or.inr rfl) rfl rfl rfl rfl rfl

def article1 : Resource :=
  { type := "articles", id := "1", attrs := [("title", true)],
    rels := [
      ("author", { links := [("self", "/articles/1/relationships/author"), ("related", "/articles/1/author")],
                   data := some (.one ⟨"people", "9"⟩) }),
      ("tags", { links := [("self", "/articles/1/relationships/tags"), ("related", "/articles/1/tags")],
                 data := none })] }

example : serveHTTP schema (req "GET" ["articles", "1"] noBody) =
    .wrote 200 "application/vnd.api+json" []
      { data := some (.resource article1), links := [("self", "/articles/1")], jsonapi := some "1.1" } := by
  decide
example : (serveHTTP schema (req "GET" ["articles", "1", "author"] noBody)).status = some 200 := by decide
example : (serveHTTP schema (req "GET" ["people", "7"] noBody)).status = some 403 := by decide

/-- Related resources of a linkage with consecutive unregistered members: 200, exactly the one
    registered member is returned (round-2 seed C19-5 panicked here). -/
example : serveHTTP schema (req "GET" ["lists", "1", "members"] noBody) =
    .wrote 200 "application/vnd.api+json" []
      { data := some (.resources [{ type := "people", id := "9", attrs := [("name", true)], rels := [] }]),
        links := [("self", "/lists/1/members")], jsonapi := some "1.1" } := by decide

/-- The abstract request keeps the *line structure* of the Accept header: the values
    `application/vnd.api+json` and `text/html` on two lines are acceptable, the same values on one
    comma-joined line are one unparsable instance (406). The answer is a function of the request
    alone — the model has no state; the harness's history dimension checks that the code has none
    either (round-2 seed C19-4 cached the verdict under the joined header). -/
example :
    isAcceptable [⟨jsonApiMediaType, [], false⟩, ⟨"text/html", [], false⟩] = true ∧
    isAcceptable [⟨"", [], true⟩] = false := by decide
example : (serveHTTP schema (req "POST" ["articles"] ⟨none, some "articles", false, false⟩)).status = some 201 := by decide

/-- `never_panics` is not vacuous: the demo schema (which has a resolver error) is inside the envelope. -/
example (r : Req) : ∃ ct hd body, serveHTTP schema r = .wrote (refStatus schema r) ct hd body :=
  never_panics schema r envOK

/-- F-19c (outside the envelope, not claimed): a resolver error whose Status is not a number makes
    `WriteHeader(0)` panic. -/
example : serveHTTP [("a", { attrs := [], rels := [], get := some (fun _ => .error ⟨.junk⟩), patch := none, create := none, delete := none })]
    (req "GET" ["a", "1"] noBody) = .panic := by decide
end Demo

end ApiFu.C19
