/-
  C19 — property theorems about member names (session 3). The definitions are in MemberNames.lean
  (the JSON:API member-name grammar transcribed from the specification text the code cites) and
  EmittedNames.lean (`newSchemaOK` = NewSchema's name checks; provenance of resource objects).

  Everything is for ALL strings / schemas / requests; nothing is bounded.
-/
import ApiFu.C19.Props
import ApiFu.C19.EmittedNames
import ApiFu.C19.MemberNamesDecide

namespace ApiFu.C19

open Spec
open MemberNames (RecommendedMemberName SpecMemberName globallyAllowed innerAllowed reserved unreserved
  newSchemaOK LinkNamesOK)

/-- **memberName_eq_spec**: for every string, `validateMemberName` (jsonapi.go:23, transliterated)
    accepts it exactly when it is a JSON:API member name by the specification's MUST rules (at least one
    character, only allowed characters, first and last "globally allowed") in the RECOMMENDED form
    (only RFC 3986 unreserved, "URL safe", characters). -/
theorem memberName_eq_spec (n : List Char) : validateMemberName n = true ↔ RecommendedMemberName n :=
  MemberNames.memberName_eq_spec n

/-- The reference predicate of the query-parameter grammar and of RefStatus (`Spec.memberName`) is
    that same grammar. -/
theorem spec_memberName_eq_spec (n : List Char) : Spec.memberName n = true ↔ RecommendedMemberName n :=
  MemberNames.spec_memberName_iff n

/-- The executable grammar the driver answers with (`(membername K)`, compared with the Go reference
    and `jsonapi.NewSchema` on every probe name) decides the declarative grammar, for every string. -/
theorem grammar_decision_sound (n : List Char) :
    MemberNames.recommendedB n = true ↔ RecommendedMemberName n :=
  MemberNames.recommendedB_iff n

/-- The specification's three character lists (globally allowed, allowed inside only, reserved)
    classify every code point exactly once: the transcription has no gap and no overlap. -/
theorem member_name_classes_partition (c : Char) :
    (globallyAllowed c = true ∧ innerAllowed c = false ∧ reserved c = false) ∨
    (globallyAllowed c = false ∧ innerAllowed c = true ∧ reserved c = false) ∨
    (globallyAllowed c = false ∧ innerAllowed c = false ∧ reserved c = true) :=
  MemberNames.classes_partition c

/-- A name the library accepts is a member name by the MUST rules; a MUST-valid name it refuses
    contains a space or a character ≥ U+0080 (what the specification marks "not recommended, not URL
    safe"). So the library's rule is the specification's, narrowed by exactly its recommendation. -/
theorem library_names_vs_spec (n : List Char) :
    (validateMemberName n = true → SpecMemberName n) ∧
    (SpecMemberName n → validateMemberName n = false → ∃ c ∈ n, c.toNat = 0x20 ∨ 0x80 ≤ c.toNat) :=
  ⟨MemberNames.accepted_is_spec_memberName n, MemberNames.refused_spec_name n⟩

/-- **alias_rejected** (lesson of seed C19-22): a character ≥ U+0080 makes a name invalid at every
    position — first, inner, last — whatever its code point is congruent to modulo 2^7, 2^8, 2^16. -/
theorem alias_rejected (c : Char) (hc : 0x80 ≤ c.toNat) (pre post : List Char) :
    validateMemberName (pre ++ c :: post) = false :=
  MemberNames.alias_rejected c hc pre post

/-- **alias_status_400**: a request whose Accept header is acceptable and one of whose query keys
    carries a character ≥ U+0080 anywhere (family or bracketed name, any position) is answered 400,
    for every schema, path, method and body. -/
theorem alias_status_400 (s : Schema) (r : Req) (ha : acceptable r.accept = true)
    (c : Char) (hc : 0x80 ≤ c.toNat) (pre post : List Char) (hk : pre ++ c :: post ∈ r.query) :
    (serveHTTP s r).status = some 400 := by
  apply status_rule_400 s r ha _ hk
  intro hsup
  have h1 := MemberNames.alias_key_rejected c hc pre post
  have h2 := (keyRejected_false_iff _).mpr hsup
  rw [h1] at h2; cases h2

/-- Non-vacuity: `?p%C5%A1ge=1` (U+0161 ≡ 'a' mod 256) on the Demo schema. -/
example (s : Schema) (r : Req) (ha : acceptable r.accept = true)
    (hk : ['p', Char.ofNat 0x161, 'g', 'e'] ∈ r.query) : (serveHTTP s r).status = some 400 :=
  alias_status_400 s r ha (Char.ofNat 0x161) (by decide) ['p'] ['g', 'e'] hk

/-- The member names the encoder writes itself (struct tags of types.ResponseDocument, Resource,
    Relationship, Error, the `jsonapi` object; the standard link names). A finite fact, decided. -/
def fixedMemberNames : List String :=
  ["data", "errors", "links", "jsonapi", "version", "meta", "included", "type", "id", "attributes",
   "relationships", "self", "related", "status", "title", "detail", "code", "source"]

theorem fixed_member_names_valid : ∀ n ∈ fixedMemberNames, validateMemberName n.toList = true := by decide

/-- **emitted_member_names**: for a schema `NewSchema` accepts, every resource object of every
    document the handler writes — whatever the request — has only valid member names: each attribute
    and relationship name is a (RECOMMENDED-form) JSON:API member name, is not `id` / `type`, no name is
    both an attribute and a relationship, every relationship's links object has exactly the members
    `self`, `related`, and the top-level links object has no member other than `self` / `related`. -/
theorem emitted_member_names (s : Schema) (hs : newSchemaOK s = true) (r : Req)
    (st : Nat) (ct : String) (hd : List (String × String)) (body : Doc)
    (h : serveHTTP s r = .wrote st ct hd body) :
    LinkNamesOK body.links ∧
    ∀ x ∈ body.resourceObjects,
      (∀ a ∈ x.attrs, RecommendedMemberName a.1.toList ∧ a.1 ≠ "id" ∧ a.1 ≠ "type" ∧ a.1 ∉ x.rels.map (·.1)) ∧
      (∀ p ∈ x.rels, RecommendedMemberName p.1.toList ∧ p.1 ≠ "id" ∧ p.1 ≠ "type" ∧
        p.2.links.map (·.1) = ["self", "related"]) := by
  obtain ⟨_, hcase⟩ := written_cases s r st ct hd body h
  rcases hcase with ⟨hb, _, _, _⟩ | ⟨hb, _, _, _⟩
  · have hf := MemberNames.executeRequest_names s r
    have hshape := executeRequest_cases s r
    subst hb
    refine ⟨hf.links, ?_⟩
    intro x hx
    have hx' : x ∈ (executeRequest s r).doc.resourceObjects := by simpa [Doc.resourceObjects] using hx
    obtain ⟨t, ht, hattrs, hrels⟩ := hf.res x hx'
    have hok := MemberNames.inSchema_namesOK hs ht
    have hlinks : LinksOK x := by
      rcases hshape with ⟨n, hn⟩ | hroute
      · rw [hn] at hx'; simp [statusResponse, errResponse, errDoc, Doc.resourceObjects] at hx'
      · exact route_links s r _ hroute x hx'
    constructor
    · intro a ha
      have hmem : a.1 ∈ t.attrs.map (·.1) := by rw [← hattrs]; exact List.mem_map.mpr ⟨a, ha, rfl⟩
      obtain ⟨h1, h2, h3, h4⟩ := MemberNames.attr_name_ok hok hmem
      exact ⟨(MemberNames.memberName_eq_spec _).mp h1, h2, h3, by rw [hrels]; exact h4⟩
    · intro p hp
      have hmem : p.1 ∈ t.rels.map (·.1) := by rw [← hrels]; exact List.mem_map.mpr ⟨p, hp, rfl⟩
      obtain ⟨h1, h2, h3⟩ := MemberNames.rel_name_ok hok hmem
      exact ⟨(MemberNames.memberName_eq_spec _).mp h1, h2, h3, by rw [hlinks p hp]; rfl⟩
  · subst hb
    exact ⟨by simp [LinkNamesOK], by simp [Doc.resourceObjects]⟩

/-- Non-vacuity of `emitted_member_names`: the Demo schema is accepted by `newSchemaOK`. -/
example : newSchemaOK Demo.schema = true := by decide

end ApiFu.C19
