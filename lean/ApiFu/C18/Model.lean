/-
  C18 — model of `PersistedQueryExtension` (persisted_query.go:20-69) in front of `execute`.

  This hand-written model is what the property theorems (Props.lean) are proved about and what the
  driver runs. It is tied to the source twice: `Generated.step` (regenerated from persisted_query.go
  on every check) is proved equal to it after the abstraction `Go.abs` (PropsGenerated.lean), and
  the harness compares it with the running code.

  The JSON/HTTP envelope is outside this model (the harness sends the driver the Go-level value
  tree of `Request.Extensions`; `Go.abs` in Abs.lean maps it to a `Req`; the C17 model covers the
  envelope). A `Req` is what `PersistedQueryExtension` distinguishes in its input:
    * `query`        : `Request.Query` ("" when absent)
    * `hasDoc`       : `Request.Document != nil` (never on the `ServeGraphQL` path; a direct caller of
                       `PersistedQueryExtension` may pass a parsed document instead of text)
    * `ext`          : `Extensions["persistedQuery"]` when it is a JSON object, else `none`
    * `version`      : whether `ext["version"]` compares equal to 1 / 1.0
    * `hashHex`      : `ext["sha256Hash"]` when it is a JSON string, else `none`
  The hash function is a parameter `H`; the driver instantiates it with a table the harness fills
  from Go's crypto/sha256 (see Main.lean), the theorems hold for every `H`.
-/
namespace ApiFu.C18

abbrev Hash := List Nat            -- bytes

inductive Version where
  | one | other
  deriving Repr, DecidableEq

structure Ext where
  version : Version
  hashHex : Option String
  deriving Repr

structure Req where
  query : String
  ext : Option Ext
  hasDoc : Bool := false
  deriving Repr

/-- Calls made on the application's `PersistedQueryStorage`. -/
inductive Call where
  | get (h : Hash)
  | put (text : String) (h : Hash)
  deriving Repr, DecidableEq

inductive Out where
  | executed (text : String)       -- `execute` ran on this query text
  | notFound                       -- `PersistedQueryNotFound`, nothing executed
  deriving Repr, DecidableEq

/-- The harness's storage: an association list, newest first (last write wins). -/
abbrev Storage := List (Hash × String)

def Storage.get (s : Storage) (h : Hash) : String :=
  match s.find? (fun p => p.1 == h) with
  | some p => p.2
  | none => ""

/-- A best-effort storage may lose what it held under a key (eviction, a failed backend). -/
def Storage.evict (s : Storage) (h : Hash) : Storage := s.filter (fun p => p.1 != h)

def hexVal (c : Char) : Option Nat :=
  if '0' ≤ c ∧ c ≤ '9' then some (c.toNat - '0'.toNat)
  else if 'a' ≤ c ∧ c ≤ 'f' then some (c.toNat - 'a'.toNat + 10)
  else if 'A' ≤ c ∧ c ≤ 'F' then some (c.toNat - 'A'.toNat + 10)
  else none

/-- Go's `hex.DecodeString` *as used here*: the error is ignored and the bytes decoded before the
    first invalid pair (or before a trailing odd digit) are returned. -/
def hexDecodePrefix : List Char → Hash
  | a :: b :: rest =>
    match hexVal a, hexVal b with
    | some x, some y => (x * 16 + y) :: hexDecodePrefix rest
    | _, _ => []
  | _ => []

def sha256Size : Nat := 32

/-- The hash-only branch (persisted_query.go:36-63): look the decoded key up. -/
def lookup (H : String → Hash) (s : Storage) (e : Ext) : Storage × List Call × Out :=
  let hash := hexDecodePrefix ((e.hashHex.getD "").toList)
  if hash == H "" then (s, [], .executed "")
  else if hash.length == sha256Size then
    if s.get hash != "" then (s, [.get hash], .executed (s.get hash)) else (s, [.get hash], .notFound)
  else (s, [], .notFound)

/-- The text-carrying branch (persisted_query.go:64-67): register under the text's own digest. -/
def register (H : String → Hash) (s : Storage) (q : String) : Storage × List Call × Out :=
  ((H q, q) :: s, [.put q (H q)], .executed q)

/-- One request through the extension. Returns the new storage, the storage calls, and the outcome. -/
def step (H : String → Hash) (s : Storage) (r : Req) : Storage × List Call × Out :=
  match r.ext with
  | none => (s, [], .executed r.query)
  | some e =>
    match e.version with
    | .other => (s, [], .executed r.query)
    | .one =>
      if r.query == "" then
        -- a request that carries a parsed document instead of text is neither looked up nor registered
        if r.hasDoc then (s, [], .executed r.query) else lookup H s e
      else register H s r.query

/-- A whole history from a given storage. -/
def run (H : String → Hash) : Storage → List Req → Storage × List (List Call × Out)
  | s, [] => (s, [])
  | s, r :: rs =>
    let (s', calls, out) := step H s r
    let (s'', outs) := run H s' rs
    (s'', (calls, out) :: outs)

/-- The behaviour with the feature disabled: every request executes its own query text. -/
def disabled (r : Req) : Out := .executed r.query

end ApiFu.C18
