/-
  C18 model driver. Line protocol (S-expressions, one per line):
    (hash "<text>" "<hex of Go's sha256(text)>")   → ok | sha-mismatch   -- Lean's SHA-256 (the driver's H) vs Go's
    (reset)                                        → ok       -- empty storage
    (req "<query>" none)                           → reply
    (req "<query>" (ext one|other none|"<hashHex>"))→ reply
    (greq "<query>" doc|nodoc <extensions>)        → reply    -- Go-level request: the driver applies `Go.abs`
        <extensions> := (nilmap) | (map ("<key>" <value>) …)
        <value>      := (nil) | (bool true|false) | (f64 <IEEE bits, decimal>) | (int n) | (int64 n) | (str "…")
                      | (nilmap) | (map ("<key>" <value>) …) | (slice <value> …) | (other "<Go type>")
        the reply carries a fourth member, the abstraction that was applied: none | (ext one|other (str "…")|nostr)
    (evict "<hex>")                                → ok       -- the storage loses what it held under that key
  reply := (out (executed "<text>")|notFound (calls (get "<hex>") | (put "<text>" "<hex>") …))
  Digests travel as lower-case hex strings; the model works on byte lists.
-/
import ApiFu.Common.Sexp
import ApiFu.Common.Loop
import ApiFu.C18.Model
import ApiFu.C18.Abs
import ApiFu.C18.Sha256

open ApiFu ApiFu.C18

structure St where
  table : List (String × Hash) := []
  storage : Storage := []

def hexDigit (n : Nat) : Char :=
  if n < 10 then Char.ofNat (n + '0'.toNat) else Char.ofNat (n - 10 + 'a'.toNat)

def toHex (h : Hash) : String :=
  String.ofList (h.flatMap fun b => [hexDigit (b / 16), hexDigit (b % 16)])

def lookupH (table : List (String × Hash)) (t : String) : Hash :=
  match table.find? (fun p => p.1 == t) with
  | some p => p.2
  | none => []          -- unknown text: the driver reports it (see `known`)

def known (table : List (String × Hash)) (t : String) : Bool :=
  (table.find? (fun p => p.1 == t)).isSome

def callSexp : Call → Sexp
  | .get h => Sexp.node "get" [Sexp.str (toHex h)]
  | .put t h => Sexp.node "put" [Sexp.str t, Sexp.str (toHex h)]

def outSexp : Out → Sexp
  | .executed t => Sexp.node "executed" [Sexp.str t]
  | .notFound => Sexp.atom "notFound"

partial def parseValue : Sexp → Option Go.Value
  | Sexp.list [Sexp.atom "nil"] => some .nil
  | Sexp.list [Sexp.atom "bool", Sexp.atom b] => some (.bool (b == "true"))
  | Sexp.list [Sexp.atom "f64", Sexp.atom n] => n.toNat?.map fun b => .float64 ⟨b⟩
  | Sexp.list [Sexp.atom "int", Sexp.atom n] => n.toInt?.map .int
  | Sexp.list [Sexp.atom "int64", Sexp.atom n] => n.toInt?.map .int64
  | Sexp.list [Sexp.atom "str", Sexp.atom t] => some (.string t)
  | Sexp.list [Sexp.atom "nilmap"] => some (.map none)
  | Sexp.list [Sexp.atom "other", Sexp.atom t] => some (.other t)
  | Sexp.list (Sexp.atom "map" :: kvs) =>
    (kvs.mapM fun kv => match kv with
      | Sexp.list [Sexp.atom k, v] => (parseValue v).map fun v' => (k, v')
      | _ => none).map fun l => .map (some l)
  | Sexp.list (Sexp.atom "slice" :: vs) => (vs.mapM parseValue).map .slice
  | _ => none

def extSexp : Option Ext → Sexp
  | none => Sexp.atom "none"
  | some e => Sexp.node "ext" [Sexp.atom (if e.version == .one then "one" else "other"),
      match e.hashHex with
      | some h => Sexp.node "str" [Sexp.str h]
      | none => Sexp.atom "nostr"]

def handle (st : St) (line : String) : St × String :=
  match Sexp.parse line with
  | some (Sexp.list [Sexp.atom "hash", Sexp.atom t, Sexp.atom hex]) =>
    (st, if Sha256.ofString t == hexDecodePrefix hex.toList then "ok" else "sha-mismatch " ++ toHex (Sha256.ofString t))
  | some (Sexp.list [Sexp.atom "reset"]) => ({ st with storage := [] }, "ok")
  | some (Sexp.list [Sexp.atom "req", Sexp.atom q, e]) =>
    let ext? : Option (Option Ext) :=
      match e with
      | Sexp.atom "none" => some none
      | Sexp.list [Sexp.atom "ext", Sexp.atom v, Sexp.list [Sexp.atom "str", Sexp.atom h]] =>
        some (some { version := if v == "one" then .one else .other, hashHex := some h })
      | Sexp.list [Sexp.atom "ext", Sexp.atom v, Sexp.atom "nostr"] =>
        some (some { version := if v == "one" then .one else .other, hashHex := none })
      | _ => none
    match ext? with
    | none => (st, "bad-op")
    | some ext =>
      let (s', calls, out) := step Sha256.ofString st.storage { query := q, ext := ext }
      ({ st with storage := s' }, toString (Sexp.node "out" [outSexp out, Sexp.list (calls.map callSexp)]))
  | some (Sexp.list [Sexp.atom "evict", Sexp.atom hex]) =>
    ({ st with storage := st.storage.evict (hexDecodePrefix hex.toList) }, "ok")
  | some (Sexp.list [Sexp.atom "greq", Sexp.atom q, Sexp.atom d, e]) =>
    match parseValue e with
    | some (.map m) =>
      let r : Req := Go.abs { Query := q, Document := if d == "doc" then some 1 else none, Extensions := m }
      let (s', calls, out) := step Sha256.ofString st.storage r
      ({ st with storage := s' }, toString (Sexp.node "out" [outSexp out, Sexp.list (calls.map callSexp), extSexp r.ext]))
    | _ => (st, "bad-op")
  | _ => (st, "bad-op")

def main : IO Unit := lineLoop handle {}
