/-
  C18 model driver. Line protocol (S-expressions, one per line):
    (hash "<text>" "<hex of Go's sha256(text)>")   → ok | sha-mismatch   -- Lean's SHA-256 (the driver's H) vs Go's
    (reset)                                        → ok       -- empty storage
    (req "<query>" none)                           → reply
    (req "<query>" (ext one|other none|"<hashHex>"))→ reply
  reply := (out (executed "<text>")|notFound (calls (get "<hex>") | (put "<text>" "<hex>") …))
  Digests travel as lower-case hex strings; the model works on byte lists.
-/
import ApiFu.Common.Sexp
import ApiFu.Common.Loop
import ApiFu.C18.Model
import ApiFu.C18.Sha256

open ApiFu ApiFu.C18

structure St where
  table : List (String × Hash) := []
  storage : Storage := []

def hexDigit (n : Nat) : Char :=
  if n < 10 then Char.ofNat (n + '0'.toNat) else Char.ofNat (n - 10 + 'a'.toNat)

def toHex (h : Hash) : String :=
  String.ofList (h.flatMap fun b => [hexDigit (b / 16), hexDigit (b % 16)])

def lookupH (table : List (String × Hash)) (t : String) : Hash :=
  match table.find? (fun p => p.1 == t) with
  | some p => p.2
  | none => []          -- unknown text: the driver reports it (see `known`)

def known (table : List (String × Hash)) (t : String) : Bool :=
  (table.find? (fun p => p.1 == t)).isSome

def callSexp : Call → Sexp
  | .get h => Sexp.node "get" [Sexp.str (toHex h)]
  | .put t h => Sexp.node "put" [Sexp.str t, Sexp.str (toHex h)]

def outSexp : Out → Sexp
  | .executed t => Sexp.node "executed" [Sexp.str t]
  | .notFound => Sexp.atom "notFound"

def handle (st : St) (line : String) : St × String :=
  match Sexp.parse line with
  | some (Sexp.list [Sexp.atom "hash", Sexp.atom t, Sexp.atom hex]) =>
    (st, if Sha256.ofString t == hexDecodePrefix hex.toList then "ok" else "sha-mismatch " ++ toHex (Sha256.ofString t))
  | some (Sexp.list [Sexp.atom "reset"]) => ({ st with storage := [] }, "ok")
  | some (Sexp.list [Sexp.atom "req", Sexp.atom q, e]) =>
    let ext? : Option (Option Ext) :=
      match e with
      | Sexp.atom "none" => some none
      | Sexp.list [Sexp.atom "ext", Sexp.atom v, Sexp.list [Sexp.atom "str", Sexp.atom h]] =>
        some (some { version := if v == "one" then .one else .other, hashHex := some h })
      | Sexp.list [Sexp.atom "ext", Sexp.atom v, Sexp.atom "nostr"] =>
        some (some { version := if v == "one" then .one else .other, hashHex := none })
      | _ => none
    match ext? with
    | none => (st, "bad-op")
    | some ext =>
      let (s', calls, out) := step Sha256.ofString st.storage { query := q, ext := ext }
      ({ st with storage := s' }, toString (Sexp.node "out" [outSexp out, Sexp.list (calls.map callSexp)]))
  | _ => (st, "bad-op")

def main : IO Unit := lineLoop handle {}
