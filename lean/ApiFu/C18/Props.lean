/-
  C18 — property theorems (for every hash function `H`, every history, every request).
-/
import ApiFu.C18.Model

namespace ApiFu.C18

/-- Texts that an earlier request registered: non-empty query text sent with a version-1 extension. -/
def registered (rs : List Req) (t : String) : Prop :=
  ∃ r ∈ rs, r.query = t ∧ t ≠ "" ∧ ∃ e, r.ext = some e ∧ e.version = .one

/-- Invariant of the storage along a history `rs` that led to it. -/
def Inv (H : String → Hash) (rs : List Req) (s : Storage) : Prop :=
  ∀ p ∈ s, p.1 = H p.2 ∧ registered rs p.2

theorem Storage.get_mem (s : Storage) (h : Hash) (hne : s.get h ≠ "") : (h, s.get h) ∈ s := by
  unfold Storage.get at *
  cases hf : s.find? (fun p => p.1 == h) with
  | none => simp [hf] at hne
  | some p =>
    simp only
    have hm := List.mem_of_find?_eq_some hf
    have hp := List.find?_some hf
    have : p.1 = h := by simpa using hp
    cases p; simp_all

theorem registered_mono {rs : List Req} {t : String} (r : Req) (h : registered rs t) :
    registered (rs ++ [r]) t := by
  obtain ⟨r', hr', rest⟩ := h
  exact ⟨r', by simp [hr'], rest⟩

theorem lookup_fst (H : String → Hash) (s : Storage) (e : Ext) : (lookup H s e).1 = s := by
  unfold lookup
  simp only
  split
  · rfl
  · split
    · split <;> rfl
    · rfl

/-- The storage after a step is the old one, or the old one plus `(H q, q)` for the request's own
    non-empty text sent under a version-1 extension. -/
theorem step_fst (H : String → Hash) (s : Storage) (r : Req) :
    (step H s r).1 = s ∨
    ((step H s r).1 = (H r.query, r.query) :: s ∧ r.query ≠ "" ∧ ∃ e, r.ext = some e ∧ e.version = .one) := by
  cases hext : r.ext with
  | none => left; simp [step, hext]
  | some e =>
    cases hv : e.version with
    | other => left; simp [step, hext, hv]
    | one =>
      by_cases hq : r.query = ""
      · left
        cases hd : r.hasDoc <;> simp [step, hext, hv, hq, hd, lookup_fst]
      · right
        have hq' : (r.query == "") = false := by simpa using hq
        simp [step, hext, hv, hq', register, hq]

/-- One step preserves the invariant (the history grows by the request). -/
theorem step_inv (H : String → Hash) (rs : List Req) (s : Storage) (r : Req) (h : Inv H rs s) :
    Inv H (rs ++ [r]) (step H s r).1 := by
  have keep : Inv H (rs ++ [r]) s := fun p hp => ⟨(h p hp).1, registered_mono r (h p hp).2⟩
  rcases step_fst H s r with h1 | ⟨h1, hq, e, hext, hv⟩
  · rw [h1]; exact keep
  · rw [h1]
    intro p hp
    rcases List.mem_cons.mp hp with rfl | hp
    · exact ⟨rfl, r, by simp, rfl, hq, e, hext, hv⟩
    · exact keep p hp

/-- The storage reached after `rs` from the empty storage. -/
def storageAfter (H : String → Hash) (rs : List Req) : Storage :=
  rs.foldl (fun s r => (step H s r).1) []

theorem foldl_inv (H : String → Hash) (pre : List Req) (s : Storage) (h : Inv H pre s) (rs : List Req) :
    Inv H (pre ++ rs) (rs.foldl (fun s r => (step H s r).1) s) := by
  induction rs generalizing pre s with
  | nil => simpa using h
  | cons r rs ih =>
    have := ih (pre ++ [r]) (step H s r).1 (step_inv H pre s r h)
    simpa using this

/-- **storage_digest_inv** — along every history, every stored pair is `(H text, text)` for a text
    that an earlier request registered: no sequence of requests can make a hash resolve to a
    document with a different digest. -/
theorem storage_digest_inv (H : String → Hash) (rs : List Req) :
    ∀ p ∈ storageAfter H rs, p.1 = H p.2 ∧ registered rs p.2 := by
  have := foldl_inv H [] [] (by intro p hp; cases hp) rs
  simpa [storageAfter, Inv] using this

/-- **lookup_executes_registered** — a hash-only request (version 1, no query text) after any
    history either executes a text whose digest is the supplied key and that was registered
    earlier (or the empty text, for the empty text's own digest), or answers NotFound. It never
    executes anything else. -/
theorem lookup_executes_registered (H : String → Hash) (rs : List Req) (e : Ext) (hv : e.version = .one) :
    let key := hexDecodePrefix ((e.hashHex.getD "").toList)
    let out := (step H (storageAfter H rs) { query := "", ext := some e }).2.2
    out = .notFound ∨
    (out = .executed "" ∧ key = H "") ∨
    (∃ t, out = .executed t ∧ H t = key ∧ registered rs t) := by
  intro key out
  have hout : out = (lookup H (storageAfter H rs) e).2.2 := by
    simp [out, step, hv]
  rw [hout]
  unfold lookup
  simp only
  split
  · rename_i hk
    right; left
    exact ⟨rfl, by simpa using hk⟩
  · split
    · split
      · rename_i hne
        right; right
        have hne' : (storageAfter H rs).get key ≠ "" := by simpa using hne
        have hm := Storage.get_mem _ key hne'
        have hinv := storage_digest_inv H rs _ hm
        exact ⟨_, rfl, hinv.1.symm, hinv.2⟩
      · left; rfl
    · left; rfl

/-- **register_true_hash_only** — a request carrying text (and a version-1 extension, whatever hash
    it claims) executes the supplied text and writes exactly `(H text, text)`. -/
theorem register_true_hash_only (H : String → Hash) (s : Storage) (q : String) (e : Ext)
    (hq : q ≠ "") (hv : e.version = .one) :
    step H s { query := q, ext := some e } = ((H q, q) :: s, [.put q (H q)], .executed q) := by
  have hq' : (q == "") = false := by simpa using hq
  simp [step, hv, hq', register]

/-- **no_ext_is_disabled** — without the extension (or with a non-object one), or with an unknown
    version, the request behaves exactly as if the feature were disabled: the request's own text is
    executed, the storage is neither read nor written. -/
theorem no_ext_is_disabled (H : String → Hash) (s : Storage) (r : Req)
    (h : r.ext = none ∨ ∃ e, r.ext = some e ∧ e.version = .other) :
    step H s r = (s, [], disabled r) := by
  rcases h with h | ⟨e, h, hv⟩
  · simp [step, h, disabled]
  · simp [step, h, hv, disabled]

/-- **not_found_keeps_storage** — a NotFound answer leaves the storage contents untouched (and by
    the shape of `Out` nothing was executed). -/
theorem not_found_keeps_storage (H : String → Hash) (s : Storage) (r : Req)
    (h : (step H s r).2.2 = .notFound) : (step H s r).1 = s := by
  rcases step_fst H s r with h1 | ⟨_, hq, e, hext, hv⟩
  · exact h1
  · have hq' : (r.query == "") = false := by simpa using hq
    simp [step, hext, hv, hq', register] at h

/-- Non-vacuity: a concrete history in which a registered text is later found by its hash although
    the registering request claimed a wrong hash. `toyH` is a toy digest. -/
def toyH (s : String) : Hash := (List.replicate 31 0) ++ [s.length]

example :
    let e1 : Ext := { version := .one, hashHex := some "ff" }
    let k5 : String := String.join (List.replicate 31 "00") ++ "05"
    let e2 : Ext := { version := .one, hashHex := some k5 }
    ((run toyH [] [ { query := "{a b}", ext := some e1 }, { query := "", ext := some e2 } ]).2.map (·.2))
      = [.executed "{a b}", .executed "{a b}"] := by
  decide

end ApiFu.C18
