/-
  C18 — the bridge between the source-generated definition and the model, and the property theorems
  restated about the generated definition.

  `Generated.step` is regenerated from persisted_query.go on every check (tools/c18facts).
  `generated_step_eq_model` proves it equal to `Model.step` after the abstraction `Go.abs`, for every
  request value, storage, hash function and `execute` callback; the proof is a case analysis over the
  atomic conditions both sides test (version is the int 1 / the float64 1.0, Query empty, Document nil,
  decoded key = digest of "", key length 32, storage answer empty) closed by `simp`, so it does not
  depend on the names of locals, the order of conjuncts or cases, or the shape of the control flow.
-/
import ApiFu.C18.Generated
import ApiFu.C18.Abs
import ApiFu.C18.Props

set_option linter.unusedSimpArgs false

namespace ApiFu.C18
open ApiFu.C18.Go

theorem float_eq_one (f : Float64) : f.eq ⟨0x3FF0000000000000⟩ = (f.bits == oneBits) := by
  by_cases h : f.bits = oneBits
  · have : f = ⟨oneBits⟩ := by cases f; simp_all
    subst this; decide
  · have h' : (f.bits == oneBits) = false := by simpa using h
    have h2 : (f.bits == 0x3FF0000000000000) = false := h'
    simp [Float64.eq, h', h2, Float64.isZero]

theorem goEqLit_int_one (v : Value) : goEqLit v (1 : Value) = isInt1 v := by
  cases v <;> rfl

theorem goEqLit_float_one (v : Value) :
    goEqLit v (goFloatLit 0x3FF0000000000000 : Value) = isFloat1 v := by
  cases v <;> first | rfl | exact float_eq_one _

theorem hashHex_getD (v : Value) : (hashHexOf v).getD "" = (goAssertString v).1 := by
  cases v <;> rfl
theorem goStrLit_string (s : String) : (goStrLit s : String) = s := rfl
theorem goSliceAll_bytes (b : Bytes) : goSliceAll b = b := rfl
theorem goSliceAll_array (a : Array32) : goSliceAll a = a.val := rfl
theorem goEqLit_string (a b : String) : goEqLit a b = (a == b) := rfl
theorem goEq_string (a b : String) : goEq a b = (a == b) := rfl
theorem goIsNil_option {β : Type} (o : Option β) : goIsNil o = o.isNone := rfl
theorem goEq_int (a b : Int) : goEq a b = (a == b) := rfl
theorem goEqLit_int (a b : Int) : goEqLit a b = (a == b) := rfl
theorem goLen_bytes (b : Bytes) : goLen b = (b.length : Int) := rfl
theorem len_beq_32 (n : Nat) : ((n : Int) == 32) = (n == 32) := by
  rw [Bool.eq_iff_iff]; simp only [beq_iff_eq]; omega
theorem len_beq_32_sym (n : Nat) : ((32 : Int) == (n : Int)) = (n == 32) := by
  rw [Bool.eq_iff_iff]; simp only [beq_iff_eq]; omega
theorem goMapIndex_none (k : String) : goMapIndex none k = .nil := rfl
theorem goMapIndex_some (kvs : List (String × Value)) (k : String) :
    goMapIndex (some kvs) k = (kvs.lookup k).getD .nil := rfl

/-- **generated_step_eq_model** — the bridge. -/
theorem generated_step_eq_model (H : Bytes → Array32) (s : Storage)
    (execute : Ptr graphql_Request → Ptr graphql_Response) (input : Ptr graphql_Request) :
    Generated.step H (s, []) execute input
      = lift execute input.val (step (fun t => (H (goBytesOfString t)).val) s (abs input.val)) := by
  obtain ⟨⟨ctx, q, doc, exts, other⟩⟩ := input
  cases hpq : goMapIndex exts "persistedQuery" with
  | map m =>
    cases m with
    | none => simp [Generated.step, lift, abs, absExt, step, hpq, goDeref, goAddr, goAssertMap, goMapIndex_none, goStrLit_string, goEqLit_int_one, goEqLit_float_one, isInt1, isFloat1]
    | some kvs =>
      simp only [Generated.step, lift, abs, absExt, step, hpq, goDeref, goAddr, goAssertMap, goMapIndex_some, goEqLit_int_one, goEqLit_float_one, isV1, goStrLit_string, goSliceAll_bytes, goSliceAll_array,
        lookup, register, hashHex_getD, goEqLit_string, goEq_string, goIsNil_option, bytes_Equal, hex_DecodeString, goEq_int, goEqLit_int, goLen_bytes,
        sha256_Size, sha256Size, len_beq_32, len_beq_32_sym,
        PersistedQueryStorage.GetPersistedQuery, PersistedQueryStorage.PersistQuery, notFoundResponse]
      generalize (List.lookup "version" kvs).getD Value.nil = ver
      generalize hexDecodePrefix (goAssertString ((List.lookup "sha256Hash" kvs).getD Value.nil)).1.toList = hash
      have hlen := (H (goBytesOfString "")).property
      by_cases hi : isInt1 ver = true <;> by_cases hf : isFloat1 ver = true <;> by_cases hq : q = "" <;> cases doc <;>
      by_cases he : hash = (H (goBytesOfString "")).val <;> by_cases hl : hash.length = 32 <;> by_cases hg : s.get hash = "" <;>
      first | simp [*] | (subst he; simp_all)
  | _ => simp [Generated.step, lift, abs, absExt, step, hpq, goDeref, goAddr, goAssertMap, goMapIndex_none, goStrLit_string, goEqLit_int_one, goEqLit_float_one, isInt1, isFloat1]

/-! ### The property theorems, restated about the source-generated definition -/

/-- The digest function the model sees when the code hashes `[]byte(text)` with `H`. -/
def HS (H : Bytes → Array32) : String → Hash := fun t => (H (goBytesOfString t)).val

/-- Storage contents after serving the Go-level requests `rs` one after the other through the
    generated closure, from an empty storage. -/
def genStorageAfter (H : Bytes → Array32) (execute : Ptr graphql_Request → Ptr graphql_Response)
    (rs : List graphql_Request) : Storage :=
  rs.foldl (fun s r => (Generated.step H (s, []) execute ⟨r⟩).2.1) []

theorem genStorageAfter_eq (H : Bytes → Array32) (execute : Ptr graphql_Request → Ptr graphql_Response)
    (rs : List graphql_Request) : genStorageAfter H execute rs = storageAfter (HS H) (rs.map abs) := by
  unfold genStorageAfter storageAfter
  generalize ([] : Storage) = s0
  induction rs generalizing s0 with
  | nil => rfl
  | cons r rs ih =>
    simp only [List.foldl_cons, List.map_cons]
    rw [generated_step_eq_model]
    exact ih _

/-- A Go-level request registers `t`: it carries the non-empty text `t` and a `persistedQuery`
    extension object whose `version` is the int 1 or the float64 1.0. -/
def genRegistered (rs : List graphql_Request) (t : String) : Prop :=
  ∃ r ∈ rs, r.Query = t ∧ t ≠ "" ∧ ∃ kvs, goMapIndex r.Extensions "persistedQuery" = .map (some kvs) ∧
    isV1 ((kvs.lookup "version").getD .nil) = true

theorem absExt_one {exts : GoMap} {e : Ext} (h : absExt exts = some e) (hv : e.version = .one) :
    ∃ kvs, goMapIndex exts "persistedQuery" = .map (some kvs) ∧ isV1 ((kvs.lookup "version").getD .nil) = true := by
  unfold absExt at h
  split at h
  · rename_i kvs hk
    refine ⟨kvs, hk, ?_⟩
    cases hh : isV1 ((List.lookup "version" kvs).getD Value.nil)
    · simp [hh] at h; subst h; simp at hv
    · rfl
  · cases h

theorem registered_abs {rs : List graphql_Request} {t : String} (h : registered (rs.map abs) t) :
    genRegistered rs t := by
  obtain ⟨r', hr', hq, hne, e, he, hv⟩ := h
  obtain ⟨r, hr, rfl⟩ := List.mem_map.mp hr'
  obtain ⟨kvs, hk, hv1⟩ := absExt_one he hv
  exact ⟨r, hr, hq, hne, kvs, hk, hv1⟩

/-- **generated_storage_digest_inv** — `storage_digest_inv` for the code as translated from the
    source: whatever requests are served, every pair the storage holds is `(H([]byte(text)), text)`
    for a text that an earlier version-1 request supplied. -/
theorem generated_storage_digest_inv (H : Bytes → Array32) (execute : Ptr graphql_Request → Ptr graphql_Response)
    (rs : List graphql_Request) :
    ∀ p ∈ genStorageAfter H execute rs, p.1 = (H (goBytesOfString p.2)).val ∧ genRegistered rs p.2 := by
  intro p hp
  rw [genStorageAfter_eq] at hp
  have := storage_digest_inv (HS H) (rs.map abs) p hp
  exact ⟨this.1, registered_abs this.2⟩

/-- `lookup_executes_registered` from any storage that satisfies the invariant (not only the one reached
    by requests alone). -/
theorem lookup_executes_of_inv (H : String → Hash) (rs : List Req) (s : Storage) (hinv : Inv H rs s)
    (e : Ext) (hv : e.version = .one) :
    let key := hexDecodePrefix ((e.hashHex.getD "").toList)
    let out := (step H s { query := "", ext := some e }).2.2
    out = .notFound ∨ (out = .executed "" ∧ key = H "") ∨ (∃ t, out = .executed t ∧ H t = key ∧ registered rs t) := by
  intro key out
  have hout : out = (lookup H s e).2.2 := by simp [out, step, hv]
  rw [hout]
  unfold lookup
  simp only
  split
  · rename_i hk
    right; left
    exact ⟨rfl, by simpa using hk⟩
  · split
    · split
      · rename_i hne
        right; right
        have hne' : s.get key ≠ "" := by simpa using hne
        have hm := Storage.get_mem _ key hne'
        have := hinv _ hm
        exact ⟨_, rfl, this.1.symm, this.2⟩
      · left; rfl
    · left; rfl

/-- The look-up statement for the translated code from any storage `s` satisfying the invariant with
    respect to the requests `rs` served so far. -/
theorem generated_lookup_of_inv (H : Bytes → Array32)
    (execute : Ptr graphql_Request → Ptr graphql_Response) (rs : List graphql_Request) (s : Storage)
    (hinv : Inv (HS H) (rs.map abs) s)
    (r : graphql_Request) (hq : r.Query = "") (hd : r.Document = none)
    (kvs : List (String × Value)) (hk : goMapIndex r.Extensions "persistedQuery" = .map (some kvs))
    (hv : isV1 ((kvs.lookup "version").getD .nil) = true) :
    let key := (hex_DecodeString (goAssertString ((kvs.lookup "sha256Hash").getD .nil)).1).1
    let res := (Generated.step H (s, []) execute ⟨r⟩).1
    res = notFoundResponse ∨
    (res = execute ⟨r⟩ ∧ key = (H (goBytesOfString "")).val) ∨
    (∃ t, res = execute ⟨{ r with Query := t }⟩ ∧ (H (goBytesOfString t)).val = key ∧ genRegistered rs t) := by
  intro key res
  have habs : abs r = { query := "", ext := some { version := .one, hashHex := hashHexOf ((kvs.lookup "sha256Hash").getD .nil) }, hasDoc := false } := by
    simp [abs, absExt, hk, hv, hq, hd]
  have hres : res = (lift execute r (step (HS H) s (abs r))).1 := by
    simp only [res]; rw [generated_step_eq_model]; rfl
  have hkey : key = hexDecodePrefix ((hashHexOf ((kvs.lookup "sha256Hash").getD .nil)).getD "").toList := by
    simp [key, hex_DecodeString, hashHex_getD]
  have := lookup_executes_of_inv (HS H) (rs.map abs) s hinv { version := .one, hashHex := hashHexOf ((kvs.lookup "sha256Hash").getD .nil) } rfl
  simp only at this
  rw [hres, habs, hkey]
  rcases this with h | ⟨h, hk'⟩ | ⟨t, h, ht, hreg⟩
  · left; simp [lift, h]
  · right; left
    refine ⟨?_, hk'⟩
    simp only [lift, h]
    cases r; simp_all
  · right; right
    exact ⟨t, by simp [lift, h], ht, registered_abs hreg⟩

/-- **generated_lookup_executes_registered** — a hash-only version-1 request (no text, no parsed
    document) served by the translated code after any history returns the NotFound response, or the
    result of `execute` on the request itself when the key is the digest of the empty text, or the
    result of `execute` on the request with `Query` replaced by a text `t` whose digest is the
    decoded key and that an earlier request registered. Nothing else is ever executed. -/
theorem generated_lookup_executes_registered (H : Bytes → Array32)
    (execute : Ptr graphql_Request → Ptr graphql_Response) (rs : List graphql_Request)
    (r : graphql_Request) (hq : r.Query = "") (hd : r.Document = none)
    (kvs : List (String × Value)) (hk : goMapIndex r.Extensions "persistedQuery" = .map (some kvs))
    (hv : isV1 ((kvs.lookup "version").getD .nil) = true) :
    let key := (hex_DecodeString (goAssertString ((kvs.lookup "sha256Hash").getD .nil)).1).1
    let res := (Generated.step H (genStorageAfter H execute rs, []) execute ⟨r⟩).1
    res = notFoundResponse ∨
    (res = execute ⟨r⟩ ∧ key = (H (goBytesOfString "")).val) ∨
    (∃ t, res = execute ⟨{ r with Query := t }⟩ ∧ (H (goBytesOfString t)).val = key ∧ genRegistered rs t) := by
  apply generated_lookup_of_inv H execute rs _ _ r hq hd kvs hk hv
  rw [genStorageAfter_eq]
  exact storage_digest_inv (HS H) (rs.map abs)

/-! #### A best-effort storage: entries may be lost between requests -/

/-- A history in which the storage may lose entries (eviction, a failing backend) between requests. -/
inductive Event where
  | req (r : graphql_Request)
  | evict (h : Hash)

def evReqs : List Event → List graphql_Request
  | [] => []
  | .req r :: es => r :: evReqs es
  | .evict _ :: es => evReqs es

def evStep (H : Bytes → Array32) (execute : Ptr graphql_Request → Ptr graphql_Response) (s : Storage) : Event → Storage
  | .req r => (Generated.step H (s, []) execute ⟨r⟩).2.1
  | .evict h => s.evict h

def genStorageAfterEv (H : Bytes → Array32) (execute : Ptr graphql_Request → Ptr graphql_Response)
    (evs : List Event) : Storage :=
  evs.foldl (evStep H execute) []

theorem foldl_ev_inv (H : Bytes → Array32) (execute : Ptr graphql_Request → Ptr graphql_Response)
    (pre : List graphql_Request) (s : Storage) (h : Inv (HS H) (pre.map abs) s) (evs : List Event) :
    Inv (HS H) ((pre ++ evReqs evs).map abs) (evs.foldl (evStep H execute) s) := by
  induction evs generalizing pre s with
  | nil => simpa [evReqs] using h
  | cons ev evs ih =>
    cases ev with
    | req r =>
      have hs : Inv (HS H) ((pre ++ [r]).map abs) (evStep H execute s (.req r)) := by
        simp only [evStep]
        rw [generated_step_eq_model]
        have h1 := step_inv (HS H) (pre.map abs) s (abs r) h
        simp only [lift, List.map_append, List.map_cons, List.map_nil]
        exact h1
      have := ih (pre ++ [r]) _ hs
      simpa [evReqs, List.append_assoc] using this
    | evict k =>
      have hs : Inv (HS H) (pre.map abs) (evStep H execute s (.evict k)) := by
        intro p hp
        exact h p (List.mem_filter.mp hp).1
      have := ih pre _ hs
      simpa [evReqs] using this

/-- **generated_storage_digest_inv_lossy** — the storage invariant of the translated code also holds
    when the storage loses arbitrary entries between requests: what it still holds is `(H text, text)`
    for registered texts. -/
theorem generated_storage_digest_inv_lossy (H : Bytes → Array32)
    (execute : Ptr graphql_Request → Ptr graphql_Response) (evs : List Event) :
    ∀ p ∈ genStorageAfterEv H execute evs,
      p.1 = (H (goBytesOfString p.2)).val ∧ genRegistered (evReqs evs) p.2 := by
  intro p hp
  have := foldl_ev_inv H execute [] [] (by intro p hp; cases hp) evs p hp
  exact ⟨this.1, registered_abs (by simpa using this.2)⟩

/-- **generated_lookup_executes_registered_lossy** — the look-up statement after any history with
    losses: a storage that answers "" for a registered hash only ever turns an execution into NotFound. -/
theorem generated_lookup_executes_registered_lossy (H : Bytes → Array32)
    (execute : Ptr graphql_Request → Ptr graphql_Response) (evs : List Event)
    (r : graphql_Request) (hq : r.Query = "") (hd : r.Document = none)
    (kvs : List (String × Value)) (hk : goMapIndex r.Extensions "persistedQuery" = .map (some kvs))
    (hv : isV1 ((kvs.lookup "version").getD .nil) = true) :
    let key := (hex_DecodeString (goAssertString ((kvs.lookup "sha256Hash").getD .nil)).1).1
    let res := (Generated.step H (genStorageAfterEv H execute evs, []) execute ⟨r⟩).1
    res = notFoundResponse ∨
    (res = execute ⟨r⟩ ∧ key = (H (goBytesOfString "")).val) ∨
    (∃ t, res = execute ⟨{ r with Query := t }⟩ ∧ (H (goBytesOfString t)).val = key ∧ genRegistered (evReqs evs) t) := by
  apply generated_lookup_of_inv H execute (evReqs evs) _ _ r hq hd kvs hk hv
  have := foldl_ev_inv H execute [] [] (by intro p hp; cases hp) evs
  simpa [genStorageAfterEv] using this

/-- **generated_register_true_hash_only** — a request that carries text and a version-1 extension,
    whatever hash it claims, makes the translated code store exactly `(H([]byte(text)), text)` with one
    `PersistQuery` call and execute the request unchanged. -/
theorem generated_register_true_hash_only (H : Bytes → Array32) (s : Storage)
    (execute : Ptr graphql_Request → Ptr graphql_Response) (r : graphql_Request) (hq : r.Query ≠ "")
    (kvs : List (String × Value)) (hk : goMapIndex r.Extensions "persistedQuery" = .map (some kvs))
    (hv : isV1 ((kvs.lookup "version").getD .nil) = true) :
    Generated.step H (s, []) execute ⟨r⟩ =
      (execute ⟨r⟩, (((H (goBytesOfString r.Query)).val, r.Query) :: s, [.put r.Query (H (goBytesOfString r.Query)).val])) := by
  rw [generated_step_eq_model]
  have := register_true_hash_only (HS H) s r.Query { version := .one, hashHex := hashHexOf ((kvs.lookup "sha256Hash").getD .nil) } hq rfl
  have habs : abs r = { query := r.Query, ext := some { version := .one, hashHex := hashHexOf ((kvs.lookup "sha256Hash").getD .nil) }, hasDoc := r.Document.isSome } := by
    simp [abs, absExt, hk, hv]
  have hstep : step (HS H) s (abs r) = ((HS H r.Query, r.Query) :: s, [.put r.Query (HS H r.Query)], .executed r.Query) := by
    have hq' : (r.Query == "") = false := by simpa using hq
    simp [habs, step, hq', register]
  show lift execute r (step (HS H) s (abs r)) = _
  rw [hstep]
  simp [lift, HS]

/-- **generated_no_ext_is_disabled** — when `Extensions["persistedQuery"]` is not a (non-nil) JSON
    object, or its `version` is anything but the int 1 / float64 1.0 (a string "1", true, an int64 1,
    1.5, 2, absent …), the translated code calls `execute` on the request exactly as received and
    makes no storage call: the feature is as good as disabled. -/
theorem generated_no_ext_is_disabled (H : Bytes → Array32) (s : Storage)
    (execute : Ptr graphql_Request → Ptr graphql_Response) (r : graphql_Request)
    (h : (∀ kvs, goMapIndex r.Extensions "persistedQuery" ≠ .map (some kvs)) ∨
         ∃ kvs, goMapIndex r.Extensions "persistedQuery" = .map (some kvs) ∧ isV1 ((kvs.lookup "version").getD .nil) = false) :
    Generated.step H (s, []) execute ⟨r⟩ = (execute ⟨r⟩, (s, [])) := by
  rw [generated_step_eq_model]
  have hd : step (HS H) s (abs r) = (s, [], disabled (abs r)) := by
    apply no_ext_is_disabled
    rcases h with h | ⟨kvs, hk, hv⟩
    · left
      show absExt r.Extensions = none
      unfold absExt
      split
      · rename_i kvs hk; exact absurd hk (h kvs)
      · rfl
    · right
      exact ⟨_, by simp only [abs, absExt, hk]; rfl, by simp [hv]⟩
  show lift execute r (step (HS H) s (abs r)) = _
  rw [hd]
  simp [lift, disabled, abs]

/-- **generated_not_found_keeps_storage** — the translated code returns the NotFound response only
    from the model's NotFound outcome … and then the storage contents are untouched. Stated for an
    `execute` that never itself returns the NotFound response object (so the two can be told apart). -/
theorem generated_not_found_keeps_storage (H : Bytes → Array32) (s : Storage)
    (execute : Ptr graphql_Request → Ptr graphql_Response) (r : graphql_Request)
    (hex : ∀ x, (execute x).val.Errors ≠ notFoundResponse.val.Errors)
    (h : (Generated.step H (s, []) execute ⟨r⟩).1 = notFoundResponse) :
    (Generated.step H (s, []) execute ⟨r⟩).2.1 = s := by
  rw [generated_step_eq_model] at h ⊢
  show (step (HS H) s (abs r)).1 = s
  apply not_found_keeps_storage
  change (lift execute r (step (HS H) s (abs r))).1 = notFoundResponse at h
  cases hout : (step (HS H) s (abs r)).2.2 with
  | notFound => rfl
  | executed t =>
    simp only [lift, hout] at h
    exact absurd (congrArg (fun p => p.val.Errors) h) (hex _)

/-- **generated_register_then_lookup** — non-vacuity of the look-up theorems, and the feature's point:
    through the translated code, a text `q` sent with a version-1 extension (whatever hash it claims)
    is afterwards executed by a hash-only version-1 request whose `sha256Hash` decodes to `H([]byte(q))`
    (if that differs from the digest of the empty text; no loss in between). -/
theorem generated_register_then_lookup (H : Bytes → Array32) (s : Storage)
    (execute : Ptr graphql_Request → Ptr graphql_Response) (r1 r2 : graphql_Request)
    (hq1 : r1.Query ≠ "")
    (kvs1 : List (String × Value)) (hk1 : goMapIndex r1.Extensions "persistedQuery" = .map (some kvs1))
    (hv1 : isV1 ((kvs1.lookup "version").getD .nil) = true)
    (hq2 : r2.Query = "") (hd2 : r2.Document = none)
    (kvs2 : List (String × Value)) (hk2 : goMapIndex r2.Extensions "persistedQuery" = .map (some kvs2))
    (hv2 : isV1 ((kvs2.lookup "version").getD .nil) = true)
    (hkey : (hex_DecodeString (goAssertString ((kvs2.lookup "sha256Hash").getD .nil)).1).1 = (H (goBytesOfString r1.Query)).val)
    (hne : (H (goBytesOfString r1.Query)).val ≠ (H (goBytesOfString "")).val) :
    let s1 := (Generated.step H (s, []) execute ⟨r1⟩).2.1
    Generated.step H (s1, []) execute ⟨r2⟩
      = (execute ⟨{ r2 with Query := r1.Query }⟩, (s1, [.get (H (goBytesOfString r1.Query)).val])) := by
  intro s1
  have hs1 : s1 = ((H (goBytesOfString r1.Query)).val, r1.Query) :: s := by
    simp only [s1]; rw [generated_register_true_hash_only H s execute r1 hq1 kvs1 hk1 hv1]
  rw [generated_step_eq_model, hs1]
  have habs : abs r2 = { query := "", ext := some { version := .one, hashHex := hashHexOf ((kvs2.lookup "sha256Hash").getD .nil) }, hasDoc := false } := by
    simp [abs, absExt, hk2, hv2, hq2, hd2]
  have hkey' : hexDecodePrefix ((hashHexOf ((kvs2.lookup "sha256Hash").getD .nil)).getD "").toList = (H (goBytesOfString r1.Query)).val := by
    rw [← hkey]; simp [hex_DecodeString, hashHex_getD]
  have hlen := (H (goBytesOfString r1.Query)).property
  show lift execute r2 (step (HS H) _ (abs r2)) = _
  rw [habs]
  simp [step, lookup, hkey', HS, hne, hlen, sha256Size, Storage.get, lift, hq1]

end ApiFu.C18
