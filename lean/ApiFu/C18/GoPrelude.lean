/-
  C18 — the meaning of exactly the Go constructs that `PersistedQueryExtension` uses (core Lean only).

  `tools/c18facts` translates the body of the closure returned by `PersistedQueryExtension`
  (persisted_query.go) statement by statement into `ApiFu.C18.Generated.step`; every Go construct is
  mapped to one definition of this file. The translator is purely syntactic: Lean's elaborator does
  the type checking (a construct used at a type for which no meaning is given here does not elaborate,
  the generated file does not build and the check reports the broken obligation).

  What is given a meaning, and how (hand-written, trusted; each one is exercised against the real
  code by the harness on every run):

    interface{} values            `Value`: nil, bool, float64 (IEEE bit pattern), int, int64, string,
                                  map[string]interface{} (possibly a typed nil map), []interface{},
                                  `other` = any further dynamic type (equal to no literal, asserts to nothing)
    m[k] on map[string]interface{} `goMapIndex`: the zero value (nil interface) for a nil map / absent key
    x.(T) in the comma-ok form    `goAssertMap`, `goAssertString`: zero value of T and false on failure
    switch v { case c, d: … }     `goEqLit v c || goEqLit v d`: Go interface equality = same dynamic type
    v == literal                  AND equal value (int 1 ≠ float64 1.0 ≠ int64 1); the constant side is
                                  always a literal, so the comparison cannot panic (the translator
                                  refuses non-literal case values)
    untyped constants             Lean numerals (`OfNat Value` = the default type `int`), float
                                  literals by their float64 bit pattern (`GoOfFloat`), string literals
                                  through `goStrLit` (a `string`, or an interface holding one)
    hex.DecodeString              `hex_DecodeString`: the bytes decoded before the first error (that is
                                  what the function returns next to the error; the source ignores the error)
    bytes.Equal, len, []byte(s), x[:], sha256.Size, ==/!= on strings, ints, bools, x == nil on
    pointers and maps, !, &&, ||  the obvious total functions
    sha256.Sum256                 a parameter of the generated definition (named `sha256_Sum256`), of type
                                  `Bytes → Array32` (the result is a `[32]byte`)
    *p, &x                        `Ptr` (a non-nil pointer to a value; `r := *input` copies; precondition
                                  of the closure: `input` is not nil)
    storage.GetPersistedQuery,    `PersistedQueryStorage.*` on `StorageState` = storage contents + the
    storage.PersistQuery          list of calls made so far (a state/trace monad written out: the
                                  translator threads the state variable)
    &graphql.Response{…}, &r      structures `graphql_Response`, `graphql_Error`, `graphql_Request`
-/
import ApiFu.C18.Model

namespace ApiFu.C18.Go

abbrev Bytes := List Nat

/-- A Go `float64` by its IEEE-754 binary64 bit pattern. -/
structure Float64 where
  bits : Nat
  deriving Repr, DecidableEq

def Float64.isNaN (f : Float64) : Bool := (f.bits / 2 ^ 52) % 2 ^ 11 == 2047 && f.bits % 2 ^ 52 != 0
def Float64.isZero (f : Float64) : Bool := f.bits % 2 ^ 63 == 0
/-- Go `==` on float64: NaN differs from everything, +0 = -0, otherwise the bit patterns decide. -/
def Float64.eq (a b : Float64) : Bool :=
  !a.isNaN && !b.isNaN && (a.bits == b.bits || (a.isZero && b.isZero))

/-- A Go `interface{}` value of the kinds that can reach the extension (JSON decoding produces nil,
    bool, float64, string, map, slice; a direct caller may also put `int`, `int64` … in the map). -/
inductive Value where
  | nil
  | bool (b : Bool)
  | float64 (f : Float64)
  | int (i : Int)
  | int64 (i : Int)
  | string (s : String)
  | map (m : Option (List (String × Value)))      -- `none` = a typed nil map
  | slice (l : List Value)
  | other (dynType : String)                      -- any other dynamic type (uint, float32, json.Number, []byte, …)
  deriving Repr

/-- `map[string]interface{}`; `none` is the nil map. Newest/first binding wins (the harness sends
    maps with unique keys). -/
abbrev GoMap := Option (List (String × Value))

/-- `m[k]`: the zero value of `interface{}` for a nil map or an absent key. -/
def goMapIndex (m : GoMap) (k : String) : Value :=
  match m with
  | none => .nil
  | some kvs => (kvs.lookup k).getD .nil

/-- `v, ok := x.(map[string]interface{})`. -/
def goAssertMap : Value → GoMap × Bool
  | .map m => (m, true)
  | _ => (none, false)

/-- `v, ok := x.(string)`. -/
def goAssertString : Value → String × Bool
  | .string s => (s, true)
  | _ => ("", false)

/-- Interface equality against a value of comparable dynamic type (a literal): identical dynamic
    types and equal values. -/
def Value.eqConst : Value → Value → Bool
  | .nil, .nil => true
  | .bool a, .bool b => a == b
  | .float64 a, .float64 b => a.eq b
  | .int a, .int b => a == b
  | .int64 a, .int64 b => a == b
  | .string a, .string b => a == b
  | _, _ => false

/-- An untyped integer constant converted to `interface{}` takes its default type `int`. -/
instance (n : Nat) : OfNat Value n := ⟨.int n⟩

/-- An untyped string constant: `string`, or `interface{}` holding a string. -/
class GoOfString (α : Type) where
  ofString : String → α
@[default_instance] instance : GoOfString String := ⟨id⟩
instance : GoOfString Value := ⟨.string⟩
def goStrLit {α : Type} [GoOfString α] (s : String) : α := GoOfString.ofString s

class GoOfFloat (α : Type) where
  ofBits : Nat → α
/-- An untyped floating-point constant converted to `interface{}` takes its default type `float64`. -/
instance : GoOfFloat Value := ⟨fun b => .float64 ⟨b⟩⟩
instance : GoOfFloat Float64 := ⟨fun b => ⟨b⟩⟩
def goFloatLit {α : Type} [GoOfFloat α] (bits : Nat) : α := GoOfFloat.ofBits bits

/-- `x == y` on comparable non-interface types. -/
class GoEq (α : Type) where
  eq : α → α → Bool
instance : GoEq String := ⟨fun a b => a == b⟩
instance : GoEq Int := ⟨fun a b => a == b⟩
instance : GoEq Bool := ⟨fun a b => a == b⟩
def goEq {α : Type} [GoEq α] (a b : α) : Bool := GoEq.eq a b

/-- `x == c` / `case c:` where `c` is a literal (for interface values: `Value.eqConst`). -/
class GoEqLit (α : Type) where
  eq : α → α → Bool
instance : GoEqLit String := ⟨fun a b => a == b⟩
instance : GoEqLit Int := ⟨fun a b => a == b⟩
instance : GoEqLit Bool := ⟨fun a b => a == b⟩
instance : GoEqLit Value := ⟨Value.eqConst⟩
def goEqLit {α : Type} [GoEqLit α] (a c : α) : Bool := GoEqLit.eq a c

/-- `x == nil` for pointers and maps (both are `Option`s here) and interface values. -/
class GoIsNil (α : Type) where
  isNil : α → Bool
instance {β : Type} : GoIsNil (Option β) := ⟨Option.isNone⟩
instance : GoIsNil Value := ⟨fun | .nil => true | _ => false⟩
def goIsNil {α : Type} [GoIsNil α] (a : α) : Bool := GoIsNil.isNil a

class GoLen (α : Type) where
  len : α → Int
instance : GoLen Bytes := ⟨fun b => (b.length : Int)⟩
instance : GoLen String := ⟨fun s => (s.toUTF8.size : Int)⟩
def goLen {α : Type} [GoLen α] (a : α) : Int := GoLen.len a

def goLt (a b : Int) : Bool := decide (a < b)
def goLe (a b : Int) : Bool := decide (a ≤ b)

/-- `[]byte(s)`: the UTF-8 bytes of the string. -/
def goBytesOfString (s : String) : Bytes := s.toUTF8.toList.map (·.toNat)

/-- `[32]byte` (`[sha256.Size]byte`): exactly 32 bytes. -/
abbrev Array32 := { b : Bytes // b.length = 32 }

/-- `x[:]` on a slice or an array: the same bytes as a slice. -/
class GoSliceAll (α : Type) where
  all : α → Bytes
instance : GoSliceAll Bytes := ⟨id⟩
instance : GoSliceAll Array32 := ⟨Subtype.val⟩
def goSliceAll {α : Type} [GoSliceAll α] (a : α) : Bytes := GoSliceAll.all a

def bytes_Equal (a b : Bytes) : Bool := a == b

def sha256_Size : Int := 32

/-- `hex.DecodeString` returns `(src[:n decoded], err)`; with the error ignored that is the prefix
    decoded before the first invalid pair or the trailing odd digit (`Model.hexDecodePrefix`). The
    second component says whether an error was returned (never inspected by the source). -/
def hex_DecodeString (s : String) : Bytes × Bool :=
  (hexDecodePrefix s.toList, true)

/-- A non-nil pointer. `*p` reads the value, `&x` points to (a copy of) the value. -/
structure Ptr (α : Type) where
  val : α
  deriving Repr

def goDeref {α : Type} (p : Ptr α) : α := p.val
def goAddr {α : Type} (x : α) : Ptr α := ⟨x⟩

/-- `graphql.Request` as far as the extension can see it. `Document` and `Context` are opaque
    identities; `Other` stands for all remaining fields (copied by `r := *input`, never named). -/
structure graphql_Request where
  Context : Nat := 0
  Query : String := ""
  Document : Option Nat := none
  Extensions : GoMap := none
  Other : Nat := 0
  deriving Repr

structure graphql_Error where
  Message : String := ""
  deriving Repr, DecidableEq

structure graphql_Response where
  Data : Option Value := none
  Errors : List (Ptr graphql_Error) := []
  deriving Repr

/-- The storage object as the extension sees it: the contents (the harness's faithful
    last-write-wins map, `Model.Storage`) and the calls made on it so far, oldest first. -/
abbrev StorageState := Storage × List Call

namespace PersistedQueryStorage
def GetPersistedQuery (st : StorageState) (_ctx : Nat) (hash : Bytes) : String × StorageState :=
  (st.1.get hash, (st.1, st.2 ++ [.get hash]))
def PersistQuery (st : StorageState) (_ctx : Nat) (query : String) (hash : Bytes) : StorageState :=
  ((hash, query) :: st.1, st.2 ++ [.put query hash])
end PersistedQueryStorage

end ApiFu.C18.Go
