/-
  C18 — the abstraction from the Go-level request (what `PersistedQueryExtension` receives) to the
  model's `Req`, written independently of the generated code. The driver applies it to the Go values
  the harness sends; `PropsGenerated.generated_step_eq_model` proves that the source-generated
  `Generated.step` is `Model.step` after this abstraction. Core Lean only (linked into the driver).
-/
import ApiFu.C18.GoPrelude

namespace ApiFu.C18.Go

/-- The bit pattern of the float64 1.0. -/
def oneBits : Nat := 0x3FF0000000000000

def isInt1 : Value → Bool
  | .int i => i == 1
  | _ => false

def isFloat1 : Value → Bool
  | .float64 f => f.bits == oneBits
  | _ => false

/-- "Version 1": the Go `int` 1 or the `float64` 1.0 — and no other dynamic type or value. -/
def isV1 (v : Value) : Bool := isInt1 v || isFloat1 v

/-- `sha256Hash` when it is a string. -/
def hashHexOf : Value → Option String
  | .string s => some s
  | _ => none

def absExt (exts : GoMap) : Option Ext :=
  match goMapIndex exts "persistedQuery" with
  | .map (some kvs) =>
    some { version := if isV1 ((kvs.lookup "version").getD .nil) then .one else .other,
           hashHex := hashHexOf ((kvs.lookup "sha256Hash").getD .nil) }
  | _ => none

def abs (r : graphql_Request) : Req :=
  { query := r.Query, ext := absExt r.Extensions, hasDoc := r.Document.isSome }

/-- The response of the early return. -/
def notFoundResponse : Ptr graphql_Response :=
  ⟨{ Errors := [⟨{ Message := "PersistedQueryNotFound" }⟩] }⟩

/-- What the model's result means at the Go level: `execute` is called on the caller's request with
    only `Query` replaced (all other fields, `Document` included, as received), or the NotFound
    response is returned without calling `execute`; the storage contents and calls are the model's. -/
def lift (execute : Ptr graphql_Request → Ptr graphql_Response) (input : graphql_Request)
    (res : Storage × List Call × Out) : Ptr graphql_Response × StorageState :=
  (match res.2.2 with
   | .executed t => execute ⟨{ input with Query := t }⟩
   | .notFound => notFoundResponse,
   (res.1, res.2.1))

end ApiFu.C18.Go
