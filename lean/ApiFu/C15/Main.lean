/-
  C15 model driver (acceptor mode). One request line = one observed execution:
    (run fixed|unfixed|ctx <label>*)      -- fixed = api.go (`apiGo`); ctx = api.go with a `<-ctx.Done()`
                                          -- alternative in the Go task's select (`apiGoCtx`, Cancel.lean)
  labels: (go t [dep]) (batch k item p [dep]) (chain t (p*)) (fin t val err) (idle) (flush (k (val err)*)*)
          (recvb t) (drain t) (iret) (ret) (release t) (start)            -- err is 0|1
          (cancel)        the request's context is cancelled (Cancel.lean)
          (ctxrelease t)  a parked task leaves through `<-ctx.Done()` (never enabled in `apiGo`)
  reply:  (ok (next n) (phase ph) (exec e) (running t*) (blocked t*) (pending (k item*)*)
              (calls (wave k (item*) (dest*))*) (delivered (p val err)*) (orphaned p*) (destfull b) (crashed b)
              (cancelled b))
        | (reject i)        -- label number i (0-based) is not a step of the model
        | bad-op
-/
import ApiFu.Common.Sexp
import ApiFu.Common.Loop
import ApiFu.C15.Model
import ApiFu.C15.Cancel

open ApiFu ApiFu.C15

def natList? (xs : List Sexp) : Option (List Nat) := xs.mapM Sexp.nat?

def res? : Sexp → Option Res
  | Sexp.list [v, e] => do
    let v ← v.nat?
    let e ← e.nat?
    pure ⟨v, e != 0⟩
  | _ => none

def label? : Sexp → Option Label
  | Sexp.list [Sexp.atom "go", t] => do pure (.go (← t.nat?) none)
  | Sexp.list [Sexp.atom "go", t, d] => do pure (.go (← t.nat?) (some (← d.nat?)))
  | Sexp.list [Sexp.atom "batch", k, i, p] => do pure (.batch (← k.nat?) (← i.nat?) (← p.nat?) none)
  | Sexp.list [Sexp.atom "batch", k, i, p, d] => do pure (.batch (← k.nat?) (← i.nat?) (← p.nat?) (some (← d.nat?)))
  | Sexp.list [Sexp.atom "chain", t, Sexp.list ps] => do pure (.chain (← t.nat?) (← natList? ps))
  | Sexp.list [Sexp.atom "fin", t, v, e] => do pure (.fin (← t.nat?) ⟨← v.nat?, (← e.nat?) != 0⟩)
  | Sexp.list [Sexp.atom "idle"] => some .idle
  | Sexp.list (Sexp.atom "flush" :: groups) => do
    let gs ← groups.mapM (fun g =>
      match g with
      | Sexp.list (k :: rs) => do pure ((← k.nat?), (← rs.mapM res?))
      | _ => none)
    pure (.flush gs)
  | Sexp.list [Sexp.atom "recvb", t] => do pure (.recvBlock (← t.nat?))
  | Sexp.list [Sexp.atom "drain", t] => do pure (.drain (← t.nat?))
  | Sexp.list [Sexp.atom "iret"] => some .idleRet
  | Sexp.list [Sexp.atom "ret"] => some .ret
  | Sexp.list [Sexp.atom "release", t] => do pure (.release (← t.nat?))
  | Sexp.list [Sexp.atom "start"] => some .start
  | _ => none

def clabel? : Sexp → Option CLabel
  | Sexp.list [Sexp.atom "cancel"] => some .cancel
  | Sexp.list [Sexp.atom "ctxrelease", t] => do pure (.ctxRelease (← t.nat?))
  | x => (label? x).map .base

/-- `crun` with the index of the first rejected label. -/
def crunFrom (cc : CCfg) : CSt → List CLabel → Nat → Except Nat CSt
  | cs, [], _ => .ok cs
  | cs, l :: ls, i =>
    match cstep cc cs l with
    | none => .error i
    | some cs' => crunFrom cc cs' ls (i + 1)

def phaseName : Phase → String
  | .exec => "exec" | .top => "top" | .drain => "drain" | .returned => "returned"

def nats (xs : List Nat) : List Sexp := xs.map Sexp.ofNat

def render (cs : CSt) : String :=
  let s := cs.s
  toString (Sexp.node "ok" [
    Sexp.node "next" [Sexp.ofNat s.next],
    Sexp.node "phase" [Sexp.atom (phaseName s.phase)],
    Sexp.node "exec" [Sexp.ofNat s.exec],
    Sexp.node "running" (nats (s.running.map (·.id))),
    Sexp.node "blocked" (nats (s.blocked.map (·.1))),
    Sexp.node "pending" (s.batches.map fun b => Sexp.list (Sexp.ofNat b.key :: nats b.items)),
    Sexp.node "calls" (s.calls.reverse.map fun c =>
      Sexp.list [Sexp.ofNat c.wave, Sexp.ofNat c.key, Sexp.list (nats c.items), Sexp.list (nats c.dests)]),
    Sexp.node "delivered" (s.delivered.reverse.map fun x =>
      Sexp.list [Sexp.ofNat x.1, Sexp.ofNat x.2.val, Sexp.ofNat (if x.2.err then 1 else 0)]),
    Sexp.node "orphaned" (nats s.orphaned),
    Sexp.node "destfull" [Sexp.ofBool s.destFull],
    Sexp.node "crashed" [Sexp.ofBool s.crashed],
    Sexp.node "cancelled" [Sexp.ofBool cs.cancelled]])

def handle (line : String) : String :=
  match Sexp.parse line with
  | some (Sexp.list (Sexp.atom "run" :: Sexp.atom mode :: ls)) =>
    if mode != "fixed" && mode != "unfixed" && mode != "ctx" then "bad-op" else
    let cc : CCfg := if mode == "fixed" then apiGo else if mode == "ctx" then apiGoCtx else ⟨[.handoff]⟩
    match ls.mapM clabel? with
    | none => "bad-op"
    | some labels =>
      match crunFrom cc cinit labels 0 with
      | .ok s => render s
      | .error i => toString (Sexp.node "reject" [Sexp.ofNat i])
  | _ => "bad-op"

def main : IO Unit := lineLoopPure handle
