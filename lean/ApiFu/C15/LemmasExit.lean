/-
  C15 — "no reachable state is doomed": from every reachable state of the patched model some
  continuation lets the idle handler finish, the executor return and every task goroutine exit.
  Helper lemmas for `PropsCancel.every_goroutine_can_terminate`.
-/
import ApiFu.C15.Props
import ApiFu.C15.LemmasCancel

namespace ApiFu.C15

/-- Results that honour the batch functions' contract: one (arbitrary) result per field context. -/
def goodRs (bs : List Batch) : List (Nat × List Res) :=
  bs.map (fun b => (b.key, List.replicate b.dests.length ⟨0, false⟩))

theorem resultsFor_goodRs (bs : List Batch) (hn : (bs.map (·.key)).Nodup) :
    ∀ b ∈ bs, (resultsFor (goodRs bs) b.key).length = b.dests.length := by
  induction bs with
  | nil => intro b hb; cases hb
  | cons a bs ih =>
    intro b hb
    simp only [List.map_cons, List.nodup_cons] at hn
    simp only [List.mem_cons] at hb
    rcases hb with rfl | hb
    · simp [resultsFor, goodRs]
    · have hne : a.key ≠ b.key := by
        intro e
        apply hn.1
        rw [e]
        exact List.mem_map_of_mem (f := (·.key)) hb
      have := ih hn.2 b hb
      simp only [resultsFor, goodRs, List.map_cons, List.find?_cons] at this ⊢
      have hk : (a.key == b.key) = false := by simpa using hne
      simp only [hk]
      exact this

theorem Steps.trans {c : Cfg} {s1 s2 s3 : St} (h1 : Steps c s1 s2) (h2 : Steps c s2 s3) : Steps c s1 s3 := by
  induction h1 with
  | refl => exact h2
  | cons hs _ ih => exact .cons hs (ih h2)

/-- What "cleanly terminated" means for one execution: it has returned and no goroutine is left. -/
def Terminated (s : St) : Prop := s.phase = .returned ∧ s.running = [] ∧ s.blocked = []

theorem exit_returned {s : St} (h : Reachable ⟨true⟩ s) (hp : s.phase = .returned)
    (hc : s.crashed = false) (ho : s.orphaned = []) : ∃ s', Steps ⟨true⟩ s s' ∧ Terminated s' := by
  generalize hn : measure s = n
  induction n using Nat.strongRecOn generalizing s with
  | _ n ih =>
    by_cases hdone : s.running = [] ∧ s.blocked = []
    · exact ⟨s, .refl, hp, hdone.1, hdone.2⟩
    · have hne : s.running ≠ [] ∨ s.blocked ≠ [] := by
        by_cases hr : s.running = []
        · right; intro hb; exact hdone ⟨hr, hb⟩
        · exact Or.inl hr
      obtain ⟨⟨l, s1, hw, hs⟩, hall⟩ := no_blocked_task_at_return h hp hc ho hne
      have hns : l ≠ .start := by intro e; rw [e] at hw; cases hw
      obtain ⟨hlt, hp1, hc1, ho1⟩ := hall l s1 hs hns
      obtain ⟨s', hst, ht⟩ := ih (measure s1) (hn ▸ hlt) (h.step hs) hp1 hc1 ho1 rfl
      exact ⟨s', .cons hs hst, ht⟩

theorem exit_exec {s : St} (h : Reachable ⟨true⟩ s) (hp : s.phase = .exec)
    (hc : s.crashed = false) (ho : s.orphaned = []) : ∃ s', Steps ⟨true⟩ s s' ∧ Terminated s' := by
  have hs : step ⟨true⟩ s .ret = some { finishBatches s with phase := .returned } := by
    simp [step, hc, hp]
  have hr := h.step hs
  have hfb := finishBatches_eq h.idsOK
  obtain ⟨s', hst, ht⟩ := exit_returned hr rfl (by rw [hfb]; exact hc) (by rw [hfb]; exact ho)
  exact ⟨s', .cons hs hst, ht⟩

theorem exit_drain {s : St} (h : Reachable ⟨true⟩ s) (hp : s.phase = .drain)
    (hc : s.crashed = false) (ho : s.orphaned = []) : ∃ s', Steps ⟨true⟩ s s' ∧ Terminated s' := by
  have hd := h.inv1.destFull
  have hs : step ⟨true⟩ s .idleRet = some { s with phase := .exec } := by
    simp [step, hc, hd, hp]
  obtain ⟨s', hst, ht⟩ := exit_exec (h.step hs) rfl hc ho
  exact ⟨s', .cons hs hst, ht⟩

theorem exit_top {s : St} (h : Reachable ⟨true⟩ s) (hp : s.phase = .top)
    (hc : s.crashed = false) (ho : s.orphaned = []) : ∃ s', Steps ⟨true⟩ s s' ∧ Terminated s' := by
  generalize hn : measure s = n
  induction n using Nat.strongRecOn generalizing s with
  | _ n ih =>
    have hi := h.idsOK
    rcases (idle_progress h hc ho).1 hp with ⟨rs0, s0, hs0⟩ | ⟨t, s1, hs⟩ | ⟨t, r, s1, hs⟩
    · -- batches are pending: flush them with results that honour the contract
      obtain ⟨_, _, hb, _⟩ := step_flush hs0
      have hs : step ⟨true⟩ s (.flush (goodRs s.batches)) =
          some { flushAll s.wave s.execStart (goodRs s.batches) s s.batches with batches := [], phase := .drain, progress := true } := by
        simp [step, hc, hp, hb]
      have hwf := resultsFor_goodRs s.batches h.inv2.keysNodup
      obtain ⟨h1, h2⟩ := flushOrph_wf (goodRs s.batches) s.batches hwf
      have hfl := flushAll_fresh s.wave s.execStart (goodRs s.batches) s.batches s hi.q_not_delivered hi.q_nodup
      obtain ⟨s', hst, ht⟩ := exit_drain (h.step hs) rfl (by rw [hfl]; simp [h2, hc]) (by rw [hfl]; simp [h1, ho])
      exact ⟨s', .cons hs hst, ht⟩
    · -- a resolution is on offer: receive it
      have hlt := measure_step hi hs rfl
      obtain ⟨r, _, _, _, _, hl, he⟩ := step_recvBlock hs
      have htk := took_eq hi (lookup_some_mem hl)
      by_cases hch : s.chained.contains t = true
      · rw [if_pos hch] at he
        obtain ⟨s', hst, ht⟩ := ih (measure s1) (hn ▸ hlt) (h.step hs) (by rw [he, htk]; exact hp)
          (by rw [he, htk]; exact hc) (by rw [he, htk]; exact ho) rfl
        exact ⟨s', .cons hs hst, ht⟩
      · rw [if_neg hch] at he
        obtain ⟨s', hst, ht⟩ := exit_drain (h.step hs) (by rw [he]) (by rw [he, htk]; exact hc) (by rw [he, htk]; exact ho)
        exact ⟨s', .cons hs hst, ht⟩
    · -- a task body can return
      have hlt := measure_step hi hs rfl
      obtain ⟨_, _, _, _, _, _, he⟩ := step_fin hs
      obtain ⟨s', hst, ht⟩ := ih (measure s1) (hn ▸ hlt) (h.step hs) (by rw [he]; exact hp)
        (by rw [he]; exact hc) (by rw [he]; exact ho) rfl
      exact ⟨s', .cons hs hst, ht⟩

theorem can_terminate {s : St} (h : Reachable ⟨true⟩ s) (hc : s.crashed = false) (ho : s.orphaned = []) :
    ∃ s', Steps ⟨true⟩ s s' ∧ Terminated s' := by
  cases hp : s.phase with
  | exec => exact exit_exec h hp hc ho
  | top => exact exit_top h hp hc ho
  | drain => exact exit_drain h hp hc ho
  | returned => exact exit_returned h hp hc ho

end ApiFu.C15
