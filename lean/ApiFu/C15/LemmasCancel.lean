/-
  C15 — reachability and helper lemmas for the model with cancellation (`Cancel.lean`).
-/
import ApiFu.C15.Lemmas
import ApiFu.C15.Cancel

namespace ApiFu.C15

inductive CReachable (cc : CCfg) : CSt → Prop
  | init : CReachable cc cinit
  | step {cs cs' : CSt} {l : CLabel} : CReachable cc cs → cstep cc cs l = some cs' → CReachable cc cs'

/-- Finite label sequences of the model with cancellation. -/
inductive CSteps (cc : CCfg) : CSt → CSt → Prop
  | refl {cs : CSt} : CSteps cc cs cs
  | cons {cs cs1 cs2 : CSt} {l : CLabel} : cstep cc cs l = some cs1 → CSteps cc cs1 cs2 → CSteps cc cs cs2

theorem apiGo_base : apiGo.base = ⟨true⟩ := rfl

theorem apiGo_noCtx : apiGo.goSelect.contains GoCase.ctxDone = false := by decide

theorem cstep_base {cc : CCfg} {cs cs' : CSt} {l : Label} (h : cstep cc cs (.base l) = some cs') :
    ∃ s', step cc.base cs.s l = some s' ∧ cs' = { cs with s := s' } := by
  simp only [cstep] at h
  split at h
  · rename_i s' hs
    exact ⟨s', hs, by cases h; rfl⟩
  · cases h

theorem cstep_of_step {cc : CCfg} {cs : CSt} {l : Label} {s' : St} (h : step cc.base cs.s l = some s') :
    cstep cc cs (.base l) = some { cs with s := s' } := by
  simp only [cstep, h]

theorem cstep_cancel {cc : CCfg} {cs cs' : CSt} (h : cstep cc cs .cancel = some cs') :
    cs.cancelled = false ∧ cs' = { cs with cancelled := true } := by
  simp only [cstep] at h
  split at h
  · cases h
  · rename_i hc
    exact ⟨by simpa using hc, by cases h; rfl⟩

theorem cstep_ctxRelease_none {cc : CCfg} (hn : cc.goSelect.contains GoCase.ctxDone = false) (cs : CSt) (t : Nat) :
    cstep cc cs (.ctxRelease t) = none := by
  have hn' : ¬ GoCase.ctxDone ∈ cc.goSelect := by simpa using hn
  simp [cstep, hn']

theorem csteps_lift {cc : CCfg} {s s' : St} (h : Steps cc.base s s') : ∀ b : Bool, CSteps cc ⟨s, b⟩ ⟨s', b⟩ := by
  induction h with
  | refl => intro b; exact .refl
  | cons hs _ ih =>
    intro b
    exact .cons (cstep_of_step (cs := ⟨_, b⟩) hs) (ih b)

/-- What is left to do after a return: the tasks' steps, and the one cancellation that may still come. -/
def cpotential (cs : CSt) : Nat := measure cs.s + (if cs.cancelled then 0 else 1)


/-- What the driver accepts is covered by the theorems (cf. `accepted_is_reachable`). -/
theorem crun_reachable {cc : CCfg} : ∀ (ls : List CLabel) {cs0 cs : CSt}, CReachable cc cs0 → crun cc cs0 ls = some cs → CReachable cc cs := by
  intro ls
  induction ls with
  | nil => intro cs0 cs h hr; simp [crun] at hr; exact hr ▸ h
  | cons l ls ih =>
    intro cs0 cs h hr
    simp only [crun] at hr
    split at hr
    · cases hr
    · rename_i cs1 hs
      exact ih (h.step hs) hr

end ApiFu.C15
