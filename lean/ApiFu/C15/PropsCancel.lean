/-
  C15 — property theorems under cancellation of the request's context (`Cancel.lean`).

  Every theorem quantifies over all `CReachable cc cs`: any label sequence of `Model.lean` with a
  `cancel` event at any position (before a task starts, while it runs, after its body returned and
  before the hand-off, while the idle handler is blocked, after the return) — unboundedly many tasks,
  batches, waves and executions.
-/
import ApiFu.C15.Props
import ApiFu.C15.LemmasCancel
import ApiFu.C15.LemmasExit

namespace ApiFu.C15

/-- **cancel_is_invisible** — if the select at the end of a Go task has no `<-ctx.Done()` alternative
    (the table row `Go/select#0`), then for *every* history with a cancellation anywhere in it the
    bookkeeping state is a reachable state of the model without contexts: all 27 theorems of
    `Props.lean` (result routing, exactly-once batching, coalescing, progress, termination, event
    isolation) hold verbatim for a cancelled request. -/
theorem cancel_is_invisible {cc : CCfg} (hn : cc.goSelect.contains GoCase.ctxDone = false) {cs : CSt}
    (h : CReachable cc cs) : Reachable cc.base cs.s := by
  induction h with
  | init => exact .init
  | @step cs0 cs1 l _ hs ih =>
    cases l with
    | base l =>
      obtain ⟨s', h1, rfl⟩ := cstep_base hs
      exact ih.step h1
    | cancel =>
      obtain ⟨_, rfl⟩ := cstep_cancel hs
      exact ih
    | ctxRelease t =>
      rw [cstep_ctxRelease_none hn] at hs
      cases hs

/-- **no_blocked_task_at_return under cancellation** — api.go, any history, the context cancelled at
    any point of it or not at all: after an execution returned, as long as a task is running or parked
    in its select, a step of a task is enabled (its body returns, or it sees `done` closed and leaves
    through its own promise's free slot), and *every* enabled step other than the start of the next
    execution — including a cancellation that arrives only now — strictly decreases
    `2·#running + #parked + [not yet cancelled]` and stays returned: no goroutine started on the
    request's behalf stays blocked forever, cancelled or not. -/
theorem no_blocked_task_at_return_cancelled {cs : CSt} (h : CReachable apiGo cs) (hp : cs.s.phase = .returned)
    (hc : cs.s.crashed = false) (ho : cs.s.orphaned = []) (hne : cs.s.running ≠ [] ∨ cs.s.blocked ≠ []) :
    (∃ l cs', l.isWork = true ∧ cstep apiGo cs (.base l) = some cs') ∧
    (∀ L cs', cstep apiGo cs L = some cs' → L ≠ .base .start →
      cpotential cs' < cpotential cs ∧ cs'.s.phase = .returned ∧ cs'.s.crashed = false ∧ cs'.s.orphaned = []) := by
  have hr : Reachable ⟨true⟩ cs.s := apiGo_base ▸ cancel_is_invisible apiGo_noCtx h
  obtain ⟨⟨l, s', hw, hs⟩, hall⟩ := no_blocked_task_at_return hr hp hc ho hne
  constructor
  · exact ⟨l, { cs with s := s' }, hw, cstep_of_step (cc := apiGo) (by rw [apiGo_base]; exact hs)⟩
  · intro L cs' hL hns
    cases L with
    | base l' =>
      obtain ⟨s1, h1, rfl⟩ := cstep_base hL
      rw [apiGo_base] at h1
      obtain ⟨hm, h2, h3, h4⟩ := hall l' s1 h1 (by intro e; apply hns; rw [e])
      refine ⟨?_, h2, h3, h4⟩
      simp only [cpotential]
      omega
    | cancel =>
      obtain ⟨hf, rfl⟩ := cstep_cancel hL
      refine ⟨?_, hp, hc, ho⟩
      simp [cpotential, hf]
    | ctxRelease t =>
      rw [cstep_ctxRelease_none apiGo_noCtx] at hL
      cases hL

/-- **idle_progress under cancellation** — api.go, any history with a cancellation anywhere: whenever
    the idle handler is at the head of its loop (contract of the batch functions kept) a flush, a
    blocking receive or the return of a task body whose inputs are there is enabled; in the drain phase
    the handler can return. A cancelled request does not deadlock in its idle handler: the only
    thing that wakes the blocking receive is a hand-off, and every finished task still offers one. -/
theorem idle_progress_cancelled {cs : CSt} (h : CReachable apiGo cs) (hc : cs.s.crashed = false) (ho : cs.s.orphaned = []) :
    (cs.s.phase = .top → (∃ rs cs', cstep apiGo cs (.base (.flush rs)) = some cs') ∨
                         (∃ t cs', cstep apiGo cs (.base (.recvBlock t)) = some cs') ∨
                         (∃ t r cs', cstep apiGo cs (.base (.fin t r)) = some cs')) ∧
    (cs.s.phase = .drain → ∃ cs', cstep apiGo cs (.base .idleRet) = some cs') := by
  have hr : Reachable apiGo.base cs.s := cancel_is_invisible apiGo_noCtx h
  obtain ⟨h1, h2⟩ := idle_progress hr hc ho
  constructor
  · intro hp
    rcases h1 hp with ⟨rs, s', hs⟩ | ⟨t, s', hs⟩ | ⟨t, r, s', hs⟩
    · exact Or.inl ⟨rs, _, cstep_of_step hs⟩
    · exact Or.inr (Or.inl ⟨t, _, cstep_of_step hs⟩)
    · exact Or.inr (Or.inr ⟨t, r, _, cstep_of_step hs⟩)
  · intro hp
    obtain ⟨s', hs⟩ := h2 hp
    exact ⟨_, cstep_of_step hs⟩

/-- **all_tasks_exit under cancellation** — api.go: from every state reached after a return, whatever
    happened to the context, some continuation ends with no goroutine of the request left (and by
    `no_blocked_task_at_return_cancelled` every maximal continuation that does not start another
    execution does). -/
theorem all_tasks_exit_cancelled {cs : CSt} (h : CReachable apiGo cs) (hp : cs.s.phase = .returned)
    (hc : cs.s.crashed = false) (ho : cs.s.orphaned = []) :
    ∃ cs', CSteps apiGo cs cs' ∧ cs'.s.running = [] ∧ cs'.s.blocked = [] ∧ cs'.cancelled = cs.cancelled := by
  have hr : Reachable ⟨true⟩ cs.s := apiGo_base ▸ cancel_is_invisible apiGo_noCtx h
  obtain ⟨s', hst, h1, h2⟩ := all_tasks_exit hr hp hc ho
  exact ⟨⟨s', cs.cancelled⟩, csteps_lift (cc := apiGo) (by rw [apiGo_base]; exact hst) cs.cancelled, h1, h2, rfl⟩

/-- **every_send_has_partner** — the channel-level reading of the two theorems above. api.go, any
    history with a cancellation anywhere, no batch function crashed:
    * every send to a promise (`ch <- result` after `<-done`, `resolution.Dest <- resolution.Result`,
      `b.dests[i] <- result`, `dest <- errExecutionFinished`) finds the promise's single buffer slot
      free (`destFull` is never set) — this is where capacity 1 of `make(graphql.ResolvePromise, 1)` in
      `Go` and `Batch` is used;
    * every task parked in the select of `Go` (its offer `(t, r)` on the unbuffered `asyncResolutions`)
      has, in each phase, its partner or the step that brings one: after its execution returned the
      `done` alternative is enabled; at the head of the idle handler's loop the blocking receive of
      this very offer is enabled (or, with batches pending, the flush that leads to the drain loop);
      in the drain loop the non-blocking receive of this offer is enabled; while the executor runs,
      it can return (which closes `done`). -/
theorem every_send_has_partner {cs : CSt} (h : CReachable apiGo cs) (hc : cs.s.crashed = false) :
    cs.s.destFull = false ∧
    ∀ t r, lookup cs.s.blocked t = some r →
      ((cs.s.phase = .returned ∨ t < cs.s.execStart) → ∃ cs', cstep apiGo cs (.base (.release t)) = some cs') ∧
      (cs.s.phase = .top → cs.s.batches = [] → ∃ cs', cstep apiGo cs (.base (.recvBlock t)) = some cs') ∧
      (cs.s.phase = .top → cs.s.batches ≠ [] → ∃ cs', cstep apiGo cs (.base (.flush [])) = some cs') ∧
      (cs.s.phase = .drain → ∃ cs', cstep apiGo cs (.base (.drain t)) = some cs') ∧
      (cs.s.phase = .exec → ∃ cs', cstep apiGo cs (.base .ret) = some cs') := by
  have hr : Reachable apiGo.base cs.s := cancel_is_invisible apiGo_noCtx h
  have hd := dest_send_never_blocks hr
  refine ⟨hd, ?_⟩
  intro t r hl
  refine ⟨?_, ?_, ?_, ?_, ?_⟩
  · intro hp
    refine ⟨_, cstep_of_step (s' := took cs.s t r) ?_⟩
    rw [apiGo_base]
    rcases hp with hp | hp
    · simp [step, hc, hp, hl]
    · simp [step, hc, hp, hl]
  · intro hp hb
    by_cases hch : t ∈ cs.s.chained
    · refine ⟨_, cstep_of_step (s' := { took cs.s t r with chained := cs.s.chained.erase t }) ?_⟩
      simp [step, hc, hd, hp, hb, hl, hch]
    · refine ⟨_, cstep_of_step (s' := { took cs.s t r with phase := .drain, progress := true }) ?_⟩
      simp [step, hc, hd, hp, hb, hl, hch]
  · intro hp hb
    refine ⟨_, cstep_of_step (s' := { flushAll cs.s.wave cs.s.execStart [] cs.s cs.s.batches with batches := [], phase := .drain, progress := true }) ?_⟩
    simp [step, hc, hp, hb]
  · intro hp
    refine ⟨_, cstep_of_step (s' := took cs.s t r) ?_⟩
    simp [step, hc, hd, hp, hl]
  · intro hp
    refine ⟨_, cstep_of_step (s' := { finishBatches cs.s with phase := .returned }) ?_⟩
    rw [apiGo_base]
    simp [step, hc, hp]

/-- The history of the seeded change C15-23: one Go task, the executor goes idle, the context is
    cancelled, the body returns, the task takes the `<-ctx.Done()` alternative. -/
def ctxDoneHistory : List CLabel :=
  [.base (.go 0 none), .base .idle, .cancel, .base (.fin 0 ⟨5, false⟩), .ctxRelease 0]

/-- **ctx_case_deadlocks** (negation witness: the row `Go/select#0` is load-bearing) — with a
    `<-ctx.Done()` alternative in the Go task's select, the history above is an execution; it ends with
    the idle handler at the head of its loop, nothing pending, nothing on offer, no task running, the
    result sitting in the task's own promise — and *no* label at all is enabled: the handler's blocking
    receive is never woken, the request never returns (`idle_progress` fails for this configuration). -/
theorem ctx_case_deadlocks :
    ∃ cs, crun apiGoCtx cinit ctxDoneHistory = some cs ∧ cs.s.phase = .top ∧ cs.s.running = [] ∧ cs.s.blocked = [] ∧
      cs.s.batches = [] ∧ cs.s.delivered = [(0, ⟨5, false⟩)] ∧ cs.s.crashed = false ∧ cs.s.orphaned = [] ∧
      ∀ L, cstep apiGoCtx cs L = none := by
  refine ⟨_, rfl, rfl, rfl, rfl, rfl, rfl, rfl, rfl, ?_⟩
  intro L
  cases L with
  | base l => cases l <;> simp [cstep, step, CCfg.base, apiGoCtx, cinit, took, St.deliver, isDelivered, lookup]
  | cancel => rfl
  | ctxRelease t => simp [cstep, cinit, took, St.deliver, isDelivered, lookup]

/-- **every_goroutine_can_terminate** (no reachable state is doomed) — api.go, *every* reachable state
    of every history — any phase: the executor running, the idle handler at its loop head or draining,
    after the return; the context cancelled at any earlier point or not at all; any number of tasks,
    chain/join tasks, batches, waves, executions — has a continuation in which the idle handler
    finishes (batch functions keeping their contract), the executor returns, and every goroutine
    started on the request's behalf has exited (`running = [] ∧ blocked = []`). Together with the
    decreasing measures (`idle_terminates`, `no_blocked_task_at_return_cancelled`) this is deadlock
    freedom in the strong sense: whatever has happened so far, termination is still reachable. -/
theorem every_goroutine_can_terminate {cs : CSt} (h : CReachable apiGo cs) (hc : cs.s.crashed = false)
    (ho : cs.s.orphaned = []) :
    ∃ cs', CSteps apiGo cs cs' ∧ cs'.s.phase = .returned ∧ cs'.s.running = [] ∧ cs'.s.blocked = [] ∧
      cs'.cancelled = cs.cancelled := by
  have hr : Reachable ⟨true⟩ cs.s := apiGo_base ▸ cancel_is_invisible apiGo_noCtx h
  obtain ⟨s', hst, hp, h1, h2⟩ := can_terminate hr hc ho
  exact ⟨⟨s', cs.cancelled⟩, csteps_lift (cc := apiGo) (by rw [apiGo_base]; exact hst) cs.cancelled, hp, h1, h2, rfl⟩

/-- **ctx_case_doomed** — with a `<-ctx.Done()` alternative the statement above is false: the state
    reached by `ctxDoneHistory` (contract kept, nothing crashed) has no continuation at all, so the
    execution never returns. -/
theorem ctx_case_doomed :
    ∃ cs, crun apiGoCtx cinit ctxDoneHistory = some cs ∧ cs.s.crashed = false ∧ cs.s.orphaned = [] ∧
      ∀ cs', CSteps apiGoCtx cs cs' → cs'.s.phase ≠ .returned := by
  obtain ⟨cs, hrun, hp, _, _, _, _, hc, ho, hnone⟩ := ctx_case_deadlocks
  refine ⟨cs, hrun, hc, ho, ?_⟩
  intro cs' hst
  cases hst with
  | refl => rw [hp]; intro e; cases e
  | cons hs _ => rw [hnone] at hs; cases hs

/-- **ctx_alternative_deadlocks** — *any* configuration whose Go select has a `<-ctx.Done()` alternative
    (whatever else it has) runs `ctxDoneHistory` into a state at the head of the idle handler's loop in
    which no label is enabled. -/
theorem ctx_alternative_deadlocks {cc : CCfg} (hx : cc.goSelect.contains GoCase.ctxDone = true) :
    ∃ cs, crun cc cinit ctxDoneHistory = some cs ∧ cs.s.phase = .top ∧ cs.s.crashed = false ∧ cs.s.orphaned = [] ∧
      ∀ L, cstep cc cs L = none := by
  have hm : GoCase.ctxDone ∈ cc.goSelect := by simpa using hx
  refine ⟨⟨{ next := 1, phase := .top, wave := 1, finished := [(0, ⟨5, false⟩)], delivered := [(0, ⟨5, false⟩)] }, true⟩, ?_, rfl, rfl, rfl, ?_⟩
  · simp [crun, ctxDoneHistory, cstep, step, cinit, hm, took, St.deliver, isDelivered, lookup, depOK, awaitAll, finOK]
  · intro L
    cases L with
    | base l => cases l <;> simp [cstep, step, lookup]
    | cancel => rfl
    | ctxRelease t => simp [cstep, lookup]

/-- **idle_progress_iff_no_ctx_alternative** — the exact role of the table row `Go/select`: for a
    configuration `cc` of the Go task's select, "in every reachable state (context cancelled anywhere
    or nowhere, batch contract kept) in which the idle handler is at the head of its loop some step is
    enabled" holds **iff** the select has no `<-ctx.Done()` alternative. -/
theorem idle_progress_iff_no_ctx_alternative (cc : CCfg) :
    (∀ cs, CReachable cc cs → cs.s.crashed = false → cs.s.orphaned = [] → cs.s.phase = .top →
        ∃ L cs', cstep cc cs L = some cs') ↔
    cc.goSelect.contains GoCase.ctxDone = false := by
  constructor
  · intro h
    cases hx : cc.goSelect.contains GoCase.ctxDone with
    | false => rfl
    | true =>
      obtain ⟨cs, hrun, hp, hc, ho, hnone⟩ := ctx_alternative_deadlocks hx
      obtain ⟨L, cs', hs⟩ := h cs (crun_reachable _ .init hrun) hc ho hp
      rw [hnone] at hs
      cases hs
  · intro hn cs h hc ho hp
    have hr := cancel_is_invisible hn h
    rcases (idle_progress hr hc ho).1 hp with ⟨rs, s', hs⟩ | ⟨t, s', hs⟩ | ⟨t, r, s', hs⟩
    · exact ⟨_, _, cstep_of_step hs⟩
    · exact ⟨_, _, cstep_of_step hs⟩
    · exact ⟨_, _, cstep_of_step hs⟩

/-- The same history in api.go (no such alternative): the last label is rejected, the task stays on
    offer, the handler receives it and returns. -/
example : crun apiGo cinit ctxDoneHistory = none := rfl
example : ∃ cs, crun apiGo cinit [.base (.go 0 none), .base .idle, .cancel, .base (.fin 0 ⟨5, false⟩),
      .base (.recvBlock 0), .base .idleRet, .base .ret] = some cs ∧
    cs.s.phase = .returned ∧ cs.cancelled = true ∧ cs.s.running = [] ∧ cs.s.blocked = [] ∧
    cs.s.delivered = [(0, ⟨5, false⟩)] := ⟨_, rfl, rfl, rfl, rfl, rfl, rfl⟩

/-- Non-vacuity of the theorems above: a cancelled, returned state of api.go with a task still parked. -/
example : ∃ cs, crun apiGo cinit [.base (.go 0 none), .cancel, .base .ret, .base (.fin 0 ⟨5, false⟩)] = some cs ∧
    cs.s.phase = .returned ∧ cs.cancelled = true ∧ cs.s.blocked = [(0, ⟨5, false⟩)] := ⟨_, rfl, rfl, rfl, rfl⟩

end ApiFu.C15
