/-
  C15 — model of the per-request asynchronous bookkeeping of api-fu (api.go):
    `apiRequest` (asyncResolutions / chainedAsyncResolutions / batches), `IdleHandler`,
    `Go`, `Batch`, `chain`, `join`, and the request's return (`finishAfter` / `finish`).

  One state of the model = the state of one execution between two channel operations; one label =
  one atomic step (a Go statement sequence between channel operations), so that an arbitrary
  interleaving of goroutines is an arbitrary label sequence:

    executor goroutine   go / batch / chain (resolver calls; `dep` = the promise of the nearest
                         asynchronously resolved ancestor field, see `depOK`), idle (calls the idle handler),
                         flush / recvBlock / drain / idleRet (the idle handler's phases), ret
    task goroutines      fin (the body of a Go task returns; it now offers its resolution on the
                         unbuffered `asyncResolutions`), release (fixed code only: `done` is closed,
                         the task hands its result to its own promise and exits)

  The executor itself is abstract: it may call resolvers, the idle handler (only while some promise
  it could be waiting for is outstanding) and return (normally or early — a failing non-null sibling
  abandons pending promises) at any point. Promise ids are allocated in creation order.

  Several executions may follow each other on one apiRequest (`start`: graphqlws.go runs every event
  of a subscription with the same apiRequest); `execStart` separates their promises.

  `Cfg.fixed = false` is api.go before repo-patches/C15/01-fix (a Go task sends unconditionally, the
  return does nothing); `fixed = true` is the patched code the check runs against.
  Core Lean only.
-/
namespace ApiFu.C15

-- (promise ids are plain `Nat`s, allocated in creation order)

/-- A `graphql.ResolveResult`: an abstract value and whether `Error` is non-nil. -/
structure Res where
  val : Nat
  err : Bool
  deriving DecidableEq, Repr, Inhabited

/-- A goroutine started by `Go` whose body has not returned yet. `waits` are the promises a
    `chain`/`join` body receives from, in order (empty for a plain `Go`). `id` is its `ch`. -/
structure Task where
  id : Nat
  waits : List Nat
  deriving DecidableEq, Repr

/-- One entry of `apiRequest.batches`. -/
structure Batch where
  key : Nat
  items : List Nat
  dests : List Nat
  deriving DecidableEq, Repr

/-- One invocation of a batch function (ghost log). -/
structure Call where
  wave : Nat
  lo : Nat        -- ghost: `execStart` of the execution whose idle handler made the call
  key : Nat
  items : List Nat
  dests : List Nat
  results : List Res
  deriving DecidableEq, Repr

inductive Phase where
  | exec       -- the executor runs resolvers / polls
  | top        -- inside IdleHandler, at the head of the outer `for`
  | drain      -- inside IdleHandler, in the non-blocking inner `for`/`select`
  | returned   -- the execution has returned
  deriving DecidableEq, Repr

structure Cfg where
  fixed : Bool
  deriving DecidableEq, Repr

structure St where
  next : Nat := 0                          -- number of promises created so far
  running : List Task := []                -- bodies still running
  blocked : List (Nat × Res) := []         -- `asyncResolution{Result, Dest}` offered on the channel
  delivered : List (Nat × Res) := []       -- what was put into each promise's 1-slot buffer
  batches : List Batch := []
  chained : List Nat := []
  phase : Phase := .exec
  destFull : Bool := false                 -- a send to a promise whose slot was already used (would block)
  crashed : Bool := false                  -- a batch function returned more results than items (index panic)
  orphaned : List Nat := []                -- promises of a flushed batch whose function returned too few results:
                                           -- nothing will ever be sent to them
  -- ghost
  wave : Nat := 0                          -- number of idle-handler invocations so far
  calls : List Call := []
  registered : List (Nat × Nat × Nat) := []  -- (batch key, item, promise) in registration order
  finished : List (Nat × Res) := []        -- what each task body returned
  progress : Bool := false                 -- this idle-handler invocation flushed or delivered a non-chained promise
  execStart : Nat := 0                     -- `next` when the current execution started: promises below it belong
                                           -- to earlier executions on the same apiRequest (their `done` is closed)
  execWave : Nat := 0                      -- ghost: `wave` when the current execution started
  exec : Nat := 0                          -- ghost: number of executions started before the current one
  consumed : List Nat := []                -- ghost: every promise some chain/join task receives from
  snap : List (Nat × Res) := []            -- `delivered` as it was when the idle handler was last entered
  regWave : List (Nat × Nat × Nat) := []   -- (promise, batch key, wave counter at registration)
  deriving Repr

inductive Label where
  | go (t : Nat) (dep : Option Nat)
  | batch (k : Nat) (item : Nat) (p : Nat) (dep : Option Nat)
  | chain (t : Nat) (ps : List Nat)
  | fin (t : Nat) (r : Res)
  | idle
  | flush (rs : List (Nat × List Res))
  | recvBlock (t : Nat)
  | drain (t : Nat)
  | idleRet
  | ret
  | release (t : Nat)
  | start
  deriving DecidableEq, Repr

def lookup (dl : List (Nat × Res)) (p : Nat) : Option Res :=
  match dl.find? (fun x => x.1 == p) with
  | some x => some x.2
  | none => none

def isDelivered (s : St) (p : Nat) : Bool := s.delivered.any (fun x => x.1 == p)

/-- `dest <- result` on a promise (capacity 1, written at most once if the bookkeeping is right). -/
def St.deliver (s : St) (p : Nat) (r : Res) : St :=
  if isDelivered s p then { s with destFull := true } else { s with delivered := (p, r) :: s.delivered }

/-- The body of `chain`/`join`: receive from each promise in order, stop at the first error.
    `none` = still blocked in `<-p`; `some none` = all inputs received; `some (some r)` = input error `r`. -/
def awaitAll (dl : List (Nat × Res)) : List Nat → Option (Option Res)
  | [] => some none
  | p :: ps =>
    match lookup dl p with
    | none => none
    | some r => if r.err then some (some r) else awaitAll dl ps

/-- A sequence of sends to promises. -/
def St.deliverAll (s : St) : List (Nat × Res) → St
  | [] => s
  | x :: xs => (s.deliver x.1 x.2).deliverAll xs

def resultsFor (rs : List (Nat × List Res)) (k : Nat) : List Res :=
  match rs.find? (fun x => x.1 == k) with
  | some x => x.2
  | none => []

/-- `for i, result := range b.resolver(b.items) { b.dests[i] <- result }` -/
def flushOne (wave lo : Nat) (rs : List (Nat × List Res)) (s : St) (b : Batch) : St :=
  let res := resultsFor rs b.key
  let s1 := s.deliverAll (b.dests.zip res)
  { s1 with calls := ⟨wave, lo, b.key, b.items, b.dests, res⟩ :: s1.calls,
            crashed := s1.crashed || decide (b.dests.length < res.length),
            orphaned := b.dests.drop res.length ++ s1.orphaned }

/-- The flush phase: every pending batch function is called once (the goroutines only touch their
    own batch's promises, so their interleaving does not matter; the handler waits for all). -/
def flushAll (wave lo : Nat) (rs : List (Nat × List Res)) (s : St) : List Batch → St
  | [] => s
  | b :: bs => flushAll wave lo rs (flushOne wave lo rs s b) bs

/-- Is `r` an admissible return value of a chain/join body whose inputs gave `e`? An input error is
    returned as it is; otherwise `f` decides. -/
def finOK (e : Option Res) (r : Res) : Bool :=
  match e with
  | none => true
  | some x => r == x

/-- `Batch`'s returned resolver: append to the batch of this key, creating it if needed. -/
def addToBatch (bs : List Batch) (k item : Nat) (p : Nat) : List Batch :=
  match bs with
  | [] => [⟨k, [item], [p]⟩]
  | b :: rest =>
    if b.key == k then ⟨b.key, b.items ++ [item], b.dests ++ [p]⟩ :: rest
    else b :: addToBatch rest k item p

def errFinished : Res := ⟨0, true⟩

/-- `finish()`: every promise still pending in a batch receives an error. -/
def finishBatches (s : St) : St :=
  let s1 := s.deliverAll ((s.batches.flatMap (·.dests)).map (fun p => (p, errFinished)))
  { s1 with batches := [] }

/-- `resolution := <-r.asyncResolutions; resolution.Dest <- resolution.Result` (idle handler), or
    the released task's own `ch <- result`: the offer of `t` disappears, its promise gets `r`. -/
def took (s : St) (t : Nat) (r : Res) : St :=
  ({ s with blocked := s.blocked.filter (fun x => x.1 != t) }).deliver t r

/-- The executor's poll pass (executor.go `wait`: `f.Poll()` after every return of the idle handler;
    future.go `Join`/`After` poll *every* child) runs the continuation of every promise the handler
    just fulfilled, all in the exec phase that follows. So a resolver call whose field hangs below the
    asynchronously resolved field with promise `d` (its nearest such ancestor) happens in the exec
    phase right after the idle-handler invocation that fulfilled `d`: `d` has a result now and had
    none when the handler was entered. `none`: no such ancestor / not observable. -/
def depOK (s : St) : Option Nat → Bool
  | none => true
  | some d => isDelivered s d && !(s.snap.any (fun x => x.1 == d))

def step (c : Cfg) (s : St) : Label → Option St
  | .go t dep =>
    if s.crashed || s.phase != .exec || t != s.next then none else
    if !depOK s dep then none else
    some { s with next := s.next + 1, running := ⟨t, []⟩ :: s.running }
  | .batch k item p dep =>
    if s.crashed || s.phase != .exec || p != s.next then none else
    if !depOK s dep then none else
    some { s with next := s.next + 1, batches := addToBatch s.batches k item p,
                  registered := s.registered ++ [(k, item, p)],
                  regWave := (p, k, s.wave) :: s.regWave }
  | .chain t ps =>
    -- a promise is a one-slot channel: whoever receives from it takes the result away. chain/join are
    -- only ever given promises nobody else reads (pagination.go: the fresh promise a getter returned,
    -- or the promise of the chain task just created) — `delivered` may therefore be kept as a log.
    if s.crashed || s.phase != .exec || t != s.next ||
        !ps.all (fun p => decide (s.execStart ≤ p) && decide (p < s.next) && !s.consumed.contains p) || !ps.Nodup then none else
    some { s with next := s.next + 1, running := ⟨t, ps⟩ :: s.running, chained := ps ++ s.chained,
                  consumed := ps ++ s.consumed }
  | .fin t r =>
    if s.crashed then none else
    match s.running.find? (fun x => x.id == t) with
    | none => none
    | some task =>
      match awaitAll s.delivered task.waits with
      | none => none
      | some e =>
        if !finOK e r then none else
        some { s with running := s.running.filter (fun x => x.id != t), blocked := (t, r) :: s.blocked,
                      finished := (t, r) :: s.finished }
  | .idle =>
    if s.crashed || s.phase != .exec then none else
    if (List.range s.next).any (fun p => decide (s.execStart ≤ p) && !isDelivered s p && !s.chained.contains p) then
      some { s with phase := .top, wave := s.wave + 1, progress := false, snap := s.delivered }
    else none
  | .flush rs =>
    if s.crashed || s.phase != .top || s.batches.isEmpty then none else
    let s1 := flushAll s.wave s.execStart rs s s.batches
    some { s1 with batches := [], phase := .drain, progress := true }
  | .recvBlock t =>
    if s.crashed || s.destFull || s.phase != .top || !s.batches.isEmpty then none else
    match lookup s.blocked t with
    | none => none
    | some r =>
      if s.chained.contains t then some { took s t r with chained := s.chained.erase t }
      else some { took s t r with phase := .drain, progress := true }
  | .drain t =>
    if s.crashed || s.destFull || s.phase != .drain then none else
    match lookup s.blocked t with
    | none => none
    | some r => some (took s t r)
  | .idleRet =>
    if s.crashed || s.destFull || s.phase != .drain then none else some { s with phase := .exec }
  | .ret =>
    if s.crashed || s.phase != .exec then none else
    if c.fixed then some { finishBatches s with phase := .returned } else some { s with phase := .returned }
  | .release t =>
    -- the task's own `done` is closed: its execution has returned (an earlier one, or the current one)
    if s.crashed || !c.fixed || !(decide (t < s.execStart) || s.phase == .returned) then none else
    match lookup s.blocked t with
    | none => none
    | some r => some (took s t r)
  | .start =>
    -- graphqlws.go: the next subscription event is executed on the same apiRequest
    if s.crashed || s.phase != .returned then none else
    some { s with phase := .exec, execStart := s.next, execWave := s.wave, exec := s.exec + 1, progress := false }

/-- Run a label sequence; `none` as soon as a label is not enabled. Returns the index of the
    first rejected label on failure. -/
def runFrom (c : Cfg) : St → List Label → Nat → Except Nat St
  | s, [], _ => .ok s
  | s, l :: ls, i =>
    match step c s l with
    | none => .error i
    | some s' => runFrom c s' ls (i + 1)

def init : St := {}

end ApiFu.C15
