/-
  C15 — helper lemmas: closed forms of the delivery loops and the id-accounting invariant.
-/
import ApiFu.C15.Model

namespace ApiFu.C15

/-! ### id bookkeeping -/

def dIds (s : St) : List Nat := s.delivered.map (·.1)
def rIds (s : St) : List Nat := s.running.map (·.id)
def bIds (s : St) : List Nat := s.blocked.map (·.1)
def qIds (s : St) : List Nat := s.batches.flatMap (·.dests)

/-- How many owners promise `p` has: a running task, an offered resolution, a pending batch slot,
    a delivered result, or the orphan list. -/
def cnt (s : St) (p : Nat) : Nat :=
  (rIds s).count p + (bIds s).count p + (qIds s).count p + (dIds s).count p + s.orphaned.count p

theorem isDelivered_iff (s : St) (p : Nat) : isDelivered s p = true ↔ p ∈ dIds s := by
  simp [isDelivered, dIds, List.any_eq_true]

theorem deliver_fresh (s : St) (p : Nat) (r : Res) (h : p ∉ dIds s) :
    s.deliver p r = { s with delivered := (p, r) :: s.delivered } := by
  have : isDelivered s p = false := by
    cases hd : isDelivered s p with
    | false => rfl
    | true => exact absurd ((isDelivered_iff s p).mp hd) h
  simp [St.deliver, this]

/-- Sending a list of results to distinct promises none of which has a result yet. -/
theorem deliverAll_fresh (xs : List (Nat × Res)) : ∀ (s : St),
    (∀ x ∈ xs, x.1 ∉ dIds s) → (xs.map (·.1)).Nodup →
    s.deliverAll xs = { s with delivered := xs.reverse ++ s.delivered } := by
  induction xs with
  | nil => intro s _ _; simp [St.deliverAll]
  | cons x xs ih =>
    intro s h nd
    have hx : x.1 ∉ dIds s := h x (by simp)
    simp only [St.deliverAll]
    rw [deliver_fresh s x.1 x.2 hx]
    have nd' : (xs.map (·.1)).Nodup := (List.nodup_cons.mp (by simpa using nd)).2
    have hnot : x.1 ∉ xs.map (·.1) := (List.nodup_cons.mp (by simpa using nd)).1
    rw [ih]
    · simp
    · intro y hy
      simp only [dIds, List.map_cons, List.mem_cons, not_or]
      refine ⟨?_, h y (by simp [hy])⟩
      intro heq
      exact hnot (by rw [← heq]; exact List.mem_map_of_mem hy)
    · exact nd'

theorem zip_fst_eq_take {α β} (l1 : List α) (l2 : List β) :
    (l1.zip l2).map (·.1) = l1.take l2.length := by
  induction l1 generalizing l2 with
  | nil => simp
  | cons a l1 ih =>
    cases l2 with
    | nil => simp
    | cons b l2 => simp [ih]

def mkCall (wave lo : Nat) (rs : List (Nat × List Res)) (b : Batch) : Call :=
  ⟨wave, lo, b.key, b.items, b.dests, resultsFor rs b.key⟩

theorem flushOne_fresh (wave lo : Nat) (rs : List (Nat × List Res)) (s : St) (b : Batch)
    (h : ∀ p ∈ b.dests, p ∉ dIds s) (nd : b.dests.Nodup) :
    flushOne wave lo rs s b =
      { s with delivered := (b.dests.zip (resultsFor rs b.key)).reverse ++ s.delivered,
               calls := mkCall wave lo rs b :: s.calls,
               crashed := s.crashed || decide (b.dests.length < (resultsFor rs b.key).length),
               orphaned := b.dests.drop (resultsFor rs b.key).length ++ s.orphaned } := by
  unfold flushOne
  simp only
  rw [deliverAll_fresh]
  · rfl
  · intro x hx
    apply h
    have : x.1 ∈ (b.dests.zip (resultsFor rs b.key)).map (·.1) := List.mem_map_of_mem hx
    rw [zip_fst_eq_take] at this
    exact List.mem_of_mem_take this
  · rw [zip_fst_eq_take]
    exact List.Nodup.sublist (List.take_sublist _ _) nd

def flushDel (rs : List (Nat × List Res)) : List Batch → List (Nat × Res)
  | [] => []
  | b :: bs => flushDel rs bs ++ (b.dests.zip (resultsFor rs b.key)).reverse

def flushOrph (rs : List (Nat × List Res)) : List Batch → List Nat
  | [] => []
  | b :: bs => flushOrph rs bs ++ b.dests.drop (resultsFor rs b.key).length

def tooLong (rs : List (Nat × List Res)) (b : Batch) : Bool :=
  decide (b.dests.length < (resultsFor rs b.key).length)

theorem flushAll_fresh (wave lo : Nat) (rs : List (Nat × List Res)) (bs : List Batch) : ∀ (s : St),
    (∀ p ∈ bs.flatMap (·.dests), p ∉ dIds s) → (bs.flatMap (·.dests)).Nodup →
    flushAll wave lo rs s bs =
      { s with delivered := flushDel rs bs ++ s.delivered,
               calls := (bs.map (mkCall wave lo rs)).reverse ++ s.calls,
               crashed := s.crashed || bs.any (tooLong rs),
               orphaned := flushOrph rs bs ++ s.orphaned } := by
  induction bs with
  | nil => intro s _ _; simp [flushAll, flushDel, flushOrph]
  | cons b bs ih =>
    intro s h nd
    simp only [List.flatMap_cons] at h nd
    have ndb : b.dests.Nodup := (List.nodup_append.mp nd).1
    have ndr : (bs.flatMap (·.dests)).Nodup := (List.nodup_append.mp nd).2.1
    have disj : ∀ a ∈ b.dests, ∀ c ∈ bs.flatMap (·.dests), a ≠ c := (List.nodup_append.mp nd).2.2
    simp only [flushAll]
    rw [flushOne_fresh wave lo rs s b (fun p hp => h p (by simp [hp])) ndb]
    rw [ih]
    · simp [flushDel, flushOrph, tooLong, Bool.or_assoc, List.append_assoc]
    · intro p hp
      simp only [dIds, List.map_append, List.mem_append, not_or]
      refine ⟨?_, h p (by simp only [List.mem_append]; exact Or.inr hp)⟩
      intro hin
      rw [List.map_reverse, List.mem_reverse, zip_fst_eq_take] at hin
      exact disj p (List.mem_of_mem_take hin) p hp rfl
    · exact ndr

/-! ### inversion of `step`, one lemma per label -/

theorem step_go {c : Cfg} {s s' : St} {t : Nat} {dep : Option Nat} (h : step c s (.go t dep) = some s') :
    s.crashed = false ∧ s.phase = .exec ∧ t = s.next ∧
    s' = { s with next := s.next + 1, running := ⟨t, []⟩ :: s.running } ∧ depOK s dep = true := by
  simp only [step] at h
  split at h
  · cases h
  · rename_i hc
    split at h
    · cases h
    · rename_i hd
      simp at hc hd
      exact ⟨hc.1.1, hc.1.2, hc.2, (Option.some.inj h).symm, hd⟩

theorem step_batch {c : Cfg} {s s' : St} {k item p : Nat} {dep : Option Nat} (h : step c s (.batch k item p dep) = some s') :
    s.crashed = false ∧ s.phase = .exec ∧ p = s.next ∧
    s' = { s with next := s.next + 1, batches := addToBatch s.batches k item p,
                  registered := s.registered ++ [(k, item, p)],
                  regWave := (p, k, s.wave) :: s.regWave } ∧ depOK s dep = true := by
  simp only [step] at h
  split at h
  · cases h
  · rename_i hc
    split at h
    · cases h
    · rename_i hd
      simp at hc hd
      exact ⟨hc.1.1, hc.1.2, hc.2, (Option.some.inj h).symm, hd⟩

theorem step_chain {c : Cfg} {s s' : St} {t : Nat} {ps : List Nat} (h : step c s (.chain t ps) = some s') :
    s.crashed = false ∧ s.phase = .exec ∧ t = s.next ∧ (∀ p ∈ ps, s.execStart ≤ p ∧ p < s.next ∧ p ∉ s.consumed) ∧
    s' = { s with next := s.next + 1, running := ⟨t, ps⟩ :: s.running, chained := ps ++ s.chained,
                  consumed := ps ++ s.consumed } := by
  simp only [step] at h
  split at h
  · cases h
  · rename_i hc
    simp at hc
    refine ⟨hc.1.1.1.1, hc.1.1.1.2, hc.1.1.2, ?_, (Option.some.inj h).symm⟩
    intro p hp
    have := hc.1.2 p hp
    exact ⟨this.1, this.2.1, this.2.2⟩

theorem step_chain_nodup {c : Cfg} {s s' : St} {t : Nat} {ps : List Nat} (h : step c s (.chain t ps) = some s') :
    ps.Nodup := by
  simp only [step] at h
  split at h
  · cases h
  · rename_i hc
    simp at hc
    exact hc.2

theorem step_fin {c : Cfg} {s s' : St} {t : Nat} {r : Res} (h : step c s (.fin t r) = some s') :
    ∃ task e, s.crashed = false ∧ s.running.find? (fun x => x.id == t) = some task ∧
      awaitAll s.delivered task.waits = some e ∧ finOK e r = true ∧
      s' = { s with running := s.running.filter (fun x => x.id != t), blocked := (t, r) :: s.blocked,
                    finished := (t, r) :: s.finished } := by
  simp only [step] at h
  split at h
  · cases h
  · rename_i hc
    split at h
    · cases h
    · rename_i task hf
      split at h
      · cases h
      · rename_i e he
        split at h
        · cases h
        · rename_i hk
          simp at hc hk h
          exact ⟨task, e, hc, hf, he, hk, h.symm⟩

theorem step_idle {c : Cfg} {s s' : St} (h : step c s .idle = some s') :
    s.crashed = false ∧ s.phase = .exec ∧
    (∃ p, s.execStart ≤ p ∧ p < s.next ∧ isDelivered s p = false ∧ s.chained.contains p = false) ∧
    s' = { s with phase := .top, wave := s.wave + 1, progress := false, snap := s.delivered } := by
  simp only [step] at h
  split at h
  · cases h
  · rename_i hc
    split at h
    · rename_i ha
      simp at hc h
      simp only [List.any_eq_true, List.mem_range] at ha
      obtain ⟨p, hp, hh⟩ := ha
      simp at hh
      refine ⟨hc.1, hc.2, ⟨p, hh.1.1, hp, ?_, ?_⟩, h.symm⟩
      · cases hd : isDelivered s p <;> simp_all
      · cases hd : s.chained.contains p <;> simp_all
    · cases h

theorem step_flush {c : Cfg} {s s' : St} {rs : List (Nat × List Res)} (h : step c s (.flush rs) = some s') :
    s.crashed = false ∧ s.phase = .top ∧ s.batches ≠ [] ∧
    s' = { flushAll s.wave s.execStart rs s s.batches with batches := [], phase := .drain, progress := true } := by
  simp only [step] at h
  split at h
  · cases h
  · rename_i hc
    simp at hc h
    exact ⟨hc.1.1, hc.1.2, hc.2, h.symm⟩

theorem step_recvBlock {c : Cfg} {s s' : St} {t : Nat} (h : step c s (.recvBlock t) = some s') :
    ∃ r, s.crashed = false ∧ s.destFull = false ∧ s.phase = .top ∧ s.batches = [] ∧
      lookup s.blocked t = some r ∧
      s' = (if s.chained.contains t then { took s t r with chained := s.chained.erase t }
            else { took s t r with phase := .drain, progress := true }) := by
  simp only [step] at h
  split at h
  · cases h
  · rename_i hc
    split at h
    · cases h
    · rename_i r hr
      simp at hc
      refine ⟨r, hc.1.1.1, hc.1.1.2, hc.1.2, hc.2, hr, ?_⟩
      split at h
      · rename_i hch
        rw [if_pos hch]; exact (Option.some.inj h).symm
      · rename_i hch
        rw [if_neg hch]; exact (Option.some.inj h).symm

theorem step_drain {c : Cfg} {s s' : St} {t : Nat} (h : step c s (.drain t) = some s') :
    ∃ r, s.crashed = false ∧ s.destFull = false ∧ s.phase = .drain ∧
      lookup s.blocked t = some r ∧ s' = took s t r := by
  simp only [step] at h
  split at h
  · cases h
  · rename_i hc
    split at h
    · cases h
    · rename_i r hr
      simp at hc
      exact ⟨r, hc.1.1, hc.1.2, hc.2, hr, (Option.some.inj h).symm⟩

theorem step_idleRet {c : Cfg} {s s' : St} (h : step c s .idleRet = some s') :
    s.crashed = false ∧ s.destFull = false ∧ s.phase = .drain ∧ s' = { s with phase := .exec } := by
  simp only [step] at h
  split at h
  · cases h
  · rename_i hc
    simp at hc h
    exact ⟨hc.1.1, hc.1.2, hc.2, h.symm⟩

theorem step_ret {c : Cfg} {s s' : St} (h : step c s .ret = some s') :
    s.crashed = false ∧ s.phase = .exec ∧
    s' = (if c.fixed then { finishBatches s with phase := .returned } else { s with phase := .returned }) := by
  simp only [step] at h
  split at h
  · cases h
  · rename_i hc
    simp at hc
    refine ⟨hc.1, hc.2, ?_⟩
    split at h <;> simp_all

theorem step_release {c : Cfg} {s s' : St} {t : Nat} (h : step c s (.release t) = some s') :
    ∃ r, s.crashed = false ∧ c.fixed = true ∧ (t < s.execStart ∨ s.phase = .returned) ∧
      lookup s.blocked t = some r ∧ s' = took s t r := by
  simp only [step] at h
  split at h
  · cases h
  · rename_i hc
    split at h
    · cases h
    · rename_i r hr
      simp at hc
      refine ⟨r, hc.1.1, hc.1.2, ?_, hr, (Option.some.inj h).symm⟩
      by_cases hlt : t < s.execStart
      · exact Or.inl hlt
      · exact Or.inr (hc.2 (by omega))

theorem step_start {c : Cfg} {s s' : St} (h : step c s .start = some s') :
    s.crashed = false ∧ s.phase = .returned ∧
    s' = { s with phase := .exec, execStart := s.next, execWave := s.wave, exec := s.exec + 1, progress := false } := by
  simp only [step] at h
  split at h
  · cases h
  · rename_i hc
    simp at hc
    exact ⟨hc.1, hc.2, (Option.some.inj h).symm⟩

/-! ### counting -/

theorem lookup_some_mem {l : List (Nat × Res)} {t : Nat} {r : Res} (h : lookup l t = some r) : (t, r) ∈ l := by
  unfold lookup at h
  split at h
  · rename_i x hf
    have hm := List.mem_of_find?_eq_some hf
    have hp := List.find?_some hf
    simp at hp h
    cases x; simp_all
  · cases h

theorem mem_lookup_isSome {l : List (Nat × Res)} {t : Nat} {r : Res} (h : (t, r) ∈ l) : ∃ r', lookup l t = some r' := by
  unfold lookup
  cases hf : l.find? (fun x => x.1 == t) with
  | some x => exact ⟨x.2, rfl⟩
  | none =>
    have := List.find?_eq_none.mp hf (t, r) h
    simp at this

theorem count_filter_map_ne {α} (f : α → Nat) (t : Nat) (l : List α) (p : Nat) :
    ((l.filter (fun x => f x != t)).map f).count p = if p = t then 0 else (l.map f).count p := by
  induction l with
  | nil => simp
  | cons a l ih =>
    by_cases ha : f a = t
    · simp [ha, ih]
      by_cases hp : p = t
      · simp [hp]
      · simp [hp, List.count_cons]; intro h; exact absurd h.symm hp
    · have : (f a != t) = true := by simpa using ha
      simp [this, ih, List.count_cons]
      by_cases hp : p = t
      · simp [hp, ha]
      · simp [hp]

theorem count_qIds_addToBatch (bs : List Batch) (k item p x : Nat) :
    ((addToBatch bs k item p).flatMap (·.dests)).count x = (bs.flatMap (·.dests)).count x + (if x = p then 1 else 0) := by
  induction bs with
  | nil =>
    simp [addToBatch, List.count_cons]
    by_cases h : p = x
    · simp [h]
    · have : ¬ x = p := fun e => h e.symm
      simp [h, this]
  | cons b bs ih =>
    simp only [addToBatch]
    split
    · simp [List.count_append, List.count_cons]
      by_cases hx : x = p
      · simp [hx]; omega
      · simp [hx]; intro h; exact absurd h.symm hx
    · simp [List.count_append, ih]; omega

theorem count_flush (rs : List (Nat × List Res)) (bs : List Batch) (x : Nat) :
    ((flushDel rs bs).map (·.1)).count x + (flushOrph rs bs).count x = (bs.flatMap (·.dests)).count x := by
  induction bs with
  | nil => simp [flushDel, flushOrph]
  | cons b bs ih =>
    simp only [flushDel, flushOrph, List.map_append, List.count_append, List.flatMap_cons, List.map_reverse,
      List.count_reverse, zip_fst_eq_take]
    have := congrArg (List.count x) (List.take_append_drop (resultsFor rs b.key).length b.dests)
    rw [List.count_append] at this
    omega


/-! ### the id-accounting invariant -/

/-- Every promise created so far has exactly one owner; nothing else has one. -/
def IdsOK (s : St) : Prop := ∀ p, cnt s p = if p < s.next then 1 else 0

theorem IdsOK.lt_of_pos {s : St} (h : IdsOK s) {p : Nat} (hp : 0 < cnt s p) : p < s.next := by
  have := h p
  split at this
  · assumption
  · omega

theorem IdsOK.blocked_not_delivered {s : St} (h : IdsOK s) {t : Nat} {r : Res} (hm : (t, r) ∈ s.blocked) :
    t ∉ dIds s ∧ (bIds s).count t = 1 ∧ (rIds s).count t = 0 ∧ (qIds s).count t = 0 ∧ s.orphaned.count t = 0 ∧ t < s.next := by
  have hb : 0 < (bIds s).count t := List.count_pos_iff.mpr (List.mem_map_of_mem (f := (·.1)) hm)
  have := h t
  unfold cnt at this
  split at this
  · refine ⟨?_, by omega, by omega, by omega, by omega, by assumption⟩
    intro hd
    have : 0 < (dIds s).count t := List.count_pos_iff.mpr hd
    omega
  · omega

theorem took_eq {s : St} (h : IdsOK s) {t : Nat} {r : Res} (hm : (t, r) ∈ s.blocked) :
    took s t r = { s with blocked := s.blocked.filter (fun x => x.1 != t), delivered := (t, r) :: s.delivered } := by
  unfold took
  rw [deliver_fresh]
  exact (h.blocked_not_delivered hm).1

theorem idsOK_took {s : St} (h : IdsOK s) {t : Nat} {r : Res} (hm : (t, r) ∈ s.blocked) : IdsOK (took s t r) := by
  rw [took_eq h hm]
  obtain ⟨_, hb, _, _, _, _⟩ := h.blocked_not_delivered hm
  intro p
  have := h p
  unfold cnt at this ⊢
  simp only [rIds, bIds, qIds, dIds, List.map_cons, List.count_cons] at this ⊢
  rw [count_filter_map_ne (fun x : Nat × Res => x.1) t s.blocked p]
  by_cases hp : p = t
  · subst hp
    simp only [bIds] at hb
    simp at this ⊢
    omega
  · have : ¬ t = p := fun e => hp e.symm
    simp [hp, this] at *
    omega



theorem IdsOK.q_nodup {s : St} (h : IdsOK s) : (qIds s).Nodup := by
  apply List.nodup_iff_count.mpr
  intro a
  have := h a
  unfold cnt at this
  split at this <;> omega

theorem IdsOK.q_not_delivered {s : St} (h : IdsOK s) : ∀ p ∈ qIds s, p ∉ dIds s := by
  intro p hp hd
  have h1 : 0 < (qIds s).count p := List.count_pos_iff.mpr hp
  have h2 : 0 < (dIds s).count p := List.count_pos_iff.mpr hd
  have := h p
  unfold cnt at this
  split at this <;> omega

theorem find_task {l : List Task} {t : Nat} {task : Task} (h : l.find? (fun x => x.id == t) = some task) :
    task ∈ l ∧ task.id = t := by
  have hm := List.mem_of_find?_eq_some h
  have hp := List.find?_some h
  simp at hp
  exact ⟨hm, hp⟩

theorem idsOK_init : IdsOK init := by
  intro p; simp [cnt, init, rIds, bIds, qIds, dIds]

theorem finishBatches_eq {s : St} (h : IdsOK s) :
    finishBatches s = { s with delivered := ((qIds s).map (fun p => (p, errFinished))).reverse ++ s.delivered, batches := [] } := by
  unfold finishBatches
  simp only
  rw [deliverAll_fresh]
  · rfl
  · intro x hx
    simp only [List.mem_map] at hx
    obtain ⟨p, hp, rfl⟩ := hx
    exact h.q_not_delivered p hp
  · simp only [List.map_map]
    have : ((fun x : Nat × Res => x.1) ∘ fun p => (p, errFinished)) = id := by funext p; rfl
    rw [this, List.map_id]
    exact h.q_nodup

theorem idsOK_step {c : Cfg} {s s' : St} {l : Label} (h : IdsOK s) (hs : step c s l = some s') : IdsOK s' := by
  cases l with
  | go t dep =>
    obtain ⟨_, _, rfl, rfl, _⟩ := step_go hs
    intro p
    have := h p
    unfold cnt at this ⊢
    simp only [rIds, bIds, qIds, dIds, List.map_cons, List.count_cons] at this ⊢
    by_cases hp : p = s.next
    · subst hp; simp at this ⊢; omega
    · have h2 : ¬ s.next = p := fun e => hp e.symm
      simp [h2]
      split at this <;> split <;> omega
  | batch k item p dep =>
    obtain ⟨_, _, rfl, rfl, _⟩ := step_batch hs
    intro x
    have := h x
    unfold cnt at this ⊢
    simp only [rIds, bIds, qIds, dIds] at this ⊢
    rw [count_qIds_addToBatch]
    by_cases hp : x = s.next
    · subst hp; simp at this ⊢; omega
    · simp [hp]
      split at this <;> split <;> omega
  | chain t ps =>
    obtain ⟨_, _, rfl, _, rfl⟩ := step_chain hs
    intro p
    have := h p
    unfold cnt at this ⊢
    simp only [rIds, bIds, qIds, dIds, List.map_cons, List.count_cons] at this ⊢
    by_cases hp : p = s.next
    · subst hp; simp at this ⊢; omega
    · have h2 : ¬ s.next = p := fun e => hp e.symm
      simp [h2]
      split at this <;> split <;> omega
  | fin t r =>
    obtain ⟨task, e, _, hf, _, _, rfl⟩ := step_fin hs
    obtain ⟨hm, hid⟩ := find_task hf
    have hr : 0 < (rIds s).count t := List.count_pos_iff.mpr (hid ▸ List.mem_map_of_mem (f := (·.id)) hm)
    intro p
    have := h p
    have ht := h t
    unfold cnt at this ht ⊢
    simp only [rIds, bIds, qIds, dIds, List.map_cons, List.count_cons] at this ht hr ⊢
    rw [count_filter_map_ne (fun x : Task => x.id) t s.running p]
    by_cases hp : p = t
    · subst hp
      simp at this ⊢
      split at this <;> omega
    · have h2 : ¬ t = p := fun e => hp e.symm
      simp [hp, h2]
      exact this
  | idle =>
    obtain ⟨_, _, _, rfl⟩ := step_idle hs
    exact h
  | flush rs =>
    obtain ⟨_, _, _, rfl⟩ := step_flush hs
    rw [flushAll_fresh s.wave s.execStart rs s.batches s h.q_not_delivered h.q_nodup]
    intro p
    have := h p
    have hc := count_flush rs s.batches p
    unfold cnt at this ⊢
    simp only [rIds, bIds, qIds, dIds, List.map_append, List.count_append, List.flatMap_nil, List.count_nil] at this hc ⊢
    omega
  | recvBlock t =>
    obtain ⟨r, _, _, _, _, hl, rfl⟩ := step_recvBlock hs
    have := idsOK_took h (lookup_some_mem hl)
    split <;> exact this
  | drain t =>
    obtain ⟨r, _, _, _, hl, rfl⟩ := step_drain hs
    exact idsOK_took h (lookup_some_mem hl)
  | idleRet =>
    obtain ⟨_, _, _, rfl⟩ := step_idleRet hs
    exact h
  | ret =>
    obtain ⟨_, _, rfl⟩ := step_ret hs
    split
    · rw [finishBatches_eq h]
      intro p
      have := h p
      unfold cnt at this ⊢
      simp only [rIds, bIds, qIds, dIds, List.map_append, List.count_append, List.map_reverse, List.count_reverse,
        List.map_map, List.flatMap_nil, List.count_nil] at this ⊢
      have e : ((fun x : Nat × Res => x.1) ∘ fun p => (p, errFinished)) = id := by funext p; rfl
      rw [e, List.map_id]
      omega
    · exact h
  | release t =>
    obtain ⟨r, _, _, _, hl, rfl⟩ := step_release hs
    exact idsOK_took h (lookup_some_mem hl)

  | start =>
    obtain ⟨_, _, rfl⟩ := step_start hs
    exact h

/-- States reachable from the initial state by any label sequence (= any interleaving). -/
inductive Reachable (c : Cfg) : St → Prop
  | init : Reachable c init
  | step {s s' : St} {l : Label} : Reachable c s → step c s l = some s' → Reachable c s'

theorem Reachable.idsOK {c : Cfg} {s : St} (h : Reachable c s) : IdsOK s := by
  induction h with
  | init => exact idsOK_init
  | step _ hs ih => exact idsOK_step ih hs


/-- Simple structural facts. -/
structure Inv1 (c : Cfg) (s : St) : Prop where
  destFull : s.destFull = false
  waits : ∀ t ∈ s.running, ∀ p ∈ t.waits, p < t.id
  progress : s.phase = .drain → s.progress = true
  retBatches : c.fixed = true → s.phase = .returned → s.batches = []

theorem inv1_init (c : Cfg) : Inv1 c init := by
  constructor <;> simp [init]

theorem inv1_step {c : Cfg} {s s' : St} {l : Label} (hi : IdsOK s) (h : Inv1 c s) (hs : step c s l = some s') : Inv1 c s' := by
  cases l with
  | go t dep =>
    obtain ⟨_, hph, rfl, rfl, _⟩ := step_go hs
    refine ⟨h.destFull, ?_, ?_, ?_⟩
    · intro t ht; simp at ht; rcases ht with rfl | ht
      · simp
      · exact h.waits t ht
    · intro hd; simp [hph] at hd
    · intro _ hr; simp [hph] at hr
  | batch k item p dep =>
    obtain ⟨_, hph, rfl, rfl, _⟩ := step_batch hs
    refine ⟨h.destFull, h.waits, ?_, ?_⟩
    · intro hd; simp [hph] at hd
    · intro _ hr; simp [hph] at hr
  | chain t ps =>
    obtain ⟨_, hph, rfl, hps, rfl⟩ := step_chain hs
    refine ⟨h.destFull, ?_, ?_, ?_⟩
    · intro t ht; simp at ht; rcases ht with rfl | ht
      · simpa using fun p hp => (hps p hp).2.1
      · exact h.waits t ht
    · intro hd; simp [hph] at hd
    · intro _ hr; simp [hph] at hr
  | fin t r =>
    obtain ⟨task, e, _, hf, _, _, rfl⟩ := step_fin hs
    refine ⟨h.destFull, ?_, h.progress, h.retBatches⟩
    intro t ht
    exact h.waits t (List.mem_filter.mp ht).1
  | idle =>
    obtain ⟨_, _, _, rfl⟩ := step_idle hs
    refine ⟨h.destFull, h.waits, ?_, ?_⟩
    · intro hd; simp at hd
    · intro _ hr; simp at hr
  | flush rs =>
    obtain ⟨_, _, _, rfl⟩ := step_flush hs
    rw [flushAll_fresh s.wave s.execStart rs s.batches s hi.q_not_delivered hi.q_nodup]
    refine ⟨h.destFull, h.waits, ?_, ?_⟩
    · intro _; rfl
    · intro _ hr; simp at hr
  | recvBlock t =>
    obtain ⟨r, _, _, hph, _, hl, rfl⟩ := step_recvBlock hs
    rw [took_eq hi (lookup_some_mem hl)]
    split
    · refine ⟨h.destFull, h.waits, ?_, ?_⟩
      · intro hd; simp [hph] at hd
      · intro _ hr; simp [hph] at hr
    · refine ⟨h.destFull, h.waits, ?_, ?_⟩
      · intro _; rfl
      · intro _ hr; simp at hr
  | drain t =>
    obtain ⟨r, _, _, hph, hl, rfl⟩ := step_drain hs
    rw [took_eq hi (lookup_some_mem hl)]
    exact ⟨h.destFull, h.waits, h.progress, h.retBatches⟩
  | idleRet =>
    obtain ⟨_, _, _, rfl⟩ := step_idleRet hs
    refine ⟨h.destFull, h.waits, ?_, ?_⟩
    · intro hd; simp at hd
    · intro _ hr; simp at hr
  | ret =>
    obtain ⟨_, _, rfl⟩ := step_ret hs
    split
    · rw [finishBatches_eq hi]
      refine ⟨h.destFull, h.waits, ?_, ?_⟩
      · intro hd; simp at hd
      · intro _ _; rfl
    · rename_i hfx
      refine ⟨h.destFull, h.waits, ?_, ?_⟩
      · intro hd; simp at hd
      · intro hf; exact absurd hf hfx
  | release t =>
    obtain ⟨r, _, _, hph, hl, rfl⟩ := step_release hs
    rw [took_eq hi (lookup_some_mem hl)]
    exact ⟨h.destFull, h.waits, h.progress, h.retBatches⟩
  | start =>
    obtain ⟨_, _, rfl⟩ := step_start hs
    refine ⟨h.destFull, h.waits, ?_, ?_⟩
    · intro hd; simp at hd
    · intro _ hr; simp at hr

theorem Reachable.inv1 {c : Cfg} {s : St} (h : Reachable c s) : Inv1 c s := by
  induction h with
  | init => exact inv1_init c
  | step hr hs ih => exact inv1_step hr.idsOK ih hs



/-- While the idle handler is at the head of its loop, some promise the executor itself waits for
    (created, not chained) has no result yet. -/
def InvTop (s : St) : Prop :=
  s.phase = .top → ∃ w, s.execStart ≤ w ∧ w < s.next ∧ w ∉ dIds s ∧ w ∉ s.chained

theorem invTop_step {c : Cfg} {s s' : St} {l : Label} (hi : IdsOK s) (h : InvTop s) (hs : step c s l = some s') : InvTop s' := by
  cases l with
  | go t dep =>
    obtain ⟨_, hph, rfl, rfl, _⟩ := step_go hs
    intro hp; simp [hph] at hp
  | batch k item p dep =>
    obtain ⟨_, hph, rfl, rfl, _⟩ := step_batch hs
    intro hp; simp [hph] at hp
  | chain t ps =>
    obtain ⟨_, hph, rfl, hps, rfl⟩ := step_chain hs
    intro hp; simp [hph] at hp
  | fin t r =>
    obtain ⟨task, e, _, hf, _, _, rfl⟩ := step_fin hs
    exact h
  | idle =>
    obtain ⟨_, _, ⟨p, hlo, hp, hd, hc⟩, rfl⟩ := step_idle hs
    intro _
    refine ⟨p, hlo, hp, ?_, ?_⟩
    · intro hm
      have := (isDelivered_iff s p).mpr hm
      simp [this] at hd
    · intro hm
      have : s.chained.contains p = true := by simpa using hm
      rw [this] at hc
      cases hc
  | flush rs =>
    obtain ⟨_, _, _, rfl⟩ := step_flush hs
    intro hp; simp at hp
  | recvBlock t =>
    obtain ⟨r, _, _, hph, _, hl, rfl⟩ := step_recvBlock hs
    rw [took_eq hi (lookup_some_mem hl)]
    split
    · rename_i hch
      intro _
      obtain ⟨w, hlo, hw, hwd, hwc⟩ := h hph
      have hne : w ≠ t := by
        intro e; subst e
        exact hwc (by simpa using hch)
      refine ⟨w, hlo, hw, ?_, ?_⟩
      · simp only [dIds, List.map_cons, List.mem_cons, not_or]
        exact ⟨hne, hwd⟩
      · intro hm
        exact hwc (List.mem_of_mem_erase hm)
    · intro hp; simp at hp
  | drain t =>
    obtain ⟨r, _, _, hph, hl, rfl⟩ := step_drain hs
    rw [took_eq hi (lookup_some_mem hl)]
    intro hp; simp [hph] at hp
  | idleRet =>
    obtain ⟨_, _, _, rfl⟩ := step_idleRet hs
    intro hp; simp at hp
  | ret =>
    obtain ⟨_, _, rfl⟩ := step_ret hs
    split
    · rw [finishBatches_eq hi]
      intro hp; simp at hp
    · intro hp; simp at hp
  | release t =>
    obtain ⟨r, _, _, hph, hl, rfl⟩ := step_release hs
    rw [took_eq hi (lookup_some_mem hl)]
    intro hp
    have hp' : s.phase = .top := hp
    rcases hph with hlt | hret
    · -- a task of an earlier execution leaves through `done` while the handler waits
      obtain ⟨w, hlo, hw, hwd, hwc⟩ := h hp'
      refine ⟨w, hlo, hw, ?_, hwc⟩
      simp only [dIds, List.map_cons, List.mem_cons, not_or]
      exact ⟨by omega, hwd⟩
    · rw [hret] at hp'; cases hp'
  | start =>
    obtain ⟨_, _, rfl⟩ := step_start hs
    intro hp; simp at hp

theorem Reachable.invTop {c : Cfg} {s : St} (h : Reachable c s) : InvTop s := by
  induction h with
  | init => intro hp; cases hp
  | step hr hs ih => exact invTop_step hr.idsOK ih hs


/-! ### progress -/

theorem exists_min_task (l : List Task) (h : l ≠ []) : ∃ t ∈ l, ∀ u ∈ l, t.id ≤ u.id := by
  induction l with
  | nil => exact absurd rfl h
  | cons a l ih =>
    by_cases hl : l = []
    · subst hl; exact ⟨a, by simp, by simp⟩
    · obtain ⟨t, ht, hmin⟩ := ih hl
      by_cases hle : a.id ≤ t.id
      · refine ⟨a, by simp, ?_⟩
        intro u hu; simp at hu; rcases hu with rfl | hu
        · exact Nat.le_refl _
        · exact Nat.le_trans hle (hmin u hu)
      · refine ⟨t, by simp [ht], ?_⟩
        intro u hu; simp at hu; rcases hu with rfl | hu
        · omega
        · exact hmin u hu

theorem lookup_of_mem_ids {dl : List (Nat × Res)} {p : Nat} (h : p ∈ dl.map (·.1)) : ∃ r, lookup dl p = some r := by
  simp only [List.mem_map] at h
  obtain ⟨x, hx, rfl⟩ := h
  exact mem_lookup_isSome (r := x.2) hx

theorem awaitAll_of_all_delivered (dl : List (Nat × Res)) (ws : List Nat) (h : ∀ p ∈ ws, p ∈ dl.map (·.1)) :
    ∃ e, awaitAll dl ws = some e := by
  induction ws with
  | nil => exact ⟨none, rfl⟩
  | cons p ws ih =>
    obtain ⟨r, hr⟩ := lookup_of_mem_ids (h p (by simp))
    simp only [awaitAll, hr]
    split
    · exact ⟨some r, rfl⟩
    · exact ih (fun q hq => h q (by simp [hq]))

/-- With no offer on the channel, no pending batch and no orphan, the running task with the smallest
    id has received all its inputs: its body can return. -/
theorem fin_enabled {c : Cfg} {s : St} (hi : IdsOK s) (h1 : Inv1 c s) (hc : s.crashed = false)
    (hb : s.blocked = []) (hq : s.batches = []) (ho : s.orphaned = []) (hr : s.running ≠ []) :
    ∃ t r s', step c s (.fin t r) = some s' := by
  obtain ⟨t, ht, hmin⟩ := exists_min_task s.running hr
  have hsome : (s.running.find? (fun x => x.id == t.id)).isSome := by
    rw [List.find?_isSome]; exact ⟨t, ht, by simp⟩
  obtain ⟨task, hf⟩ := Option.isSome_iff_exists.mp hsome
  obtain ⟨hmem, hid⟩ := find_task hf
  have hall : ∀ p ∈ task.waits, p ∈ s.delivered.map (·.1) := by
    intro p hp
    have hlt : p < task.id := h1.waits task hmem p hp
    have htn : task.id < s.next := by
      apply hi.lt_of_pos
      have : 0 < (rIds s).count task.id := List.count_pos_iff.mpr (List.mem_map_of_mem (f := (·.id)) hmem)
      unfold cnt; omega
    have hcnt := hi p
    rw [if_pos (by omega)] at hcnt
    unfold cnt at hcnt
    have hr0 : (rIds s).count p = 0 := by
      apply List.count_eq_zero.mpr
      intro hm
      simp only [rIds, List.mem_map] at hm
      obtain ⟨u, hu, rfl⟩ := hm
      have := hmin u hu
      omega
    have hb0 : (bIds s).count p = 0 := by simp [bIds, hb]
    have hq0 : (qIds s).count p = 0 := by simp [qIds, hq]
    have ho0 : s.orphaned.count p = 0 := by simp [ho]
    have : 0 < (dIds s).count p := by omega
    exact List.count_pos_iff.mp this
  obtain ⟨e, he⟩ := awaitAll_of_all_delivered s.delivered task.waits hall
  let r : Res := match e with | none => ⟨0, false⟩ | some x => x
  have hok : finOK e r = true := by
    cases e with
    | none => rfl
    | some x => simp [finOK, r]
  refine ⟨t.id, r, ?_⟩
  simp [step, hc, hf, he, hok]


/-! ### batches and calls -/

/-- (item, promise) pairs registered with batch resolver `k`, in registration order. -/
def regPairs (s : St) (k : Nat) : List (Nat × Nat) :=
  (s.registered.filter (fun x => x.1 == k && decide (s.execStart ≤ x.2.2))).map (·.2)
/-- (item, promise) pairs passed to batch resolver `k` so far, in call order and position order. -/
def callPairs (s : St) (k : Nat) : List (Nat × Nat) :=
  (s.calls.reverse.filter (fun c => c.key == k && decide (s.execWave < c.wave))).flatMap (fun c => c.items.zip c.dests)
def pendOf (bs : List Batch) (k : Nat) : List (Nat × Nat) :=
  (bs.filter (fun b => b.key == k)).flatMap (fun b => b.items.zip b.dests)
/-- (item, promise) pairs of resolver `k` waiting in `batches`. -/
def pendPairs (s : St) (k : Nat) : List (Nat × Nat) := pendOf s.batches k

theorem addToBatch_keys (bs : List Batch) (k item p : Nat) :
    (addToBatch bs k item p).map (·.key) = if k ∈ bs.map (·.key) then bs.map (·.key) else bs.map (·.key) ++ [k] := by
  induction bs with
  | nil => simp [addToBatch]
  | cons b bs ih =>
    simp only [addToBatch]
    by_cases hk : b.key = k
    · simp [hk]
    · have : (b.key == k) = false := by simpa using hk
      have hk' : ¬ k = b.key := fun e => hk e.symm
      simp only [this, Bool.false_eq_true, if_false, List.map_cons, ih, List.mem_cons, hk', false_or]
      split <;> simp

theorem addToBatch_keys_nodup (bs : List Batch) (k item p : Nat) (h : (bs.map (·.key)).Nodup) :
    ((addToBatch bs k item p).map (·.key)).Nodup := by
  rw [addToBatch_keys]
  split
  · exact h
  · rename_i hk
    rw [List.nodup_append]
    refine ⟨h, by simp, ?_⟩
    intro a ha b hb
    simp at hb; subst hb
    intro e; subst e; exact hk ha

theorem addToBatch_lens (bs : List Batch) (k item p : Nat) (h : ∀ b ∈ bs, b.items.length = b.dests.length) :
    ∀ b ∈ addToBatch bs k item p, b.items.length = b.dests.length := by
  induction bs with
  | nil => intro b hb; simp [addToBatch] at hb; subst hb; rfl
  | cons a bs ih =>
    intro b hb
    simp only [addToBatch] at hb
    split at hb
    · simp at hb
      rcases hb with rfl | hb
      · simp [h a (by simp)]
      · exact h b (by simp [hb])
    · simp at hb
      rcases hb with rfl | hb
      · exact h b (by simp)
      · exact ih (fun b hb => h b (by simp [hb])) b hb

theorem addToBatch_pend (bs : List Batch) (k item p k' : Nat) (hn : (bs.map (·.key)).Nodup)
    (hl : ∀ b ∈ bs, b.items.length = b.dests.length) :
    pendOf (addToBatch bs k item p) k' = pendOf bs k' ++ (if k' = k then [(item, p)] else []) := by
  induction bs with
  | nil =>
    by_cases hk : k' = k
    · subst hk; simp [addToBatch, pendOf]
    · have : (k == k') = false := by simp; exact fun e => hk e.symm
      simp [addToBatch, pendOf, hk, this]
  | cons b bs ih =>
    have hn' : (bs.map (·.key)).Nodup := (List.nodup_cons.mp (by simpa using hn)).2
    have hnot : b.key ∉ bs.map (·.key) := (List.nodup_cons.mp (by simpa using hn)).1
    simp only [addToBatch]
    by_cases hk : b.key = k
    · have hbk : (b.key == k) = true := by simpa using hk
      simp only [hbk, if_true]
      by_cases hk' : k' = k
      · subst hk'
        -- no other batch has key k
        have hrest : bs.filter (fun b => b.key == k') = [] := by
          apply List.filter_eq_nil_iff.mpr
          intro x hx
          simp
          intro e
          exact hnot (by rw [hk, ← e]; exact List.mem_map_of_mem hx)
        have hlen := hl b (by simp)
        simp [pendOf, hk, hrest, List.zip_append hlen]
      · have h1 : (b.key == k') = false := by simp; rw [hk]; exact fun e => hk' e.symm
        simp [pendOf, h1, hk']
    · have hbk : (b.key == k) = false := by simpa using hk
      simp only [hbk, Bool.false_eq_true, if_false]
      have := ih hn' (fun b hb => hl b (by simp [hb]))
      unfold pendOf at this ⊢
      simp only [List.filter_cons]
      split
      · simp only [List.flatMap_cons, this, List.append_assoc]
      · exact this



structure Inv2 (s : St) : Prop where
  keysNodup : (s.batches.map (·.key)).Nodup
  lens : ∀ b ∈ s.batches, b.items.length = b.dests.length
  callWave : ∀ c ∈ s.calls, c.wave ≤ s.wave
  callTop : s.phase = .top → ∀ c ∈ s.calls, c.wave < s.wave
  callNodup : (s.calls.map (fun c => (c.wave, c.key))).Nodup
  callLens : ∀ c ∈ s.calls, c.items.length = c.dests.length

theorem inv2_init : Inv2 init := by
  constructor <;> simp [init]

theorem inv2_frame {s s' : St} (h : Inv2 s) (hb : s'.batches = s.batches) (hc : s'.calls = s.calls)
    (hw : s'.wave = s.wave)
    (hp : s'.phase = .top → s.phase = .top) : Inv2 s' := by
  refine ⟨by rw [hb]; exact h.keysNodup, by rw [hb]; exact h.lens, by rw [hc, hw]; exact h.callWave, ?_,
    by rw [hc]; exact h.callNodup, by rw [hc]; exact h.callLens⟩
  intro ht; rw [hc, hw]; exact h.callTop (hp ht)

theorem inv2_step {c : Cfg} {s s' : St} {l : Label} (hi : IdsOK s) (h : Inv2 s) (hs : step c s l = some s') : Inv2 s' := by
  cases l with
  | go t dep =>
    obtain ⟨_, hph, rfl, rfl, _⟩ := step_go hs
    exact inv2_frame h rfl rfl rfl (by simp [hph])
  | batch k item p dep =>
    obtain ⟨_, hph, rfl, rfl, _⟩ := step_batch hs
    refine ⟨addToBatch_keys_nodup _ _ _ _ h.keysNodup, addToBatch_lens _ _ _ _ h.lens, h.callWave, ?_, h.callNodup, h.callLens⟩
    intro ht; simp [hph] at ht
  | chain t ps =>
    obtain ⟨_, hph, rfl, hps, rfl⟩ := step_chain hs
    exact inv2_frame h rfl rfl rfl (by simp [hph])
  | fin t r =>
    obtain ⟨task, e, _, hf, _, _, rfl⟩ := step_fin hs
    exact inv2_frame h rfl rfl rfl (by simp)
  | idle =>
    obtain ⟨_, hph, _, rfl⟩ := step_idle hs
    refine ⟨h.keysNodup, h.lens, ?_, ?_, h.callNodup, h.callLens⟩
    · intro c hc; have := h.callWave c hc; simp; omega
    · intro _ c hc; have := h.callWave c hc; simp; omega
  | flush rs =>
    obtain ⟨_, hph, _, rfl⟩ := step_flush hs
    rw [flushAll_fresh s.wave s.execStart rs s.batches s hi.q_not_delivered hi.q_nodup]
    refine ⟨by simp, by simp, ?_, by simp, ?_, ?_⟩
    · intro c hc
      simp at hc
      rcases hc with ⟨b, _, rfl⟩ | hc
      · simp [mkCall]
      · exact h.callWave c hc
    · simp only [List.map_append, List.map_reverse, List.map_map]
      rw [List.nodup_append]
      refine ⟨?_, h.callNodup, ?_⟩
      · rw [(List.reverse_perm _).nodup_iff]
        have : ((fun c : Call => (c.wave, c.key)) ∘ mkCall s.wave s.execStart rs) = (fun b : Batch => (s.wave, b.key)) := by
          funext b; rfl
        rw [this]
        have hk := h.keysNodup
        have : s.batches.map (fun b : Batch => (s.wave, b.key)) = (s.batches.map (·.key)).map (fun k => (s.wave, k)) := by
          simp [List.map_map, Function.comp_def]
        rw [this]
        unfold List.Nodup at hk ⊢
        rw [List.pairwise_map]
        exact hk.imp (fun hne e => hne (by simpa using e))
      · intro a ha b hb e
        subst e
        simp at ha hb
        obtain ⟨b1, _, rfl⟩ := ha
        obtain ⟨c1, hc1, hc2⟩ := hb
        have := h.callTop hph c1 hc1
        simp [mkCall] at hc2
        omega
    · intro c hc
      simp at hc
      rcases hc with ⟨b, hb, rfl⟩ | hc
      · simp [mkCall, h.lens b hb]
      · exact h.callLens c hc
  | recvBlock t =>
    obtain ⟨r, _, _, hph, _, hl, rfl⟩ := step_recvBlock hs
    rw [took_eq hi (lookup_some_mem hl)]
    split
    · exact inv2_frame h rfl rfl rfl (by simp [hph])
    · exact inv2_frame h rfl rfl rfl (by simp)
  | drain t =>
    obtain ⟨r, _, _, hph, hl, rfl⟩ := step_drain hs
    rw [took_eq hi (lookup_some_mem hl)]
    exact inv2_frame h rfl rfl rfl (by simp [hph])
  | idleRet =>
    obtain ⟨_, _, hph, rfl⟩ := step_idleRet hs
    exact inv2_frame h rfl rfl rfl (by simp)
  | ret =>
    obtain ⟨_, hph, rfl⟩ := step_ret hs
    split
    · rw [finishBatches_eq hi]
      refine ⟨by simp, by simp, h.callWave, by simp, h.callNodup, h.callLens⟩
    · refine ⟨h.keysNodup, h.lens, h.callWave, by simp, h.callNodup, h.callLens⟩
  | release t =>
    obtain ⟨r, _, _, hph, hl, rfl⟩ := step_release hs
    rw [took_eq hi (lookup_some_mem hl)]
    exact inv2_frame h rfl rfl rfl (by simp [hph])
  | start =>
    obtain ⟨_, _, rfl⟩ := step_start hs
    exact ⟨h.keysNodup, h.lens, h.callWave, by simp, h.callNodup, h.callLens⟩

theorem Reachable.inv2 {c : Cfg} {s : St} (h : Reachable c s) : Inv2 s := by
  induction h with
  | init => exact inv2_init
  | step hr hs ih => exact inv2_step hr.idsOK ih hs


/-! ### provenance of results -/

theorem mem_flushDel {rs : List (Nat × List Res)} {bs : List Batch} {x : Nat × Res} :
    x ∈ flushDel rs bs ↔ ∃ b ∈ bs, x ∈ b.dests.zip (resultsFor rs b.key) := by
  induction bs with
  | nil => simp [flushDel]
  | cons b bs ih =>
    simp only [flushDel, List.mem_append, ih, List.mem_reverse, List.mem_cons, exists_eq_or_imp]
    constructor
    · rintro (h | h)
      · exact Or.inr h
      · exact Or.inl h
    · rintro (h | h)
      · exact Or.inr h
      · exact Or.inl h

/-- Some execution on this apiRequest has returned (so `finish()` has run at least once). -/
def returnedOnce (s : St) : Prop := s.phase = .returned ∨ 0 < s.exec

theorem returnedOnce_mono {s s' : St} (he : s'.exec = s.exec) (hp : s.phase = .returned → s'.phase = .returned) :
    returnedOnce s → returnedOnce s' := by
  rintro (h | h)
  · exact Or.inl (hp h)
  · exact Or.inr (he ▸ h)

/-- Where a delivered result can come from. -/
structure Inv3 (c : Cfg) (s : St) : Prop where
  blockedFin : ∀ x ∈ s.blocked, x ∈ s.finished
  finKeys : ∀ x ∈ s.finished, x.1 ∈ bIds s ∨ x.1 ∈ dIds s
  finNodup : (s.finished.map (·.1)).Nodup
  deliveredOK : ∀ x ∈ s.delivered, x ∈ s.finished ∨ (∃ cl ∈ s.calls, x ∈ cl.dests.zip cl.results) ∨
    (c.fixed = true ∧ returnedOnce s ∧ x.2 = errFinished)
  callsDelivered : ∀ cl ∈ s.calls, ∀ x ∈ cl.dests.zip cl.results, x ∈ s.delivered

theorem inv3_init (c : Cfg) : Inv3 c init := by
  constructor <;> simp [init]

theorem inv3_frame {c : Cfg} {s s' : St} (h : Inv3 c s) (hb : s'.blocked = s.blocked) (hd : s'.delivered = s.delivered)
    (hc : s'.calls = s.calls) (hf : s'.finished = s.finished) (hret : returnedOnce s → returnedOnce s') : Inv3 c s' := by
  refine ⟨by rw [hb, hf]; exact h.blockedFin, ?_, by rw [hf]; exact h.finNodup, ?_, by rw [hc, hd]; exact h.callsDelivered⟩
  · intro x hx; rw [hf] at hx
    have := h.finKeys x hx
    simpa [bIds, dIds, hb, hd] using this
  · intro x hx; rw [hd] at hx
    rcases h.deliveredOK x hx with h1 | h1 | ⟨h1, h2, h3⟩
    · exact Or.inl (by rw [hf]; exact h1)
    · exact Or.inr (Or.inl (by rw [hc]; exact h1))
    · exact Or.inr (Or.inr ⟨h1, hret h2, h3⟩)

theorem inv3_took {c : Cfg} {s : St} (hi : IdsOK s) (h : Inv3 c s) {t : Nat} {r : Res} (hm : (t, r) ∈ s.blocked) :
    Inv3 c (took s t r) := by
  rw [took_eq hi hm]
  refine ⟨?_, ?_, h.finNodup, ?_, ?_⟩
  · intro x hx; exact h.blockedFin x (List.mem_filter.mp hx).1
  · intro x hx
    by_cases hxt : x.1 = t
    · right; simp [dIds, hxt]
    · rcases h.finKeys x hx with h1 | h1
      · left
        simp only [bIds, List.mem_map] at h1 ⊢
        obtain ⟨y, hy, hy2⟩ := h1
        exact ⟨y, List.mem_filter.mpr ⟨hy, by simp [hy2, hxt]⟩, hy2⟩
      · right; simp only [dIds, List.map_cons, List.mem_cons]; exact Or.inr h1
  · intro x hx
    simp only [List.mem_cons] at hx
    rcases hx with rfl | hx
    · exact Or.inl (h.blockedFin _ hm)
    · exact h.deliveredOK x hx
  · intro cl hcl x hx
    simp only [List.mem_cons]
    exact Or.inr (h.callsDelivered cl hcl x hx)

theorem inv3_step {c : Cfg} {s s' : St} {l : Label} (hi : IdsOK s) (h : Inv3 c s) (hs : step c s l = some s') : Inv3 c s' := by
  cases l with
  | go t dep =>
    obtain ⟨_, hph, rfl, rfl, _⟩ := step_go hs
    exact inv3_frame h rfl rfl rfl rfl (returnedOnce_mono rfl (by simp [hph]))
  | batch k item p dep =>
    obtain ⟨_, hph, rfl, rfl, _⟩ := step_batch hs
    exact inv3_frame h rfl rfl rfl rfl (returnedOnce_mono rfl (by simp [hph]))
  | chain t ps =>
    obtain ⟨_, hph, rfl, hps, rfl⟩ := step_chain hs
    exact inv3_frame h rfl rfl rfl rfl (returnedOnce_mono rfl (by simp [hph]))
  | fin t r =>
    obtain ⟨task, e, _, hf, _, _, rfl⟩ := step_fin hs
    obtain ⟨hm, hid⟩ := find_task hf
    have hr : 0 < (rIds s).count t := List.count_pos_iff.mpr (hid ▸ List.mem_map_of_mem (f := (·.id)) hm)
    refine ⟨?_, ?_, ?_, ?_, h.callsDelivered⟩
    · intro x hx
      simp only [List.mem_cons] at hx ⊢
      rcases hx with rfl | hx
      · exact Or.inl rfl
      · exact Or.inr (h.blockedFin x hx)
    · intro x hx
      simp only [List.mem_cons] at hx
      rcases hx with rfl | hx
      · left; simp [bIds]
      · rcases h.finKeys x hx with h1 | h1
        · left; simp only [bIds, List.map_cons, List.mem_cons]; exact Or.inr h1
        · exact Or.inr h1
    · simp only [List.map_cons]
      refine List.nodup_cons.mpr ⟨?_, h.finNodup⟩
      intro hin
      simp only [List.mem_map] at hin
      obtain ⟨x, hx, rfl⟩ := hin
      have hcnt := hi x.1
      unfold cnt at hcnt
      rcases h.finKeys x hx with h1 | h1
      · have : 0 < (bIds s).count x.1 := List.count_pos_iff.mpr h1
        split at hcnt <;> omega
      · have : 0 < (dIds s).count x.1 := List.count_pos_iff.mpr h1
        split at hcnt <;> omega
    · intro x hx
      rcases h.deliveredOK x hx with h1 | h1 | h1
      · exact Or.inl (by simp only [List.mem_cons]; exact Or.inr h1)
      · exact Or.inr (Or.inl h1)
      · exact Or.inr (Or.inr h1)
  | idle =>
    obtain ⟨_, hph, _, rfl⟩ := step_idle hs
    exact inv3_frame h rfl rfl rfl rfl (returnedOnce_mono rfl (by simp [hph]))
  | flush rs =>
    obtain ⟨_, hph, _, rfl⟩ := step_flush hs
    rw [flushAll_fresh s.wave s.execStart rs s.batches s hi.q_not_delivered hi.q_nodup]
    refine ⟨h.blockedFin, ?_, h.finNodup, ?_, ?_⟩
    · intro x hx
      rcases h.finKeys x hx with h1 | h1
      · exact Or.inl h1
      · right; simp only [dIds, List.map_append, List.mem_append]; exact Or.inr h1
    · intro x hx
      simp only [List.mem_append] at hx
      rcases hx with hx | hx
      · obtain ⟨b, hb, hxb⟩ := mem_flushDel.mp hx
        right; left
        refine ⟨mkCall s.wave s.execStart rs b, ?_, hxb⟩
        simp only [List.mem_append, List.mem_reverse, List.mem_map]
        exact Or.inl ⟨b, hb, rfl⟩
      · rcases h.deliveredOK x hx with h1 | ⟨cl, hcl, h1⟩ | ⟨h1, h2, _⟩
        · exact Or.inl h1
        · exact Or.inr (Or.inl ⟨cl, by simp only [List.mem_append]; exact Or.inr hcl, h1⟩)
        · exact Or.inr (Or.inr ⟨h1, h2.elim (fun e => by rw [hph] at e; cases e) Or.inr, ‹_›⟩)
    · intro cl hcl x hx
      simp only [List.mem_append, List.mem_reverse, List.mem_map] at hcl ⊢
      rcases hcl with ⟨b, hb, rfl⟩ | hcl
      · exact Or.inl (mem_flushDel.mpr ⟨b, hb, hx⟩)
      · exact Or.inr (h.callsDelivered cl hcl x hx)
  | recvBlock t =>
    obtain ⟨r, _, _, hph, _, hl, rfl⟩ := step_recvBlock hs
    have := inv3_took hi h (lookup_some_mem hl)
    have hph' : (took s t r).phase = .top := by rw [took_eq hi (lookup_some_mem hl)]; exact hph
    split
    · exact inv3_frame this rfl rfl rfl rfl (returnedOnce_mono rfl (by simp [hph']))
    · exact inv3_frame this rfl rfl rfl rfl (returnedOnce_mono rfl (by simp [hph']))
  | drain t =>
    obtain ⟨r, _, _, hph, hl, rfl⟩ := step_drain hs
    exact inv3_took hi h (lookup_some_mem hl)
  | idleRet =>
    obtain ⟨_, _, hph, rfl⟩ := step_idleRet hs
    exact inv3_frame h rfl rfl rfl rfl (returnedOnce_mono rfl (by simp [hph]))
  | ret =>
    obtain ⟨_, hph, rfl⟩ := step_ret hs
    split
    · rename_i hfx
      rw [finishBatches_eq hi]
      refine ⟨h.blockedFin, ?_, h.finNodup, ?_, ?_⟩
      · intro x hx
        rcases h.finKeys x hx with h1 | h1
        · exact Or.inl h1
        · right; simp only [dIds, List.map_append, List.mem_append]; exact Or.inr h1
      · intro x hx
        simp only [List.mem_append, List.mem_reverse, List.mem_map] at hx
        rcases hx with ⟨p, _, rfl⟩ | hx
        · exact Or.inr (Or.inr ⟨hfx, Or.inl rfl, rfl⟩)
        · rcases h.deliveredOK x hx with h1 | h1 | ⟨h1, h2, _⟩
          · exact Or.inl h1
          · exact Or.inr (Or.inl h1)
          · exact Or.inr (Or.inr ⟨h1, h2.elim (fun e => by rw [hph] at e; cases e) Or.inr, ‹_›⟩)
      · intro cl hcl x hx
        simp only [List.mem_append]
        exact Or.inr (h.callsDelivered cl hcl x hx)
    · exact inv3_frame h rfl rfl rfl rfl (returnedOnce_mono rfl (by simp))
  | release t =>
    obtain ⟨r, _, _, hph, hl, rfl⟩ := step_release hs
    exact inv3_took hi h (lookup_some_mem hl)
  | start =>
    obtain ⟨_, _, rfl⟩ := step_start hs
    exact inv3_frame h rfl rfl rfl rfl (fun _ => Or.inr (Nat.succ_pos _))

theorem Reachable.inv3 {c : Cfg} {s : St} (h : Reachable c s) : Inv3 c s := by
  induction h with
  | init => exact inv3_init c
  | step hr hs ih => exact inv3_step hr.idsOK ih hs


/-! ### termination measure -/

/-- Work the idle handler (or, after the return, the scheduler) still has in front of it. -/
def measure (s : St) : Nat := 2 * s.running.length + s.blocked.length + s.batches.length

theorem filter_ne_length_lt {α} (f : α → Nat) (t : Nat) (l : List α) (h : ∃ x ∈ l, f x = t) :
    (l.filter (fun x => f x != t)).length < l.length := by
  induction l with
  | nil => obtain ⟨x, hx, _⟩ := h; cases hx
  | cons a l ih =>
    by_cases ha : f a = t
    · simp [ha]
      exact Nat.lt_succ_of_le (List.length_filter_le _ _)
    · have hne : (f a != t) = true := by simpa using ha
      have hex : ∃ x ∈ l, f x = t := by
        obtain ⟨x, hx, hfx⟩ := h
        simp at hx
        rcases hx with rfl | hx
        · exact absurd hfx ha
        · exact ⟨x, hx, hfx⟩
      have := ih hex
      simp only [List.filter_cons, hne, if_true, List.length_cons]
      omega

theorem measure_took {s : St} (hi : IdsOK s) {t : Nat} {r : Res} (hm : (t, r) ∈ s.blocked) :
    measure (took s t r) < measure s := by
  rw [took_eq hi hm]
  have := filter_ne_length_lt (fun x : Nat × Res => x.1) t s.blocked ⟨(t, r), hm, rfl⟩
  simp only [measure]
  omega

/-- Every step other than a resolver call, the idle handler's entry/exit and the return strictly
    decreases the measure. -/
def Label.isWork : Label → Bool
  | .fin _ _ | .flush _ | .recvBlock _ | .drain _ | .release _ => true
  | _ => false

theorem measure_step {c : Cfg} {s s' : St} {l : Label} (hi : IdsOK s) (hs : step c s l = some s')
    (hw : l.isWork = true) : measure s' < measure s := by
  cases l with
  | fin t r =>
    obtain ⟨task, e, _, hf, _, _, rfl⟩ := step_fin hs
    obtain ⟨hm, hid⟩ := find_task hf
    have := filter_ne_length_lt (fun x : Task => x.id) t s.running ⟨task, hm, hid⟩
    simp only [measure, List.length_cons]
    omega
  | flush rs =>
    obtain ⟨_, _, hne, rfl⟩ := step_flush hs
    rw [flushAll_fresh s.wave s.execStart rs s.batches s hi.q_not_delivered hi.q_nodup]
    have : 0 < s.batches.length := List.length_pos_iff.mpr hne
    simp only [measure, List.length_nil]
    omega
  | recvBlock t =>
    obtain ⟨r, _, _, _, _, hl, rfl⟩ := step_recvBlock hs
    have := measure_took hi (lookup_some_mem hl)
    split <;> simpa [measure] using this
  | drain t =>
    obtain ⟨r, _, _, _, hl, rfl⟩ := step_drain hs
    exact measure_took hi (lookup_some_mem hl)
  | release t =>
    obtain ⟨r, _, _, _, hl, rfl⟩ := step_release hs
    exact measure_took hi (lookup_some_mem hl)
  | _ => cases hw


/-! ### small list facts used by the property theorems -/
theorem mem_zip_of_getElem {α β} (l1 : List α) (l2 : List β) (i : Nat) (h1 : i < l1.length) (h2 : i < l2.length) :
    (l1[i], l2[i]) ∈ l1.zip l2 := by
  have hi : i < (l1.zip l2).length := by simp [List.length_zip]; omega
  have := List.getElem_mem hi
  simpa [List.getElem_zip] using this

theorem eq_of_nodup_map {α β} (f : α → β) (l : List α) (h : (l.map f).Nodup) {a b : α} (ha : a ∈ l) (hb : b ∈ l)
    (e : f a = f b) : a = b := by
  induction l with
  | nil => cases ha
  | cons x l ih =>
    simp only [List.map_cons, List.nodup_cons, List.mem_map, not_exists, not_and] at h
    simp only [List.mem_cons] at ha hb
    rcases ha with rfl | ha <;> rcases hb with rfl | hb
    · rfl
    · exact absurd e.symm (h.1 b hb)
    · exact absurd e (h.1 a ha)
    · exact ih h.2 ha hb


/-- Finite label sequences. -/
inductive Steps (c : Cfg) : St → St → Prop
  | refl {s : St} : Steps c s s
  | cons {s s1 s2 : St} {l : Label} : step c s l = some s1 → Steps c s1 s2 → Steps c s s2

/-! ### the batch functions' contract -/

/-- The batch functions honour their contract in this step: one result per field context. -/
def Label.wellFormedAt (s : St) : Label → Prop
  | .flush rs => ∀ b ∈ s.batches, (resultsFor rs b.key).length = b.dests.length
  | _ => True

/-- Reachable by steps in which every batch function returns one result per field context. -/
inductive ReachableWF (c : Cfg) : St → Prop
  | init : ReachableWF c init
  | step {s s' : St} {l : Label} : ReachableWF c s → l.wellFormedAt s → step c s l = some s' → ReachableWF c s'

theorem ReachableWF.reachable {c : Cfg} {s : St} (h : ReachableWF c s) : Reachable c s := by
  induction h with
  | init => exact .init
  | step _ _ hs ih => exact ih.step hs

theorem flushOrph_wf (rs : List (Nat × List Res)) (bs : List Batch)
    (h : ∀ b ∈ bs, (resultsFor rs b.key).length = b.dests.length) : flushOrph rs bs = [] ∧ bs.any (tooLong rs) = false := by
  induction bs with
  | nil => simp [flushOrph]
  | cons b bs ih =>
    have hb := h b (by simp)
    obtain ⟨h1, h2⟩ := ih (fun b hb => h b (by simp [hb]))
    simp [flushOrph, h1, h2, tooLong, hb]


/-! ### registration waves -/

theorem addToBatch_dests (bs : List Batch) (k item p : Nat) :
    ∀ b ∈ addToBatch bs k item p, ∀ q ∈ b.dests, (q = p ∧ b.key = k) ∨ (∃ b0 ∈ bs, b0.key = b.key ∧ q ∈ b0.dests) := by
  induction bs with
  | nil =>
    intro b hb q hq
    simp [addToBatch] at hb; subst hb
    simp at hq; exact Or.inl ⟨hq, rfl⟩
  | cons a bs ih =>
    intro b hb q hq
    simp only [addToBatch] at hb
    split at hb
    · rename_i hk
      simp at hb hk
      rcases hb with rfl | hb
      · simp at hq
        rcases hq with hq | hq
        · exact Or.inr ⟨a, by simp, rfl, hq⟩
        · exact Or.inl ⟨hq, hk⟩
      · exact Or.inr ⟨b, by simp [hb], rfl, hq⟩
    · simp at hb
      rcases hb with rfl | hb
      · exact Or.inr ⟨b, by simp, rfl, hq⟩
      · rcases ih b hb q hq with h1 | ⟨b0, hb0, h2, h3⟩
        · exact Or.inl h1
        · exact Or.inr ⟨b0, by simp [hb0], h2, h3⟩

/-- The wave tag a pending invocation carries in the current phase. -/
def pendTag (s : St) : Nat := if s.phase = .top then s.wave - 1 else s.wave

/-- Registration waves: what is pending was registered since the last return of the idle handler;
    what a call of wave `v` received was registered in the exec phase before it. -/
structure Inv4 (s : St) : Prop where
  rwLt : ∀ x ∈ s.regWave, x.1 < s.next
  rwNodup : (s.regWave.map (·.1)).Nodup
  pend : ∀ b ∈ s.batches, ∀ p ∈ b.dests, (p, b.key, pendTag s) ∈ s.regWave
  drainEmpty : s.phase = .drain → s.batches = []
  callTag : ∀ cl ∈ s.calls, 1 ≤ cl.wave ∧ ∀ p ∈ cl.dests, (p, cl.key, cl.wave - 1) ∈ s.regWave
  waveTop : s.phase = .top → 1 ≤ s.wave
  covered : s.phase ≠ .returned → ∀ x ∈ s.regWave, s.execStart ≤ x.1 → x.1 ∈ qIds s ∨ ∃ cl ∈ s.calls, x.1 ∈ cl.dests

theorem inv4_init : Inv4 init := by
  constructor <;> simp [init]

theorem inv4_frame {s s' : St} (h : Inv4 s) (hn : s.next ≤ s'.next) (hr : s'.regWave = s.regWave)
    (hb : s'.batches = s.batches) (hc : s'.calls = s.calls) (hw : s'.wave = s.wave)
    (hp : s'.phase = s.phase ∨ (s.batches = [] ∧ s'.phase ≠ .top) ∨ (s.phase ≠ .top ∧ s'.phase ≠ .top ∧ s'.phase ≠ .drain))
    (hret : s.phase = .returned → s'.phase = .returned) (hes : s'.execStart = s.execStart) : Inv4 s' := by
  have hq : qIds s' = qIds s := by simp [qIds, hb]
  refine ⟨?_, by rw [hr]; exact h.rwNodup, ?_, ?_, by rw [hc, hr]; exact h.callTag, ?_, ?_⟩
  · intro x hx; rw [hr] at hx; exact Nat.lt_of_lt_of_le (h.rwLt x hx) hn
  · intro b hb' p hp'
    rw [hb] at hb'
    rw [hr]
    have := h.pend b hb' p hp'
    rcases hp with hp | ⟨he, _⟩ | ⟨h1, h2, _⟩
    · simpa [pendTag, hp, hw] using this
    · rw [he] at hb'; cases hb'
    · simpa [pendTag, h1, h2, hw] using this
  · intro hd
    rw [hb]
    rcases hp with hp | ⟨he, _⟩ | ⟨_, _, h3⟩
    · exact h.drainEmpty (hp ▸ hd)
    · exact he
    · exact absurd hd h3
  · intro ht
    rw [hw]
    rcases hp with hp | ⟨_, h2⟩ | ⟨_, h2, _⟩
    · exact h.waveTop (hp ▸ ht)
    · exact absurd ht h2
    · exact absurd ht h2
  · intro hne x hx
    rw [hr] at hx
    have : s.phase ≠ .returned := fun e => hne (hret e)
    rw [hq, hc, hes]
    exact h.covered this x hx

theorem inv4_step {c : Cfg} {s s' : St} {l : Label} (hi : IdsOK s) (h : Inv4 s) (hs : step c s l = some s') : Inv4 s' := by
  cases l with
  | go t dep =>
    obtain ⟨_, hph, rfl, rfl, _⟩ := step_go hs
    exact inv4_frame h (Nat.le_succ _) rfl rfl rfl rfl (Or.inl rfl) (fun e => e) rfl
  | chain t ps =>
    obtain ⟨_, hph, rfl, _, rfl⟩ := step_chain hs
    exact inv4_frame h (Nat.le_succ _) rfl rfl rfl rfl (Or.inl rfl) (fun e => e) rfl
  | batch k item p dep =>
    obtain ⟨_, hph, rfl, rfl, _⟩ := step_batch hs
    have htag : pendTag s = s.wave := by simp [pendTag, hph]
    refine ⟨?_, ?_, ?_, ?_, ?_, ?_, ?_⟩
    · intro x hx
      simp only [List.mem_cons] at hx
      rcases hx with rfl | hx
      · exact Nat.lt_succ_self _
      · exact Nat.lt_succ_of_lt (h.rwLt x hx)
    · simp only [List.map_cons]
      refine List.nodup_cons.mpr ⟨?_, h.rwNodup⟩
      intro hin
      simp only [List.mem_map] at hin
      obtain ⟨x, hx, hx2⟩ := hin
      have := h.rwLt x hx
      omega
    · intro b hb q hq
      have goal2 : (q, b.key, s.wave) ∈ (s.next, k, s.wave) :: s.regWave := by
        simp only [List.mem_cons]
        rcases addToBatch_dests s.batches k item s.next b hb q hq with ⟨rfl, rfl⟩ | ⟨b0, hb0, hk, hq0⟩
        · exact Or.inl rfl
        · right
          have := h.pend b0 hb0 q hq0
          rw [htag, hk] at this
          exact this
      simpa [pendTag, hph] using goal2
    · intro hd; simp [hph] at hd
    · intro cl hcl
      obtain ⟨h1, h2⟩ := h.callTag cl hcl
      exact ⟨h1, fun p hp => by simp only [List.mem_cons]; exact Or.inr (h2 p hp)⟩
    · intro ht; simp [hph] at ht
    · intro _ x hx hlo
      have hmem : ∀ q, q ∈ qIds s → q ∈ (addToBatch s.batches k item s.next).flatMap (·.dests) := by
        intro q hq
        apply List.count_pos_iff.mp
        rw [count_qIds_addToBatch]
        have := List.count_pos_iff.mpr hq
        simp only [qIds] at this
        omega
      simp only [List.mem_cons] at hx
      rcases hx with rfl | hx
      · left
        simp only [qIds]
        apply List.count_pos_iff.mp
        rw [count_qIds_addToBatch]
        simp
      · rcases h.covered (by simp [hph]) x hx hlo with h1 | h1
        · exact Or.inl (hmem _ h1)
        · exact Or.inr h1
  | fin t r =>
    obtain ⟨_, _, _, _, _, _, rfl⟩ := step_fin hs
    exact inv4_frame h (Nat.le_refl _) rfl rfl rfl rfl (Or.inl rfl) (fun e => e) rfl
  | idle =>
    obtain ⟨_, hph, _, rfl⟩ := step_idle hs
    refine ⟨h.rwLt, h.rwNodup, ?_, by simp, h.callTag, by simp, ?_⟩
    · intro b hb p hp
      have := h.pend b hb p hp
      simpa [pendTag, hph] using this
    · intro _ x hx hlo
      exact h.covered (by simp [hph]) x hx hlo
  | flush rs =>
    obtain ⟨_, hph, _, rfl⟩ := step_flush hs
    rw [flushAll_fresh s.wave s.execStart rs s.batches s hi.q_not_delivered hi.q_nodup]
    have hw := h.waveTop hph
    refine ⟨h.rwLt, h.rwNodup, by simp, by simp, ?_, by simp, ?_⟩
    · intro cl hcl
      simp only [List.mem_append, List.mem_reverse, List.mem_map] at hcl
      rcases hcl with ⟨b, hb, rfl⟩ | hcl
      · refine ⟨hw, ?_⟩
        intro p hp
        have := h.pend b hb p hp
        simpa [pendTag, hph, mkCall] using this
      · exact h.callTag cl hcl
    · intro _ x hx hlo
      rcases h.covered (by simp [hph]) x hx hlo with h1 | ⟨cl, hcl, h1⟩
      · right
        simp only [qIds, List.mem_flatMap] at h1
        obtain ⟨b, hb, hxb⟩ := h1
        refine ⟨mkCall s.wave s.execStart rs b, ?_, hxb⟩
        simp only [List.mem_append, List.mem_reverse, List.mem_map]
        exact Or.inl ⟨b, hb, rfl⟩
      · right
        exact ⟨cl, by simp only [List.mem_append]; exact Or.inr hcl, h1⟩
  | recvBlock t =>
    obtain ⟨r, _, _, hph, hb, hl, rfl⟩ := step_recvBlock hs
    rw [took_eq hi (lookup_some_mem hl)]
    split
    · exact inv4_frame h (Nat.le_refl _) rfl rfl rfl rfl (Or.inl (by simp)) (by simp [hph]) rfl
    · exact inv4_frame h (Nat.le_refl _) rfl rfl rfl rfl (Or.inr (Or.inl ⟨hb, by simp⟩)) (by simp [hph]) rfl
  | drain t =>
    obtain ⟨r, _, _, hph, hl, rfl⟩ := step_drain hs
    rw [took_eq hi (lookup_some_mem hl)]
    exact inv4_frame h (Nat.le_refl _) rfl rfl rfl rfl (Or.inl rfl) (fun e => e) rfl
  | idleRet =>
    obtain ⟨_, _, hph, rfl⟩ := step_idleRet hs
    exact inv4_frame h (Nat.le_refl _) rfl rfl rfl rfl (Or.inr (Or.inl ⟨h.drainEmpty hph, by simp⟩)) (by simp [hph]) rfl
  | ret =>
    obtain ⟨_, hph, rfl⟩ := step_ret hs
    split
    · rw [finishBatches_eq hi]
      refine ⟨h.rwLt, h.rwNodup, by simp, by simp, h.callTag, by simp, by simp⟩
    · exact inv4_frame h (Nat.le_refl _) rfl rfl rfl rfl (Or.inr (Or.inr ⟨by simp [hph], by simp, by simp⟩)) (by simp) rfl
  | release t =>
    obtain ⟨r, _, _, hph, hl, rfl⟩ := step_release hs
    rw [took_eq hi (lookup_some_mem hl)]
    exact inv4_frame h (Nat.le_refl _) rfl rfl rfl rfl (Or.inl rfl) (fun e => e) rfl
  | start =>
    obtain ⟨_, hph, rfl⟩ := step_start hs
    refine ⟨h.rwLt, h.rwNodup, ?_, by simp, h.callTag, by simp, ?_⟩
    · intro b hb p hp
      have := h.pend b hb p hp
      simpa [pendTag, hph] using this
    · intro _ x hx hlo
      have := h.rwLt x hx
      simp at hlo
      omega

theorem Reachable.inv4 {c : Cfg} {s : St} (h : Reachable c s) : Inv4 s := by
  induction h with
  | init => exact inv4_init
  | step hr hs ih => exact inv4_step hr.idsOK ih hs


/-! ### several executions on one apiRequest -/

/-- Per-execution accounting of batch registrations. -/
structure Inv2x (c : Cfg) (s : St) : Prop where
  regLt : ∀ x ∈ s.registered, x.2.2 < s.next
  loLe : s.execStart ≤ s.next
  ewLe : s.execWave ≤ s.wave
  ewTop : s.phase = .top → s.execWave < s.wave
  once : (c.fixed = true ∨ s.exec = 0) → s.phase ≠ .returned → ∀ k, regPairs s k = callPairs s k ++ pendPairs s k

theorem inv2x_init (c : Cfg) : Inv2x c init := by
  constructor <;> simp [init, regPairs, callPairs, pendPairs, pendOf]

theorem inv2x_frame {c : Cfg} {s s' : St} (h : Inv2x c s) (hn : s.next ≤ s'.next) (hb : s'.batches = s.batches)
    (hc : s'.calls = s.calls) (hr : s'.registered = s.registered) (hw : s'.wave = s.wave)
    (hes : s'.execStart = s.execStart) (hew : s'.execWave = s.execWave) (hex : s'.exec = s.exec)
    (hp : s'.phase = .top → s.phase = .top) (hret : s.phase = .returned → s'.phase = .returned) : Inv2x c s' := by
  refine ⟨?_, by rw [hes]; exact Nat.le_trans h.loLe hn, by rw [hew, hw]; exact h.ewLe, ?_, ?_⟩
  · intro x hx; rw [hr] at hx; exact Nat.lt_of_lt_of_le (h.regLt x hx) hn
  · intro ht; rw [hew, hw]; exact h.ewTop (hp ht)
  · intro hf hne k
    have := h.once (by rw [hex] at hf; exact hf) (fun e => hne (hret e)) k
    simpa [regPairs, callPairs, pendPairs, hb, hc, hr, hes, hew] using this

theorem inv2x_step {c : Cfg} {s s' : St} {l : Label} (hi : IdsOK s) (h1 : Inv1 c s) (h2 : Inv2 s) (h : Inv2x c s)
    (hs : step c s l = some s') : Inv2x c s' := by
  cases l with
  | go t dep =>
    obtain ⟨_, hph, rfl, rfl, _⟩ := step_go hs
    exact inv2x_frame h (Nat.le_succ _) rfl rfl rfl rfl rfl rfl rfl (by simp [hph]) (by simp [hph])
  | chain t ps =>
    obtain ⟨_, hph, rfl, _, rfl⟩ := step_chain hs
    exact inv2x_frame h (Nat.le_succ _) rfl rfl rfl rfl rfl rfl rfl (by simp [hph]) (by simp [hph])
  | batch k item p dep =>
    obtain ⟨_, hph, rfl, rfl, _⟩ := step_batch hs
    refine ⟨?_, Nat.le_succ_of_le h.loLe, h.ewLe, by simp [hph], ?_⟩
    · intro x hx
      simp only [List.mem_append, List.mem_singleton] at hx
      rcases hx with hx | rfl
      · exact Nat.lt_succ_of_lt (h.regLt x hx)
      · exact Nat.lt_succ_self _
    · intro hf _ k'
      have := h.once hf (by simp [hph]) k'
      have hlo : decide (s.execStart ≤ s.next) = true := by simpa using h.loLe
      simp only [regPairs, callPairs, pendPairs] at this ⊢
      rw [addToBatch_pend _ _ _ _ _ h2.keysNodup h2.lens, ← List.append_assoc, ← this]
      by_cases hk : k' = k
      · subst hk; simp [hlo]
      · have : (k == k') = false := by simp; exact fun e => hk e.symm
        simp [hk, this]
  | fin t r =>
    obtain ⟨_, _, _, _, _, _, rfl⟩ := step_fin hs
    exact inv2x_frame h (Nat.le_refl _) rfl rfl rfl rfl rfl rfl rfl (fun e => e) (fun e => e)
  | idle =>
    obtain ⟨_, hph, _, rfl⟩ := step_idle hs
    refine ⟨h.regLt, h.loLe, ?_, ?_, ?_⟩
    · have := h.ewLe; simp; omega
    · intro _; have := h.ewLe; simp; omega
    · intro hf _ k
      exact h.once hf (by simp [hph]) k
  | flush rs =>
    obtain ⟨_, hph, _, rfl⟩ := step_flush hs
    rw [flushAll_fresh s.wave s.execStart rs s.batches s hi.q_not_delivered hi.q_nodup]
    refine ⟨h.regLt, h.loLe, h.ewLe, by simp, ?_⟩
    intro hf _ k
    have := h.once hf (by simp [hph]) k
    have hw : decide (s.execWave < s.wave) = true := by simpa using h.ewTop hph
    simp only [regPairs, callPairs, pendPairs, pendOf] at this ⊢
    rw [this]
    simp only [List.reverse_append, List.reverse_reverse, List.filter_append, List.flatMap_append, List.filter_nil,
      List.flatMap_nil, List.append_nil]
    congr 1
    induction s.batches with
    | nil => simp
    | cons b bs ih =>
      simp only [List.map_cons, List.filter_cons, mkCall, hw, Bool.and_true]
      split <;> simp [ih]
  | recvBlock t =>
    obtain ⟨r, _, _, hph, _, hl, rfl⟩ := step_recvBlock hs
    rw [took_eq hi (lookup_some_mem hl)]
    split
    · exact inv2x_frame h (Nat.le_refl _) rfl rfl rfl rfl rfl rfl rfl (by simp [hph]) (by simp [hph])
    · exact inv2x_frame h (Nat.le_refl _) rfl rfl rfl rfl rfl rfl rfl (by simp) (by simp [hph])
  | drain t =>
    obtain ⟨r, _, _, hph, hl, rfl⟩ := step_drain hs
    rw [took_eq hi (lookup_some_mem hl)]
    exact inv2x_frame h (Nat.le_refl _) rfl rfl rfl rfl rfl rfl rfl (fun e => e) (fun e => e)
  | idleRet =>
    obtain ⟨_, _, hph, rfl⟩ := step_idleRet hs
    exact inv2x_frame h (Nat.le_refl _) rfl rfl rfl rfl rfl rfl rfl (by simp) (by simp [hph])
  | ret =>
    obtain ⟨_, hph, rfl⟩ := step_ret hs
    split
    · rw [finishBatches_eq hi]
      exact ⟨h.regLt, h.loLe, h.ewLe, by simp, by simp⟩
    · exact ⟨h.regLt, h.loLe, h.ewLe, by simp, by simp⟩
  | release t =>
    obtain ⟨r, _, _, _, hl, rfl⟩ := step_release hs
    rw [took_eq hi (lookup_some_mem hl)]
    exact inv2x_frame h (Nat.le_refl _) rfl rfl rfl rfl rfl rfl rfl (fun e => e) (fun e => e)
  | start =>
    obtain ⟨_, hph, rfl⟩ := step_start hs
    refine ⟨h.regLt, Nat.le_refl _, Nat.le_refl _, by simp, ?_⟩
    intro hf _ k
    have hfx : c.fixed = true := by
      rcases hf with hf | hf
      · exact hf
      · simp at hf
    have hb : s.batches = [] := h1.retBatches hfx hph
    have hreg : s.registered.filter (fun x => x.1 == k && decide (s.next ≤ x.2.2)) = [] := by
      apply List.filter_eq_nil_iff.mpr
      intro x hx
      have := h.regLt x hx
      simp; intro _; omega
    have hcall : s.calls.reverse.filter (fun cl => cl.key == k && decide (s.wave < cl.wave)) = [] := by
      apply List.filter_eq_nil_iff.mpr
      intro x hx
      have := h2.callWave x (List.mem_reverse.mp hx)
      simp; intro _; omega
    simp [regPairs, callPairs, pendPairs, pendOf, hb, hreg, hcall]


/-- What belongs to which execution. -/
structure Inv5 (c : Cfg) (s : St) : Prop where
  pendCur : c.fixed = true → ∀ b ∈ s.batches, ∀ p ∈ b.dests, s.execStart ≤ p
  callLo : c.fixed = true → ∀ cl ∈ s.calls, ∀ p ∈ cl.dests, cl.lo ≤ p
  callOld : ∀ cl ∈ s.calls, cl.wave ≤ s.execWave → ∀ p ∈ cl.dests, p < s.execStart
  callNew : ∀ cl ∈ s.calls, s.execWave < cl.wave → cl.lo = s.execStart

theorem inv5_init (c : Cfg) : Inv5 c init := by
  constructor <;> simp [init]

theorem inv5_frame {c : Cfg} {s s' : St} (h : Inv5 c s) (hb : s'.batches = s.batches) (hc : s'.calls = s.calls)
    (hes : s'.execStart = s.execStart) (hew : s'.execWave = s.execWave) : Inv5 c s' := by
  refine ⟨?_, ?_, ?_, ?_⟩
  · rw [hb, hes]; exact h.pendCur
  · rw [hc]; exact h.callLo
  · rw [hc, hes, hew]; exact h.callOld
  · rw [hc, hes, hew]; exact h.callNew

theorem inv5_step {c : Cfg} {s s' : St} {l : Label} (hi : IdsOK s) (h1 : Inv1 c s) (h2 : Inv2 s) (h2x : Inv2x c s)
    (h4 : Inv4 s) (h : Inv5 c s) (hs : step c s l = some s') : Inv5 c s' := by
  cases l with
  | go t dep => obtain ⟨_, _, rfl, rfl, _⟩ := step_go hs; exact inv5_frame h rfl rfl rfl rfl
  | chain t ps => obtain ⟨_, _, rfl, _, rfl⟩ := step_chain hs; exact inv5_frame h rfl rfl rfl rfl
  | batch k item p dep =>
    obtain ⟨_, _, rfl, rfl, _⟩ := step_batch hs
    refine ⟨?_, h.callLo, h.callOld, h.callNew⟩
    intro hf b hb q hq
    rcases addToBatch_dests s.batches k item s.next b hb q hq with ⟨rfl, _⟩ | ⟨b0, hb0, _, hq0⟩
    · exact h2x.loLe
    · exact h.pendCur hf b0 hb0 q hq0
  | fin t r => obtain ⟨_, _, _, _, _, _, rfl⟩ := step_fin hs; exact inv5_frame h rfl rfl rfl rfl
  | idle => obtain ⟨_, _, _, rfl⟩ := step_idle hs; exact inv5_frame h rfl rfl rfl rfl
  | flush rs =>
    obtain ⟨_, hph, _, rfl⟩ := step_flush hs
    rw [flushAll_fresh s.wave s.execStart rs s.batches s hi.q_not_delivered hi.q_nodup]
    have hw := h2x.ewTop hph
    refine ⟨by simp, ?_, ?_, ?_⟩
    · intro hf cl hcl p hp
      simp only [List.mem_append, List.mem_reverse, List.mem_map] at hcl
      rcases hcl with ⟨b, hb, rfl⟩ | hcl
      · exact h.pendCur hf b hb p hp
      · exact h.callLo hf cl hcl p hp
    · intro cl hcl hle p hp
      simp only [List.mem_append, List.mem_reverse, List.mem_map] at hcl
      rcases hcl with ⟨b, hb, rfl⟩ | hcl
      · simp [mkCall] at hle; omega
      · exact h.callOld cl hcl hle p hp
    · intro cl hcl hlt
      simp only [List.mem_append, List.mem_reverse, List.mem_map] at hcl
      rcases hcl with ⟨b, hb, rfl⟩ | hcl
      · rfl
      · exact h.callNew cl hcl hlt
  | recvBlock t =>
    obtain ⟨r, _, _, _, _, hl, rfl⟩ := step_recvBlock hs
    rw [took_eq hi (lookup_some_mem hl)]
    split <;> exact inv5_frame h rfl rfl rfl rfl
  | drain t =>
    obtain ⟨r, _, _, _, hl, rfl⟩ := step_drain hs
    rw [took_eq hi (lookup_some_mem hl)]; exact inv5_frame h rfl rfl rfl rfl
  | idleRet => obtain ⟨_, _, _, rfl⟩ := step_idleRet hs; exact inv5_frame h rfl rfl rfl rfl
  | ret =>
    obtain ⟨_, _, rfl⟩ := step_ret hs
    split
    · rw [finishBatches_eq hi]
      exact ⟨by simp, h.callLo, h.callOld, h.callNew⟩
    · exact inv5_frame h rfl rfl rfl rfl
  | release t =>
    obtain ⟨r, _, _, _, hl, rfl⟩ := step_release hs
    rw [took_eq hi (lookup_some_mem hl)]; exact inv5_frame h rfl rfl rfl rfl
  | start =>
    obtain ⟨_, hph, rfl⟩ := step_start hs
    refine ⟨?_, h.callLo, ?_, ?_⟩
    · intro hf b hb
      rw [h1.retBatches hf hph] at hb; cases hb
    · intro cl hcl _ p hp
      exact h4.rwLt _ ((h4.callTag cl hcl).2 p hp)
    · intro cl hcl hlt
      have := h2.callWave cl hcl
      simp at hlt; omega


theorem Reachable.inv2x {c : Cfg} {s : St} (h : Reachable c s) : Inv2x c s := by
  induction h with
  | init => exact inv2x_init c
  | step hr hs ih => exact inv2x_step hr.idsOK hr.inv1 hr.inv2 ih hs

theorem Reachable.inv5 {c : Cfg} {s : St} (h : Reachable c s) : Inv5 c s := by
  induction h with
  | init => exact inv5_init c
  | step hr hs ih => exact inv5_step hr.idsOK hr.inv1 hr.inv2 hr.inv2x hr.inv4 ih hs


/-- If everything on offer and everything queued in a batch has an id ≥ `lo`, no promise is orphaned
    and some running task has an id below `lo`, then the running task with the smallest id (it is
    below `lo` too) has received all its inputs: its body can return. -/
theorem fin_enabled_below {c : Cfg} {s : St} (lo : Nat) (hi : IdsOK s) (h1 : Inv1 c s) (hc : s.crashed = false)
    (hb : ∀ x ∈ s.blocked, lo ≤ x.1) (hq : ∀ p ∈ qIds s, lo ≤ p) (ho : s.orphaned = [])
    (hr : ∃ t ∈ s.running, t.id < lo) :
    ∃ t r s', t < lo ∧ step c s (.fin t r) = some s' := by
  obtain ⟨t1, ht1, hlt1⟩ := hr
  have hne : s.running ≠ [] := fun e => by rw [e] at ht1; cases ht1
  obtain ⟨t, ht, hmin⟩ := exists_min_task s.running hne
  have htlo : t.id < lo := Nat.lt_of_le_of_lt (hmin t1 ht1) hlt1
  have hsome : (s.running.find? (fun x => x.id == t.id)).isSome := by
    rw [List.find?_isSome]; exact ⟨t, ht, by simp⟩
  obtain ⟨task, hf⟩ := Option.isSome_iff_exists.mp hsome
  obtain ⟨hmem, hid⟩ := find_task hf
  have hall : ∀ p ∈ task.waits, p ∈ s.delivered.map (·.1) := by
    intro p hp
    have hlt : p < task.id := h1.waits task hmem p hp
    have htn : task.id < s.next := by
      apply hi.lt_of_pos
      have : 0 < (rIds s).count task.id := List.count_pos_iff.mpr (List.mem_map_of_mem (f := (·.id)) hmem)
      unfold cnt; omega
    have hcnt := hi p
    rw [if_pos (by omega)] at hcnt
    unfold cnt at hcnt
    have hr0 : (rIds s).count p = 0 := by
      apply List.count_eq_zero.mpr
      intro hm
      simp only [rIds, List.mem_map] at hm
      obtain ⟨u, hu, rfl⟩ := hm
      have := hmin u hu
      omega
    have hb0 : (bIds s).count p = 0 := by
      apply List.count_eq_zero.mpr
      intro hm
      simp only [bIds, List.mem_map] at hm
      obtain ⟨x, hx, rfl⟩ := hm
      have := hb x hx
      omega
    have hq0 : (qIds s).count p = 0 := by
      apply List.count_eq_zero.mpr
      intro hm
      have := hq p hm
      omega
    have ho0 : s.orphaned.count p = 0 := by simp [ho]
    have : 0 < (dIds s).count p := by omega
    exact List.count_pos_iff.mp this
  obtain ⟨e, he⟩ := awaitAll_of_all_delivered s.delivered task.waits hall
  let r : Res := match e with | none => ⟨0, false⟩ | some x => x
  have hok : finOK e r = true := by
    cases e with
    | none => rfl
    | some x => simp [finOK, r]
  refine ⟨t.id, r, ?_⟩
  simp [step, hc, hf, he, hok, htlo]


/-! ### stale work, pigeonhole, the contract invariant, the potential -/
/-- Work left over from earlier executions. -/
def staleWork (s : St) : Nat :=
  2 * (s.running.filter (fun t => decide (t.id < s.execStart))).length +
    (s.blocked.filter (fun x => decide (x.1 < s.execStart))).length

theorem filter_filter_lt {α} (f : α → Nat) (t lo : Nat) (l : List α) (h : ∃ x ∈ l, f x = t) (ht : t < lo) :
    ((l.filter (fun x => f x != t)).filter (fun x => decide (f x < lo))).length <
      (l.filter (fun x => decide (f x < lo))).length := by
  induction l with
  | nil => obtain ⟨x, hx, _⟩ := h; cases hx
  | cons a l ih =>
    by_cases ha : f a = t
    · have h1 : (f a != t) = false := by simp [ha]
      have h2 : decide (f a < lo) = true := by simp [ha, ht]
      simp only [List.filter_cons, h1, h2, if_true, List.length_cons]
      have : ((l.filter (fun x => f x != t)).filter (fun x => decide (f x < lo))).length ≤
          (l.filter (fun x => decide (f x < lo))).length :=
        (List.Sublist.filter _ List.filter_sublist).length_le
      simp only [Bool.false_eq_true, if_false]
      omega
    · have h1 : (f a != t) = true := by simpa using ha
      have hex : ∃ x ∈ l, f x = t := by
        obtain ⟨x, hx, hfx⟩ := h
        simp at hx
        rcases hx with rfl | hx
        · exact absurd hfx ha
        · exact ⟨x, hx, hfx⟩
      have := ih hex
      simp only [List.filter_cons, h1, if_true]
      by_cases hlo : f a < lo
      · have h2 : decide (f a < lo) = true := by simpa using hlo
        simp only [h2, if_true, List.length_cons]
        omega
      · have h2 : decide (f a < lo) = false := by simpa using hlo
        simp only [h2, Bool.false_eq_true, if_false]
        exact this

theorem length_filter_split {α} (p : α → Bool) (l : List α) :
    l.length = (l.filter p).length + (l.filter (fun x => !p x)).length := by
  induction l with
  | nil => rfl
  | cons a l ih =>
    cases hp : p a <;> simp [hp, ih] <;> omega

theorem nodup_lt_length (n : Nat) : ∀ (l : List Nat), l.Nodup → (∀ x ∈ l, x < n) → l.length ≤ n := by
  induction n with
  | zero =>
    intro l _ h
    cases l with
    | nil => simp
    | cons a l => exact absurd (h a (by simp)) (Nat.not_lt_zero _)
  | succ n ih =>
    intro l hn h
    have h1 : (l.filter (fun x => x != n)).length ≤ n := by
      apply ih
      · exact hn.sublist List.filter_sublist
      · intro x hx
        have := List.mem_filter.mp hx
        have h2 := h x this.1
        have h3 : x ≠ n := by simpa using this.2
        omega
    have h2 : l.length ≤ (l.filter (fun x => x != n)).length + 1 := by
      have hc : l.count n ≤ 1 := List.nodup_iff_count.mp hn n
      have := length_filter_split (fun x => x != n) l
      have hcnt : (l.filter (fun x => !(x != n))).length = l.count n := by
        rw [List.count_eq_length_filter]
        congr 1
        apply List.filter_congr
        intro x _
        cases hx : x == n <;> simp [bne, hx]
      omega
    omega

theorem delivered_le_next {c : Cfg} {s : St} (h : Reachable c s) : s.delivered.length ≤ s.next := by
  have hn : (s.delivered.map (·.1)).Nodup := by
    apply List.nodup_iff_count.mpr
    intro a
    have := h.idsOK a
    unfold cnt dIds at this
    split at this <;> omega
  have := nodup_lt_length s.next (s.delivered.map (·.1)) hn (by
    intro x hx
    apply h.idsOK.lt_of_pos
    have : 0 < (dIds s).count x := List.count_pos_iff.mpr hx
    unfold cnt; omega)
  simpa using this


theorem addToBatch_dests_ne (bs : List Batch) (k item p : Nat) (h : ∀ b ∈ bs, b.dests ≠ []) :
    ∀ b ∈ addToBatch bs k item p, b.dests ≠ [] := by
  induction bs with
  | nil => intro b hb; simp [addToBatch] at hb; subst hb; simp
  | cons a bs ih =>
    intro b hb
    simp only [addToBatch] at hb
    split at hb
    · simp at hb
      rcases hb with rfl | hb
      · simp
      · exact h b (by simp [hb])
    · simp at hb
      rcases hb with rfl | hb
      · exact h b (by simp)
      · exact ih (fun b hb => h b (by simp [hb])) b hb

theorem flushDel_ne (rs : List (Nat × List Res)) (bs : List Batch) (hne : bs ≠ [])
    (hd : ∀ b ∈ bs, b.dests ≠ []) (hwf : ∀ b ∈ bs, (resultsFor rs b.key).length = b.dests.length) :
    flushDel rs bs ≠ [] := by
  cases bs with
  | nil => exact absurd rfl hne
  | cons b bs =>
    simp only [flushDel]
    intro e
    have h1 := (List.append_eq_nil_iff.mp e).2
    have h2 : (b.dests.zip (resultsFor rs b.key)).length = 0 := by
      rw [← List.length_reverse, h1]; rfl
    have h3 := hwf b (by simp)
    have h4 : b.dests.length ≠ 0 := by
      intro e0; exact hd b (by simp) (List.length_eq_zero_iff.mp e0)
    rw [List.length_zip] at h2
    omega

/-- What every completed idle-handler invocation contributes (batch functions keeping their contract). -/
structure InvC (s : St) : Prop where
  batchDests : ∀ b ∈ s.batches, b.dests ≠ []
  snapPre : (s.phase = .top ∨ s.phase = .drain) → ∃ l, s.delivered = l ++ s.snap
  drainNew : s.phase = .drain → ∃ l, l ≠ [] ∧ s.delivered = l ++ s.snap
  waveLe : s.wave ≤ s.delivered.length + (if s.phase = .top then 1 else 0)

theorem invC_init : InvC init := by
  constructor <;> simp [init]

theorem invC_took {s : St} (hi : IdsOK s) (h : InvC s) {t : Nat} {r : Res} (hm : (t, r) ∈ s.blocked) :
    InvC (took s t r) := by
  rw [took_eq hi hm]
  refine ⟨h.batchDests, ?_, ?_, ?_⟩
  · intro hp
    obtain ⟨l, hl⟩ := h.snapPre hp
    exact ⟨(t, r) :: l, by simp [hl]⟩
  · intro hp
    obtain ⟨l, _, hl⟩ := h.drainNew hp
    exact ⟨(t, r) :: l, by simp, by simp [hl]⟩
  · have := h.waveLe
    simp only [List.length_cons]
    split at this <;> split <;> omega

theorem invC_step {c : Cfg} {s s' : St} {l : Label} (hi : IdsOK s) (h : InvC s) (hwf : l.wellFormedAt s)
    (hs : step c s l = some s') : InvC s' := by
  cases l with
  | go t dep =>
    obtain ⟨_, hph, rfl, rfl, _⟩ := step_go hs
    have := h.waveLe
    exact ⟨h.batchDests, by simp [hph], by simp [hph], by simpa [hph] using this⟩
  | chain t ps =>
    obtain ⟨_, hph, rfl, _, rfl⟩ := step_chain hs
    have := h.waveLe
    exact ⟨h.batchDests, by simp [hph], by simp [hph], by simpa [hph] using this⟩
  | batch k item p dep =>
    obtain ⟨_, hph, rfl, rfl, _⟩ := step_batch hs
    have := h.waveLe
    exact ⟨addToBatch_dests_ne _ _ _ _ h.batchDests, by simp [hph], by simp [hph], by simpa [hph] using this⟩
  | fin t r =>
    obtain ⟨_, _, _, _, _, _, rfl⟩ := step_fin hs
    exact ⟨h.batchDests, h.snapPre, h.drainNew, h.waveLe⟩
  | idle =>
    obtain ⟨_, hph, _, rfl⟩ := step_idle hs
    have := h.waveLe
    refine ⟨h.batchDests, fun _ => ⟨[], by simp⟩, by simp, ?_⟩
    simp [hph] at this ⊢
    omega
  | flush rs =>
    obtain ⟨_, hph, hne, rfl⟩ := step_flush hs
    rw [flushAll_fresh s.wave s.execStart rs s.batches s hi.q_not_delivered hi.q_nodup]
    have hF := flushDel_ne rs s.batches hne h.batchDests hwf
    obtain ⟨l, hl⟩ := h.snapPre (Or.inl hph)
    have hlen : 0 < (flushDel rs s.batches).length := List.length_pos_iff.mpr hF
    have := h.waveLe
    refine ⟨by simp, fun _ => ⟨flushDel rs s.batches ++ l, by simp [hl]⟩,
      fun _ => ⟨flushDel rs s.batches ++ l, by simp [hF], by simp [hl]⟩, ?_⟩
    simp [hph] at this ⊢
    omega
  | recvBlock t =>
    obtain ⟨r, _, _, hph, _, hl, rfl⟩ := step_recvBlock hs
    have hm := lookup_some_mem hl
    have ht := invC_took hi h hm
    have e := took_eq hi hm
    split
    · refine ⟨ht.batchDests, ?_, ?_, ?_⟩
      · intro _
        have hp' : (took s t r).phase = .top := by rw [e]; exact hph
        exact ht.snapPre (Or.inl hp')
      · intro hp; rw [e] at hp; simp [hph] at hp
      · have := ht.waveLe
        rw [e] at this ⊢
        simpa [hph] using this
    · obtain ⟨l, hl'⟩ := h.snapPre (Or.inl hph)
      refine ⟨ht.batchDests, fun _ => ?_, fun _ => ?_, ?_⟩
      · rw [e]; exact ⟨(t, r) :: l, by simp [hl']⟩
      · rw [e]; exact ⟨(t, r) :: l, by simp, by simp [hl']⟩
      · have := h.waveLe
        rw [e]
        simp [hph] at this ⊢
        omega
  | drain t =>
    obtain ⟨r, _, _, _, hl, rfl⟩ := step_drain hs
    exact invC_took hi h (lookup_some_mem hl)
  | idleRet =>
    obtain ⟨_, _, hph, rfl⟩ := step_idleRet hs
    have := h.waveLe
    refine ⟨h.batchDests, by simp, by simp, ?_⟩
    simpa [hph] using this
  | ret =>
    obtain ⟨_, hph, rfl⟩ := step_ret hs
    have := h.waveLe
    split
    · rw [finishBatches_eq hi]
      refine ⟨by simp, by simp, by simp, ?_⟩
      simp [hph] at this ⊢
      omega
    · refine ⟨h.batchDests, by simp, by simp, ?_⟩
      simpa [hph] using this
  | release t =>
    obtain ⟨r, _, _, _, hl, rfl⟩ := step_release hs
    exact invC_took hi h (lookup_some_mem hl)
  | start =>
    obtain ⟨_, hph, rfl⟩ := step_start hs
    have := h.waveLe
    refine ⟨h.batchDests, by simp, by simp, ?_⟩
    simpa [hph] using this

theorem ReachableWF.invC {c : Cfg} {s : St} (h : ReachableWF c s) : InvC s := by
  induction h with
  | init => exact invC_init
  | step hr hwf hs ih => exact invC_step hr.reachable.idsOK ih hwf hs


def phaseRank : Phase → Nat
  | .exec => 2 | .top => 1 | .drain => 3 | .returned => 0

/-- Potential of a state: three units per unfulfilled promise, the idle handler's measure, and the
    position in the executor's loop. -/
def potential (s : St) : Nat := 3 * (s.next - s.delivered.length) + measure s + phaseRank s.phase

/-- What a label may add to the potential: a resolver call creates a promise and a task or batch
    slot, the start of another execution re-enters the loop. Everything else costs. -/
def Label.gain : Label → Nat
  | .go _ _ | .chain _ _ | .batch _ _ _ _ => 5
  | .start => 2
  | _ => 0

/-- 1 for the labels that add nothing. -/
def Label.cost : Label → Nat
  | .go _ _ | .chain _ _ | .batch _ _ _ _ | .start => 0
  | _ => 1

theorem addToBatch_length (bs : List Batch) (k item p : Nat) : (addToBatch bs k item p).length ≤ bs.length + 1 := by
  induction bs with
  | nil => simp [addToBatch]
  | cons a bs ih =>
    simp only [addToBatch]
    split <;> simp <;> omega

theorem potential_took {s : St} (hi : IdsOK s) {t : Nat} {r : Res} (hm : (t, r) ∈ s.blocked)
    (hd : s.delivered.length < s.next) :
    3 * ((took s t r).next - (took s t r).delivered.length) + measure (took s t r) + 4 ≤
      3 * (s.next - s.delivered.length) + measure s := by
  have hmz := measure_took hi hm
  rw [took_eq hi hm] at hmz ⊢
  simp only [List.length_cons] at hmz ⊢
  omega

/-- Label sequences in which the batch functions keep their contract. -/
inductive RunWF (c : Cfg) : St → List Label → St → Prop
  | nil {s : St} : RunWF c s [] s
  | cons {s s1 s2 : St} {l : Label} {ls : List Label} :
      l.wellFormedAt s → step c s l = some s1 → RunWF c s1 ls s2 → RunWF c s (l :: ls) s2

theorem RunWF.reachable {c : Cfg} {s s' : St} {ls : List Label} (hr : RunWF c s ls s') (h : ReachableWF c s) :
    ReachableWF c s' := by
  induction hr with
  | nil => exact h
  | cons hwf hs _ ih => exact ih (h.step hwf hs)

/-! ### one reader per promise -/

/-- Every promise has at most one reader among the chain/join tasks. -/
structure InvK (s : St) : Prop where
  nodup : s.consumed.Nodup
  lt : ∀ p ∈ s.consumed, p < s.next
  chainedSub : ∀ p ∈ s.chained, p ∈ s.consumed

theorem invK_step {c : Cfg} {s s' : St} {l : Label} (hi : IdsOK s) (h : InvK s) (hs : step c s l = some s') : InvK s' := by
  cases l with
  | go t dep =>
    obtain ⟨_, _, rfl, rfl, _⟩ := step_go hs
    exact ⟨h.nodup, fun p hp => Nat.lt_succ_of_lt (h.lt p hp), h.chainedSub⟩
  | batch k item p dep =>
    obtain ⟨_, _, rfl, rfl, _⟩ := step_batch hs
    exact ⟨h.nodup, fun p hp => Nat.lt_succ_of_lt (h.lt p hp), h.chainedSub⟩
  | chain t ps =>
    have hnd := step_chain_nodup hs
    obtain ⟨_, _, rfl, hps, rfl⟩ := step_chain hs
    refine ⟨?_, ?_, ?_⟩
    · rw [List.nodup_append]
      exact ⟨hnd, h.nodup, fun a ha b hb e => (hps a ha).2.2 (e ▸ hb)⟩
    · intro p hp
      simp only [List.mem_append] at hp
      rcases hp with hp | hp
      · exact Nat.lt_succ_of_lt (hps p hp).2.1
      · exact Nat.lt_succ_of_lt (h.lt p hp)
    · intro p hp
      simp only [List.mem_append] at hp ⊢
      rcases hp with hp | hp
      · exact Or.inl hp
      · exact Or.inr (h.chainedSub p hp)
  | fin t r => obtain ⟨_, _, _, _, _, _, rfl⟩ := step_fin hs; exact ⟨h.nodup, h.lt, h.chainedSub⟩
  | idle => obtain ⟨_, _, _, rfl⟩ := step_idle hs; exact ⟨h.nodup, h.lt, h.chainedSub⟩
  | flush rs =>
    obtain ⟨_, _, _, rfl⟩ := step_flush hs
    rw [flushAll_fresh s.wave s.execStart rs s.batches s hi.q_not_delivered hi.q_nodup]
    exact ⟨h.nodup, h.lt, h.chainedSub⟩
  | recvBlock t =>
    obtain ⟨r, _, _, _, _, hl, rfl⟩ := step_recvBlock hs
    rw [took_eq hi (lookup_some_mem hl)]
    split
    · exact ⟨h.nodup, h.lt, fun p hp => h.chainedSub p (List.mem_of_mem_erase hp)⟩
    · exact ⟨h.nodup, h.lt, h.chainedSub⟩
  | drain t =>
    obtain ⟨r, _, _, _, hl, rfl⟩ := step_drain hs
    rw [took_eq hi (lookup_some_mem hl)]; exact ⟨h.nodup, h.lt, h.chainedSub⟩
  | idleRet => obtain ⟨_, _, _, rfl⟩ := step_idleRet hs; exact ⟨h.nodup, h.lt, h.chainedSub⟩
  | ret =>
    obtain ⟨_, _, rfl⟩ := step_ret hs
    split
    · rw [finishBatches_eq hi]; exact ⟨h.nodup, h.lt, h.chainedSub⟩
    · exact ⟨h.nodup, h.lt, h.chainedSub⟩
  | release t =>
    obtain ⟨r, _, _, _, hl, rfl⟩ := step_release hs
    rw [took_eq hi (lookup_some_mem hl)]; exact ⟨h.nodup, h.lt, h.chainedSub⟩
  | start => obtain ⟨_, _, rfl⟩ := step_start hs; exact ⟨h.nodup, h.lt, h.chainedSub⟩

theorem Reachable.invK {c : Cfg} {s : St} (h : Reachable c s) : InvK s := by
  induction h with
  | init =>
    refine ⟨List.nodup_nil, ?_, ?_⟩
    · intro p hp; exact absurd hp List.not_mem_nil
    · intro p hp; exact absurd hp List.not_mem_nil
  | step hr hs ih => exact invK_step hr.idsOK ih hs


end ApiFu.C15
