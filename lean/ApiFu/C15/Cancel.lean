/-
  C15 — cancellation of the request's context as a first-class event of the model.

  `Model.lean` has no context: api.go's helpers never look at `ctx.Done()`. That this is so — and that
  it has to be so — is made explicit here. The channel-level facts of api.go the model rests on are the
  rows of harness/cmd/c15/chanfacts_expected.json (extracted from the current source with go/ast on
  every run and compared); the rows name the definitions below and in `Model.lean` they justify:

    Go            make(chan asyncResolution)            cap 0   `St.blocked`: an offer stays until `took`
    Go            make(chan struct{})         (done)    cap 0   closed by `finish` only: `.ret` / `.release`
    Go            make(graphql.ResolvePromise, 1)       cap 1   `St.deliver`: one slot, `destFull` on a 2nd send
    Batch         make(graphql.ResolvePromise, 1)       cap 1   `flushOne` / `finishBatches` through `deliver`
    Go            select { asyncResolutions <- … | <-done }     `GoCase.handoff`, `GoCase.done`; `apiGo.goSelect`
    IdleHandler   select { <-asyncResolutions | default }       `.drain` / `.idleRet`
    IdleHandler   resolution := <-r.asyncResolutions            `.recvBlock` (blocking: the only thing that
                                                                wakes it is a hand-off)
    sends         b.dests[i] <- result ; resolution.Dest <- resolution.Result (twice) ; dest <- errExecutionFinished ;
                  ch <- result (after <-done)                    all through `St.deliver` / `took`
    receives      <-p in chain / join                            `awaitAll`

  `CCfg.goSelect` lists the alternatives of the select a Go task's goroutine ends in. `apiGo` is
  api.go; a configuration that also has `ctxDone` is the "helpful" variant in which a finished task
  whose request was cancelled leaves its result in its own promise and exits (seeded change C15-23).

  Labels: every label of `Model.lean` (`base`), `cancel` (ctx.Done() is closed: the HTTP client went
  away, graphqlws.go's `Handler.Cancel`, a deadline — at any moment, in any phase, once), and
  `ctxRelease t` (a parked task takes the `<-ctx.Done()` alternative; enabled only if the select has
  that case and the context is cancelled). The executor stays abstract: after the cancellation it
  fails every field it reaches without calling the resolver (executor.go executeField), i.e. it makes
  fewer resolver calls — all of them are still allowed here (a superset).
  Core Lean only.
-/
import ApiFu.C15.Model

namespace ApiFu.C15

/-- The alternatives of the `select` at the end of the goroutine started by `Go` (api.go). -/
inductive GoCase where
  | handoff   -- `case apiRequest.asyncResolutions <- asyncResolution{Result: result, Dest: ch}:`
  | done      -- `case <-done:` followed by `ch <- result`
  | ctxDone   -- `case <-ctx.Done():` followed by `ch <- result` — not in api.go
  deriving DecidableEq, Repr

structure CCfg where
  goSelect : List GoCase
  deriving Repr

/-- api.go as it is (row `Go/select#0` of the expected table). -/
def apiGo : CCfg := ⟨[.handoff, .done]⟩

/-- api.go with a `<-ctx.Done()` alternative in the Go task's select. -/
def apiGoCtx : CCfg := ⟨[.handoff, .done, .ctxDone]⟩

/-- The `done` alternative is what `Cfg.fixed` stands for in `Model.lean`. -/
def CCfg.base (cc : CCfg) : Cfg := ⟨cc.goSelect.contains .done⟩

structure CSt where
  s : St := {}
  cancelled : Bool := false     -- ctx.Done() is closed
  deriving Repr

inductive CLabel where
  | base (l : Label)
  | cancel
  | ctxRelease (t : Nat)
  deriving DecidableEq, Repr

def cstep (cc : CCfg) (cs : CSt) : CLabel → Option CSt
  | .base l =>
    match step cc.base cs.s l with
    | some s' => some { cs with s := s' }
    | none => none
  | .cancel => if cs.cancelled then none else some { cs with cancelled := true }
  | .ctxRelease t =>
    if cs.s.crashed || !cc.goSelect.contains .ctxDone || !cs.cancelled then none else
    match lookup cs.s.blocked t with
    | none => none
    | some r => some { cs with s := took cs.s t r }

def cinit : CSt := {}

def crun (cc : CCfg) : CSt → List CLabel → Option CSt
  | cs, [] => some cs
  | cs, l :: ls =>
    match cstep cc cs l with
    | none => none
    | some cs' => crun cc cs' ls

end ApiFu.C15
