/-
  C15 — property theorems. Every theorem quantifies over all reachable states of the model
  (`Reachable c s`: any label sequence from the initial state = any query shape, any interleaving of
  resolver calls, background completions and idle-handler steps), and where stated over every
  `Cfg` (the code before and after repo-patches/C15/01-fix).
-/
import ApiFu.C15.Lemmas

namespace ApiFu.C15

/-- **batch_positional** — for every call a batch function ever received (in any reachable state):
    it got as many field contexts as there are promises, and result `i` of the call is what promise
    `i` of the call — the promise handed out for field context `i`, see `batch_exactly_once` — holds. -/
theorem batch_positional {c : Cfg} {s : St} (h : Reachable c s) :
    ∀ cl ∈ s.calls, cl.items.length = cl.dests.length ∧
      ∀ i (h1 : i < cl.dests.length) (h2 : i < cl.results.length), (cl.dests[i], cl.results[i]) ∈ s.delivered := by
  intro cl hcl
  refine ⟨h.inv2.callLens cl hcl, ?_⟩
  intro i h1 h2
  exact h.inv3.callsDelivered cl hcl _ (mem_zip_of_getElem cl.dests cl.results i h1 h2)

/-- **batch_exactly_once** — in every execution (patched code; unpatched: in the first execution on
    an apiRequest), until it returns, for every Batch resolver `k` the sequence of (field context,
    promise) pairs *this execution* registered with it equals, *in order*, the concatenation of the
    arguments of all calls *this execution* made to its batch function so far followed by what is
    still pending: every pending field context is seen exactly once, by one call, at the position
    whose result is routed to its promise — and nothing from another execution is mixed in. -/
theorem batch_exactly_once {c : Cfg} {s : St} (h : Reachable c s) (hf : c.fixed = true ∨ s.exec = 0)
    (hp : s.phase ≠ .returned) (k : Nat) :
    regPairs s k = callPairs s k ++ pendPairs s k :=
  h.inv2x.once hf hp k

/-- **one_call_per_wave** — two calls of the same batch resolver in the same wave (= idle-handler
    invocation) are the same call. -/
theorem one_call_per_wave {c : Cfg} {s : St} (h : Reachable c s) {c1 c2 : Call} (h1 : c1 ∈ s.calls) (h2 : c2 ∈ s.calls)
    (hw : c1.wave = c2.wave) (hk : c1.key = c2.key) : c1 = c2 :=
  eq_of_nodup_map (fun c : Call => (c.wave, c.key)) s.calls h.inv2.callNodup h1 h2 (by simp [hw, hk])

/-- **flush_delivers_all_pending** — the flush step of a wave calls the batch function of *every*
    pending batch with *all* its pending field contexts, in the current wave, and leaves nothing
    pending (with `one_call_per_wave`: all invocations of one Batch resolver pending at an idle point
    are delivered in a single call). -/
theorem flush_delivers_all_pending {c : Cfg} {s s' : St} {rs : List (Nat × List Res)} (h : Reachable c s)
    (hs : step c s (.flush rs) = some s') :
    s'.batches = [] ∧ ∀ b ∈ s.batches, ∃ cl ∈ s'.calls, cl.wave = s.wave ∧ cl.key = b.key ∧ cl.items = b.items ∧ cl.dests = b.dests := by
  obtain ⟨_, _, _, rfl⟩ := step_flush hs
  rw [flushAll_fresh s.wave s.execStart rs s.batches s h.idsOK.q_not_delivered h.idsOK.q_nodup]
  refine ⟨rfl, ?_⟩
  intro b hb
  refine ⟨mkCall s.wave s.execStart rs b, ?_, rfl, rfl, rfl, rfl⟩
  simp only [List.mem_append, List.mem_reverse, List.mem_map]
  exact Or.inl ⟨b, hb, rfl⟩

/-- **same_wave_same_call** — between two idle points (`phase = exec`): two invocations of one Batch
    resolver (the second one of the current execution) that were registered in the same exec phase (same wave tag `u`) are never split: if one
    of them was passed to the batch function, the other was passed in that very call. With `depOK`
    (resolver calls below a promise happen in the exec phase right after the wave that fulfilled it
    — checked by the acceptor on every observed execution) this is the coalescing of *nested* batches:
    the invocations below all promises fulfilled by one wave go to one call of the next. -/
theorem same_wave_same_call {c : Cfg} {s : St} (h : Reachable c s) (hp : s.phase = .exec) {p1 p2 k u : Nat}
    (h1 : (p1, k, u) ∈ s.regWave) (h2 : (p2, k, u) ∈ s.regWave) (hcur : s.execStart ≤ p2) {cl : Call} (hcl : cl ∈ s.calls)
    (hin : p1 ∈ cl.dests) : p2 ∈ cl.dests := by
  have i4 := h.inv4
  obtain ⟨hw1, ht1⟩ := i4.callTag cl hcl
  have e1 := eq_of_nodup_map (fun x : Nat × Nat × Nat => x.1) s.regWave i4.rwNodup (ht1 p1 hin) h1 rfl
  have hk : cl.key = k := by simpa using congrArg (fun x : Nat × Nat × Nat => x.2.1) e1
  have hu : cl.wave - 1 = u := by simpa using congrArg (fun x : Nat × Nat × Nat => x.2.2) e1
  rcases i4.covered (by simp [hp]) _ h2 hcur with hq | ⟨cl2, hcl2, hin2⟩
  · -- still pending: impossible, it would carry the current wave tag
    exfalso
    simp only [qIds, List.mem_flatMap] at hq
    obtain ⟨b, hb, hpb⟩ := hq
    have := i4.pend b hb p2 hpb
    have e2 := eq_of_nodup_map (fun x : Nat × Nat × Nat => x.1) s.regWave i4.rwNodup this h2 rfl
    have hu2 : pendTag s = u := by simpa using congrArg (fun x : Nat × Nat × Nat => x.2.2) e2
    have hle := h.inv2.callWave cl hcl
    simp [pendTag, hp] at hu2
    omega
  · obtain ⟨hw2, ht2⟩ := i4.callTag cl2 hcl2
    have e2 := eq_of_nodup_map (fun x : Nat × Nat × Nat => x.1) s.regWave i4.rwNodup (ht2 p2 hin2) h2 rfl
    have hk2 : cl2.key = k := by simpa using congrArg (fun x : Nat × Nat × Nat => x.2.1) e2
    have hu2 : cl2.wave - 1 = u := by simpa using congrArg (fun x : Nat × Nat × Nat => x.2.2) e2
    have : cl2 = cl := one_call_per_wave h hcl2 hcl (by omega) (by rw [hk, hk2])
    rw [← this]; exact hin2


/-- Non-vacuity of the batching theorems: two invocations of resolver 7 and one of resolver 9 are
    flushed in one wave, one call each, positions kept. -/
example :
    (match runFrom ⟨true⟩ init [.batch 7 100 0 none, .batch 9 101 1 none, .batch 7 102 2 none, .idle,
        .flush [(7, [⟨1, false⟩, ⟨2, false⟩]), (9, [⟨3, false⟩])]] 0 with
     | .ok s => some (s.calls.map (fun c => (c.wave, c.key, c.items, c.dests)), s.delivered.map (fun x => (x.1, x.2.val)))
     | .error _ => none) =
    some ([(1, 9, [101], [1]), (1, 7, [100, 102], [0, 2])], [(1, 3), (2, 2), (0, 1)]) := by rfl

/-- **delivered_result_right** — whatever a promise holds was produced for exactly that promise:
    it is the value the body of *its own* Go task returned, or the result at *its own* position in a
    batch call, or (patched code, after the return) the error given to a never-flushed batch slot.
    No promise receives a second result, and no task body's result is recorded twice. -/
theorem delivered_result_right {c : Cfg} {s : St} (h : Reachable c s) :
    (∀ x ∈ s.delivered, x ∈ s.finished ∨
        (∃ cl ∈ s.calls, ∃ i, ∃ (h1 : i < cl.dests.length) (h2 : i < cl.results.length), cl.dests[i] = x.1 ∧ cl.results[i] = x.2) ∨
        (c.fixed = true ∧ returnedOnce s ∧ x.2 = errFinished)) ∧
    (s.delivered.map (·.1)).Nodup ∧ (s.finished.map (·.1)).Nodup := by
  refine ⟨?_, ?_, h.inv3.finNodup⟩
  · intro x hx
    rcases h.inv3.deliveredOK x hx with h1 | ⟨cl, hcl, h1⟩ | h1
    · exact Or.inl h1
    · right; left
      obtain ⟨i, hi, hget⟩ := List.getElem_of_mem h1
      have hlen : i < cl.dests.length ∧ i < cl.results.length := by
        simp [List.length_zip] at hi; omega
      refine ⟨cl, hcl, i, hlen.1, hlen.2, ?_⟩
      simp [List.getElem_zip] at hget
      cases x
      simp_all
    · exact Or.inr (Or.inr h1)
  · apply List.nodup_iff_count.mpr
    intro a
    have := h.idsOK a
    unfold cnt dIds at this
    split at this <;> omega

/-- **dest_send_never_blocks** — the idle handler's `resolution.Dest <- resolution.Result` (and the
    flush goroutines' `b.dests[i] <- result`) always find the promise's single buffer slot free. -/
theorem dest_send_never_blocks {c : Cfg} {s : St} (h : Reachable c s) : s.destFull = false :=
  h.inv1.destFull

/-- **idle_progress (no deadlock)** — whenever the idle handler is at the head of its loop (it was
    called because some promise the executor waits for is outstanding), and no batch function broke
    its contract (`crashed`: too many results, `orphaned`: too few), the handler is not stuck: there
    is a pending batch to flush, or a resolution is on offer, or the body of some running task can
    return (for a chain/join task: all the promises it receives from have been fulfilled). In the
    drain phase it can always return. -/
theorem idle_progress {c : Cfg} {s : St} (h : Reachable c s) (hc : s.crashed = false) (ho : s.orphaned = []) :
    (s.phase = .top → (∃ rs s', step c s (.flush rs) = some s') ∨ (∃ t s', step c s (.recvBlock t) = some s') ∨
                      (∃ t r s', step c s (.fin t r) = some s')) ∧
    (s.phase = .drain → ∃ s', step c s .idleRet = some s') := by
  have hd := h.inv1.destFull
  constructor
  · intro hp
    by_cases hb : s.batches = []
    · by_cases hbl : s.blocked = []
      · right; right
        apply fin_enabled h.idsOK h.inv1 hc hbl hb ho
        -- the awaited promise has no result, so a task for it is still running
        obtain ⟨w, _, hw, hwd, _⟩ := h.invTop hp
        have hcnt := h.idsOK w
        rw [if_pos hw] at hcnt
        unfold cnt at hcnt
        have h1 : (bIds s).count w = 0 := by simp [bIds, hbl]
        have h2 : (qIds s).count w = 0 := by simp [qIds, hb]
        have h3 : s.orphaned.count w = 0 := by simp [ho]
        have h4 : (dIds s).count w = 0 := List.count_eq_zero.mpr hwd
        have : 0 < (rIds s).count w := by omega
        have := List.count_pos_iff.mp this
        intro e
        simp [rIds, e] at this
      · right; left
        obtain ⟨x, hx⟩ := List.exists_mem_of_ne_nil _ hbl
        obtain ⟨r', hr'⟩ := mem_lookup_isSome (t := x.1) (r := x.2) hx
        refine ⟨x.1, ?_⟩
        by_cases hch : x.1 ∈ s.chained <;> simp [step, hc, hd, hp, hb, hr', hch]
    · left
      refine ⟨[], ?_⟩
      simp [step, hc, hp, hb]
  · intro hp
    simp [step, hc, hd, hp]

/-- **idle_terminates** — inside one invocation of the idle handler (no resolver call, no return of
    the handler) every step — a task body returning, the flush, a receive — strictly decreases
    `2·#running + #offers + #pending batches`: the handler runs for at most that many steps, in
    particular it loops (`continue` after a chained resolution) at most once per running task. -/
theorem idle_terminates {c : Cfg} {s s' : St} {l : Label} (h : Reachable c s) (hs : step c s l = some s')
    (hp : s.phase = .top ∨ s.phase = .drain) (hl : l ≠ .idleRet) : measure s' < measure s := by
  apply measure_step h.idsOK hs
  cases l with
  | go t dep => obtain ⟨_, hph, _⟩ := step_go hs; rcases hp with hp | hp <;> simp [hph] at hp
  | batch k i p dep => obtain ⟨_, hph, _⟩ := step_batch hs; rcases hp with hp | hp <;> simp [hph] at hp
  | chain t ps => obtain ⟨_, hph, _⟩ := step_chain hs; rcases hp with hp | hp <;> simp [hph] at hp
  | idle => obtain ⟨_, hph, _⟩ := step_idle hs; rcases hp with hp | hp <;> simp [hph] at hp
  | ret => obtain ⟨_, hph, _⟩ := step_ret hs; rcases hp with hp | hp <;> simp [hph] at hp
  | idleRet => exact absurd rfl hl
  | start => obtain ⟨_, hph, _⟩ := step_start hs; rcases hp with hp | hp <;> simp [hph] at hp
  | _ => rfl

/-- **idle_returns_only_after_progress** — the idle handler returns only after it flushed the
    batches or delivered a resolution that was not consumed by a chain/join task (the `progress`
    flag is reset on entry and set by exactly those two steps). -/
theorem idle_returns_only_after_progress {c : Cfg} {s s' : St} (h : Reachable c s) (hs : step c s .idleRet = some s') :
    s.progress = true := by
  obtain ⟨_, _, hp, _⟩ := step_idleRet hs
  exact h.inv1.progress hp

/-- **no_blocked_task_at_return** (patched code) — after an execution returned (and before the next
    one starts on the same apiRequest, if any), as long as any task is still running or offering its
    resolution, some step of a task is enabled (a body returns, or a blocked task sees `done` closed
    and leaves), and every step other than the start of the next execution decreases the measure:
    every schedule ends, after at most `2·#running + #blocked` steps, with no goroutine left. -/
theorem no_blocked_task_at_return {s : St} (h : Reachable ⟨true⟩ s) (hp : s.phase = .returned)
    (hc : s.crashed = false) (ho : s.orphaned = []) (hne : s.running ≠ [] ∨ s.blocked ≠ []) :
    (∃ l s', l.isWork = true ∧ step ⟨true⟩ s l = some s') ∧
    (∀ l s', step ⟨true⟩ s l = some s' → l ≠ .start →
      measure s' < measure s ∧ s'.phase = .returned ∧ s'.crashed = false ∧ s'.orphaned = []) := by
  have hb : s.batches = [] := h.inv1.retBatches rfl hp
  constructor
  · by_cases hbl : s.blocked = []
    · have hr : s.running ≠ [] := by
        rcases hne with h1 | h1
        · exact h1
        · exact absurd hbl h1
      obtain ⟨t, r, s', hs⟩ := fin_enabled h.idsOK h.inv1 hc hbl hb ho hr
      exact ⟨_, _, rfl, hs⟩
    · obtain ⟨x, hx⟩ := List.exists_mem_of_ne_nil _ hbl
      obtain ⟨r', hr'⟩ := mem_lookup_isSome (t := x.1) (r := x.2) hx
      exact ⟨.release x.1, took s x.1 r', rfl, by simp [step, hc, hp, hr']⟩
  · intro l s' hs hns
    have hwork : l.isWork = true ∧ s'.phase = .returned ∧ s'.crashed = false ∧ s'.orphaned = [] := by
      cases l with
      | go t dep => obtain ⟨_, hph, _⟩ := step_go hs; simp [hph] at hp
      | batch k i p dep => obtain ⟨_, hph, _⟩ := step_batch hs; simp [hph] at hp
      | chain t ps => obtain ⟨_, hph, _⟩ := step_chain hs; simp [hph] at hp
      | idle => obtain ⟨_, hph, _⟩ := step_idle hs; simp [hph] at hp
      | ret => obtain ⟨_, hph, _⟩ := step_ret hs; simp [hph] at hp
      | idleRet => obtain ⟨_, _, hph, _⟩ := step_idleRet hs; simp [hph] at hp
      | flush rs => obtain ⟨_, hph, _⟩ := step_flush hs; simp [hph] at hp
      | recvBlock t => obtain ⟨_, _, _, hph, _⟩ := step_recvBlock hs; simp [hph] at hp
      | drain t => obtain ⟨_, _, _, hph, _⟩ := step_drain hs; simp [hph] at hp
      | start => exact absurd rfl hns
      | fin t r =>
        obtain ⟨_, _, _, _, _, _, rfl⟩ := step_fin hs
        exact ⟨rfl, hp, hc, ho⟩
      | release t =>
        obtain ⟨r, _, _, _, hl, rfl⟩ := step_release hs
        rw [took_eq h.idsOK (lookup_some_mem hl)]
        exact ⟨rfl, hp, hc, ho⟩
    exact ⟨measure_step h.idsOK hs hwork.1, hwork.2⟩

/-- **all_tasks_exit** (patched code) — from every reachable state after a return there is a
    continuation (bodies returning, blocked tasks leaving through `done`) after which no goroutine of
    the request exists; by `no_blocked_task_at_return` every maximal continuation that does not start
    another execution is of this kind. -/
theorem all_tasks_exit {s : St} (h : Reachable ⟨true⟩ s) (hp : s.phase = .returned)
    (hc : s.crashed = false) (ho : s.orphaned = []) :
    ∃ s', Steps ⟨true⟩ s s' ∧ s'.running = [] ∧ s'.blocked = [] := by
  generalize hn : measure s = n
  induction n using Nat.strongRecOn generalizing s with
  | _ n ih =>
    by_cases hdone : s.running = [] ∧ s.blocked = []
    · exact ⟨s, .refl, hdone.1, hdone.2⟩
    · have hne : s.running ≠ [] ∨ s.blocked ≠ [] := by
        by_cases hr : s.running = []
        · right; intro hb; exact hdone ⟨hr, hb⟩
        · exact Or.inl hr
      obtain ⟨⟨l, s1, hw, hs⟩, hall⟩ := no_blocked_task_at_return h hp hc ho hne
      have hns : l ≠ .start := by intro e; rw [e] at hw; cases hw
      obtain ⟨hlt, hp1, hc1, ho1⟩ := hall l s1 hs hns
      obtain ⟨s', hst, h1, h2⟩ := ih (measure s1) (hn ▸ hlt) (h.step hs) hp1 hc1 ho1 rfl
      exact ⟨s', .cons hs hst, h1, h2⟩

/-- The history of F-15a in the *unpatched* code: one Go task, the request returns (a failing
    non-null sibling), the task's body returns. -/
def f15aHistory : List Label := [.go 0 none, .ret, .fin 0 ⟨5, false⟩]

/-- **no_blocked_task_at_return is false of the unpatched code** (negation witness, F-15a): the
    history above is an execution, it ends after the return with the task offering its resolution,
    and *no* step is enabled in that state except the start of another execution on the same
    apiRequest (graphql-ws; an HTTP request has none) — the goroutine is parked in its send forever. -/
theorem f15a_unfixed_witness :
    ∃ s, runFrom ⟨false⟩ init f15aHistory 0 = .ok s ∧ s.phase = .returned ∧ s.blocked = [(0, ⟨5, false⟩)] ∧
      ∀ l, l ≠ .start → step ⟨false⟩ s l = none := by
  refine ⟨_, rfl, rfl, rfl, ?_⟩
  intro l hl
  cases l <;> simp [step, init] at hl ⊢

/-- The same history in the patched code goes on: the task sees `done` closed, hands its result to
    its own promise and leaves. -/
example : ∃ s, runFrom ⟨true⟩ init (f15aHistory ++ [.release 0]) 0 = .ok s ∧ s.blocked = [] ∧ s.running = [] ∧
    s.delivered = [(0, ⟨5, false⟩)] := ⟨_, rfl, rfl, rfl, rfl⟩

/-- **no_blocked_task_at_return_partial** (both versions of the code) — under the hypothesis that no
    promise was abandoned, i.e. every promise created has been fulfilled, no task is left running or
    blocked in its send (in particular at a normal return). Full statement for the unpatched code
    (false, see `f15a_unfixed_witness`): the same without the hypothesis. -/
theorem no_blocked_task_at_return_partial {c : Cfg} {s : St} (h : Reachable c s)
    (hall : ∀ p, p < s.next → p ∈ s.delivered.map (·.1)) : s.running = [] ∧ s.blocked = [] := by
  have key : ∀ p, (rIds s).count p = 0 ∧ (bIds s).count p = 0 := by
    intro p
    have hcnt := h.idsOK p
    unfold cnt at hcnt
    split at hcnt
    · rename_i hlt
      have : 0 < (dIds s).count p := List.count_pos_iff.mpr (hall p hlt)
      omega
    · omega
  constructor
  · cases hr : s.running with
    | nil => rfl
    | cons t ts =>
      have := (key t.id).1
      simp [rIds, hr] at this
  · cases hb : s.blocked with
    | nil => rfl
    | cons x xs =>
      have := (key x.1).2
      simp [bIds, hb] at this

/-- Non-vacuity of the progress theorems: a chained history (pagination.go: `chain` on a Go promise)
    — the blocking receive loops once for the chained promise and returns after the chain task's. -/
example :
    (match runFrom ⟨true⟩ init [.go 0 none, .chain 1 [0], .idle, .fin 0 ⟨4, false⟩, .recvBlock 0, .fin 1 ⟨9, false⟩,
        .recvBlock 1, .idleRet, .ret] 0 with
     | .ok s => some (s.delivered.map (·.1), s.running.length, s.blocked.length, s.phase)
     | .error _ => none) = some ([1, 0], 0, 0, .returned) := by rfl

/-- **contract_keeps_model_clean** — if every batch function returns exactly one result per field
    context, the two failure flags of the model stay clear: no promise is orphaned (too few results)
    and no flush goroutine panics (too many). This discharges the hypotheses of `idle_progress`,
    `no_blocked_task_at_return` and `all_tasks_exit`. -/
theorem contract_keeps_model_clean {c : Cfg} {s : St} (h : ReachableWF c s) : s.orphaned = [] ∧ s.crashed = false := by
  induction h with
  | init => exact ⟨rfl, rfl⟩
  | @step s s' l hr hwf hs ih =>
    have hi := hr.reachable.idsOK
    cases l with
    | go t dep => obtain ⟨_, _, rfl, rfl, _⟩ := step_go hs; exact ih
    | batch k item p dep => obtain ⟨_, _, rfl, rfl, _⟩ := step_batch hs; exact ih
    | chain t ps => obtain ⟨_, _, rfl, _, rfl⟩ := step_chain hs; exact ih
    | fin t r => obtain ⟨_, _, _, _, _, _, rfl⟩ := step_fin hs; exact ih
    | idle => obtain ⟨_, _, _, rfl⟩ := step_idle hs; exact ih
    | flush rs =>
      obtain ⟨_, _, _, rfl⟩ := step_flush hs
      rw [flushAll_fresh s.wave s.execStart rs s.batches s hi.q_not_delivered hi.q_nodup]
      obtain ⟨h1, h2⟩ := flushOrph_wf rs s.batches hwf
      simp [h1, h2, ih.1, ih.2]
    | recvBlock t =>
      obtain ⟨r, _, _, _, _, hl, rfl⟩ := step_recvBlock hs
      rw [took_eq hi (lookup_some_mem hl)]
      split <;> exact ih
    | drain t =>
      obtain ⟨r, _, _, _, hl, rfl⟩ := step_drain hs
      rw [took_eq hi (lookup_some_mem hl)]; exact ih
    | idleRet => obtain ⟨_, _, _, rfl⟩ := step_idleRet hs; exact ih
    | ret =>
      obtain ⟨_, _, rfl⟩ := step_ret hs
      split
      · rw [finishBatches_eq hi]; exact ih
      · exact ih
    | release t =>
      obtain ⟨r, _, _, _, hl, rfl⟩ := step_release hs
      rw [took_eq hi (lookup_some_mem hl)]; exact ih
    | start => obtain ⟨_, _, rfl⟩ := step_start hs; exact ih

/-- **accepted_is_reachable** — every label sequence the driver `c15model` accepts (`runFrom … = ok s`,
    the acceptor of the correspondence check) ends in a reachable state: the theorems above speak
    about every execution of the real code that the correspondence check accepts. -/
theorem accepted_is_reachable {c : Cfg} (ls : List Label) : ∀ {s0 s : St} {i : Nat}, Reachable c s0 →
    runFrom c s0 ls i = .ok s → Reachable c s := by
  induction ls with
  | nil => intro s0 s i h0 hr; simp [runFrom] at hr; exact hr ▸ h0
  | cons l ls ih =>
    intro s0 s i h0 hr
    simp only [runFrom] at hr
    split at hr
    · cases hr
    · rename_i s1 hs
      exact ih (h0.step hs) hr


/-! ### several executions on one apiRequest (graphql-ws subscriptions) -/

/-- **event_isolation** (patched code) — batches never cross executions: every promise a batch call
    received belongs to the execution whose idle handler made the call (`cl.lo` is that execution's
    first promise id; later promises did not exist yet); calls made before the current execution
    started contain only older promises, calls of the current execution only its own; and whatever is
    pending in `batches` was registered by the current execution. -/
theorem event_isolation {c : Cfg} {s : St} (h : Reachable c s) (hf : c.fixed = true) :
    (∀ cl ∈ s.calls, ∀ p ∈ cl.dests, cl.lo ≤ p) ∧
    (∀ cl ∈ s.calls, s.execWave < cl.wave → ∀ p ∈ cl.dests, s.execStart ≤ p) ∧
    (∀ cl ∈ s.calls, cl.wave ≤ s.execWave → ∀ p ∈ cl.dests, p < s.execStart) ∧
    (∀ b ∈ s.batches, ∀ p ∈ b.dests, s.execStart ≤ p) := by
  have i5 := h.inv5
  refine ⟨i5.callLo hf, ?_, i5.callOld, i5.pendCur hf⟩
  intro cl hcl hlt p hp
  have := i5.callLo hf cl hcl p hp
  rw [i5.callNew cl hcl hlt] at this
  exact this

/-- The history of F-15c in the *unpatched* code: event 0 registers a Batch invocation and returns
    early; event 1 starts on the same apiRequest, starts a Go task and reaches an idle point. -/
def f15cHistory : List Label :=
  [.batch 0 100 0 none, .ret, .start, .go 1 none, .idle, .flush [(0, [⟨7, false⟩])]]

/-- **event_isolation is false of the unpatched code** (negation witness, F-15c): the history above is
    an execution, and the batch call made by event 1's idle handler (`lo = 1`) contains promise 0 of
    event 0. In the patched code the same labels are rejected at the flush: nothing is pending. -/
theorem f15c_unfixed_witness :
    (∃ s cl, runFrom ⟨false⟩ init f15cHistory 0 = .ok s ∧ cl ∈ s.calls ∧ cl.lo = 1 ∧ 0 ∈ cl.dests) ∧
    runFrom ⟨true⟩ init f15cHistory 0 = .error 5 := by
  constructor
  · exact ⟨_, ⟨1, 1, 0, [100], [0], [⟨7, false⟩]⟩, rfl, by decide, rfl, by decide⟩
  · rfl

/-- **event_results_isolated** — what a promise of the current execution holds was produced by the
    current execution: by its own task (a task of the current execution: its id is the promise), by a
    batch call the current execution made, or it is the `finish` error. A resolution of an earlier
    execution's task that a later idle handler happens to receive goes to that task's own promise. -/
theorem event_results_isolated {c : Cfg} {s : St} (h : Reachable c s) :
    ∀ x ∈ s.delivered, s.execStart ≤ x.1 →
      x ∈ s.finished ∨
      (∃ cl ∈ s.calls, s.execWave < cl.wave ∧ ∃ i, ∃ (h1 : i < cl.dests.length) (h2 : i < cl.results.length),
          cl.dests[i] = x.1 ∧ cl.results[i] = x.2) ∨
      (c.fixed = true ∧ returnedOnce s ∧ x.2 = errFinished) := by
  intro x hx hlo
  rcases (delivered_result_right h).1 x hx with h1 | ⟨cl, hcl, i, h1, h2, hd, hr⟩ | h1
  · exact Or.inl h1
  · right; left
    refine ⟨cl, hcl, ?_, i, h1, h2, hd, hr⟩
    apply Nat.lt_of_not_le
    intro hle
    have := h.inv5.callOld cl hcl hle x.1 (hd ▸ List.getElem_mem h1)
    omega
  · exact Or.inr (Or.inr h1)

/-- **stale_tasks_can_leave** (patched code, batch functions keeping their contract) — in *every*
    phase of a later execution: as long as a task of an earlier execution is still running or
    offering its resolution, a step of such a task is enabled — a blocked one sees its own (closed)
    `done` and leaves, or the body of the running one with the least id can return, all its inputs
    being promises of its own, finished execution. No task of a finished execution is ever stuck,
    whatever the current execution does; `finish()` after each event leaves no blocked task behind. -/
theorem stale_tasks_can_leave {s : St} (h : Reachable ⟨true⟩ s) (hc : s.crashed = false) (ho : s.orphaned = [])
    (hst : (∃ t ∈ s.running, t.id < s.execStart) ∨ (∃ x ∈ s.blocked, x.1 < s.execStart)) :
    ∃ t, t < s.execStart ∧ ((∃ s', step ⟨true⟩ s (.release t) = some s') ∨ (∃ r s', step ⟨true⟩ s (.fin t r) = some s')) := by
  by_cases hbl : ∃ x ∈ s.blocked, x.1 < s.execStart
  · obtain ⟨x, hx, hlt⟩ := hbl
    obtain ⟨r', hr'⟩ := mem_lookup_isSome (t := x.1) (r := x.2) hx
    exact ⟨x.1, hlt, Or.inl ⟨took s x.1 r', by simp [step, hc, hlt, hr']⟩⟩
  · have hb : ∀ x ∈ s.blocked, s.execStart ≤ x.1 := by
      intro x hx
      apply Nat.le_of_not_lt
      intro hlt; exact hbl ⟨x, hx, hlt⟩
    have hr : ∃ t ∈ s.running, t.id < s.execStart := by
      rcases hst with h1 | h1
      · exact h1
      · exact absurd h1 hbl
    have hq : ∀ p ∈ qIds s, s.execStart ≤ p := by
      intro p hp
      simp only [qIds, List.mem_flatMap] at hp
      obtain ⟨b, hb', hpb⟩ := hp
      exact h.inv5.pendCur rfl b hb' p hpb
    obtain ⟨t, r, s', hlt, hs⟩ := fin_enabled_below s.execStart h.idsOK h.inv1 hc hb hq ho hr
    exact ⟨t, hlt, Or.inr ⟨r, s', hs⟩⟩

/-- **stale_work_decreases** — each such step strictly decreases the work left over from earlier
    executions (`2·#stale running + #stale blocked`), so every schedule in which bodies return drains
    it completely. -/
theorem stale_work_decreases {s s' : St} {t : Nat} (h : Reachable ⟨true⟩ s) (hlt : t < s.execStart) :
    (step ⟨true⟩ s (.release t) = some s' → staleWork s' < staleWork s) ∧
    (∀ r, step ⟨true⟩ s (.fin t r) = some s' → staleWork s' < staleWork s) := by
  constructor
  · intro hs
    obtain ⟨r, _, _, _, hl, rfl⟩ := step_release hs
    rw [took_eq h.idsOK (lookup_some_mem hl)]
    have := filter_filter_lt (fun x : Nat × Res => x.1) t s.execStart s.blocked ⟨(t, r), lookup_some_mem hl, rfl⟩ hlt
    simp only [staleWork]
    omega
  · intro r hs
    obtain ⟨task, e, _, hf, _, _, rfl⟩ := step_fin hs
    obtain ⟨hm, hid⟩ := find_task hf
    have := filter_filter_lt (fun x : Task => x.id) t s.execStart s.running ⟨task, hm, hid⟩ hlt
    have h2 : decide (t < s.execStart) = true := by simpa using hlt
    simp only [staleWork, List.filter_cons, h2, if_true, List.length_cons]
    omega

/-- **idle_return_fulfils_new_promise** — batch functions keeping their contract: when the idle
    handler is about to return (drain phase), some promise holds a result that it did not hold when
    the handler was entered (`snap`): every invocation of the real idle handler fulfils a non-empty
    set of promises that were outstanding — it is a schedule in the sense of C02's executor model
    (`ApiFu/C02`: "every round fulfils a non-empty subset of the outstanding promises"), with the one
    difference that the promise may be one consumed by pagination.go's chain/join goroutine instead of
    by the executor (then the flush delivered it; `idle_returns_only_after_progress`). -/
theorem idle_return_fulfils_new_promise {c : Cfg} {s : St} (h : ReachableWF c s) (hp : s.phase = .drain) :
    ∃ x ∈ s.delivered, x.1 ∉ s.snap.map (·.1) := by
  obtain ⟨l, hne, hl⟩ := h.invC.drainNew hp
  obtain ⟨x, hx⟩ := List.exists_mem_of_ne_nil l hne
  refine ⟨x, by rw [hl]; exact List.mem_append_left _ hx, ?_⟩
  have hn := (delivered_result_right h.reachable).2.1
  rw [hl, List.map_append, List.nodup_append] at hn
  intro hin
  exact hn.2.2 x.1 (List.mem_map_of_mem hx) x.1 hin rfl

/-- **idle_invocations_le_promises** — the executor's loop `for !done { IdleHandler(); f.Poll() }`
    runs at most once per promise: the number of idle-handler invocations that have returned is at
    most the number of fulfilled promises, which is at most the number of promises created (C02's
    `idle_rounds_le_promises`, here for the real handler and counting pagination.go's promises too). -/
theorem idle_invocations_le_promises {c : Cfg} {s : St} (h : ReachableWF c s) :
    s.wave ≤ s.delivered.length + (if s.phase = .top then 1 else 0) ∧ s.delivered.length ≤ s.next :=
  ⟨h.invC.waveLe, delivered_le_next h.reachable⟩

/-- **potential_step** — batch functions keeping their contract: every step that is not a resolver
    call or the start of another execution strictly decreases the potential; a resolver call adds at
    most 5, a start at most 2. -/
theorem potential_step {c : Cfg} {s s' : St} {l : Label} (h : ReachableWF c s) (hwf : l.wellFormedAt s)
    (hs : step c s l = some s') : potential s' + l.cost ≤ potential s + l.gain := by
  have hi := h.reachable.idsOK
  have hd := delivered_le_next h.reachable
  have hd' := delivered_le_next (h.reachable.step hs)
  cases l with
  | go t dep =>
    obtain ⟨_, hph, rfl, rfl, _⟩ := step_go hs
    simp only [potential, measure, Label.gain, Label.cost, List.length_cons, hph, phaseRank] at hd' ⊢
    omega
  | chain t ps =>
    obtain ⟨_, hph, rfl, _, rfl⟩ := step_chain hs
    simp only [potential, measure, Label.gain, Label.cost, List.length_cons, hph, phaseRank] at hd' ⊢
    omega
  | batch k item p dep =>
    obtain ⟨_, hph, rfl, rfl, _⟩ := step_batch hs
    have := addToBatch_length s.batches k item s.next
    simp only [potential, measure, Label.gain, Label.cost, hph, phaseRank] at hd' ⊢
    omega
  | fin t r =>
    have hm := measure_step hi hs rfl
    obtain ⟨_, _, _, _, _, _, rfl⟩ := step_fin hs
    simp only [potential, Label.gain, Label.cost] at hm ⊢
    omega
  | idle =>
    obtain ⟨_, hph, _, rfl⟩ := step_idle hs
    simp only [potential, measure, Label.gain, Label.cost, hph, phaseRank]
    omega
  | flush rs =>
    obtain ⟨_, hph, hne, rfl⟩ := step_flush hs
    rw [flushAll_fresh s.wave s.execStart rs s.batches s hi.q_not_delivered hi.q_nodup] at hd' ⊢
    have hF := flushDel_ne rs s.batches hne h.invC.batchDests hwf
    have hlen : 0 < (flushDel rs s.batches).length := List.length_pos_iff.mpr hF
    have hb : 0 < s.batches.length := List.length_pos_iff.mpr hne
    simp only [potential, measure, Label.gain, Label.cost, hph, phaseRank, List.length_append, List.length_nil] at hd' ⊢
    omega
  | recvBlock t =>
    obtain ⟨r, _, _, hph, _, hl, rfl⟩ := step_recvBlock hs
    have hm := lookup_some_mem hl
    have hlt : s.delivered.length < s.next := by
      have e := took_eq hi hm
      split at hd' <;> (rw [e] at hd'; simp only [List.length_cons] at hd'; omega)
    have hp := potential_took hi hm hlt
    have e := took_eq hi hm
    split
    · have hph' : (took s t r).phase = s.phase := by rw [e]
      simp only [potential, measure, Label.gain, Label.cost, hph', hph, phaseRank] at hp ⊢
      omega
    · simp only [potential, measure, Label.gain, Label.cost, hph, phaseRank] at hp ⊢
      omega
  | drain t =>
    obtain ⟨r, _, _, hph, hl, rfl⟩ := step_drain hs
    have hm := lookup_some_mem hl
    have e := took_eq hi hm
    have hlt : s.delivered.length < s.next := by
      rw [e] at hd'; simp only [List.length_cons] at hd'; omega
    have hp := potential_took hi hm hlt
    have hph' : (took s t r).phase = s.phase := by rw [e]
    simp only [potential, Label.gain, Label.cost, hph'] at hp ⊢
    omega
  | idleRet =>
    obtain ⟨_, _, hph, rfl⟩ := step_idleRet hs
    simp only [potential, measure, Label.gain, Label.cost, hph, phaseRank]
    omega
  | ret =>
    obtain ⟨_, hph, rfl⟩ := step_ret hs
    split
    · rw [finishBatches_eq hi] at hd' ⊢
      simp only [potential, measure, Label.gain, Label.cost, hph, phaseRank, List.length_append, List.length_nil] at hd' ⊢
      omega
    · simp only [potential, measure, Label.gain, Label.cost, hph, phaseRank]
      omega
  | release t =>
    obtain ⟨r, _, _, _, hl, rfl⟩ := step_release hs
    have hm := lookup_some_mem hl
    have e := took_eq hi hm
    have hlt : s.delivered.length < s.next := by
      rw [e] at hd'; simp only [List.length_cons] at hd'; omega
    have hp := potential_took hi hm hlt
    have hph' : (took s t r).phase = s.phase := by rw [e]
    simp only [potential, Label.gain, Label.cost, hph'] at hp ⊢
    omega
  | start =>
    obtain ⟨_, hph, rfl⟩ := step_start hs
    simp only [potential, measure, Label.gain, Label.cost, hph, phaseRank]
    omega


theorem run_potential {c : Cfg} {s s' : St} {ls : List Label} (hr : RunWF c s ls s') (h : ReachableWF c s) :
    potential s' + (ls.map Label.cost).sum ≤ potential s + (ls.map Label.gain).sum := by
  induction hr with
  | nil => simp
  | cons hwf hs _ ih =>
    have h1 := potential_step h hwf hs
    have h2 := ih (h.step hwf hs)
    simp only [List.map_cons, List.sum_cons]
    omega

/-- **request_completes** — the real idle handler composed with the executor's loop
    (`wait`: `f.Poll(); for !done { e.IdleHandler(); f.Poll() }`, abstractly: resolver calls in the
    exec phase, `idle` only while an awaited promise is outstanding, `ret`), for every interleaving
    with the background goroutines, batch functions keeping their contract. For every run from the
    initial state:
    (1) *no livelock*: the steps that are not resolver calls (or starts of further executions) number
        at most `2 + 5·#resolver calls + 2·#starts` — the handler's loops, the receives, the handler
        invocations themselves and the task steps are all paid for by the promises created;
    (2) *no deadlock*: while the handler is inside, a step is enabled (flush / receive / a task body
        whose inputs are fulfilled; in the drain phase its return) — so, bodies terminating, every
        invocation returns;
    (3) the handler has been invoked at most once per fulfilled promise (`+1` while it is inside).
    Hence an execution whose resolvers are called finitely often (the executor's side, C02
    `execution_terminates`) returns. -/
theorem request_completes {c : Cfg} {s : St} {ls : List Label} (hr : RunWF c init ls s) :
    (ls.map Label.cost).sum ≤ 2 + (ls.map Label.gain).sum ∧
    (s.phase = .top → (∃ rs s', step c s (.flush rs) = some s') ∨ (∃ t s', step c s (.recvBlock t) = some s') ∨
                      (∃ t r s', step c s (.fin t r) = some s')) ∧
    (s.phase = .drain → ∃ s', step c s .idleRet = some s') ∧
    s.wave ≤ s.delivered.length + 1 ∧ s.delivered.length ≤ s.next := by
  have hw : ReachableWF c s := hr.reachable .init
  obtain ⟨ho, hc⟩ := contract_keeps_model_clean hw
  have hp := run_potential hr .init
  have hi := idle_progress hw.reachable hc ho
  have hv := idle_invocations_le_promises hw
  refine ⟨?_, hi.1, hi.2, ?_, hv.2⟩
  · have : potential init = 2 := rfl
    omega
  · have := hv.1
    split at this <;> omega

/-- **single_consumer** — a promise is a one-slot channel, so a result can be received once. In every
    reachable state no promise is read by two chain/join tasks (`consumed` lists the inputs of all of
    them, without repetition), the promises the idle handler treats as chained are among them, and —
    with `InvTop` — the executor never waits for one of them. This is what allows the model to keep
    `delivered` as a log instead of emptying buffers; an execution in which pagination.go hands one
    promise to two chain calls (seeded change C15-5: a memoised edge promise shared by `totalCount` and
    `pageInfo`) is not an execution of the model — the acceptor rejects the second `chain` label. -/
theorem single_consumer {c : Cfg} {s : St} (h : Reachable c s) :
    s.consumed.Nodup ∧ (∀ p ∈ s.chained, p ∈ s.consumed) ∧
    (∀ t ∈ s.running, ∀ p ∈ t.waits, p < t.id) := ⟨h.invK.nodup, h.invK.chainedSub, h.inv1.waits⟩

/-- The acceptor on the shape of C15-5: the second chain on promise 0 is label 2. -/
example : runFrom ⟨true⟩ init [.go 0 none, .chain 1 [0], .chain 2 [0]] 0 = .error 2 := by rfl


end ApiFu.C15
