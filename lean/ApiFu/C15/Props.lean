import ApiFu.C15.Model
namespace ApiFu.C15
end ApiFu.C15
