/-
  C07 — layout lemmas: a well-formed lexeme is read the same when text that `canFollow` it is appended.
-/
import ApiFu.C07.LayoutLemmas

namespace ApiFu.C07.Layout

open ApiFu.C07

/-! ## Strings: the recognisers stop at the closing quotes, whatever follows -/

theorem hexPrefix_mono : ∀ (n : Nat) (w t : List Nat) (code c : Nat),
    hexPrefix n w code = some c → hexPrefix n (w ++ t) code = some c
  | 0, _, _, _, _, h => by simpa [hexPrefix] using h
  | n + 1, [], _, _, _, h => by simp [hexPrefix] at h
  | n + 1, x :: r, t, code, c, h => by
    simp only [hexPrefix, List.cons_append] at h ⊢
    cases hv : hexRuneValue x with
    | none => rw [hv] at h; cases h
    | some v => rw [hv] at h; exact hexPrefix_mono n r t _ c h

theorem string_mono : ∀ (fuel : Nat) (w t : List Nat) (n : Nat) (v : List Nat), w.length ≤ fuel →
    Spec.stringBody? w = some (n, v) → Spec.stringBody? (w ++ t) = some (n, v)
  | 0, w, t, n, v, hf, h => by
    have : w = [] := List.length_eq_zero_iff.mp (by omega)
    rw [this, stringBody_nil] at h; cases h
  | fuel + 1, [], t, n, v, _, h => by rw [stringBody_nil] at h; cases h
  | fuel + 1, c :: rest, t, n, v, hf, h => by
    rw [List.cons_append]
    by_cases hq : c = 34
    · subst hq
      rw [stringBody_quote] at h ⊢; exact h
    · by_cases hb : c = 92
      · subst hb
        cases rest with
        | nil => rw [stringBody_bs_nil] at h; cases h
        | cons e rest1 =>
          rw [List.cons_append]
          by_cases hu : e = 117
          · subst hu
            rw [stringBody_u] at h ⊢
            cases hp : hexPrefix 4 rest1 0 with
            | none => rw [hp] at h; cases h
            | some code =>
              rw [hp] at h
              rw [hexPrefix_mono 4 rest1 t 0 code hp]
              simp only [Option.bind_some] at h ⊢
              have hlen := hexPrefix_length 4 rest1 0 code hp
              rw [List.drop_append_of_le_length hlen]
              cases hb : Spec.stringBody? (rest1.drop 4) with
              | none => rw [hb] at h; cases h
              | some p =>
                rw [string_mono fuel (rest1.drop 4) t p.1 p.2 (by simp at hf ⊢; omega) hb]
                rw [hb] at h; exact h
          · rw [stringBody_esc _ hu] at h ⊢
            cases he : Spec.escapedCharacter? e with
            | none => rw [he] at h; cases h
            | some x =>
              rw [he] at h
              simp only [Option.bind_some] at h ⊢
              cases hb : Spec.stringBody? rest1 with
              | none => rw [hb] at h; cases h
              | some p =>
                rw [string_mono fuel rest1 t p.1 p.2 (by simp at hf ⊢; omega) hb]
                rw [hb] at h; exact h
      · rw [stringBody_char _ hq hb] at h ⊢
        split at h
        · rename_i hs
          rw [if_pos hs]
          cases hb' : Spec.stringBody? rest with
          | none => rw [hb'] at h; cases h
          | some p =>
            rw [string_mono fuel rest t p.1 p.2 (by simpa using hf) hb']
            rw [hb'] at h; exact h
        · cases h

theorem blockBody_short {w : List Nat} (h : w.length < 3) : Spec.blockBody? w = none := by
  rcases w with _ | ⟨a, _ | ⟨b, _ | ⟨c, r⟩⟩⟩
  · exact blockBody_nil
  · rw [blockBody_other [] (by simp) (by simp)]; simp [blockBody_nil]
  · rw [blockBody_other [b] (by simp) (by simp)]
    split
    · rw [blockBody_other [] (by simp) (by simp)]; simp [blockBody_nil]
    · rfl
  · simp at h; omega

theorem block_mono : ∀ (fuel : Nat) (w t : List Nat) (n : Nat) (v : List Nat), w.length ≤ fuel →
    Spec.blockBody? w = some (n, v) → Spec.blockBody? (w ++ t) = some (n, v)
  | 0, w, t, n, v, hf, h => by
    have : w = [] := List.length_eq_zero_iff.mp (by omega)
    rw [this, blockBody_nil] at h; cases h
  | fuel + 1, [], t, n, v, _, h => by rw [blockBody_nil] at h; cases h
  | fuel + 1, c :: rest, t, n, v, hf, h => by
    rw [List.cons_append]
    have hlen : 3 ≤ (c :: rest).length := by
      by_cases hl : (c :: rest).length < 3
      · rw [blockBody_short hl] at h; cases h
      · omega
    have hr2 : 2 ≤ rest.length := by simpa using hlen
    have ht2 : (rest ++ t).take 2 = rest.take 2 := List.take_append_of_le_length hr2
    by_cases h1 : c = 34 ∧ rest.take 2 = [34, 34]
    · obtain ⟨rfl, ht⟩ := h1
      obtain ⟨rest', rfl⟩ : ∃ rest', rest = 34 :: 34 :: rest' := by
        rcases rest with _ | ⟨a, _ | ⟨b, r⟩⟩ <;> simp at ht
        exact ⟨r, by rw [ht.1, ht.2]⟩
      simp only [List.cons_append]
      rw [blockBody_close] at h ⊢; exact h
    · by_cases h2 : c = 92 ∧ rest.take 3 = [34, 34, 34]
      · obtain ⟨rfl, ht⟩ := h2
        obtain ⟨rest', rfl⟩ : ∃ rest', rest = 34 :: 34 :: 34 :: rest' := by
          rcases rest with _ | ⟨a, _ | ⟨b, _ | ⟨d, r⟩⟩⟩ <;> simp at ht
          exact ⟨r, by rw [ht.1, ht.2.1, ht.2.2]⟩
        simp only [List.cons_append]
        rw [blockBody_esc] at h ⊢
        cases hb : Spec.blockBody? rest' with
        | none => rw [hb] at h; cases h
        | some p =>
          rw [block_mono fuel rest' t p.1 p.2 (by simp at hf ⊢; omega) hb]
          rw [hb] at h; exact h
      · rw [blockBody_other rest h1 h2] at h
        -- the shorter text already had no closing / escape here; it needs at least three more characters
        cases hb : Spec.blockBody? rest with
        | none => rw [hb] at h; split at h <;> cases h
        | some p =>
          have hr3 : 3 ≤ rest.length := by
            by_cases hl : rest.length < 3
            · rw [blockBody_short hl] at hb; cases hb
            · omega
          have ht3 : (rest ++ t).take 3 = rest.take 3 := List.take_append_of_le_length hr3
          rw [blockBody_other (rest ++ t) (by rw [ht2]; exact h1) (by rw [ht3]; exact h2)]
          rw [block_mono fuel rest t p.1 p.2 (by simpa using hf) hb]
          rw [hb] at h; exact h

/-- The StringValue alternative is stable unless the empty string `""` is followed by `"`. -/
theorem specString_stable (rest next : List Nat) {k : Kind} {v : List Nat}
    (h : specString rest = some (k, rest.length + 1, v))
    (hc : ¬ (rest = [34] ∧ next.head? = some 34)) :
    specString (rest ++ next) = some (k, rest.length + 1, v) := by
  unfold specString at h ⊢
  by_cases ht : rest.take 2 = [34, 34]
  · rw [if_pos ht] at h
    have hr2 : 2 ≤ rest.length := by
      rcases rest with _ | ⟨a, _ | ⟨b, r⟩⟩ <;> simp at ht ⊢
    rw [List.take_append_of_le_length hr2, if_pos ht, List.drop_append_of_le_length hr2]
    cases hb : Spec.blockBody? (rest.drop 2) with
    | none => rw [hb] at h; cases h
    | some p =>
      rw [block_mono _ _ next p.1 p.2 (Nat.le_refl _) hb]
      rw [hb] at h; exact h
  · rw [if_neg ht] at h
    cases hb : Spec.stringBody? rest with
    | none => rw [hb] at h; cases h
    | some p =>
      have hm := string_mono _ _ next p.1 p.2 (Nat.le_refl _) hb
      rw [hb] at h
      have ht' : (rest ++ next).take 2 ≠ [34, 34] := by
        rcases rest with _ | ⟨a, _ | ⟨b, r⟩⟩
        · rw [stringBody_nil] at hb; cases hb
        · -- one character: it is the closing quote
          simp only [Option.map_some, Option.some.injEq, Prod.mk.injEq, List.length_cons, List.length_nil] at h
          have ha : a = 34 := by
            by_cases ha : a = 34
            · exact ha
            · exfalso
              by_cases hb92 : a = 92
              · subst hb92; rw [stringBody_bs_nil] at hb; cases hb
              · rw [stringBody_char [] ha hb92, stringBody_nil] at hb
                split at hb <;> cases hb
          subst ha
          cases next with
          | nil => simp
          | cons d r =>
            have : d ≠ 34 := fun hd => hc ⟨rfl, by simp [hd]⟩
            simp [this]
        · simpa using ht
      rw [if_neg ht', hm]
      exact h

/-! ## Greedy runs under appending -/

/-- `t` is empty or starts with a character that fails `p`. -/
def Stops (p : Nat → Bool) (t : List Nat) : Prop := t = [] ∨ ∃ c r, t = c :: r ∧ p c = false

theorem tw_len (p : Nat → Bool) : ∀ (a b : List Nat),
    ((a.takeWhile p).length < a.length ∨ Stops p b) → ((a ++ b).takeWhile p).length = (a.takeWhile p).length
  | [], b, h => by
    rcases h with h | h | ⟨c, r, rfl, hc⟩
    · simp at h
    · subst h; rfl
    · simp [hc]
  | x :: xs, b, h => by
    by_cases hx : p x = true
    · simp only [List.cons_append, List.takeWhile_cons, hx, if_true, List.length_cons] at h ⊢
      rw [tw_len p xs b (by rcases h with h | h; exact .inl (by omega); exact .inr h)]
    · simp [hx]

theorem all_of_tw_length {p : Nat → Bool} : ∀ {w : List Nat}, (w.takeWhile p).length = w.length → w.all p = true
  | [], _ => rfl
  | x :: xs, h => by
    by_cases hx : p x = true
    · simp only [List.takeWhile_cons, hx, if_true, List.length_cons] at h
      have hlen : (xs.takeWhile p).length = xs.length := by omega
      have := all_of_tw_length (p := p) (w := xs) hlen
      simp only [List.all_cons, hx, this, Bool.and_self]
    · simp [hx] at h

/-! ## Names -/

theorem name_stable {w next : List Nat} (h : Spec.name? w = some w.length) (hs : Stops Spec.isNameContinue next) :
    Spec.name? (w ++ next) = some w.length := by
  cases w with
  | nil => simp [Spec.name?] at h
  | cons c rest =>
    simp only [Spec.name?, List.cons_append] at h ⊢
    split at h
    · rename_i hc
      rw [if_pos hc]
      simp only [Option.some.injEq, List.length_cons] at h
      rw [tw_len _ rest next (.inr hs)]
      simpa using h
    · cases h

/-! ## Numbers -/

abbrev StopsD := Stops Spec.isDigit

theorem unsigned_stable {u t : List Nat} {k : Nat} (h : Spec.unsignedIntegerPart? u = some k)
    (hc : k < u.length ∨ u = [48] ∨ StopsD t) : Spec.unsignedIntegerPart? (u ++ t) = some k := by
  cases u with
  | nil => simp [Spec.unsignedIntegerPart?] at h
  | cons c r =>
    simp only [Spec.unsignedIntegerPart?, List.cons_append] at h ⊢
    split at h
    · rename_i h0; rw [if_pos h0]; exact h
    · rename_i h0
      rw [if_neg h0]
      split at h
      · rename_i hnz
        rw [if_pos hnz]
        simp only [Option.some.injEq] at h ⊢
        rw [tw_len _ r t ?_]; exact h
        rcases hc with hc | hc | hc
        · left; simp at hc; omega
        · simp at hc; exact absurd hc.1 (by simpa using h0)
        · exact .inr hc
      · cases h

theorem integer_stable {w t : List Nat} {k : Nat} (h : Spec.integerPart? w = some k)
    (hc : k < w.length ∨ w = [48] ∨ w = [45, 48] ∨ StopsD t) : Spec.integerPart? (w ++ t) = some k := by
  cases w with
  | nil => simp [Spec.integerPart?] at h
  | cons c r =>
    simp only [Spec.integerPart?, List.cons_append] at h ⊢
    split at h
    · rename_i hm
      rw [if_pos hm]
      cases hu : Spec.unsignedIntegerPart? r with
      | none => rw [hu] at h; cases h
      | some m =>
        rw [hu] at h
        simp only [Option.map_some, Option.some.injEq] at h
        rw [unsigned_stable hu ?_]
        · simpa using h
        · rcases hc with hc | hc | hc | hc
          · left; simp at hc; omega
          · simp at hc; rw [hc.1] at hm; simp at hm
          · right; left; simp at hc; exact hc.2
          · exact .inr (.inr hc)
    · rename_i hm
      rw [if_neg hm]
      have := unsigned_stable (t := t) h (by
        rcases hc with hc | hc | hc | hc
        · exact .inl hc
        · exact .inr (.inl hc)
        · simp at hc; exact absurd hc.1 (by simpa using hm)
        · exact .inr (.inr hc))
      simpa using this

theorem fractional_stable {u t : List Nat} {k : Nat} (h : Spec.fractionalPart? u = some k)
    (hc : k < u.length ∨ StopsD t) : Spec.fractionalPart? (u ++ t) = some k := by
  rcases u with _ | ⟨c, _ | ⟨d, r⟩⟩
  · simp [Spec.fractionalPart?] at h
  · simp [Spec.fractionalPart?] at h
  · simp only [Spec.fractionalPart?, List.cons_append] at h ⊢
    split at h
    · rename_i hcd
      rw [if_pos hcd]
      simp only [Option.some.injEq] at h ⊢
      rw [tw_len _ r t ?_]; exact h
      rcases hc with hc | hc
      · left; simp at hc; omega
      · exact .inr hc
    · cases h

theorem digits1_stable {u t : List Nat} {k : Nat} (h : Spec.digits1? u = some k)
    (hc : k < u.length ∨ StopsD t) : Spec.digits1? (u ++ t) = some k := by
  cases u with
  | nil => simp [Spec.digits1?] at h
  | cons d r =>
    simp only [Spec.digits1?, List.cons_append] at h ⊢
    split at h
    · rename_i hd
      rw [if_pos hd]
      simp only [Option.some.injEq] at h ⊢
      rw [tw_len _ r t ?_]; exact h
      rcases hc with hc | hc
      · left; simp at hc; omega
      · exact .inr hc
    · cases h

theorem exponent_stable {u t : List Nat} {k : Nat} (h : Spec.exponentPart? u = some k)
    (hc : k < u.length ∨ StopsD t) : Spec.exponentPart? (u ++ t) = some k := by
  cases u with
  | nil => simp [Spec.exponentPart?] at h
  | cons e r =>
    by_cases he : e = 101 ∨ e = 69
    · rw [List.cons_append, exponentPart_at he]
      rw [exponentPart_at he] at h
      cases r with
      | nil => cases h
      | cons sg r' =>
        simp only [List.cons_append] at h ⊢
        split at h
        · rename_i hsg
          rw [if_pos hsg]
          cases hd : Spec.digits1? r' with
          | none => rw [hd] at h; cases h
          | some m =>
            rw [hd] at h
            simp only [Option.map_some, Option.some.injEq] at h
            rw [digits1_stable hd ?_]
            · simpa using h
            · rcases hc with hc | hc
              · left; simp at hc; omega
              · exact .inr hc
        · rename_i hsg
          rw [if_neg hsg]
          cases hd : Spec.digits1? (sg :: r') with
          | none => rw [hd] at h; cases h
          | some m =>
            rw [hd] at h
            simp only [Option.map_some, Option.some.injEq] at h
            have := digits1_stable (t := t) hd ?_
            · rw [List.cons_append] at this; rw [this]; simpa using h
            · rcases hc with hc | hc
              · left; simp at hc ⊢; omega
              · exact .inr hc
    · rw [exponentPart_not he] at h; cases h

theorem exponent_pos {u : List Nat} {k : Nat} (h : Spec.exponentPart? u = some k) : 2 ≤ k ∧ ∃ e r, u = e :: r ∧ (e = 101 ∨ e = 69) := by
  cases u with
  | nil => simp [Spec.exponentPart?] at h
  | cons e r =>
    by_cases he : e = 101 ∨ e = 69
    · refine ⟨?_, e, r, rfl, he⟩
      rw [exponentPart_at he] at h
      cases r with
      | nil => cases h
      | cons sg r' =>
        simp only at h
        have d1 : ∀ {x : List Nat} {m : Nat}, Spec.digits1? x = some m → 1 ≤ m := by
          intro x m hm
          cases x with
          | nil => simp [Spec.digits1?] at hm
          | cons d r => simp only [Spec.digits1?] at hm; split at hm <;> cases hm; omega
        split at h
        · cases hd : Spec.digits1? r' with
          | none => rw [hd] at h; cases h
          | some m =>
            rw [hd] at h
            simp only [Option.map_some, Option.some.injEq] at h
            have := d1 hd; omega
        · cases hd : Spec.digits1? (sg :: r') with
          | none => rw [hd] at h; cases h
          | some m =>
            rw [hd] at h
            simp only [Option.map_some, Option.some.injEq] at h
            have := d1 hd; omega
    · rw [exponentPart_not he] at h; cases h

theorem fractional_pos {u : List Nat} {k : Nat} (h : Spec.fractionalPart? u = some k) : 2 ≤ k := by
  rcases u with _ | ⟨c, _ | ⟨d, r⟩⟩
  · simp [Spec.fractionalPart?] at h
  · simp [Spec.fractionalPart?] at h
  · simp only [Spec.fractionalPart?] at h
    split at h <;> cases h; omega

theorem no_exp_of_chars {v : List Nat} (h : ∀ c ∈ v, c = 45 ∨ c = 46 ∨ Spec.isDigit c = true) : hasExponent v = false := by
  unfold hasExponent
  rw [List.any_eq_false]
  intro c hc
  rcases h c hc with h | h | h
  · subst h; decide
  · subst h; decide
  · simp only [Spec.isDigit, Bool.and_eq_true, decide_eq_true_eq, Spec.ch0] at h
    have : '9'.toNat = 57 := rfl
    simp; omega

theorem integerPart_chars {v : List Nat} (h : Spec.IntegerPart v) : ∀ c ∈ v, c = 45 ∨ c = 46 ∨ Spec.isDigit c = true := by
  have un : ∀ x, Spec.UnsignedIntegerPart x → ∀ c ∈ x, Spec.isDigit c = true := by
    intro x hx c hc
    cases hx with
    | zero => simp at hc; subst hc; decide
    | nonZero d ds hnz hds =>
      rcases List.mem_cons.mp hc with rfl | hc
      · simp only [Spec.isNonZeroDigit, Bool.and_eq_true, decide_eq_true_eq] at hnz
        simp only [Spec.isDigit, Bool.and_eq_true, decide_eq_true_eq, Spec.ch0]
        have : '1'.toNat = 49 := rfl
        have : '9'.toNat = 57 := rfl
        omega
      · exact hds c hc
  intro c hc
  rcases h with h | ⟨x, hx, rfl⟩
  · exact .inr (.inr (un v h c hc))
  · rcases List.mem_cons.mp hc with rfl | hc
    · exact .inl rfl
    · exact .inr (.inr (un x hx c hc))

theorem fractionalPart_chars {v : List Nat} (h : Spec.FractionalPart v) : ∀ c ∈ v, c = 45 ∨ c = 46 ∨ Spec.isDigit c = true := by
  obtain ⟨d, ds, hd, hds, rfl⟩ := h
  intro c hc
  simp only [List.mem_cons] at hc
  rcases hc with rfl | rfl | hc
  · exact .inr (.inl rfl)
  · exact .inr (.inr hd)
  · exact .inr (.inr (hds c hc))

def isExpHead : List Nat → Bool
  | c :: _ => c == 101 || c == 69
  | [] => false

def numberCore (ip : Nat) (fpo epo : Option Nat) (d1 : Bool) : Option (Bool × Nat) :=
  match epo with
  | some ep => some (true, ip + fpo.getD 0 + ep)
  | none => if d1 then none else some (fpo.isSome, ip + fpo.getD 0)

/-- `number?` in a form where each recogniser call is visible. -/
theorem number_eq (w : List Nat) :
    Spec.number? w =
      match Spec.integerPart? w with
      | none => none
      | some ip =>
        numberCore ip (Spec.fractionalPart? (w.drop ip))
          (Spec.exponentPart? (w.drop (ip + (Spec.fractionalPart? (w.drop ip)).getD 0)))
          (isExpHead (w.drop (ip + (Spec.fractionalPart? (w.drop ip)).getD 0))) := by
  unfold Spec.number?
  cases Spec.integerPart? w with
  | none => rfl
  | some ip =>
    simp only
    cases hfp : Spec.fractionalPart? (w.drop ip) with
    | none =>
      simp only [Option.getD_none, Nat.add_zero, numberCore, Option.isSome_none]
      cases Spec.exponentPart? (w.drop ip) with
      | some ep => rfl
      | none =>
        simp only
        cases w.drop ip with
        | nil => simp [isExpHead]
        | cons c r => simp [isExpHead]
    | some fp =>
      simp only [Option.getD_some, numberCore, Option.isSome_some]
      cases Spec.exponentPart? (w.drop (ip + fp)) with
      | some ep => rfl
      | none =>
        simp only
        cases w.drop (ip + fp) with
        | nil => simp [isExpHead]
        | cons c r => simp [isExpHead]

/-- A number that is the whole text `w` is read the same when `next` is appended, provided `next`
    respects the three clauses of the table. -/
theorem number_stable {w next : List Nat} {f : Bool} (h : Spec.number? w = some (f, w.length))
    (hD : ∀ c r, next = c :: r → Spec.isDigit c = true → f = false ∧ (w = [48] ∨ w = [45, 48]))
    (hE : ∀ c r, next = c :: r → (c = 101 ∨ c = 69) → f = true ∧ hasExponent w = true)
    (hDot : ∀ d r, next = 46 :: d :: r → Spec.isDigit d = true → f = true) :
    Spec.number? (w ++ next) = some (f, w.length) := by
  have stopsOf : (f = true ∨ ¬ (w = [48] ∨ w = [45, 48])) → StopsD next := by
    intro hf
    cases next with
    | nil => exact .inl rfl
    | cons c r =>
      right
      refine ⟨c, r, rfl, ?_⟩
      cases hd : Spec.isDigit c with
      | false => rfl
      | true =>
        obtain ⟨h1, h2⟩ := hD c r rfl hd
        rcases hf with hf | hf
        · rw [h1] at hf; cases hf
        · exact absurd h2 hf
  have noE : (f = false ∨ hasExponent w = false) → isExpHead next = false := by
    intro hf
    cases next with
    | nil => rfl
    | cons c r =>
      cases hc : isExpHead (c :: r) with
      | false => rfl
      | true =>
        simp only [isExpHead, Bool.or_eq_true, beq_iff_eq] at hc
        obtain ⟨h1, h2⟩ := hE c r rfl hc
        rcases hf with hf | hf
        · rw [h1] at hf; cases hf
        · rw [h2] at hf; cases hf
  have expNone : isExpHead next = false → Spec.exponentPart? next = none := by
    intro hh
    apply Spec.exponent_none_of_head
    intro c r hc
    subst hc
    simpa [isExpHead] using hh
  rw [number_eq] at h ⊢
  cases hip : Spec.integerPart? w with
  | none => rw [hip] at h; cases h
  | some ip =>
    rw [hip] at h
    simp only at h
    have hipl := integerPart_le hip
    obtain ⟨hiw, _, hip1⟩ := Spec.integer_sound hip
    -- the three recogniser calls and the D1 test give the same answers on `w ++ next`
    suffices hall : Spec.integerPart? (w ++ next) = some ip ∧
        Spec.fractionalPart? (w.drop ip ++ next) = Spec.fractionalPart? (w.drop ip) ∧
        Spec.exponentPart? (w.drop (ip + (Spec.fractionalPart? (w.drop ip)).getD 0) ++ next) =
          Spec.exponentPart? (w.drop (ip + (Spec.fractionalPart? (w.drop ip)).getD 0)) ∧
        (Spec.exponentPart? (w.drop (ip + (Spec.fractionalPart? (w.drop ip)).getD 0)) = none →
          isExpHead (w.drop (ip + (Spec.fractionalPart? (w.drop ip)).getD 0) ++ next) =
          isExpHead (w.drop (ip + (Spec.fractionalPart? (w.drop ip)).getD 0))) ∧
        ip + (Spec.fractionalPart? (w.drop ip)).getD 0 ≤ w.length by
      obtain ⟨e1, e2, e3, e4, e5⟩ := hall
      rw [e1]
      simp only
      rw [List.drop_append_of_le_length hipl, e2, List.drop_append_of_le_length e5, e3]
      cases hep : Spec.exponentPart? (w.drop (ip + (Spec.fractionalPart? (w.drop ip)).getD 0)) with
      | some ep => rw [hep] at h; exact h
      | none => rw [hep] at h; rw [e4 hep]; exact h
    cases hfp : Spec.fractionalPart? (w.drop ip) with
    | none =>
      rw [hfp] at h
      simp only [Option.getD_none, Nat.add_zero] at h ⊢
      cases hep : Spec.exponentPart? (w.drop ip) with
      | some ep =>
        rw [hep] at h
        simp only [numberCore, Option.getD_none, Nat.add_zero, Option.some.injEq, Prod.mk.injEq] at h
        obtain ⟨hf, hn⟩ := h
        obtain ⟨hep2, e, r, hu, he⟩ := exponent_pos hep
        refine ⟨integer_stable hip (.inl (by omega)), ?_, exponent_stable hep (.inr (stopsOf (.inl hf.symm))),
          (fun hh => by cases hh), hipl⟩
        apply Spec.fractional_none_of_head
        intro c r' hc
        rw [hu] at hc
        simp at hc
        rcases he with he | he <;> simp [← hc.1, he]
      | none =>
        rw [hep] at h
        simp only [numberCore, Option.getD_none, Nat.add_zero, Option.isSome_none] at h
        have hfn : f = false ∧ ip = w.length := by
          split at h
          · cases h
          · simp only [Option.some.injEq, Prod.mk.injEq] at h; exact ⟨h.1.symm, h.2⟩
        obtain ⟨hf, hn⟩ := hfn
        subst hn
        have hstop : w = [48] ∨ w = [45, 48] ∨ StopsD next := by
          by_cases hz : w = [48] ∨ w = [45, 48]
          · rcases hz with hz | hz
            · exact .inl hz
            · exact .inr (.inl hz)
          · exact .inr (.inr (stopsOf (.inr hz)))
        have hdn : w.drop w.length = [] := List.drop_length
        rw [hdn]
        simp only [List.nil_append]
        have hne := noE (.inl hf)
        refine ⟨integer_stable hip (.inr hstop), ?_, ?_, fun _ => by rw [hne]; rfl, Nat.le_refl _⟩
        · rcases next with _ | ⟨c, _ | ⟨d, r⟩⟩
          · simp [Spec.fractionalPart?]
          · simp [Spec.fractionalPart?]
          · simp only [Spec.fractionalPart?]
            split
            · rename_i hcd
              have := hDot d r (by rw [hcd.1]; rfl) hcd.2
              rw [hf] at this; cases this
            · rfl
        · rw [expNone hne]
    | some fp =>
      rw [hfp] at h
      simp only [Option.getD_some] at h ⊢
      have hfp2 := fractional_pos hfp
      have hfl := fractionalPart_le hfp
      simp only [List.length_drop] at hfl
      cases hep : Spec.exponentPart? (w.drop (ip + fp)) with
      | some ep =>
        rw [hep] at h
        simp only [numberCore, Option.getD_some, Option.some.injEq, Prod.mk.injEq] at h
        obtain ⟨hf, hn⟩ := h
        obtain ⟨hep2, _⟩ := exponent_pos hep
        exact ⟨integer_stable hip (.inl (by omega)), fractional_stable hfp (.inl (by simp; omega)),
          exponent_stable hep (.inr (stopsOf (.inl hf.symm))), (fun hh => by cases hh), by omega⟩
      | none =>
        rw [hep] at h
        simp only [numberCore, Option.getD_some, Option.isSome_some] at h
        have hfn : f = true ∧ ip + fp = w.length := by
          split at h
          · cases h
          · simp only [Option.some.injEq, Prod.mk.injEq] at h; exact ⟨h.1.symm, h.2⟩
        obtain ⟨hf, hn⟩ := hfn
        -- no exponent indicator anywhere in `w`
        have hnoexp : hasExponent w = false := by
          obtain ⟨hfw, _⟩ := Spec.fractional_sound hfp
          have hfw' : Spec.FractionalPart (w.drop ip) := by
            rw [List.take_of_length_le (by simp; omega)] at hfw; exact hfw
          apply no_exp_of_chars
          intro c hc
          rw [← List.take_append_drop ip w] at hc
          rcases List.mem_append.mp hc with hc | hc
          · exact integerPart_chars hiw c hc
          · exact fractionalPart_chars hfw' c hc
        have hne := noE (.inr hnoexp)
        have hdn : w.drop (ip + fp) = [] := by rw [hn]; exact List.drop_length
        rw [hdn]
        simp only [List.nil_append]
        refine ⟨integer_stable hip (.inl (by omega)), fractional_stable hfp (.inr (stopsOf (.inl hf))), ?_,
          fun _ => by rw [hne]; rfl, by omega⟩
        rw [expNone hne]

/-! ## Every lexeme -/

theorem stops_of_head {p : Nat → Bool} {next : List Nat} (h : ∀ c r, next = c :: r → p c = false) : Stops p next := by
  cases next with
  | nil => exact .inl rfl
  | cons c r => exact .inr ⟨c, r, rfl, h c r rfl⟩

/-- **The fusing table is sound**: a well-formed lexeme followed by a text that `canFollow` it is read by
    the reference lexer as the same single token (kind, extent, value). -/
theorem token_stable (x : Lexeme) (hx : x.WF) (next : List Nat) (hc : canFollow x next = true) :
    Spec.token? false (x.text ++ next) = some (x.kind, x.text.length, x.value) := by
  obtain ⟨hv, hig, ht⟩ := hx
  cases htext : x.text with
  | nil => rw [htext] at ht; simp [Spec.token?] at ht
  | cons c rest =>
    rw [htext] at ht
    rw [List.cons_append]
    by_cases h1 : c = 9 ∨ c = 32
    · rw [spec_ws false rest h1] at ht
      simp only [Option.some.injEq, Prod.mk.injEq] at ht
      rw [← ht.1] at hig; cases hig
    by_cases h2 : isPunct1 c = true
    · rw [spec_punct false rest h2] at ht
      rw [spec_punct false (rest ++ next) h2]
      exact ht
    by_cases h3 : c = 44
    · subst h3
      rw [spec_comma] at ht
      simp only [Option.some.injEq, Prod.mk.injEq] at ht
      rw [← ht.1] at hig; cases hig
    by_cases h4 : c = 13 ∨ c = 10
    · rw [spec_lt false rest h4] at ht
      simp only [Option.some.injEq, Prod.mk.injEq] at ht
      rw [← ht.1] at hig; cases hig
    by_cases h5 : c = 35
    · subst h5
      rw [spec_comment] at ht
      split at ht
      · simp only [Option.some.injEq, Prod.mk.injEq] at ht
        rw [← ht.1] at hig; cases hig
      · cases ht
    by_cases h6 : c = 46
    · subst h6
      rw [spec_dot] at ht ⊢
      split at ht
      · rename_i h2d
        simp only [Option.some.injEq, Prod.mk.injEq, List.length_cons] at ht
        have hr2 : 2 ≤ rest.length := by omega
        rw [List.take_append_of_le_length hr2, if_pos h2d]
        simp only [Option.some.injEq, Prod.mk.injEq, List.length_cons]
        exact ht
      · cases ht
    by_cases h7 : c = 34
    · subst h7
      rw [spec_quote] at ht ⊢
      simp only [List.length_cons] at ht ⊢
      apply specString_stable rest next ht
      rintro ⟨hr, hn⟩
      -- the empty string followed by a quote is excluded by the table
      have hk : x.kind = .stringValue := by
        unfold specString at ht
        split at ht
        · cases hb : Spec.blockBody? (rest.drop 2) with
          | none => rw [hb] at ht; cases ht
          | some p => rw [hb] at ht; simp at ht; exact ht.1.symm
        · cases hb : Spec.stringBody? rest with
          | none => rw [hb] at ht; cases ht
          | some p => rw [hb] at ht; simp at ht; exact ht.1.symm
      cases next with
      | nil => simp at hn
      | cons d r =>
        simp only [List.head?_cons, Option.some.injEq] at hn
        subst hn
        simp [canFollow, hk, htext, hr] at hc
    by_cases h9 : c = 0xFEFF
    · subst h9
      rw [spec_bom] at ht
      simp at ht
    rw [spec_default false rest h1 (by simpa using h2) h3 h4 h5 h6 h7 h9] at ht
    rw [spec_default false (rest ++ next) h1 (by simpa using h2) h3 h4 h5 h6 h7 h9]
    by_cases hnum : c = 45 ∨ isDigit c = true
    · rw [if_pos hnum] at ht ⊢
      cases hn : Spec.number? (c :: rest) with
      | none => rw [hn] at ht; cases ht
      | some p =>
        obtain ⟨f, n⟩ := p
        rw [hn] at ht
        simp only [Option.map_some, Option.some.injEq, Prod.mk.injEq] at ht
        obtain ⟨hk, hlen, hval⟩ := ht
        subst hlen
        have hw : x.text = c :: rest := htext
        have hstab : Spec.number? ((c :: rest) ++ next) = some (f, (c :: rest).length) := by
          apply number_stable hn
          · intro c' r hnext hd
            subst hnext
            cases f with
            | true =>
              have hk' : x.kind = .floatValue := by rw [← hk]; rfl
              have hd' : isDigit c' = true := hd
              simp [canFollow, hk', hd'] at hc
            | false =>
              have hk' : x.kind = .intValue := by rw [← hk]; rfl
              have hd' : isDigit c' = true := hd
              refine ⟨rfl, ?_⟩
              simp only [canFollow, hk', hd', Bool.true_and, Bool.not_not, Bool.and_eq_true, Bool.or_eq_true,
                beq_iff_eq, hw] at hc
              exact hc.1.1
          · intro c' r hnext he
            subst hnext
            cases f with
            | true =>
              have hk' : x.kind = .floatValue := by rw [← hk]; rfl
              refine ⟨rfl, ?_⟩
              have he' : (c' == 101 || c' == 69) = true := by simpa using he
              simp only [canFollow, hk', he', Bool.true_and, Bool.not_not, Bool.and_eq_true, hw] at hc
              exact hc.2
            | false =>
              have hk' : x.kind = .intValue := by rw [← hk]; rfl
              have he' : (c' == 101 || c' == 69) = true := by simpa using he
              simp [canFollow, hk', he'] at hc
          · intro d r hnext hd
            subst hnext
            cases f with
            | true => rfl
            | false =>
              have hk' : x.kind = .intValue := by rw [← hk]; rfl
              have hd' : isDigit d = true := hd
              simp [canFollow, hk', hd'] at hc
        rw [List.cons_append] at hstab
        rw [hstab]
        simp only [Option.map_some, Option.some.injEq, Prod.mk.injEq]
        exact ⟨hk, by first | rfl | trivial, hval⟩
    · rw [if_neg hnum] at ht ⊢
      cases hn : Spec.name? (c :: rest) with
      | none => rw [hn] at ht; cases ht
      | some n =>
        rw [hn] at ht
        simp only [Option.map_some, Option.some.injEq, Prod.mk.injEq] at ht
        obtain ⟨hk, hlen, hval⟩ := ht
        subst hlen
        have hstab : Spec.name? ((c :: rest) ++ next) = some (c :: rest).length := by
          apply name_stable hn
          apply stops_of_head
          intro c' r hnext
          subst hnext
          have hk' : x.kind = .name := hk.symm
          simp only [canFollow, hk', Bool.not_eq_true'] at hc
          rw [isNameCont_eq]; exact hc
        rw [List.cons_append] at hstab
        rw [hstab]
        simp only [Option.map_some, Option.some.injEq, Prod.mk.injEq]
        exact ⟨hk, by first | rfl | trivial, hval⟩

end ApiFu.C07.Layout
