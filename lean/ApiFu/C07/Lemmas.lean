/-
  C07 — helper lemmas, part 1: the primitive steps of the scanner model, the relation `Adv`
  ("reached by consuming runes that exist and recording errors"), loops, fuel, positions.
  Core Lean only.
-/
import ApiFu.C07.Model
import ApiFu.C07.Spec

namespace ApiFu.C07

/-! ## Primitive steps -/

@[simp] theorem errorf_rest (s : St) : s.errorf.rest = s.rest := rfl
@[simp] theorem errorf_off (s : St) : s.errorf.off = s.off := rfl
@[simp] theorem errorf_line (s : St) : s.errorf.line = s.line := rfl
@[simp] theorem errorf_col (s : St) : s.errorf.col = s.col := rfl
@[simp] theorem errorf_errs (s : St) : s.errorf.errs = s.errs ++ [⟨s.line, s.col⟩] := rfl
@[simp] theorem errorf_next (s : St) : s.errorf.next = s.next := rfl
@[simp] theorem errorf_peek (s : St) : s.errorf.peek = s.peek := rfl
@[simp] theorem errorf_done (s : St) : s.errorf.done = s.done := rfl
@[simp] theorem errorf_nextIs (s : St) (p : Nat → Bool) : s.errorf.nextIs p = s.nextIs p := rfl

theorem done_iff (s : St) : s.done = true ↔ s.rest = [] := by
  simp [St.done]

theorem not_done_iff (s : St) : s.done = false ↔ s.rest ≠ [] := by
  simp [St.done]

theorem next_none_iff (s : St) : s.next = none ↔ s.rest = [] := by
  unfold St.next; cases s.rest <;> simp

theorem next_some_rest {s : St} {r : Nat} (h : s.next = some r) : s.rest ≠ [] := by
  intro h'; rw [(next_none_iff s).2 h'] at h; cases h

theorem nextIs_rest {s : St} {p : Nat → Bool} (h : s.nextIs p = true) : s.rest ≠ [] := by
  unfold St.nextIs at h
  split at h
  · rename_i r hr; exact next_some_rest hr
  · cases h

@[simp] theorem consumeRune_errs (s : St) : (consumeRune s).errs = s.errs := by
  unfold consumeRune
  split
  · rfl
  · simp only; split <;> rfl

theorem consumeRune_rest {s : St} {r : Nat} {rest : List Nat} (h : s.rest = r :: rest) :
    (consumeRune s).rest = rest := by
  unfold consumeRune
  simp only [h]; split <;> rfl

theorem consumeRune_off {s : St} (h : s.rest ≠ []) : (consumeRune s).off = s.off + 1 := by
  unfold consumeRune
  split
  · rename_i h'; exact absurd h' h
  · simp only; split <;> rfl

theorem consumeRune_rest_tail (s : St) : (consumeRune s).rest = s.rest.tail := by
  cases h : s.rest with
  | nil => unfold consumeRune; simp [h]
  | cons r rest => rw [consumeRune_rest h]; rfl

theorem consumeRune_length {s : St} (h : s.rest ≠ []) : (consumeRune s).rest.length + 1 = s.rest.length := by
  rw [consumeRune_rest_tail]
  cases h' : s.rest with
  | nil => exact absurd h' h
  | cons r rest => simp

/-! ## `Adv`: the states the scanner can reach from a state by its two primitive steps.
    The `consume` step requires a rune to be there: proving `Adv s (f s)` for a scanner function `f`
    therefore shows that `f` never calls `consumeRune` at the end of the input. -/

inductive Adv : St → St → Prop
  | refl (s : St) : Adv s s
  | consume {s s' : St} : s.rest ≠ [] → Adv (consumeRune s) s' → Adv s s'
  | error {s s' : St} : Adv s.errorf s' → Adv s s'

theorem Adv.trans {a b c : St} (h1 : Adv a b) (h2 : Adv b c) : Adv a c := by
  induction h1 with
  | refl => exact h2
  | consume hne _ ih => exact .consume hne (ih h2)
  | error _ ih => exact .error (ih h2)

theorem Adv.consume1 {s : St} (h : s.rest ≠ []) : Adv s (consumeRune s) := .consume h (.refl _)
theorem Adv.error1 (s : St) : Adv s s.errorf := .error (.refl _)

/-- What every `Adv` step preserves: the remaining input is a suffix, the offset counts the consumed
    elements, errors are only ever appended. -/
theorem Adv.facts {s s' : St} (h : Adv s s') :
    ∃ m es, s'.rest = s.rest.drop m ∧ m ≤ s.rest.length ∧ s'.off = s.off + m ∧ s'.errs = s.errs ++ es := by
  induction h with
  | refl s => exact ⟨0, [], by simp⟩
  | @consume s s' hne _ ih =>
    obtain ⟨m, es, h1, h2, h3, h4⟩ := ih
    refine ⟨m + 1, es, ?_, ?_, ?_, ?_⟩
    · rw [h1, consumeRune_rest_tail]; simp [List.drop_tail]
    · have := consumeRune_length hne; omega
    · rw [h3, consumeRune_off hne]; omega
    · rw [h4, consumeRune_errs]
  | @error s s' _ ih =>
    obtain ⟨m, es, h1, h2, h3, h4⟩ := ih
    exact ⟨m, ⟨s.line, s.col⟩ :: es, by simpa using h1, by simpa using h2, by simpa using h3, by simp [h4]⟩

theorem Adv.off_le {s s' : St} (h : Adv s s') : s.off ≤ s'.off := by
  obtain ⟨m, _, _, _, h3, _⟩ := h.facts; omega

theorem Adv.length_le {s s' : St} (h : Adv s s') : s'.rest.length ≤ s.rest.length := by
  obtain ⟨m, _, h1, _, _, _⟩ := h.facts; rw [h1]; simp

/-- offset + remaining length is constant. -/
theorem Adv.total {s s' : St} (h : Adv s s') : s'.off + s'.rest.length = s.off + s.rest.length := by
  obtain ⟨m, _, h1, h2, h3, _⟩ := h.facts; rw [h1, h3]; simp; omega

theorem Adv.errs_prefix {s s' : St} (h : Adv s s') : ∃ es, s'.errs = s.errs ++ es := by
  obtain ⟨_, es, _, _, _, h4⟩ := h.facts; exact ⟨es, h4⟩

/-- Strict advance: at least one rune was consumed. -/
def AdvS (s s' : St) : Prop := ∃ s1, Adv s s1 ∧ s1.rest ≠ [] ∧ Adv (consumeRune s1) s'

theorem AdvS.adv {s s' : St} (h : AdvS s s') : Adv s s' := by
  obtain ⟨s1, h1, hne, h2⟩ := h
  exact h1.trans (.consume hne h2)

theorem AdvS.of_consume {s s' : St} (hne : s.rest ≠ []) (h : Adv (consumeRune s) s') : AdvS s s' :=
  ⟨s, .refl _, hne, h⟩

theorem AdvS.trans_adv {a b c : St} (h1 : AdvS a b) (h2 : Adv b c) : AdvS a c := by
  obtain ⟨s1, h, hne, h'⟩ := h1
  exact ⟨s1, h, hne, h'.trans h2⟩

theorem Adv.trans_advS {a b c : St} (h1 : Adv a b) (h2 : AdvS b c) : AdvS a c := by
  obtain ⟨s1, h, hne, h'⟩ := h2
  exact ⟨s1, h1.trans h, hne, h'⟩

theorem AdvS.off_lt {s s' : St} (h : AdvS s s') : s.off < s'.off := by
  obtain ⟨s1, h1, hne, h2⟩ := h
  have a := h1.off_le
  have b := h2.off_le
  have c := consumeRune_off hne
  omega

theorem AdvS.length_lt {s s' : St} (h : AdvS s s') : s'.rest.length < s.rest.length := by
  have a := h.off_lt
  have b := h.adv.total
  omega

theorem AdvS.rest_ne {s s' : St} (h : AdvS s s') : s.rest ≠ [] := by
  have := h.length_lt
  intro h'; rw [h'] at this; simp at this

/-! ## Loops -/

theorem loop_succ {σ : Type} (cond : σ → Bool) (body : σ → σ) (n : Nat) (x : σ) :
    loop cond body (n + 1) x = if cond x then loop cond body n (body x) else x := rfl

/-- A loop whose body preserves a relation to the start state. -/
theorem loop_invariant {σ : Type} (cond : σ → Bool) (body : σ → σ) (P : σ → Prop)
    (hbody : ∀ x, P x → cond x = true → P (body x)) : ∀ (fuel : Nat) (x : σ), P x → P (loop cond body fuel x)
  | 0, _, h => h
  | n + 1, x, h => by
    rw [loop_succ]
    split
    · rename_i hc; exact loop_invariant cond body P hbody n (body x) (hbody x h hc)
    · exact h

/-- With enough fuel a loop stops because its condition is false. `μ` bounds the iterations left. -/
theorem loop_exits {σ : Type} (cond : σ → Bool) (body : σ → σ) (μ : σ → Nat)
    (h0 : ∀ x, μ x = 0 → cond x = false) (hdec : ∀ x, cond x = true → μ (body x) < μ x) :
    ∀ (fuel : Nat) (x : σ), μ x ≤ fuel → cond (loop cond body fuel x) = false
  | 0, x, h => h0 x (by omega)
  | n + 1, x, h => by
    rw [loop_succ]
    split
    · rename_i hc
      exact loop_exits cond body μ h0 hdec n (body x) (by have := hdec x hc; omega)
    · rename_i hc; simpa using hc

/-- Once the condition is false more fuel changes nothing. -/
theorem loop_more_fuel {σ : Type} (cond : σ → Bool) (body : σ → σ) :
    ∀ (fuel k : Nat) (x : σ), cond (loop cond body fuel x) = false →
      loop cond body (fuel + k) x = loop cond body fuel x
  | 0, k, x, h => by
    cases k with
    | zero => rfl
    | succ k => simp only [loop] at h; simp [loop, h]
  | n + 1, k, x, h => by
    have e : n + 1 + k = (n + k) + 1 := by omega
    rw [e, loop_succ, loop_succ]
    rw [loop_succ] at h
    split
    · rename_i hc
      simp only [hc, if_true] at h
      exact loop_more_fuel cond body n k (body x) h
    · rfl

theorem loop_adv (cond : St → Bool) (body : St → St)
    (hbody : ∀ s, cond s = true → Adv s (body s)) (fuel : Nat) (s : St) : Adv s (loop cond body fuel s) :=
  loop_invariant cond body (fun x => Adv s x) (fun x hx hc => hx.trans (hbody x hc)) fuel s (.refl _)

/-! ### consumeWhile -/

def whileCond (p : Nat → Bool) : St → Bool := fun s => !s.done && s.nextIs p

theorem whileCond_rest {p : Nat → Bool} {s : St} (h : whileCond p s = true) : s.rest ≠ [] := by
  simp only [whileCond, Bool.and_eq_true] at h
  exact nextIs_rest h.2

theorem consumeWhile_adv (p : Nat → Bool) (s : St) : Adv s (consumeWhile p s) :=
  loop_adv _ _ (fun _ hc => .consume1 (whileCond_rest hc)) _ s

/-- The loop ends because the next rune fails `p` or the input is exhausted, not for lack of fuel. -/
theorem consumeWhile_exits (p : Nat → Bool) (s : St) : whileCond p (consumeWhile p s) = false :=
  loop_exits (whileCond p) consumeRune (fun s => s.rest.length)
    (fun x hx => by simp [whileCond, St.done, List.length_eq_zero_iff.mp hx])
    (fun x hc => by have := consumeRune_length (whileCond_rest hc); omega) _ s (Nat.le_refl _)

/-! ## Names and numbers advance -/

theorem consumeName_adv (s : St) : Adv s (consumeName s).2 := by
  unfold consumeName
  split
  · rename_i h
    exact .consume (nextIs_rest h) (consumeWhile_adv _ _)
  · exact .refl _

theorem consumeName_strict (s : St) (h : (consumeName s).1 = true) : AdvS s (consumeName s).2 := by
  unfold consumeName at *
  split
  · rename_i hn
    exact AdvS.of_consume (nextIs_rest hn) (consumeWhile_adv _ _)
  · rename_i hn; simp [hn] at h

theorem consumeIntegerDigits_adv (s : St) : Adv s (consumeIntegerDigits s).2 ∧
    ((consumeIntegerDigits s).1 = true → AdvS s (consumeIntegerDigits s).2) := by
  unfold consumeIntegerDigits
  split
  · rename_i h
    exact ⟨.consume1 (next_some_rest h), fun _ => AdvS.of_consume (next_some_rest h) (.refl _)⟩
  · split
    · exact ⟨.refl _, fun h => by cases h⟩
    · rename_i hd
      have hd' : s.nextIs isDigit = true := by simpa using hd
      have hne := nextIs_rest hd'
      refine ⟨consumeWhile_adv _ _, fun _ => ?_⟩
      -- the first iteration of the digit loop consumes
      unfold consumeWhile
      cases hl : s.rest.length with
      | zero => exact absurd (List.length_eq_zero_iff.mp hl) hne
      | succ n =>
        rw [loop_succ]
        have hc : (!s.done && s.nextIs isDigit) = true := by
          simp [hd', (not_done_iff s).2 hne]
        simp only [hc, if_true]
        exact AdvS.of_consume hne (loop_adv _ _ (fun _ hc => .consume1 (whileCond_rest hc)) _ _)

theorem consumeIntegerPart_adv (s : St) : Adv s (consumeIntegerPart s).2 ∧
    ((consumeIntegerPart s).1 = true → AdvS s (consumeIntegerPart s).2) := by
  unfold consumeIntegerPart
  have h0 : Adv s (if s.next = some 45 ∧ isDigit s.peek = true then consumeRune s else s) := by
    split
    · rename_i h; exact .consume1 (next_some_rest h.1)
    · exact .refl _
  generalize (if s.next = some 45 ∧ isDigit s.peek = true then consumeRune s else s) = s1 at h0
  have := consumeIntegerDigits_adv s1
  exact ⟨h0.trans this.1, fun h => h0.trans_advS (this.2 h)⟩

theorem consumeFractionalPart_adv (s : St) : Adv s (consumeFractionalPart s).2 := by
  unfold consumeFractionalPart
  split
  · exact .refl _
  · rename_i h
    have h' : s.next = some 46 := by
      by_cases hn : s.next = some 46
      · exact hn
      · exact absurd (Or.inl hn) h
    exact .consume (next_some_rest h') (consumeWhile_adv _ _)

theorem consumeSign_adv (s : St) : Adv s (consumeSign s) := by
  unfold consumeSign
  split
  · rename_i h; exact .consume1 (by rcases h with h | h <;> exact next_some_rest h)
  · exact .refl _

theorem expectDigit_adv (s : St) : Adv s (expectDigit s) := by
  unfold expectDigit
  split
  · exact .error1 _
  · exact .refl _

theorem consumeExponentPart_adv (s : St) : Adv s (consumeExponentPart s).2 := by
  unfold consumeExponentPart
  split
  · exact .refl _
  · rename_i h
    have hne : s.rest ≠ [] := by
      intro h'
      have := (next_none_iff s).2 h'
      exact h ⟨by simp [this], by simp [this]⟩
    exact .consume hne ((consumeSign_adv _).trans ((expectDigit_adv _).trans (consumeWhile_adv _ _)))

/-! ## Strings advance -/

theorem hexLoop_adv : ∀ (n : Nat) (s : St) (code : Nat), Adv s (hexLoop n s code).1
  | 0, s, _ => .refl _
  | n + 1, s, code => by
    unfold hexLoop
    split
    · exact .error1 _
    · rename_i v hv
      have hne : s.rest ≠ [] := by
        intro h'; rw [(next_none_iff s).2 h'] at hv; cases hv
      exact .consume hne (hexLoop_adv n _ _)

def strCond : SS → Bool := fun x => !x.terminated && !x.st.done && !x.broke

theorem strCond_rest {x : SS} (h : strCond x = true) : x.st.rest ≠ [] := by
  simp only [strCond, Bool.and_eq_true, Bool.not_eq_true'] at h
  exact (not_done_iff _).1 h.1.2

theorem escapeStep_adv (x : SS) (hne : x.st.rest ≠ []) : AdvS x.st (escapeStep x).st := by
  unfold escapeStep
  simp only
  split
  · rename_i h; exact absurd ((next_none_iff _).1 h) hne
  · repeat' split
    all_goals first
      | exact AdvS.of_consume hne (.refl _)
      | exact AdvS.of_consume hne (hexLoop_adv _ _ _)
      | exact (Adv.error1 _).trans_advS (AdvS.of_consume (by simpa using hne) (.refl _))

/-- One iteration of the string loop consumes at least one rune, or is the `break` at a line end. -/
theorem strStep_adv (isBlock : Bool) (x : SS) (hne : x.st.rest ≠ []) :
    Adv x.st (strStep isBlock x).st ∧ (AdvS x.st (strStep isBlock x).st ∨ (strStep isBlock x).broke = true) := by
  have strict : ∀ {s' : St}, AdvS x.st s' → Adv x.st s' := fun h => h.adv
  unfold strStep
  split
  · exact ⟨(escapeStep_adv x hne).adv, .inl (escapeStep_adv x hne)⟩
  · simp only
    split
    · rename_i h; exact absurd ((next_none_iff _).1 h) hne
    · rename_i r hr
      have c1 : AdvS x.st (consumeRune x.st) := AdvS.of_consume hne (.refl _)
      split
      · split
        · exact ⟨.refl _, .inr rfl⟩
        · split
          · rename_i h
            have : AdvS x.st (consumeRune (consumeRune x.st)) := c1.trans_adv (.consume1 (next_some_rest h.2))
            exact ⟨this.adv, .inl this⟩
          · exact ⟨c1.adv, .inl c1⟩
      · split
        · split
          · exact ⟨c1.adv, .inl c1⟩
          · split
            · rename_i h
              -- three quotes follow: they are there to be consumed
              have h3 : (consumeRune x.st).rest.take 3 = [34, 34, 34] := h
              have ne1 : (consumeRune x.st).rest ≠ [] := by intro h'; rw [h'] at h3; cases h3
              obtain ⟨a, t1, e1⟩ := List.exists_cons_of_ne_nil ne1
              have r1 := consumeRune_rest e1
              have ne2 : (consumeRune (consumeRune x.st)).rest ≠ [] := by
                rw [r1]; intro h'; rw [e1, h'] at h3; cases h3
              obtain ⟨b, t2, e2⟩ := List.exists_cons_of_ne_nil ne2
              have r2 := consumeRune_rest e2
              have ne3 : (consumeRune (consumeRune (consumeRune x.st))).rest ≠ [] := by
                rw [r2]; intro h'; rw [r1] at e2; rw [e1, e2, h'] at h3; cases h3
              have : AdvS x.st (consumeRune (consumeRune (consumeRune (consumeRune x.st)))) :=
                c1.trans_adv (.consume ne1 (.consume ne2 (.consume1 ne3)))
              exact ⟨this.adv, .inl this⟩
            · exact ⟨c1.adv, .inl c1⟩
        · split
          · split
            · split
              · rename_i h
                have ne1 := next_some_rest h.1
                obtain ⟨a, t1, e1⟩ := List.exists_cons_of_ne_nil ne1
                have ne2 : (consumeRune (consumeRune x.st)).rest ≠ [] := by
                  rw [consumeRune_rest e1]
                  intro h'
                  have hp := h.2
                  unfold St.peek at hp
                  rw [e1, h'] at hp
                  simp at hp
                have : AdvS x.st (consumeRune (consumeRune (consumeRune x.st))) :=
                  c1.trans_adv (.consume ne1 (.consume1 ne2))
                exact ⟨this.adv, .inl this⟩
              · exact ⟨c1.adv, .inl c1⟩
            · exact ⟨c1.adv, .inl c1⟩
          · split
            · have : AdvS x.st (consumeRune x.st.errorf) :=
                (Adv.error1 _).trans_advS (AdvS.of_consume (by simpa using hne) (.refl _))
              exact ⟨this.adv, .inl this⟩
            · exact ⟨c1.adv, .inl c1⟩

theorem strLoop_adv (isBlock : Bool) (fuel : Nat) (x : SS) :
    Adv x.st (loop strCond (strStep isBlock) fuel x).st :=
  loop_invariant strCond (strStep isBlock) (fun y => Adv x.st y.st)
    (fun y hy hc => hy.trans (strStep_adv isBlock y (strCond_rest hc)).1) fuel x (.refl _)

/-- The string loop stops because the string ended, the input ended or a line ended. -/
theorem strLoop_exits (isBlock : Bool) (x : SS) (hb : x.broke = false) :
    strCond (loop strCond (strStep isBlock) x.st.rest.length x) = false := by
  refine loop_exits strCond (strStep isBlock) (fun y => if y.broke then 0 else y.st.rest.length) ?_ ?_ _ x ?_
  · intro y hy
    simp only [strCond]
    cases hbk : y.broke with
    | true => simp
    | false =>
      simp only [hbk] at hy
      have : y.st.rest = [] := List.length_eq_zero_iff.mp (by simpa using hy)
      simp [St.done, this]
  · intro y hc
    have hne := strCond_rest hc
    have hnb : y.broke = false := by
      simp only [strCond, Bool.and_eq_true, Bool.not_eq_true'] at hc; exact hc.2
    have hpos : 0 < y.st.rest.length := List.length_pos_iff.mpr hne
    simp only [hnb]
    rcases (strStep_adv isBlock y hne).2 with h | h
    · have := h.length_lt
      split <;> simp_all <;> omega
    · simp [h]; exact hpos
  · simp [hb]

theorem consumeStringValue_adv (s : St) (hne : s.rest ≠ []) : AdvS s (consumeStringValue s).2 := by
  unfold consumeStringValue
  simp only
  refine AdvS.of_consume hne ?_
  generalize consumeRune s = s1
  have hopen : Adv s1 (if s1.next = some 34 ∧ s1.peek = 34 then (true, consumeRune (consumeRune s1)) else (false, s1)).2 := by
    split
    · rename_i h
      have ne1 := next_some_rest h.1
      obtain ⟨a, t1, e1⟩ := List.exists_cons_of_ne_nil ne1
      have ne2 : (consumeRune s1).rest ≠ [] := by
        rw [consumeRune_rest e1]
        intro h'
        have hp := h.2
        unfold St.peek at hp
        rw [e1, h'] at hp
        simp at hp
      exact .consume ne1 (.consume1 ne2)
    · exact .refl _
  generalize (if s1.next = some 34 ∧ s1.peek = 34 then (true, consumeRune (consumeRune s1)) else (false, s1)) = p at hopen
  obtain ⟨isBlock, s2⟩ := p
  simp only at hopen ⊢
  refine hopen.trans ?_
  have hl := strLoop_adv isBlock s2.rest.length
    { st := s2, value := [], terminated := false, isEscaped := false, broke := false }
  simp only at hl
  refine hl.trans ?_
  split
  · exact .error1 _
  · exact .refl _

/-! ## Scan advances -/

def commentCond : St → Bool := fun s => !s.done && s.next ≠ some 13 && s.next ≠ some 10

theorem commentCond_rest {s : St} (h : commentCond s = true) : s.rest ≠ [] := by
  simp only [commentCond, Bool.and_eq_true, Bool.not_eq_true'] at h
  exact (not_done_iff _).1 h.1.1

theorem commentStep_adv {s : St} (hne : s.rest ≠ []) : AdvS s (commentStep s) := by
  unfold commentStep
  split
  · exact (Adv.error1 _).trans_advS (AdvS.of_consume (by simpa using hne) (.refl _))
  · exact AdvS.of_consume hne (.refl _)

theorem consumeComment_adv (s : St) : Adv s (consumeComment s) :=
  loop_adv _ _ (fun _ hc => (commentStep_adv (commentCond_rest hc)).adv) _ s

theorem consumeComment_exits (s : St) : commentCond (consumeComment s) = false :=
  loop_exits commentCond commentStep (fun s => s.rest.length)
    (fun x hx => by simp [commentCond, St.done, List.length_eq_zero_iff.mp hx])
    (fun x hc => by have := (commentStep_adv (commentCond_rest hc)).length_lt; omega) _ s (Nat.le_refl _)

/-- A comment starts at `#`, which is neither CR nor LF: the first iteration runs. -/
theorem consumeComment_strict {s : St} (h : s.next = some 35) : AdvS s (consumeComment s) := by
  have hne := next_some_rest h
  unfold consumeComment
  cases hl : s.rest.length with
  | zero => exact absurd (List.length_eq_zero_iff.mp hl) hne
  | succ n =>
    rw [loop_succ]
    have hc : (!s.done && s.next ≠ some 13 && s.next ≠ some 10) = true := by
      simp [h, (not_done_iff s).2 hne]
    simp only [hc, if_true]
    exact (commentStep_adv hne).trans_adv (loop_adv _ _ (fun _ hc => (commentStep_adv (commentCond_rest hc)).adv) _ _)

theorem scanLineTerminator_adv (r : Nat) (s : St) (hne : s.rest ≠ []) : AdvS s (scanLineTerminator r s) := by
  have c1 : AdvS s (consumeRune s) := AdvS.of_consume hne (.refl _)
  unfold scanLineTerminator
  simp only
  split
  · rename_i h; exact c1.trans_adv (.consume1 (next_some_rest h.2))
  · exact c1

theorem scanEllipsis_adv (s : St) (hne : s.rest ≠ []) : AdvS s (scanEllipsis s).2 := by
  have c1 : AdvS s (consumeRune s) := AdvS.of_consume hne (.refl _)
  unfold scanEllipsis
  simp only
  split
  · exact c1.trans_adv (.error1 _)
  · rename_i h
    have h' : (consumeRune s).next = some 46 := Decidable.of_not_not h
    have c2 : AdvS s (consumeRune (consumeRune s)) := c1.trans_adv (.consume1 (next_some_rest h'))
    split
    · exact c2.trans_adv (.error1 _)
    · rename_i h2
      have h2' : (consumeRune (consumeRune s)).next = some 46 := Decidable.of_not_not h2
      exact c2.trans_adv (.consume1 (next_some_rest h2'))

theorem consumeIntegerDigits_false (s : St) (h : (consumeIntegerDigits s).1 = false) : (consumeIntegerDigits s).2 = s := by
  unfold consumeIntegerDigits at *
  split
  · rename_i h0; simp [h0] at h
  · split
    · rfl
    · rename_i h0 h1; simp [h0, h1] at h

/-- When `consumeIntegerPart` returns false it leaves a rune to report as illegal. -/
theorem consumeIntegerPart_false_rest (s : St) (hne : s.rest ≠ []) (h : (consumeIntegerPart s).1 = false) :
    (consumeIntegerPart s).2.rest ≠ [] := by
  unfold consumeIntegerPart at *
  have key : (if s.next = some 45 ∧ isDigit s.peek = true then consumeRune s else s).rest ≠ [] := by
    split
    · rename_i h
      -- '-' followed by a digit: the digit is still there
      have ne1 := next_some_rest h.1
      obtain ⟨a, t1, e1⟩ := List.exists_cons_of_ne_nil ne1
      rw [consumeRune_rest e1]
      intro h'
      have hp := h.2
      unfold St.peek at hp
      rw [e1, h'] at hp
      simp [isDigit] at hp
    · exact hne
  generalize (if s.next = some 45 ∧ isDigit s.peek = true then consumeRune s else s) = s1 at *
  rw [consumeIntegerDigits_false s1 h]
  exact key

theorem consumeName_false (s : St) (h : (consumeName s).1 = false) : (consumeName s).2 = s := by
  unfold consumeName at *
  split
  · rename_i h0; simp [h0] at h
  · rfl

theorem scanDefault_adv (s : St) (hne : s.rest ≠ []) : AdvS s (scanDefault s).2 := by
  unfold scanDefault
  have hi := consumeIntegerPart_adv s
  have hir := consumeIntegerPart_false_rest s hne
  generalize consumeIntegerPart s = ip at *
  obtain ⟨isInt, s1⟩ := ip
  simp only at *
  cases isInt with
  | true =>
    have hs := hi.2 (by first | rfl | trivial)
    simp only [if_true]
    have hf := consumeFractionalPart_adv s1
    generalize consumeFractionalPart s1 = fp at *
    obtain ⟨isFrac, s2⟩ := fp
    simp only at *
    have he := consumeExponentPart_adv s2
    cases isFrac with
    | true => exact (hs.trans_adv hf).trans_adv he
    | false =>
      simp only [Bool.false_eq_true, if_false]
      generalize consumeExponentPart s2 = ep at *
      obtain ⟨isExp, s3⟩ := ep
      simp only at *
      split <;> exact (hs.trans_adv hf).trans_adv he
  | false =>
    simp only [Bool.false_eq_true, if_false]
    have hn := consumeName_adv s1
    have hns := consumeName_strict s1
    have hnf := consumeName_false s1
    generalize consumeName s1 = np at *
    obtain ⟨isName, s2⟩ := np
    simp only at *
    cases isName with
    | true => exact hi.1.trans_advS (hns (by first | rfl | trivial))
    | false =>
      simp only [Bool.false_eq_true, if_false]
      have e2 : s2 = s1 := hnf (by first | rfl | trivial)
      have hne2 : s2.rest ≠ [] := by rw [e2]; exact hir (by first | rfl | trivial)
      exact (hi.1.trans hn).trans_advS ((Adv.error1 _).trans_advS (AdvS.of_consume (by simpa using hne2) (.refl _)))

/-- **Every iteration of `Scan` consumes at least one rune**, and only ever consumes runes that exist. -/
theorem scanToken_adv (s : St) (hne : s.rest ≠ []) : AdvS s (scanToken s).2.2 := by
  have c1 : AdvS s (consumeRune s) := AdvS.of_consume hne (.refl _)
  have ce : AdvS s (consumeRune s.errorf) :=
    (Adv.error1 _).trans_advS (AdvS.of_consume (by simpa using hne) (.refl _))
  unfold scanToken
  split
  · rename_i h; exact absurd ((next_none_iff _).1 h) hne
  · rename_i r hr
    split
    · exact c1
    split
    · exact c1
    split
    · exact c1
    split
    · exact scanLineTerminator_adv r s hne
    split
    · rename_i h; subst h; exact consumeComment_strict hr
    split
    · exact scanEllipsis_adv s hne
    split
    · exact consumeStringValue_adv s hne
    split
    · exact ce
    split
    · split
      · exact c1
      · exact ce
    · exact scanDefault_adv s hne

end ApiFu.C07
