/-
  C07 — layout: tokens, trivia, rendering, and the fusing table.

  A *lexeme* is the text of one non-ignored token (Punctuator, Name, IntValue, FloatValue, StringValue)
  with the kind and decoded value the reference lexer gives it when it stands alone. *Trivia* is a list
  of ignored lexemes: space, tab, comma, LF, CR, CRLF, `#comment`. A *document layout* is an optional
  leading byte-order mark, leading trivia, and the lexemes each followed by trivia; `render` is its text.

  `canFollow x next` is the fusing table worked out from the grammar: may the text `next` stand directly
  after lexeme `x` without changing how `x` is lexed? (`separated x tr y`: the trivia between two
  lexemes is non-empty, or `y` may directly follow `x`.)

    x               | text that may NOT directly follow
    ----------------+---------------------------------------------------------------------------
    Punctuator      | —   (`...` never fuses: `....` is `...` then `.`)
    Name            | a NameContinue character `[_0-9A-Za-z]`         (name/name, name/number)
    IntValue        | a digit (unless x is `0` or `-0`, whose IntegerPart is complete);
                    | `e`/`E` (would start an ExponentPart, or is the dangling exponent D1);
                    | `.` followed by a digit (a FractionalPart — no lexeme starts like that)
    FloatValue      | a digit; `e`/`E` if x has no ExponentPart yet
    StringValue     | `"` after the empty string `""`   (`"""` would open a block string)

  New file; nothing in Props.lean depends on it.
-/
import ApiFu.C07.LemmasToken
import ApiFu.C07.LemmasNumber
import ApiFu.C07.LemmasSource

namespace ApiFu.C07.Layout

open ApiFu.C07

/-! ## Lexemes -/

structure Lexeme where
  kind : Kind
  text : List Nat
  value : List Nat
  deriving Repr, DecidableEq

/-- Well-formed: valid UTF-8, not an ignored kind, and the reference lexer reads the whole text as one
    token of that kind and value. -/
def Lexeme.WF (x : Lexeme) : Prop :=
  Valid x.text ∧ x.kind.isIgnored = false ∧ Spec.token? false x.text = some (x.kind, x.text.length, x.value)

instance (x : Lexeme) : Decidable x.WF := by
  unfold Lexeme.WF Valid; exact inferInstance

/-! ## Trivia -/

inductive TItem where
  | space | tab | comma | lf | cr | crlf
  | comment (body : List Nat)
  deriving Repr, DecidableEq

def TItem.text : TItem → List Nat
  | .space => [32] | .tab => [9] | .comma => [44] | .lf => [10] | .cr => [13] | .crlf => [13, 10]
  | .comment body => 35 :: body

def TItem.kind : TItem → Kind
  | .space | .tab => .whiteSpace
  | .comma => .comma
  | .lf | .cr | .crlf => .lineTerminator
  | .comment _ => .comment

/-- What the item requires of the text `next` that follows it: a lone CR is not followed by LF (that
    would be the item CRLF); a comment consists of SourceCharacters other than line terminators and is
    followed by a line terminator or the end of the text. -/
def TItem.okBefore (i : TItem) (next : List Nat) : Prop :=
  match i with
  | .cr => next.head? ≠ some 10
  | .comment body =>
    (body.all fun c => Spec.isSourceCharacter c && !Spec.isLineTerminatorChar c) = true ∧
    (next = [] ∨ next.head? = some 10 ∨ next.head? = some 13)
  | _ => True

instance (i : TItem) (next : List Nat) : Decidable (i.okBefore next) := by
  unfold TItem.okBefore; split <;> exact inferInstance

abbrev Trivia := List TItem

def Trivia.text : Trivia → List Nat
  | [] => []
  | i :: is => i.text ++ Trivia.text is

/-- Every item is fine before what follows it (`after` is the text after the whole trivia). -/
def Trivia.WF : Trivia → List Nat → Prop
  | [], _ => True
  | i :: is, after => i.okBefore (Trivia.text is ++ after) ∧ Trivia.WF is after

def Trivia.decWF : (tr : Trivia) → (after : List Nat) → Decidable (Trivia.WF tr after)
  | [], _ => isTrue trivial
  | i :: is, after =>
    have : Decidable (Trivia.WF is after) := Trivia.decWF is after
    (inferInstance : Decidable (i.okBefore (Trivia.text is ++ after) ∧ Trivia.WF is after))

instance (tr : Trivia) (after : List Nat) : Decidable (Trivia.WF tr after) := Trivia.decWF tr after

/-! ## The fusing table -/

def hasExponent (w : List Nat) : Bool := w.any fun c => c == 101 || c == 69

/-- May `next` stand directly after `x`? (see the table in the header) -/
def canFollow (x : Lexeme) (next : List Nat) : Bool :=
  match next with
  | [] => true
  | c :: more =>
    match x.kind with
    | .name => !isNameCont c
    | .intValue =>
      !(isDigit c && !(x.text == [48] || x.text == [45, 48])) && !(c == 101 || c == 69) &&
      !(c == 46 && (match more with | d :: _ => isDigit d | [] => false))
    | .floatValue => !isDigit c && !((c == 101 || c == 69) && !hasExponent x.text)
    | .stringValue => !(x.text == [34, 34] && c == 34)
    | _ => true

/-- Two adjacent lexemes are separated: there is trivia between them or the second may directly follow. -/
def separated (x : Lexeme) (tr : Trivia) (y : Lexeme) : Bool := !tr.isEmpty || canFollow x y.text

/-! ## Rendering -/

def renderBody : List (Lexeme × Trivia) → List Nat
  | [] => []
  | (x, tr) :: rest => x.text ++ (Trivia.text tr ++ renderBody rest)

structure Doc where
  bom : Bool
  lead : Trivia
  body : List (Lexeme × Trivia)
  deriving Repr

def render (d : Doc) : List Nat :=
  (if d.bom then [0xFEFF] else []) ++ (Trivia.text d.lead ++ renderBody d.body)

def lexemes (d : Doc) : List Lexeme := d.body.map (·.1)

/-- Well-formed body: lexemes well-formed, trivia well-formed before what follows, neighbours separated. -/
def bodyWF : List (Lexeme × Trivia) → Prop
  | [] => True
  | (x, tr) :: rest =>
    x.WF ∧ Trivia.WF tr (renderBody rest) ∧
    (match rest with | [] => True | (y, _) :: _ => separated x tr y = true) ∧ bodyWF rest

def decBodyWF : (l : List (Lexeme × Trivia)) → Decidable (bodyWF l)
  | [] => isTrue trivial
  | (x, tr) :: rest =>
    have : Decidable (bodyWF rest) := decBodyWF rest
    match rest with
    | [] => (inferInstance : Decidable (x.WF ∧ Trivia.WF tr (renderBody []) ∧ True ∧ bodyWF []))
    | (y, tr') :: rest' =>
      (inferInstance : Decidable (x.WF ∧ Trivia.WF tr (renderBody ((y, tr') :: rest')) ∧
        separated x tr y = true ∧ bodyWF ((y, tr') :: rest')))

instance (l : List (Lexeme × Trivia)) : Decidable (bodyWF l) := decBodyWF l

def Doc.WF (d : Doc) : Prop := Trivia.WF d.lead (renderBody d.body) ∧ bodyWF d.body

instance (d : Doc) : Decidable d.WF := by unfold Doc.WF; exact inferInstance

/-- The observable that must not depend on the layout: kind, literal text (`Literal()`: the token's
    extent in the source) and decoded value of the non-ignored tokens. -/
def proj (src : List Nat) (ts : List Tok) : List (Kind × List Nat × List Nat) :=
  (ts.filter fun t => !t.kind.isIgnored).map fun t => (t.kind, (src.drop t.off).take t.len, t.value)

def Lexeme.obs (x : Lexeme) : Kind × List Nat × List Nat := (x.kind, x.text, x.value)

end ApiFu.C07.Layout
