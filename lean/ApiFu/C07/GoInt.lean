/-
  C07 — the meaning the source-to-Lean translator `tools/c07facts` gives to Go's fixed-width integer
  arithmetic (hand-written, imported by the generated file `Generated.lean`). Core Lean only.

  A Go `rune` is an `int32`, an `int` is 64 bits wide on the platforms considered; `+ - *` wrap around in
  two's complement. The translator writes every arithmetic result of a typed operand as `wrap32 (…)` /
  `wrap64 (…)`, so nothing is assumed about ranges: `PropsGenerated` shows that in the translated
  functions the wrap is the identity wherever it is evaluated.
-/
namespace ApiFu.C07

/-- Two's-complement wrap-around of an `int32` (`rune`) result. -/
def wrap32 (x : Int) : Int := (x + 2147483648) % 4294967296 - 2147483648

/-- Two's-complement wrap-around of a 64-bit `int` result. -/
def wrap64 (x : Int) : Int := (x + 9223372036854775808) % 18446744073709551616 - 9223372036854775808

/-- `s.nextRune` as the Go value: `-1` at the end of the input (scanner.go `readNextRune`). -/
def optRune : Option Nat → Int
  | none => -1
  | some r => (r : Int)

end ApiFu.C07
