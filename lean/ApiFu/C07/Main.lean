/-
  C07 model driver. Line protocol (plain text, one request per line, one reply per line):

    L <mode> <e1> <e2> …      mode 1 = ScanIgnored, 0 = skip ignored tokens; e_i = source elements in decimal
                              (code point, or 1114112 + b for an invalid byte b)
      → <model tokens>|<model errors>|<ok|err>|<spec tokens>|<ok|err>|<loose spec tokens>
        token  := kind:off:len:line:col:v1.v2.…     (kind = token.Token value; v = decoded string value,
                                                      only for STRING_VALUE), tokens joined by ","
        error  := line:col, joined by ","
        spec   := verdict of the reference lexer (`Spec.lexAll`) and its tokens (for `err`: the tokens before
                  the first lexical error); then the same for `Spec.lexAllLoose` (the other reading of D1–D3)
    B <e1> <e2> …             → <Model.blockStringValue>|<Spec.blockStringValue>   (values joined by ".")
    D <bom 0|1> <item> …      a document layout (Layout.lean): items are trivia `s t c n r rn #:<body>` and lexemes
                              `K<kind>:<text>:<value>` (code points joined by "."); trivia before the first lexeme is
                              the leading trivia, trivia after a lexeme belongs to it
      → <1|0 = Doc.WF decided in Lean>|<render, code points joined by ".">
    anything else             → bad-op
-/
import ApiFu.Common.Loop
import ApiFu.C07.Model
import ApiFu.C07.Spec
import ApiFu.C07.Layout

open ApiFu ApiFu.C07

def natsStr (sep : String) (xs : List Nat) : String := sep.intercalate (xs.map toString)

def tokStr (t : Tok) : String :=
  s!"{t.kind.code}:{t.off}:{t.len}:{t.line}:{t.col}:{natsStr "." t.value}"

def toksStr (ts : List Tok) : String := ",".intercalate (ts.map tokStr)

def errsStr (es : List Err) : String := ",".intercalate (es.map fun e => s!"{e.line}:{e.col}")

def parseNats (ws : List String) : Option (List Nat) := ws.mapM String.toNat?

def parseDots (s : String) : Option (List Nat) :=
  if s == "" then some [] else (s.splitOn ".").mapM String.toNat?

def kindOfCode (n : Nat) : Option Kind :=
  [Kind.invalid, .punctuator, .name, .intValue, .floatValue, .stringValue, .unicodeBOM, .whiteSpace,
   .lineTerminator, .comment, .comma].find? (·.code == n)

inductive DItem where
  | triv (i : Layout.TItem)
  | lex (x : Layout.Lexeme)

def parseItem (w : String) : Option DItem :=
  match w with
  | "s" => some (.triv .space) | "t" => some (.triv .tab) | "c" => some (.triv .comma)
  | "n" => some (.triv .lf) | "r" => some (.triv .cr) | "rn" => some (.triv .crlf)
  | _ =>
    match w.splitOn ":" with
    | ["#", body] => (parseDots body).map fun b => .triv (.comment b)
    | [k, text, value] =>
      if k.startsWith "K" then
        match (k.drop 1).toNat?.bind kindOfCode, parseDots text, parseDots value with
        | some kind, some t, some v => some (.lex { kind := kind, text := t, value := v })
        | _, _, _ => none
      else none
    | _ => none

/-- Items → document: trivia up to the first lexeme leads, later trivia belongs to the lexeme before it. -/
def buildDoc (bom : Bool) (items : List DItem) : Layout.Doc :=
  let step := fun (acc : Layout.Trivia × List (Layout.Lexeme × Layout.Trivia)) (it : DItem) =>
    match it, acc with
    | .triv i, (lead, []) => (lead ++ [i], [])
    | .triv i, (lead, (x, tr) :: rest) => (lead, (x, tr ++ [i]) :: rest)
    | .lex x, (lead, body) => (lead, (x, []) :: body)
  let (lead, body) := items.foldl step ([], [])
  { bom := bom, lead := lead, body := body.reverse }

def handle (line : String) : String :=
  match (line.splitOn " ").filter (· ≠ "") with
  | "L" :: mode :: ws =>
    match parseNats ws with
    | none => "bad-op"
    | some src =>
      if mode ≠ "0" ∧ mode ≠ "1" then "bad-op" else
      let m := mode == "1"
      let (ts, es) := scanAll m src
      let (verdict, sts) := match Spec.lexAll m src with
        | .ok ts => ("ok", ts)
        | .error ts => ("err", ts)
      let (verdictL, stsL) := match Spec.lexAllLoose m src with
        | .ok ts => ("ok", ts)
        | .error ts => ("err", ts)
      s!"{toksStr ts}|{errsStr es}|{verdict}|{toksStr sts}|{verdictL}|{toksStr stsL}"
  | "D" :: bom :: ws =>
    match ws.mapM parseItem with
    | none => "bad-op"
    | some items =>
      if bom ≠ "0" ∧ bom ≠ "1" then "bad-op" else
      let d := buildDoc (bom == "1") items
      s!"{if decide d.WF then 1 else 0}|{natsStr "." (Layout.render d)}"
  | "B" :: ws =>
    match parseNats ws with
    | none => "bad-op"
    | some raw => s!"{natsStr "." (blockStringValue raw)}|{natsStr "." (Spec.blockStringValue raw)}"
  | _ => "bad-op"

def main : IO Unit := lineLoopPure handle
