/-
  C07 model driver. Line protocol (plain text, one request per line, one reply per line):

    L <mode> <e1> <e2> …      mode 1 = ScanIgnored, 0 = skip ignored tokens; e_i = source elements in decimal
                              (code point, or 1114112 + b for an invalid byte b)
      → <model tokens>|<model errors>|<ok|err>|<spec tokens>|<ok|err>|<loose spec tokens>
        token  := kind:off:len:line:col:v1.v2.…     (kind = token.Token value; v = decoded string value,
                                                      only for STRING_VALUE), tokens joined by ","
        error  := line:col, joined by ","
        spec   := verdict of the reference lexer (`Spec.lexAll`) and its tokens (for `err`: the tokens before
                  the first lexical error); then the same for `Spec.lexAllLoose` (the other reading of D1–D3)
    B <e1> <e2> …             → <Model.blockStringValue>|<Spec.blockStringValue>   (values joined by ".")
    anything else             → bad-op
-/
import ApiFu.Common.Loop
import ApiFu.C07.Model
import ApiFu.C07.Spec

open ApiFu ApiFu.C07

def natsStr (sep : String) (xs : List Nat) : String := sep.intercalate (xs.map toString)

def tokStr (t : Tok) : String :=
  s!"{t.kind.code}:{t.off}:{t.len}:{t.line}:{t.col}:{natsStr "." t.value}"

def toksStr (ts : List Tok) : String := ",".intercalate (ts.map tokStr)

def errsStr (es : List Err) : String := ",".intercalate (es.map fun e => s!"{e.line}:{e.col}")

def parseNats (ws : List String) : Option (List Nat) := ws.mapM String.toNat?

def handle (line : String) : String :=
  match (line.splitOn " ").filter (· ≠ "") with
  | "L" :: mode :: ws =>
    match parseNats ws with
    | none => "bad-op"
    | some src =>
      if mode ≠ "0" ∧ mode ≠ "1" then "bad-op" else
      let m := mode == "1"
      let (ts, es) := scanAll m src
      let (verdict, sts) := match Spec.lexAll m src with
        | .ok ts => ("ok", ts)
        | .error ts => ("err", ts)
      let (verdictL, stsL) := match Spec.lexAllLoose m src with
        | .ok ts => ("ok", ts)
        | .error ts => ("err", ts)
      s!"{toksStr ts}|{errsStr es}|{verdict}|{toksStr sts}|{verdictL}|{toksStr stsL}"
  | "B" :: ws =>
    match parseNats ws with
    | none => "bad-op"
    | some raw => s!"{natsStr "." (blockStringValue raw)}|{natsStr "." (Spec.blockStringValue raw)}"
  | _ => "bad-op"

def main : IO Unit := lineLoopPure handle
