/-
  C07 — helper lemmas, part 9: the reference's number recogniser returns the longest prefix that is a
  word of the declarative number grammar (`Spec.IntValue`, `Spec.FloatValue`).
-/
import ApiFu.C07.Spec

namespace ApiFu.C07.Spec

@[simp] theorem ch0 : '0'.toNat = 48 := rfl
@[simp] theorem chMinus : '-'.toNat = 45 := rfl
@[simp] theorem chPlus : '+'.toNat = 43 := rfl
@[simp] theorem chDot : '.'.toNat = 46 := rfl
@[simp] theorem che : 'e'.toNat = 101 := rfl
@[simp] theorem chE : 'E'.toNat = 69 := rfl

/-! ## Digits -/

theorem digits_nil : Digits [] := fun _ h => by cases h

theorem Digits.cons {d : Nat} {ds : List Nat} (h1 : isDigit d = true) (h2 : Digits ds) : Digits (d :: ds) := by
  intro c hc
  rcases List.mem_cons.mp hc with rfl | hc
  · exact h1
  · exact h2 c hc

theorem Digits.head {d : Nat} {ds : List Nat} (h : Digits (d :: ds)) : isDigit d = true := h d (by simp)
theorem Digits.tail {d : Nat} {ds : List Nat} (h : Digits (d :: ds)) : Digits ds := fun c hc => h c (by simp [hc])

theorem digits_takeWhile (w : List Nat) : Digits (w.takeWhile isDigit) := by
  induction w with
  | nil => exact digits_nil
  | cons c w ih =>
    by_cases h : isDigit c = true
    · simp only [List.takeWhile_cons, h, if_true]; exact Digits.cons h ih
    · simp only [List.takeWhile_cons, h]; exact digits_nil

theorem take_takeWhile (w : List Nat) : w.take (w.takeWhile isDigit).length = w.takeWhile isDigit := by
  induction w with
  | nil => rfl
  | cons c w ih =>
    by_cases h : isDigit c = true
    · simp [h, ih]
    · simp [h]

/-- A run of digits at the head of `ds ++ t` is at most the greedy run, and when it is shorter the next
    character is a digit. -/
theorem digits_prefix : ∀ (ds t : List Nat), Digits ds →
    ds.length ≤ ((ds ++ t).takeWhile isDigit).length ∧
    (ds.length < ((ds ++ t).takeWhile isDigit).length → ∃ c t', t = c :: t' ∧ isDigit c = true)
  | [], t, _ => by
    refine ⟨by simp, fun h => ?_⟩
    cases t with
    | nil => simp at h
    | cons c t' =>
      by_cases hc : isDigit c = true
      · exact ⟨c, t', rfl, hc⟩
      · simp [hc] at h
  | d :: ds, t, h => by
    have ih := digits_prefix ds t (Digits.tail h)
    simp only [List.cons_append, List.takeWhile_cons, Digits.head h, if_true, List.length_cons]
    exact ⟨by omega, fun hlt => ih.2 (by omega)⟩

theorem not_digit_of {c : Nat} (h : c = '.'.toNat ∨ c = 'e'.toNat ∨ c = 'E'.toNat ∨ c = '+'.toNat ∨ c = '-'.toNat) :
    ¬ isDigit c = true := by
  rcases h with h | h | h | h | h <;> subst h <;> decide

/-! ## IntegerPart -/

theorem unsigned_sound {w : List Nat} {k : Nat} (h : unsignedIntegerPart? w = some k) :
    UnsignedIntegerPart (w.take k) ∧ k ≤ w.length ∧ 1 ≤ k := by
  cases w with
  | nil => simp [unsignedIntegerPart?] at h
  | cons c r =>
    simp only [unsignedIntegerPart?] at h
    split at h
    · rename_i h0
      cases h; subst h0
      exact ⟨by simpa using UnsignedIntegerPart.zero, by simp, by omega⟩
    · split at h
      · rename_i hnz
        cases h
        refine ⟨?_, ?_, by omega⟩
        · rw [Nat.add_comm, List.take_succ_cons, take_takeWhile]
          exact .nonZero c _ hnz (digits_takeWhile r)
        · have := (List.takeWhile_sublist (l := r) isDigit).length_le
          simp; omega
      · cases h

/-- Every word of UnsignedIntegerPart at the head of the text is found, in its greedy extension. -/
theorem unsigned_max {u t : List Nat} (h : UnsignedIntegerPart u) :
    ∃ k, unsignedIntegerPart? (u ++ t) = some k ∧ u.length ≤ k ∧
      (u.length < k → ∃ c t', t = c :: t' ∧ isDigit c = true) := by
  cases h with
  | zero => exact ⟨1, by simp [unsignedIntegerPart?], by simp, by simp⟩
  | nonZero d ds hnz hds =>
    have h0 : d ≠ 48 := by
      intro h; subst h; simp [isNonZeroDigit] at hnz
    have := digits_prefix ds t hds
    refine ⟨1 + ((ds ++ t).takeWhile isDigit).length, by simp [unsignedIntegerPart?, h0, hnz], by simp; omega, ?_⟩
    intro hlt
    exact this.2 (by simp at hlt; omega)

theorem integer_sound {w : List Nat} {k : Nat} (h : integerPart? w = some k) :
    IntegerPart (w.take k) ∧ k ≤ w.length ∧ 1 ≤ k := by
  cases w with
  | nil => simp [integerPart?] at h
  | cons c r =>
    simp only [integerPart?] at h
    split at h
    · rename_i hm
      cases hu : unsignedIntegerPart? r with
      | none => rw [hu] at h; cases h
      | some m =>
        rw [hu] at h; cases h
        obtain ⟨h1, h2, h3⟩ := unsigned_sound hu
        refine ⟨.inr ⟨r.take m, h1, by rw [List.take_succ_cons, hm]⟩, ?_, ?_⟩
        · show m + 1 ≤ (c :: r).length
          simp only [List.length_cons]; omega
        · show 1 ≤ m + 1
          omega
    · obtain ⟨h1, h2, h3⟩ := unsigned_sound h
      exact ⟨.inl h1, h2, h3⟩

theorem unsigned_head_not_minus {u : List Nat} (h : UnsignedIntegerPart u) : ∃ c r, u = c :: r ∧ c ≠ '-'.toNat := by
  cases h with
  | zero => exact ⟨_, _, rfl, by decide⟩
  | nonZero d ds hnz _ =>
    refine ⟨d, ds, rfl, ?_⟩
    intro h; subst h; simp [isNonZeroDigit] at hnz

theorem integer_max {u t : List Nat} (h : IntegerPart u) :
    ∃ k, integerPart? (u ++ t) = some k ∧ u.length ≤ k ∧
      (u.length < k → ∃ c t', t = c :: t' ∧ isDigit c = true) := by
  rcases h with h | ⟨u', h, rfl⟩
  · obtain ⟨c, r, rfl, hc⟩ := unsigned_head_not_minus h
    obtain ⟨k, hk, h1, h2⟩ := unsigned_max (t := t) h
    have hc' : c ≠ 45 := by simpa using hc
    exact ⟨k, by simpa [integerPart?, hc'] using hk, h1, h2⟩
  · obtain ⟨k, hk, h1, h2⟩ := unsigned_max (t := t) h
    refine ⟨k + 1, by simp [integerPart?, hk], by simp; omega, fun hlt => h2 (by simp at hlt; omega)⟩

/-! ## FractionalPart, ExponentPart -/

theorem fractional_sound {w : List Nat} {k : Nat} (h : fractionalPart? w = some k) :
    FractionalPart (w.take k) ∧ k ≤ w.length := by
  rcases w with _ | ⟨c, _ | ⟨d, r⟩⟩
  · simp [fractionalPart?] at h
  · simp [fractionalPart?] at h
  · simp only [fractionalPart?] at h
    split at h
    · rename_i hc
      cases h
      refine ⟨⟨d, r.takeWhile isDigit, hc.2, digits_takeWhile r, ?_⟩, ?_⟩
      · rw [show 2 + (r.takeWhile isDigit).length = (r.takeWhile isDigit).length + 1 + 1 by omega,
          List.take_succ_cons, List.take_succ_cons, take_takeWhile, hc.1]
      · have := (List.takeWhile_sublist (l := r) isDigit).length_le
        simp; omega
    · cases h

theorem fractional_max {u t : List Nat} (h : FractionalPart u) :
    ∃ k, fractionalPart? (u ++ t) = some k ∧ u.length ≤ k ∧
      (u.length < k → ∃ c t', t = c :: t' ∧ isDigit c = true) := by
  obtain ⟨d, ds, hd, hds, rfl⟩ := h
  have := digits_prefix ds t hds
  refine ⟨2 + ((ds ++ t).takeWhile isDigit).length, by simp [fractionalPart?, hd], by simp; omega, ?_⟩
  intro hlt
  exact this.2 (by simp at hlt; omega)

theorem fractional_none_of_head {w : List Nat} (h : ∀ c r, w = c :: r → c ≠ '.'.toNat) : fractionalPart? w = none := by
  rcases w with _ | ⟨c, _ | ⟨d, r⟩⟩
  · simp [fractionalPart?]
  · simp [fractionalPart?]
  · have hc : c ≠ 46 := by simpa using h c _ rfl
    simp [fractionalPart?, hc]

theorem digits1_sound {w : List Nat} {k : Nat} (h : digits1? w = some k) :
    ∃ d ds, isDigit d = true ∧ Digits ds ∧ w.take k = d :: ds ∧ k ≤ w.length := by
  cases w with
  | nil => simp [digits1?] at h
  | cons d r =>
    simp only [digits1?] at h
    split at h
    · rename_i hd
      cases h
      refine ⟨d, r.takeWhile isDigit, hd, digits_takeWhile r, ?_, ?_⟩
      · rw [Nat.add_comm, List.take_succ_cons, take_takeWhile]
      · have := (List.takeWhile_sublist (l := r) isDigit).length_le
        simp; omega
    · cases h

theorem digits1_max {d : Nat} {ds t : List Nat} (hd : isDigit d = true) (hds : Digits ds) :
    ∃ k, digits1? (d :: ds ++ t) = some k ∧ (d :: ds).length ≤ k := by
  have := digits_prefix ds t hds
  exact ⟨1 + ((ds ++ t).takeWhile isDigit).length, by simp [digits1?, hd], by simp; omega⟩

theorem exponent_sound {w : List Nat} {k : Nat} (h : exponentPart? w = some k) :
    ExponentPart (w.take k) ∧ k ≤ w.length := by
  cases w with
  | nil => simp [exponentPart?] at h
  | cons e r =>
    simp only [exponentPart?] at h
    split at h
    · rename_i he
      cases r with
      | nil => cases h
      | cons sg r' =>
        simp only at h
        split at h
        · rename_i hsg
          cases hd : digits1? r' with
          | none => rw [hd] at h; cases h
          | some m =>
            rw [hd] at h; cases h
            obtain ⟨d, ds, h1, h2, h3, h4⟩ := digits1_sound hd
            refine ⟨⟨e, [sg], d, ds, he, ?_, h1, h2, ?_⟩, by simp; omega⟩
            · rcases hsg with h | h <;> simp [h]
            · change List.take (m + 1 + 1) (e :: sg :: r') = _
              rw [List.take_succ_cons, List.take_succ_cons, h3]; rfl
        · cases hd : digits1? (sg :: r') with
          | none => rw [hd] at h; cases h
          | some m =>
            rw [hd] at h; cases h
            obtain ⟨d, ds, h1, h2, h3, h4⟩ := digits1_sound hd
            refine ⟨⟨e, [], d, ds, he, .inl rfl, h1, h2, ?_⟩, by simp at h4 ⊢; omega⟩
            change List.take (m + 1) (e :: sg :: r') = _
            rw [List.take_succ_cons, h3]; rfl
    · cases h

theorem exponent_max {u t : List Nat} (h : ExponentPart u) :
    ∃ k, exponentPart? (u ++ t) = some k ∧ u.length ≤ k := by
  obtain ⟨e, sign, d, ds, he, hs, hd, hds, rfl⟩ := h
  rcases hs with rfl | rfl | rfl
  · obtain ⟨k, hk, hle⟩ := digits1_max (t := t) hd hds
    have hnd : ¬ (d = '+'.toNat ∨ d = '-'.toNat) := by
      intro h
      exact not_digit_of (by rcases h with h | h <;> simp [h]) hd
    refine ⟨k + 1, ?_, by simp at hle ⊢; omega⟩
    simp only [List.nil_append, List.cons_append, exponentPart?, he, if_true, hnd, if_false]
    simp at hk
    simp [hk]
  · obtain ⟨k, hk, hle⟩ := digits1_max (t := t) hd hds
    refine ⟨k + 2, ?_, by simp at hle ⊢; omega⟩
    simp only [List.cons_append, List.nil_append, exponentPart?, he, if_true, true_or]
    simp at hk
    simp [hk]
  · obtain ⟨k, hk, hle⟩ := digits1_max (t := t) hd hds
    refine ⟨k + 2, ?_, by simp at hle ⊢; omega⟩
    simp only [List.cons_append, List.nil_append, exponentPart?, he, if_true, or_true]
    simp at hk
    simp [hk]

theorem exponent_none_of_head {w : List Nat} (h : ∀ c r, w = c :: r → ¬ (c = 'e'.toNat ∨ c = 'E'.toNat)) :
    exponentPart? w = none := by
  cases w with
  | nil => simp [exponentPart?]
  | cons c r =>
    have hc : ¬ (c = 101 ∨ c = 69) := by simpa using h c r rfl
    simp [exponentPart?, hc]

theorem fractional_head {u : List Nat} (h : FractionalPart u) : ∃ r, u = '.'.toNat :: r := by
  obtain ⟨d, ds, _, _, rfl⟩ := h; exact ⟨_, rfl⟩

theorem exponent_head {u : List Nat} (h : ExponentPart u) : ∃ c r, u = c :: r ∧ (c = 'e'.toNat ∨ c = 'E'.toNat) := by
  obtain ⟨e, sign, d, ds, he, _, _, _, rfl⟩ := h; exact ⟨e, _, rfl, he⟩

/-! ## IntValue / FloatValue -/

/-- What `numberLoose?` computes, spelled out. -/
theorem numberLoose_eq (w : List Nat) :
    numberLoose? w =
      (integerPart? w).bind fun ip =>
        let n1 := ip + (fractionalPart? (w.drop ip)).getD 0
        some ((fractionalPart? (w.drop ip)).isSome || (exponentPart? (w.drop n1)).isSome,
              n1 + (exponentPart? (w.drop n1)).getD 0) := by
  unfold numberLoose?
  cases integerPart? w with
  | none => rfl
  | some ip =>
    simp only [Option.bind_some]
    cases hfp : fractionalPart? (w.drop ip) with
    | none =>
      simp only [Option.getD_none, Nat.add_zero, Option.isSome_none, Bool.false_or]
      cases exponentPart? (w.drop ip) <;> simp
    | some fp =>
      simp only [Option.getD_some, Option.isSome_some, Bool.true_or]
      cases exponentPart? (w.drop (ip + fp)) <;> simp

theorem numberLoose_sound {w : List Nat} {f : Bool} {n : Nat} (h : numberLoose? w = some (f, n)) :
    n ≤ w.length ∧ 1 ≤ n ∧ (f = false → IntValue (w.take n)) ∧ (f = true → FloatValue (w.take n)) := by
  rw [numberLoose_eq] at h
  cases hip : integerPart? w with
  | none => rw [hip] at h; cases h
  | some ip =>
    rw [hip] at h
    simp only [Option.bind_some, Option.some.injEq, Prod.mk.injEq] at h
    obtain ⟨hf, hn⟩ := h
    obtain ⟨i1, i2, i3⟩ := integer_sound hip
    cases hfp : fractionalPart? (w.drop ip) with
    | none =>
      rw [hfp] at hf hn
      simp only [Option.getD_none, Nat.add_zero, Option.isSome_none, Bool.false_or] at hf hn
      cases hep : exponentPart? (w.drop ip) with
      | none =>
        rw [hep] at hf hn
        simp only [Option.getD_none, Nat.add_zero, Option.isSome_none] at hf hn
        subst hn
        exact ⟨i2, i3, fun _ => i1, (fun h => by rw [← hf] at h; cases h)⟩
      | some ep =>
        rw [hep] at hf hn
        simp only [Option.getD_some, Option.isSome_some] at hf hn
        subst hn
        obtain ⟨e1, e2⟩ := exponent_sound hep
        simp only [List.length_drop] at e2
        refine ⟨by omega, by omega, (fun h => by rw [← hf] at h; cases h), fun _ => ?_⟩
        exact ⟨w.take ip, [], (w.drop ip).take ep, i1, .inl rfl, .inr e1,
          .inr (by obtain ⟨c, r, hc, _⟩ := exponent_head e1; rw [hc]; simp), by rw [List.take_add]; simp⟩
    | some fp =>
      rw [hfp] at hf hn
      simp only [Option.getD_some, Option.isSome_some, Bool.true_or] at hf hn
      obtain ⟨f1, f2⟩ := fractional_sound hfp
      simp only [List.length_drop] at f2
      have hfne : (w.drop ip).take fp ≠ [] := by obtain ⟨r, hr⟩ := fractional_head f1; rw [hr]; simp
      cases hep : exponentPart? (w.drop (ip + fp)) with
      | none =>
        rw [hep] at hn
        simp only [Option.getD_none, Nat.add_zero] at hn
        subst hn
        refine ⟨by omega, by omega, (fun h => by rw [← hf] at h; cases h), fun _ => ?_⟩
        exact ⟨w.take ip, (w.drop ip).take fp, [], i1, .inr f1, .inl rfl, .inl hfne, by rw [List.take_add]; simp⟩
      | some ep =>
        rw [hep] at hn
        simp only [Option.getD_some] at hn
        subst hn
        obtain ⟨e1, e2⟩ := exponent_sound hep
        simp only [List.length_drop] at e2
        refine ⟨by omega, by omega, (fun h => by rw [← hf] at h; cases h), fun _ => ?_⟩
        exact ⟨w.take ip, (w.drop ip).take fp, (w.drop (ip + fp)).take ep, i1, .inr f1, .inr e1, .inl hfne,
          by rw [List.take_add, List.take_add]⟩

theorem numberLoose_ge {w : List Nat} {ip : Nat} (hip : integerPart? w = some ip) :
    ∃ f n, numberLoose? w = some (f, n) ∧
      n = ip + (fractionalPart? (w.drop ip)).getD 0 +
        (exponentPart? (w.drop (ip + (fractionalPart? (w.drop ip)).getD 0))).getD 0 := by
  rw [numberLoose_eq, hip]
  exact ⟨_, _, rfl, rfl⟩

/-- Every prefix of the text that is a word of IntValue or FloatValue is at most as long as what
    `numberLoose?` returns: it is the longest match. -/
theorem numberLoose_max {u t : List Nat} (h : IntValue u ∨ FloatValue u) :
    ∃ f n, numberLoose? (u ++ t) = some (f, n) ∧ u.length ≤ n := by
  rcases h with h | ⟨ip, fp, ep, hi, hf, he, hne, rfl⟩
  · obtain ⟨k, hk, hle, _⟩ := integer_max (t := t) h
    obtain ⟨f, n, hn, hv⟩ := numberLoose_ge hk
    exact ⟨f, n, hn, by omega⟩
  · -- the integer part is the greedy one: what follows it is `.` or an exponent indicator, not a digit
    have hw : ip ++ fp ++ ep ++ t = ip ++ (fp ++ ep ++ t) := by simp
    obtain ⟨k, hk, hle, hnext⟩ := integer_max (t := fp ++ ep ++ t) hi
    have hkeq : k = ip.length := by
      by_cases hlt : ip.length < k
      · obtain ⟨c, t', hc, hd⟩ := hnext hlt
        exfalso
        rcases hf with rfl | hf
        · rcases he with rfl | he
          · simp at hne
          · obtain ⟨c', r, hc', hce⟩ := exponent_head he
            rw [hc'] at hc; simp at hc
            exact not_digit_of (by rcases hce with h | h <;> simp [← hc.1, h]) hd
        · obtain ⟨r, hr⟩ := fractional_head hf
          rw [hr] at hc; simp at hc
          exact not_digit_of (by simp [← hc.1]) hd
      · omega
    subst hkeq
    rw [hw]
    obtain ⟨f, n, hn, hv⟩ := numberLoose_ge hk
    refine ⟨f, n, hn, ?_⟩
    rw [hv]
    simp only [List.drop_left, List.length_append]
    rcases hf with rfl | hf
    · -- no fractional part: the exponent follows the integer part directly
      rcases he with rfl | he
      · simp at hne
      · obtain ⟨c', r, hc', hce⟩ := exponent_head he
        have hnone : fractionalPart? ([] ++ ep ++ t) = none := by
          apply fractional_none_of_head
          intro c r' h
          rw [hc'] at h; simp at h
          rcases hce with h' | h' <;> simp [← h.1, h']
        obtain ⟨ke, hke, hle2⟩ := exponent_max (t := t) he
        rw [hnone]
        simp only [Option.getD_none, Nat.add_zero, List.drop_left, List.nil_append, List.length_nil] at hke ⊢
        rw [hke]
        simp; omega
    · obtain ⟨kf, hkf, hle1, hnext1⟩ := fractional_max (t := ep ++ t) hf
      have hw2 : fp ++ ep ++ t = fp ++ (ep ++ t) := by simp
      rw [hw2, hkf]
      simp only [Option.getD_some]
      rcases he with rfl | he
      · simp; omega
      · obtain ⟨c', r, hc', hce⟩ := exponent_head he
        have hkfeq : kf = fp.length := by
          by_cases hlt : fp.length < kf
          · obtain ⟨c, t', hc, hd⟩ := hnext1 hlt
            exfalso
            rw [hc'] at hc; simp at hc
            exact not_digit_of (by rcases hce with h | h <;> simp [← hc.1, h]) hd
          · omega
        subst hkfeq
        obtain ⟨ke, hke, hle2⟩ := exponent_max (t := t) he
        have : List.drop (ip.length + fp.length) (ip ++ (fp ++ (ep ++ t))) = ep ++ t := by
          rw [← List.append_assoc, ← List.length_append, List.drop_left]
        rw [this, hke]
        simp; omega

theorem number_loose_aux (w : List Nat) (hasFrac : Bool) (n1 : Nat) :
    (∀ p : Bool × Nat,
      (match exponentPart? (w.drop n1) with
        | some ep => some (true, n1 + ep)
        | none =>
          match w.drop n1 with
          | c :: _ => if c = 'e'.toNat ∨ c = 'E'.toNat then none else some (hasFrac, n1)
          | [] => some (hasFrac, n1)) = some p →
      (match exponentPart? (w.drop n1) with
        | some ep => some (true, n1 + ep)
        | none => some (hasFrac, n1)) = some p) ∧
    ((match exponentPart? (w.drop n1) with
        | some ep => some (true, n1 + ep)
        | none =>
          match w.drop n1 with
          | c :: _ => if c = 'e'.toNat ∨ c = 'E'.toNat then none else some (hasFrac, n1)
          | [] => some (hasFrac, n1)) = none →
      ∃ f n c r, (match exponentPart? (w.drop n1) with
        | some ep => some (true, n1 + ep)
        | none => some (hasFrac, n1)) = some (f, n) ∧ w.drop n = c :: r ∧ (c = 'e'.toNat ∨ c = 'E'.toNat)) := by
  cases exponentPart? (w.drop n1) with
  | some ep => exact ⟨fun p h => h, fun h => by cases h⟩
  | none =>
    cases hd : w.drop n1 with
    | nil => exact ⟨fun p h => h, fun h => by cases h⟩
    | cons c r =>
      simp only
      by_cases hc : c = 'e'.toNat ∨ c = 'E'.toNat
      · rw [if_pos hc]
        exact ⟨fun p h => (by cases h), fun _ => ⟨hasFrac, n1, c, r, rfl, hd, hc⟩⟩
      · rw [if_neg hc]
        exact ⟨fun p h => h, fun h => by cases h⟩

/-- The strict recogniser (D1) is the loose one, except that it rejects a number that is directly
    followed by an exponent indicator. -/
theorem number_loose (w : List Nat) :
    (∀ p, number? w = some p → numberLoose? w = some p) ∧
    (number? w = none → numberLoose? w = none ∨
      ∃ f n c r, numberLoose? w = some (f, n) ∧ w.drop n = c :: r ∧ (c = 'e'.toNat ∨ c = 'E'.toNat)) := by
  unfold number? numberLoose?
  cases integerPart? w with
  | none => exact ⟨fun p h => (by cases h), fun _ => .inl rfl⟩
  | some ip =>
    simp only
    cases fractionalPart? (w.drop ip) with
    | none =>
      have := number_loose_aux w false ip
      exact ⟨this.1, fun h => .inr (this.2 h)⟩
    | some fp =>
      have := number_loose_aux w true (ip + fp)
      exact ⟨this.1, fun h => .inr (this.2 h)⟩

/-- No word is both an IntValue and a FloatValue: the classification is determined by the word. -/
theorem int_float_disjoint (u : List Nat) : ¬ (IntValue u ∧ FloatValue u) := by
  rintro ⟨hi, ip, fp, ep, _, hf, he, hne, rfl⟩
  -- an IntegerPart has no `.`, `e`, `E`
  have clean : ∀ v, IntegerPart v → ∀ c ∈ v, c = 45 ∨ isDigit c = true := by
    intro v hv c hc
    have un : ∀ x, UnsignedIntegerPart x → ∀ c ∈ x, isDigit c = true := by
      intro x hx c hc
      cases hx with
      | zero => simp at hc; subst hc; decide
      | nonZero d ds hnz hds =>
        rcases List.mem_cons.mp hc with rfl | hc
        · simp only [isNonZeroDigit, Bool.and_eq_true, decide_eq_true_eq] at hnz
          simp only [isDigit, Bool.and_eq_true, decide_eq_true_eq, ch0]
          have : '1'.toNat = 49 := rfl
          have : '9'.toNat = 57 := rfl
          omega
        · exact hds c hc
    rcases hv with hv | ⟨x, hx, rfl⟩
    · exact .inr (un v hv c hc)
    · rcases List.mem_cons.mp hc with rfl | hc
      · exact .inl rfl
      · exact .inr (un x hx c hc)
  have mark : ∃ c ∈ ip ++ fp ++ ep, c = 46 ∨ c = 101 ∨ c = 69 := by
    rcases hf with rfl | hf
    · rcases he with rfl | he
      · simp at hne
      · obtain ⟨c, r, hc, hce⟩ := exponent_head he
        exact ⟨c, by simp [hc], by simpa using Or.inr hce⟩
    · obtain ⟨r, hr⟩ := fractional_head hf
      exact ⟨46, by simp [hr], .inl rfl⟩
  obtain ⟨c, hc, hm⟩ := mark
  rcases clean _ hi c hc with h | h
  · omega
  · exact not_digit_of (by rcases hm with h' | h' | h' <;> simp [h']) h

end ApiFu.C07.Spec
