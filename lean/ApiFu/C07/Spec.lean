/-
  C07 — reference lexer written from the lexical grammar of the GraphQL specification, June 2018
  (§2.1 Source Text, §2.1.1–2.1.8, §2.9.1–2.9.4 Int/Float/String values), independently of the Go code.

  Shape: one *recogniser* per non-terminal (`List Nat → Option …`: the length of the longest prefix
  derived from the non-terminal, plus the decoded value for strings), `token?` = the alternative that
  matches at the current offset, `lexAll` = the token sequence, with positions computed from the
  consumed prefix by `position` (it does not thread a line/column counter).

  Source text is a list of code points (valid UTF-8 ⇒ every element `< 0x110000`); offsets count code
  points. Only `Model.Kind`/`Model.Tok` are shared with the model (the observable's type).

  The June-2018 text leaves three places to interpretation. In each the reference lexer takes the reading
  of the reference implementation (graphql-js 14) and of the later editions, which is the *stricter* one
  (an error instead of a token sequence), never a different value:
    D1  a number directly followed by `e`/`E` that does not start a complete ExponentPart is an error
        (`1e`, `1.5E+`): longest match alone would give IntValue `1` followed by Name `e`.
    D2  U+FEFF is the Ignored token UnicodeBOM at the very beginning of the text ("may appear at the
        beginning of a file", §2.1.1) and an error anywhere else outside strings and comments.
    D3  `"""` always opens a block string (`"""a"` is an unterminated block string, not `""` `"a"`).
  A comment extends to the next LineTerminator (§2.1.4 "up to but not including the line terminator");
  it is ill-formed if it contains a code point that is not a SourceCharacter.
  Lone surrogates from `\uD800`–`\uDFFF` are not code points; like Go's `string(rune)` the reference
  decodes them to U+FFFD (June 2018 does not say; DESIGN §9 F-07d, not claimed).
-/
import ApiFu.C07.Model

namespace ApiFu.C07.Spec

/-! ## Character classes (§2.1, §2.1.2, §2.1.3, §2.1.9, §2.9) -/

/-- SourceCharacter :: /[\u0009\u000A\u000D\u0020-\uFFFF]/ -/
def isSourceCharacter (c : Nat) : Bool := c == 0x9 || c == 0xA || c == 0xD || (0x20 ≤ c && c ≤ 0xFFFF)
/-- WhiteSpace :: Horizontal Tab (U+0009) | Space (U+0020) -/
def isWhiteSpace (c : Nat) : Bool := c == 0x9 || c == 0x20
def isLineTerminatorChar (c : Nat) : Bool := c == 0xA || c == 0xD
/-- Digit :: one of 0 1 2 3 4 5 6 7 8 9 -/
def isDigit (c : Nat) : Bool := '0'.toNat ≤ c && c ≤ '9'.toNat
def isNonZeroDigit (c : Nat) : Bool := '1'.toNat ≤ c && c ≤ '9'.toNat
/-- Name :: /[_A-Za-z][_0-9A-Za-z]*/ -/
def isNameStart (c : Nat) : Bool :=
  c == '_'.toNat || ('A'.toNat ≤ c && c ≤ 'Z'.toNat) || ('a'.toNat ≤ c && c ≤ 'z'.toNat)
def isNameContinue (c : Nat) : Bool := isNameStart c || isDigit c
/-- Punctuator :: one of ! $ ( ) ... : = @ [ ] { | }   (the one-character ones) -/
def punctuatorChars : List Nat := ['!', '$', '(', ')', ':', '=', '@', '[', ']', '{', '|', '}'].map Char.toNat
def isPunctuatorChar (c : Nat) : Bool := punctuatorChars.contains c

/-- EscapedUnicode :: /[0-9A-Fa-f]{4}/ — the value of one hexadecimal digit. -/
def hexDigit? (c : Nat) : Option Nat :=
  if isDigit c then some (c - '0'.toNat)
  else if 'a'.toNat ≤ c ∧ c ≤ 'f'.toNat then some (c - 'a'.toNat + 10)
  else if 'A'.toNat ≤ c ∧ c ≤ 'F'.toNat then some (c - 'A'.toNat + 10)
  else none

/-- EscapedCharacter :: one of `"` `\` `/` b f n r t — the table of §2.9.4 "Semantics". -/
def escapedCharacter? (c : Nat) : Option Nat :=
  if c = '"'.toNat then some 0x22
  else if c = '\\'.toNat then some 0x5C
  else if c = '/'.toNat then some 0x2F
  else if c = 'b'.toNat then some 0x8
  else if c = 'f'.toNat then some 0xC
  else if c = 'n'.toNat then some 0xA
  else if c = 'r'.toNat then some 0xD
  else if c = 't'.toNat then some 0x9
  else none

/-- The code point of a UTF-16 code unit given by `\uXXXX` (a lone surrogate has none: U+FFFD). -/
def codeUnit (u : Nat) : Nat := if 0xD800 ≤ u ∧ u ≤ 0xDFFF then 0xFFFD else u

/-! ## Recognisers -/

/-- LineTerminator :: LF | CR [lookahead ≠ LF] | CR LF — length of the one at the head. -/
def lineTerminator? : List Nat → Option Nat
  | 0xD :: 0xA :: _ => some 2
  | 0xD :: _ => some 1
  | 0xA :: _ => some 1
  | _ => none

/-- Name: length of the longest name at the head. -/
def name? : List Nat → Option Nat
  | c :: rest => if isNameStart c then some (1 + (rest.takeWhile isNameContinue).length) else none
  | [] => none

/-- 0 | NonZeroDigit Digit* -/
def unsignedIntegerPart? : List Nat → Option Nat
  | c :: rest =>
    if c = '0'.toNat then some 1
    else if isNonZeroDigit c then some (1 + (rest.takeWhile isDigit).length)
    else none
  | [] => none

/-- IntegerPart :: NegativeSign? 0 | NegativeSign? NonZeroDigit Digit* -/
def integerPart? : List Nat → Option Nat
  | c :: rest => if c = '-'.toNat then (unsignedIntegerPart? rest).map (· + 1) else unsignedIntegerPart? (c :: rest)
  | [] => none

/-- FractionalPart :: . Digit+ -/
def fractionalPart? : List Nat → Option Nat
  | c :: d :: rest =>
    if c = '.'.toNat ∧ isDigit d then some (2 + (rest.takeWhile isDigit).length) else none
  | _ => none

/-- Digit+ -/
def digits1? : List Nat → Option Nat
  | d :: rest => if isDigit d then some (1 + (rest.takeWhile isDigit).length) else none
  | [] => none

/-- ExponentPart :: ExponentIndicator Sign? Digit+ -/
def exponentPart? : List Nat → Option Nat
  | e :: rest =>
    if e = 'e'.toNat ∨ e = 'E'.toNat then
      match rest with
      | sg :: rest' =>
        if sg = '+'.toNat ∨ sg = '-'.toNat then (digits1? rest').map (· + 2) else (digits1? rest).map (· + 1)
      | [] => none
    else none
  | [] => none

/-- IntValue :: IntegerPart;  FloatValue :: IntegerPart FractionalPart | IntegerPart ExponentPart |
    IntegerPart FractionalPart ExponentPart — the longest of these at the head (`isFloat`, length).
    `none` also for D1 (the number is directly followed by a dangling exponent indicator). -/
def number? (s : List Nat) : Option (Bool × Nat) :=
  match integerPart? s with
  | none => none
  | some ip =>
    let (hasFrac, n1) := match fractionalPart? (s.drop ip) with
      | some fp => (true, ip + fp)
      | none => (false, ip)
    match exponentPart? (s.drop n1) with
    | some ep => some (true, n1 + ep)
    | none =>
      match s.drop n1 with
      | c :: _ => if c = 'e'.toNat ∨ c = 'E'.toNat then none else some (hasFrac, n1)   -- D1
      | [] => some (hasFrac, n1)

/-- After the opening `"`: StringCharacter* `"`. Returns the number of code points up to and including
    the closing quote and the string's value (§2.9.4 Semantics).
      StringCharacter :: SourceCharacter but not `"` or `\` or LineTerminator
                       | \u EscapedUnicode | \ EscapedCharacter -/
def stringBody? : List Nat → Option (Nat × List Nat)
  | [] => none                                        -- unterminated
  | c :: rest =>
    if c = '"'.toNat then some (1, [])
    else if c = '\\'.toNat then
      match rest with
      | e :: rest1 =>
        if e = 'u'.toNat then
          match rest1 with
          | h1 :: h2 :: h3 :: h4 :: rest2 =>
            match hexDigit? h1, hexDigit? h2, hexDigit? h3, hexDigit? h4 with
            | some a, some b, some c, some d =>
              (stringBody? rest2).map fun (n, v) => (n + 6, codeUnit (((a * 16 + b) * 16 + c) * 16 + d) :: v)
            | _, _, _, _ => none
          | _ => none
        else
          match escapedCharacter? e with
          | some v => (stringBody? rest1).map fun (n, vs) => (n + 2, v :: vs)
          | none => none
      | [] => none
    else if isSourceCharacter c && !isLineTerminatorChar c then
      (stringBody? rest).map fun (n, v) => (n + 1, c :: v)
    else none

/-- After the opening `"""`: BlockStringCharacter* `"""`. Returns the number of code points up to and
    including the closing quotes and the *raw* value.
      BlockStringCharacter :: SourceCharacter but not `"""` or `\"""` | `\"""` -/
def blockBody? : List Nat → Option (Nat × List Nat)
  | [] => none
  | c :: rest =>
    if (c :: rest).take 3 = ['"'.toNat, '"'.toNat, '"'.toNat] then some (3, [])
    else if (c :: rest).take 4 = ['\\'.toNat, '"'.toNat, '"'.toNat, '"'.toNat] then
      match rest with
      | _ :: _ :: _ :: rest' => (blockBody? rest').map fun (n, v) => (n + 4, [0x22, 0x22, 0x22] ++ v)
      | _ => none
    else if isSourceCharacter c then (blockBody? rest).map fun (n, v) => (n + 1, c :: v)
    else none

/-! ## BlockStringValue(rawValue) — §2.9.4, by its numbered steps -/

/-- "Let lines be the result of splitting rawValue by LineTerminator." -/
def splitLines : List Nat → List (List Nat)
  | [] => [[]]
  | 0xD :: 0xA :: rest => [] :: splitLines rest
  | c :: rest =>
    if c = 0xD ∨ c = 0xA then [] :: splitLines rest
    else
      match splitLines rest with
      | l :: ls => (c :: l) :: ls
      | [] => [[c]]

/-- "the number of leading consecutive WhiteSpace characters in line" -/
def leadingWhiteSpace (line : List Nat) : Nat := (line.takeWhile isWhiteSpace).length

def onlyWhiteSpace (line : List Nat) : Bool := line.all isWhiteSpace

/-- "Let commonIndent be null. For each line in lines: if line is not the first line: let length be the
    number of characters in line, indent the number of leading WhiteSpace characters; if indent is less
    than length: if commonIndent is null or indent is less than commonIndent, let commonIndent be
    indent." — the minimum indent of the lines after the first that are not only white space. -/
def commonIndent (lines : List (List Nat)) : Option Nat :=
  (((lines.drop 1).filter fun l => leadingWhiteSpace l < l.length).map leadingWhiteSpace).min?

/-- "If commonIndent is not null: for each line in lines: if line is not the first line, remove
    commonIndent characters from the beginning of the line." -/
def removeIndent (ci : Option Nat) : List (List Nat) → List (List Nat)
  | [] => []
  | first :: more =>
    match ci with
    | none => first :: more
    | some n => first :: more.map (·.drop n)

/-- "While the first line in lines contains only WhiteSpace, remove the first line. While the last line
    in lines contains only WhiteSpace, remove the last line." -/
def stripBlankLines (lines : List (List Nat)) : List (List Nat) :=
  ((lines.dropWhile onlyWhiteSpace).reverse.dropWhile onlyWhiteSpace).reverse

/-- "Let formatted be the empty string. For each line: if it is the first line append it, otherwise
    append U+000A followed by the line." -/
def joinLines (lines : List (List Nat)) : List Nat := [0xA].intercalate lines

def blockStringValue (raw : List Nat) : List Nat :=
  let lines := splitLines raw
  joinLines (stripBlankLines (removeIndent (commonIndent lines) lines))

/-! ## Tokens -/

/-- The token at the head of `s` (`atStart`: `s` is the whole text): kind, length, decoded value
    (`[]` except for StringValue). `none`: no token of the grammar starts here — a lexical error. -/
def token? (atStart : Bool) (s : List Nat) : Option (Kind × Nat × List Nat) :=
  match s with
  | [] => none
  | c :: rest =>
    if c = 0xFEFF then (if atStart then some (.unicodeBOM, 1, []) else none)               -- D2
    else if isWhiteSpace c then some (.whiteSpace, 1, [])
    else if c = ','.toNat then some (.comma, 1, [])
    else if isLineTerminatorChar c then (lineTerminator? s).map fun n => (.lineTerminator, n, [])
    else if c = '#'.toNat then
      let body := rest.takeWhile (!isLineTerminatorChar ·)
      if body.all isSourceCharacter then some (.comment, 1 + body.length, []) else none
    else if c = '.'.toNat then
      (if rest.take 2 = ['.'.toNat, '.'.toNat] then some (.punctuator, 3, []) else none)
    else if isPunctuatorChar c then some (.punctuator, 1, [])
    else if c = '"'.toNat then
      if rest.take 2 = ['"'.toNat, '"'.toNat] then                                          -- D3
        (blockBody? (rest.drop 2)).map fun (n, raw) => (.stringValue, 3 + n, blockStringValue raw)
      else (stringBody? rest).map fun (n, v) => (.stringValue, 1 + n, v)
    else if c = '-'.toNat ∨ isDigit c then
      (number? s).map fun (isFloat, n) => (if isFloat then .floatValue else .intValue, n, [])
    else (name? s).map fun n => (.name, n, [])

/-! ## Positions -/

/-- A line terminator *ends* at index `i`: LF, or CR that is not followed by LF. -/
def ltEndsAt (a : Array Nat) (i : Nat) : Bool :=
  a[i]? == some 0xA || (a[i]? == some 0xD && a[i + 1]? != some 0xA)

/-- (line, column) of offset `off`: line = 1 + number of line terminators that end before `off`
    (LF, CR and CRLF each count once); column = 1 + number of code points since the end of the last of
    them. -/
def position (src : List Nat) (off : Nat) : Nat × Nat :=
  let ends := (List.range off).filter (ltEndsAt src.toArray)
  (1 + ends.length, match ends.getLast? with | none => off + 1 | some i => off - i)

/-! ## The token sequence -/

/-- Result of lexing a whole text: every token, or the tokens before the first lexical error. -/
inductive Res where
  | ok (toks : List Tok)
  | error (toks : List Tok)
  deriving Repr, DecidableEq

def Res.toks : Res → List Tok
  | .ok ts => ts
  | .error ts => ts

def Res.cons (t : Tok) : Res → Res
  | .ok ts => .ok (t :: ts)
  | .error ts => .error (t :: ts)

/-- Lex `src` from offset `off` (fuel = number of remaining code points + 1). -/
def lexFrom (src : List Nat) : Nat → Nat → Res
  | 0, _ => .error []      -- not reached: every token has positive length
  | fuel + 1, off =>
    match src.drop off with
    | [] => .ok []
    | rest =>
      match token? (off == 0) rest with
      | none => .error []
      | some (k, n, v) =>
        let (line, col) := position src off
        (lexFrom src fuel (off + n)).cons { kind := k, off := off, len := n, line := line, col := col, value := v }

/-- The Ignored tokens are dropped when the caller does not ask for them (`scanIgnored = false`). -/
def Res.filterIgnored (scanIgnored : Bool) : Res → Res
  | .ok ts => .ok (if scanIgnored then ts else ts.filter (!·.kind.isIgnored))
  | .error ts => .error (if scanIgnored then ts else ts.filter (!·.kind.isIgnored))

def lexAll (scanIgnored : Bool) (src : List Nat) : Res :=
  (lexFrom src (src.length + 1) 0).filterIgnored scanIgnored

/-! ## The number grammar, declaratively (§2.9.1, §2.9.2)

  The productions as predicates on words, with no algorithmic content. `Props.number_longest_match` shows
  that `number?` / `numberLoose?` return the longest prefix that is a word of IntValue or FloatValue,
  classified by the production it belongs to. -/

def Digits (w : List Nat) : Prop := ∀ c ∈ w, isDigit c = true

/-- 0 | NonZeroDigit Digit* -/
inductive UnsignedIntegerPart : List Nat → Prop
  | zero : UnsignedIntegerPart ['0'.toNat]
  | nonZero (d : Nat) (ds : List Nat) : isNonZeroDigit d = true → Digits ds → UnsignedIntegerPart (d :: ds)

/-- IntegerPart :: NegativeSign? 0 | NegativeSign? NonZeroDigit Digit* -/
def IntegerPart (w : List Nat) : Prop :=
  UnsignedIntegerPart w ∨ ∃ u, UnsignedIntegerPart u ∧ w = '-'.toNat :: u

/-- FractionalPart :: . Digit+ -/
def FractionalPart (w : List Nat) : Prop :=
  ∃ d ds, isDigit d = true ∧ Digits ds ∧ w = '.'.toNat :: d :: ds

/-- ExponentPart :: ExponentIndicator Sign? Digit+ -/
def ExponentPart (w : List Nat) : Prop :=
  ∃ e sign d ds, (e = 'e'.toNat ∨ e = 'E'.toNat) ∧ (sign = [] ∨ sign = ['+'.toNat] ∨ sign = ['-'.toNat]) ∧
    isDigit d = true ∧ Digits ds ∧ w = e :: (sign ++ d :: ds)

/-- IntValue :: IntegerPart -/
def IntValue (w : List Nat) : Prop := IntegerPart w

/-- FloatValue :: IntegerPart FractionalPart | IntegerPart ExponentPart | IntegerPart FractionalPart ExponentPart -/
def FloatValue (w : List Nat) : Prop :=
  ∃ ip fp ep, IntegerPart ip ∧ (fp = [] ∨ FractionalPart fp) ∧ (ep = [] ∨ ExponentPart ep) ∧
    (fp ≠ [] ∨ ep ≠ []) ∧ w = ip ++ fp ++ ep

/-! ## The other reading of D1–D3 (oracle only)

  `lexAllLoose` is the same lexer under the *pure longest-match* reading of the three places listed in
  the header: U+FEFF is an Ignored token anywhere (D2), a number is never rejected for what follows it
  (`1e` is IntValue `1`, Name `e` — D1), and `"""` that does not open a complete block string is the
  empty string `""` followed by `"` (D3). No theorem mentions it. The harness's oracle accepts a
  scanner output that agrees with either reading, so that a scanner that followed the letter of the
  grammar there would not be reported as violating the property (it would still break the tie with the
  model, which implements the strict reading, as the Go scanner does). -/

def numberLoose? (s : List Nat) : Option (Bool × Nat) :=
  match integerPart? s with
  | none => none
  | some ip =>
    let (hasFrac, n1) := match fractionalPart? (s.drop ip) with
      | some fp => (true, ip + fp)
      | none => (false, ip)
    match exponentPart? (s.drop n1) with
    | some ep => some (true, n1 + ep)
    | none => some (hasFrac, n1)

def tokenLoose? (s : List Nat) : Option (Kind × Nat × List Nat) :=
  match s with
  | [] => none
  | c :: rest =>
    if c = 0xFEFF then some (.unicodeBOM, 1, [])
    else if c = '"'.toNat then
      let quoted := (stringBody? rest).map fun (n, v) => (Kind.stringValue, 1 + n, v)
      if rest.take 2 = ['"'.toNat, '"'.toNat] then
        match blockBody? (rest.drop 2) with
        | some (n, raw) => some (.stringValue, 3 + n, blockStringValue raw)
        | none => quoted
      else quoted
    else if c = '-'.toNat ∨ isDigit c then
      (numberLoose? s).map fun (isFloat, n) => (if isFloat then .floatValue else .intValue, n, [])
    else token? false s

def lexFromLoose (src : List Nat) : Nat → Nat → Res
  | 0, _ => .error []
  | fuel + 1, off =>
    match src.drop off with
    | [] => .ok []
    | rest =>
      match tokenLoose? rest with
      | none => .error []
      | some (k, n, v) =>
        let (line, col) := position src off
        (lexFromLoose src fuel (off + n)).cons { kind := k, off := off, len := n, line := line, col := col, value := v }

def lexAllLoose (scanIgnored : Bool) (src : List Nat) : Res :=
  (lexFromLoose src (src.length + 1) 0).filterIgnored scanIgnored

end ApiFu.C07.Spec
