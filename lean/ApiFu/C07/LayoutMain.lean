/-
  C07 — layout lemmas: the whole rendered document.
-/
import ApiFu.C07.LayoutStable

namespace ApiFu.C07.Layout

open ApiFu.C07

/-! ## What may follow, in terms of the text after the lexeme -/

/-- The first character of trivia never fuses with anything. -/
theorem canFollow_trivia (x : Lexeme) {c : Nat} (more : List Nat)
    (hc : c = 32 ∨ c = 9 ∨ c = 44 ∨ c = 10 ∨ c = 13 ∨ c = 35) : canFollow x (c :: more) = true := by
  unfold canFollow
  rcases hc with h | h | h | h | h | h <;> subst h <;> cases x.kind <;> simp [isNameCont, isNameStart, isDigit]

/-- `canFollow` only looks at the first character, and at the second when the first is `.`. -/
theorem canFollow_append (x : Lexeme) {c : Nat} {r : List Nat} (more : List Nat) (h : c = 46 → r ≠ []) :
    canFollow x (c :: r ++ more) = canFollow x (c :: r) := by
  unfold canFollow
  simp only [List.cons_append]
  cases r with
  | nil =>
    have hc : c ≠ 46 := fun hc => h hc rfl
    have : (c == 46) = false := by simpa using hc
    cases x.kind <;> simp [this]
  | cons d r' => rfl

theorem Lexeme.WF.head {y : Lexeme} (hy : y.WF) :
    ∃ c r, y.text = c :: r ∧ c ≠ 0xFEFF ∧ (c = 46 → r ≠ []) := by
  obtain ⟨_, _, ht⟩ := hy
  cases htext : y.text with
  | nil => rw [htext] at ht; simp [Spec.token?] at ht
  | cons c r =>
    refine ⟨c, r, rfl, ?_, ?_⟩
    · rintro rfl
      rw [htext, spec_bom] at ht
      simp at ht
    · rintro rfl hr
      subst hr
      rw [htext, spec_dot] at ht
      simp at ht

theorem Trivia.head (tr : Trivia) (h : tr ≠ []) :
    ∃ c more, Trivia.text tr = c :: more ∧ (c = 32 ∨ c = 9 ∨ c = 44 ∨ c = 10 ∨ c = 13 ∨ c = 35) := by
  cases tr with
  | nil => exact absurd rfl h
  | cons i is =>
    obtain ⟨c, a', ha, _, hc⟩ := i.text_ne_nil
    exact ⟨c, a' ++ Trivia.text is, by simp [Trivia.text, ha], hc⟩

/-! ## The body -/

theorem body_lexes : ∀ (l : List (Lexeme × Trivia)), bodyWF l → LexesTo (renderBody l) (l.map fun p => p.1.obs)
  | [], _ => by simpa [renderBody] using LexesTo.nil
  | (x, tr) :: rest, h => by
    obtain ⟨hx, htr, hsep, hrest⟩ := h
    have ih := body_lexes rest hrest
    have htriv := Trivia.lexes tr (renderBody rest) _ htr ih
    obtain ⟨c, a', ha, hc, _⟩ := hx.head
    -- what follows `x` may follow it
    have hcf : canFollow x (Trivia.text tr ++ renderBody rest) = true := by
      by_cases hne : tr = []
      · subst hne
        simp only [Trivia.text, List.nil_append]
        cases rest with
        | nil => rfl
        | cons p rest' =>
          obtain ⟨y, tr'⟩ := p
          simp only [separated, List.isEmpty_nil, Bool.not_true, Bool.false_or] at hsep
          obtain ⟨hy, _⟩ := hrest
          obtain ⟨cy, ry, hty, _, hdot⟩ := hy.head
          simp only [renderBody]
          rw [hty] at hsep ⊢
          rw [canFollow_append x _ hdot]
          exact hsep
      · obtain ⟨c', more, ht, hc'⟩ := Trivia.head tr hne
        rw [ht, List.cons_append]
        exact canFollow_trivia x _ hc'
    have hstab := token_stable x hx _ hcf
    have := LexesTo.step ha hc hstab htriv
    rw [hx.2.1] at this
    simpa [renderBody, Lexeme.obs] using this

/-! ## The document -/

theorem doc_lexes (d : Doc) (h : d.WF) :
    ∃ ts, Spec.lexFrom (render d) ((render d).length + 1) 0 = .ok ts ∧
      proj (render d) ts = (lexemes d).map Lexeme.obs := by
  obtain ⟨hlead, hbody⟩ := h
  have hrem := Trivia.lexes d.lead (renderBody d.body) _ hlead (body_lexes d.body hbody)
  unfold render
  cases d.bom with
  | false =>
    simp only [Bool.false_eq_true, if_false, List.nil_append]
    obtain ⟨ts, h1, h2⟩ := hrem [] ((Trivia.text d.lead ++ renderBody d.body).length + 1) (by omega)
    refine ⟨ts, by simpa using h1, ?_⟩
    simpa [lexemes, List.map_map, Function.comp_def] using h2
  | true =>
    simp only [if_true]
    generalize hr : Trivia.text d.lead ++ renderBody d.body = rem at hrem
    obtain ⟨ts, h1, h2⟩ := hrem [0xFEFF] (rem.length + 1) (by omega)
    have hlen : ([0xFEFF] ++ rem).length + 1 = (rem.length + 1) + 1 := by simp
    rw [hlen, lexFrom_succ]
    simp only [List.drop_zero, List.singleton_append, beq_self_eq_true]
    rw [spec_bom]
    simp only [if_true, Nat.zero_add]
    have h1' : Spec.lexFrom (0xFEFF :: rem) (rem.length + 1) 1 = .ok ts := by simpa using h1
    rw [h1']
    refine ⟨_, rfl, ?_⟩
    have : proj (0xFEFF :: rem) ts = List.map (fun p => p.1.obs) d.body := by simpa using h2
    have hb : (!Kind.isIgnored Kind.unicodeBOM) = false := rfl
    simp only [proj, List.filter_cons, hb, Bool.false_eq_true, if_false]
    simpa [proj, lexemes, List.map_map, Function.comp_def] using this

/-! ## Valid UTF-8 -/

theorem TItem.valid (i : TItem) (next : List Nat) (h : i.okBefore next) : Valid i.text := by
  cases i with
  | comment body =>
    intro r hr
    simp only [TItem.text, List.mem_cons] at hr
    rcases hr with rfl | hr
    · decide
    · have := List.all_eq_true.mp h.1 r hr
      simp only [Bool.and_eq_true, Spec.isSourceCharacter, Bool.or_eq_true, beq_iff_eq, decide_eq_true_eq] at this
      unfold badBase; omega
  | _ => intro r hr; simp [TItem.text] at hr; (try subst hr); (try (rcases hr with rfl | rfl)) <;> decide

theorem Valid.append {a b : List Nat} (ha : Valid a) (hb : Valid b) : Valid (a ++ b) := by
  intro r hr
  rcases List.mem_append.mp hr with hr | hr
  · exact ha r hr
  · exact hb r hr

theorem Trivia.valid : ∀ (tr : Trivia) (after : List Nat), Trivia.WF tr after → Valid (Trivia.text tr)
  | [], _, _ => Valid.nil
  | i :: is, after, h => Valid.append (i.valid _ h.1) (Trivia.valid is after h.2)

theorem body_valid : ∀ (l : List (Lexeme × Trivia)), bodyWF l → Valid (renderBody l)
  | [], _ => Valid.nil
  | (_, tr) :: rest, h =>
    Valid.append h.1.1 (Valid.append (Trivia.valid tr _ h.2.1) (body_valid rest h.2.2.2))

theorem doc_valid (d : Doc) (h : d.WF) : Valid (render d) := by
  unfold render
  refine Valid.append ?_ (Valid.append (Trivia.valid _ _ h.1) (body_valid _ h.2))
  split
  · intro r hr; simp at hr; subst hr; decide
  · exact Valid.nil

end ApiFu.C07.Layout
