/-
  C07 — helper lemmas, part 7: one iteration of `Scan` against the reference's `token?`.
-/
import ApiFu.C07.LemmasBlockScan
import ApiFu.C07.LemmasBlock

namespace ApiFu.C07

/-! ## Strings -/

/-- The reference's StringValue alternative, after the opening quote. -/
def specString (rest : List Nat) : Option (Kind × Nat × List Nat) :=
  if rest.take 2 = [34, 34] then
    (Spec.blockBody? (rest.drop 2)).map fun (n, raw) => (.stringValue, 3 + n, Spec.blockStringValue raw)
  else (Spec.stringBody? rest).map fun (n, v) => (.stringValue, 1 + n, v)

theorem consumeStringValue_some (s : St) (hv : Valid s.rest) {rest : List Nat} (hw : s.rest = 34 :: rest)
    {k : Kind} {n : Nat} {v : List Nat} (h : specString rest = some (k, n, v)) :
    consumeStringValue s = (v, consumeN n s) ∧ k = .stringValue ∧ 1 ≤ n ∧ n ≤ s.rest.length := by
  rw [hw] at hv
  have hr1 : (consumeRune s).rest = rest := consumeRune_rest hw
  unfold consumeStringValue
  simp only
  unfold specString at h
  by_cases ht : rest.take 2 = [34, 34]
  · rw [if_pos ht] at h
    rw [if_pos ((take2_iff hr1 hv.tail).2 ht)]
    simp only
    have hr3 : (consumeN 3 s).rest = rest.drop 2 := by rw [consumeN_rest, hw]; simp
    have e3 : consumeRune (consumeRune (consumeRune s)) = consumeN 3 s := rfl
    rw [e3]
    cases hb : Spec.blockBody? (rest.drop 2) with
    | none => rw [hb] at h; cases h
    | some p =>
      obtain ⟨n', raw⟩ := p
      rw [hb] at h
      simp only [Option.map_some, Option.some.injEq, Prod.mk.injEq] at h
      obtain ⟨rfl, rfl, rfl⟩ := h
      have := block_some (consumeN 3 s).rest.length (consumeN 3 s) [] n' raw (Nat.le_refl _)
        (by rw [hr3]; exact hv.tail.drop 2) (by rw [hr3]; exact hb)
      have hl : loop (fun x => !x.terminated && !x.st.done && !x.broke) (strStep true) (consumeN 3 s).rest.length
          { st := consumeN 3 s, value := [], terminated := false, isEscaped := false, broke := false } =
          doneSS (consumeN n' (consumeN 3 s)) ([] ++ raw) := this.1
      rw [hl]
      simp only [doneSS, Bool.not_true, Bool.false_eq_true, if_false, if_true, List.nil_append, consumeN_add,
        blockStringValue_eq]
      refine ⟨by first | rfl | trivial, by first | rfl | trivial, by omega, ?_⟩
      have := this.2.2
      rw [hr3] at this
      rw [hw]
      simp at this ⊢
      omega
  · rw [if_neg ht] at h
    rw [if_neg (fun hh => ht ((take2_iff hr1 hv.tail).1 hh))]
    simp only
    have e1 : consumeRune s = consumeN 1 s := rfl
    rw [e1] at hr1 ⊢
    cases hb : Spec.stringBody? rest with
    | none => rw [hb] at h; cases h
    | some p =>
      obtain ⟨n', u⟩ := p
      rw [hb] at h
      simp only [Option.map_some, Option.some.injEq, Prod.mk.injEq] at h
      obtain ⟨rfl, rfl, rfl⟩ := h
      have := quoted_some (consumeN 1 s).rest.length (consumeN 1 s) [] n' u (Nat.le_refl _)
        (by rw [hr1]; exact hv.tail) (by rw [hr1]; exact hb)
      have hl : loop (fun x => !x.terminated && !x.st.done && !x.broke) (strStep false) (consumeN 1 s).rest.length
          { st := consumeN 1 s, value := [], terminated := false, isEscaped := false, broke := false } =
          doneSS (consumeN n' (consumeN 1 s)) ([] ++ u) := this.1
      rw [hl]
      simp only [doneSS, Bool.not_true, Bool.false_eq_true, if_false, List.nil_append, consumeN_add]
      refine ⟨by first | rfl | trivial, by first | rfl | trivial, by omega, ?_⟩
      have := this.2.2
      rw [hr1] at this
      rw [hw]
      simp
      omega

theorem consumeStringValue_none (s : St) (hv : Valid s.rest) {rest : List Nat} (hw : s.rest = 34 :: rest)
    (h : specString rest = none) : s.errs.length < (consumeStringValue s).2.errs.length := by
  rw [hw] at hv
  have hr1 : (consumeRune s).rest = rest := consumeRune_rest hw
  -- whatever the loop returns, an unterminated string gets an error, and errors are never removed
  have fin : ∀ (isBlock : Bool) (s2 : St), s2.errs = s.errs →
      ((loop strCond (strStep isBlock) s2.rest.length (mkSS s2 [])).terminated = false ∨
        s2.errs.length < (loop strCond (strStep isBlock) s2.rest.length (mkSS s2 [])).st.errs.length) →
      s.errs.length <
        (if (!(loop strCond (strStep isBlock) s2.rest.length (mkSS s2 [])).terminated) = true then
          (loop strCond (strStep isBlock) s2.rest.length (mkSS s2 [])).st.errorf
         else (loop strCond (strStep isBlock) s2.rest.length (mkSS s2 [])).st).errs.length := by
    intro isBlock s2 he hor
    have hle := strLoop_errs_le isBlock s2.rest.length (mkSS s2 [])
    rw [he] at hor
    have hle' : s.errs.length ≤ (loop strCond (strStep isBlock) s2.rest.length (mkSS s2 [])).st.errs.length := by
      have : (mkSS s2 []).st.errs = s.errs := he
      rw [this] at hle; exact hle
    generalize loop strCond (strStep isBlock) s2.rest.length (mkSS s2 []) = y at hor hle' ⊢
    cases hy : y.terminated with
    | false => simp; omega
    | true =>
      rcases hor with hterm | hgrow
      · rw [hy] at hterm; cases hterm
      · simpa using hgrow
  unfold consumeStringValue
  simp only
  unfold specString at h
  by_cases ht : rest.take 2 = [34, 34]
  · rw [if_pos ht] at h
    rw [if_pos ((take2_iff hr1 hv.tail).2 ht)]
    simp only [Option.map_eq_none_iff] at h ⊢
    have hr3 : (consumeN 3 s).rest = rest.drop 2 := by rw [consumeN_rest, hw]; simp
    have e3 : consumeRune (consumeRune (consumeRune s)) = consumeN 3 s := rfl
    rw [e3]
    exact fin true (consumeN 3 s) (consumeN_errs 3 s)
      (block_none _ (consumeN 3 s) [] (Nat.le_refl _) (by rw [hr3]; exact hv.tail.drop 2) (by rw [hr3]; exact h))
  · rw [if_neg ht] at h
    rw [if_neg (fun hh => ht ((take2_iff hr1 hv.tail).1 hh))]
    simp only [Option.map_eq_none_iff] at h ⊢
    have e1 : consumeRune s = consumeN 1 s := rfl
    rw [e1] at hr1 ⊢
    exact fin false (consumeN 1 s) (consumeN_errs 1 s)
      (quoted_none _ (consumeN 1 s) [] (Nat.le_refl _) (by rw [hr1]; exact hv.tail) (by rw [hr1]; exact h))

/-! ## Comments -/

theorem commentCond_cons {s : St} {c : Nat} {w : List Nat} (hw : s.rest = c :: w) (hc : c < badBase) :
    commentCond s = !Spec.isLineTerminatorChar c := by
  simp only [commentCond, done_cons hw, next_cons hw hc, Spec.isLineTerminatorChar]
  by_cases h13 : c = 13 <;> by_cases h10 : c = 10 <;> simp [h13, h10]

theorem commentLoop_eq : ∀ (fuel : Nat) (s : St), s.rest.length ≤ fuel → Valid s.rest →
    ((s.rest.takeWhile (!Spec.isLineTerminatorChar ·)).all Spec.isSourceCharacter = true →
      loop commentCond commentStep fuel s = consumeN (s.rest.takeWhile (!Spec.isLineTerminatorChar ·)).length s) ∧
    ((s.rest.takeWhile (!Spec.isLineTerminatorChar ·)).all Spec.isSourceCharacter = false →
      s.errs.length < (loop commentCond commentStep fuel s).errs.length)
  | 0, s, h, _ => by
    have : s.rest = [] := List.length_eq_zero_iff.mp (by omega)
    simp [loop, this]
  | fuel + 1, s, h, hv => by
    cases hw : s.rest with
    | nil =>
      rw [loop_false (by simp [commentCond, done_nil hw])]
      simp
    | cons c w =>
      rw [hw] at hv h
      have hc := hv.head
      have hcc := commentCond_cons hw hc
      by_cases hlt : Spec.isLineTerminatorChar c = true
      · rw [loop_false (by rw [hcc, hlt]; rfl)]
        simp [hlt]
      · have hlt' : Spec.isLineTerminatorChar c = false := by simpa using hlt
        rw [loop_true (by rw [hcc, hlt']; rfl)]
        simp only [List.takeWhile_cons, hlt', Bool.not_false, if_true, List.all_cons, List.length_cons]
        by_cases hs : isSourceCharacter c = true
        · have hstep : commentStep s = consumeRune s := by
            simp [commentStep, nextIs_cons hw hc, hs]
          have hr := consumeRune_rest hw
          have ih := commentLoop_eq fuel (consumeRune s) (by rw [hr]; simpa using h) (by rw [hr]; exact hv.tail)
          rw [hr] at ih
          rw [hstep, isSourceCharacter_eq, hs]
          simp only [Bool.true_and, consumeN_succ]
          exact ⟨ih.1, fun hh => by simpa using ih.2 hh⟩
        · have hs' : isSourceCharacter c = false := by simpa using hs
          have hstep : commentStep s = consumeRune s.errorf := by
            simp [commentStep, nextIs_cons hw hc, hs']
          rw [hstep, isSourceCharacter_eq, hs']
          simp only [Bool.false_and, Bool.false_eq_true, false_implies, true_and]
          intro _
          have hadv : Adv (consumeRune s.errorf) (loop commentCond commentStep fuel (consumeRune s.errorf)) :=
            loop_adv _ _ (fun _ hc => (commentStep_adv (commentCond_rest hc)).adv) _ _
          obtain ⟨es, he⟩ := hadv.errs_prefix
          rw [he]
          simp

/-! ## The reference's `token?`, one first character at a time -/

section spec
variable (b : Bool) {c : Nat} (rest : List Nat)

theorem spec_ws (h : c = 9 ∨ c = 32) : Spec.token? b (c :: rest) = some (.whiteSpace, 1, []) := by
  rcases h with h | h <;> subst h <;> simp [Spec.token?, Spec.isWhiteSpace]

theorem spec_comma : Spec.token? b (44 :: rest) = some (.comma, 1, []) := by
  simp [Spec.token?, Spec.isWhiteSpace]

theorem spec_punct (h : isPunct1 c = true) : Spec.token? b (c :: rest) = some (.punctuator, 1, []) := by
  have : c = 33 ∨ c = 36 ∨ c = 40 ∨ c = 41 ∨ c = 58 ∨ c = 61 ∨ c = 64 ∨ c = 91 ∨ c = 93 ∨ c = 123 ∨ c = 124 ∨ c = 125 := by
    simp only [isPunct1, Bool.or_eq_true, beq_iff_eq] at h; omega
  rcases this with h | h | h | h | h | h | h | h | h | h | h | h <;> subst h <;>
    simp [Spec.token?, Spec.isWhiteSpace, Spec.isLineTerminatorChar, Spec.isPunctuatorChar, Spec.punctuatorChars]

theorem spec_lt (h : c = 13 ∨ c = 10) :
    Spec.token? b (c :: rest) = some (.lineTerminator, if c = 13 ∧ rest.head? = some 10 then 2 else 1, []) := by
  rcases h with h | h <;> subst h
  · cases rest with
    | nil => simp [Spec.token?, Spec.isWhiteSpace, Spec.isLineTerminatorChar, Spec.lineTerminator?]
    | cons d r =>
      by_cases hd : d = 10
      · subst hd; simp [Spec.token?, Spec.isWhiteSpace, Spec.isLineTerminatorChar, Spec.lineTerminator?]
      · simp [Spec.token?, Spec.isWhiteSpace, Spec.isLineTerminatorChar, hd]
        unfold Spec.lineTerminator?
        split <;> simp_all
  · simp [Spec.token?, Spec.isWhiteSpace, Spec.isLineTerminatorChar, Spec.lineTerminator?]

theorem spec_comment : Spec.token? b (35 :: rest) =
    if (rest.takeWhile (!Spec.isLineTerminatorChar ·)).all Spec.isSourceCharacter = true then
      some (.comment, 1 + (rest.takeWhile (!Spec.isLineTerminatorChar ·)).length, [])
    else none := by
  simp [Spec.token?, Spec.isWhiteSpace, Spec.isLineTerminatorChar]

theorem spec_dot : Spec.token? b (46 :: rest) = if rest.take 2 = [46, 46] then some (.punctuator, 3, []) else none := by
  simp [Spec.token?, Spec.isWhiteSpace, Spec.isLineTerminatorChar]

theorem spec_quote : Spec.token? b (34 :: rest) = specString rest := by
  simp only [Spec.token?, Spec.isWhiteSpace, Spec.isLineTerminatorChar, Spec.isPunctuatorChar, Spec.punctuatorChars,
    specString, show '"'.toNat = 34 from rfl]
  simp

theorem spec_bom : Spec.token? b (0xFEFF :: rest) = if b = true then some (.unicodeBOM, 1, []) else none := by
  simp [Spec.token?]

/-- No other class: a number when the text starts with `-` or a digit, else a name. -/
theorem spec_default (h1 : ¬ (c = 9 ∨ c = 32)) (h2 : isPunct1 c = false) (h3 : c ≠ 44) (h4 : ¬ (c = 13 ∨ c = 10))
    (h5 : c ≠ 35) (h6 : c ≠ 46) (h7 : c ≠ 34) (h9 : c ≠ 0xFEFF) :
    Spec.token? b (c :: rest) =
      if c = 45 ∨ isDigit c = true then
        (Spec.number? (c :: rest)).map fun (isFloat, n) => (if isFloat then .floatValue else .intValue, n, [])
      else (Spec.name? (c :: rest)).map fun n => (.name, n, []) := by
  have hws : Spec.isWhiteSpace c = false := by
    simp only [Spec.isWhiteSpace]; apply Bool.eq_false_iff.mpr; simp only [ne_eq, Bool.or_eq_true, beq_iff_eq]; omega
  have hlt : Spec.isLineTerminatorChar c = false := by
    simp only [Spec.isLineTerminatorChar]; apply Bool.eq_false_iff.mpr; simp only [ne_eq, Bool.or_eq_true, beq_iff_eq]; omega
  have hp : Spec.isPunctuatorChar c = false := by rw [isPunct_eq]; exact h2
  simp only [Spec.token?, h9, hws, hlt, hp, show ','.toNat = 44 from rfl, show '#'.toNat = 35 from rfl,
    show '.'.toNat = 46 from rfl, show '"'.toNat = 34 from rfl, show '-'.toNat = 45 from rfl, h3, h5, h6, h7,
    if_false, Bool.false_eq_true, isDigit_eq]

end spec

/-! ## The recognisers never claim more than there is -/

theorem takeWhile_le (p : Nat → Bool) (w : List Nat) : (w.takeWhile p).length ≤ w.length :=
  (List.takeWhile_sublist p).length_le

theorem unsigned_le {w : List Nat} {n : Nat} (h : Spec.unsignedIntegerPart? w = some n) : n ≤ w.length := by
  cases w with
  | nil => simp [Spec.unsignedIntegerPart?] at h
  | cons c r =>
    simp only [Spec.unsignedIntegerPart?] at h
    have := takeWhile_le Spec.isDigit r
    split at h
    · cases h; simp
    · split at h
      · cases h; simp; omega
      · cases h

theorem integerPart_le {w : List Nat} {n : Nat} (h : Spec.integerPart? w = some n) : n ≤ w.length := by
  cases w with
  | nil => simp [Spec.integerPart?] at h
  | cons c r =>
    simp only [Spec.integerPart?] at h
    split at h
    · cases hu : Spec.unsignedIntegerPart? r with
      | none => rw [hu] at h; cases h
      | some m => rw [hu] at h; cases h; have := unsigned_le hu; simp; omega
    · exact unsigned_le h

theorem fractionalPart_le {w : List Nat} {n : Nat} (h : Spec.fractionalPart? w = some n) : n ≤ w.length := by
  rcases w with _ | ⟨c, _ | ⟨d, r⟩⟩
  · simp [Spec.fractionalPart?] at h
  · simp [Spec.fractionalPart?] at h
  · simp only [Spec.fractionalPart?] at h
    have := takeWhile_le Spec.isDigit r
    split at h
    · cases h; simp; omega
    · cases h

theorem digits1_le {w : List Nat} {n : Nat} (h : Spec.digits1? w = some n) : n ≤ w.length := by
  cases w with
  | nil => simp [Spec.digits1?] at h
  | cons d r =>
    simp only [Spec.digits1?] at h
    have := takeWhile_le Spec.isDigit r
    split at h
    · cases h; simp; omega
    · cases h

theorem exponentPart_le {w : List Nat} {n : Nat} (h : Spec.exponentPart? w = some n) : n ≤ w.length := by
  cases w with
  | nil => simp [Spec.exponentPart?] at h
  | cons e r =>
    by_cases he : e = 101 ∨ e = 69
    · rw [exponentPart_at he] at h
      cases r with
      | nil => cases h
      | cons sg r' =>
        simp only at h
        split at h
        · cases hd : Spec.digits1? r' with
          | none => rw [hd] at h; cases h
          | some m => rw [hd] at h; cases h; have := digits1_le hd; simp; omega
        · cases hd : Spec.digits1? (sg :: r') with
          | none => rw [hd] at h; cases h
          | some m => rw [hd] at h; cases h; have := digits1_le hd; simp at this ⊢; omega
    · rw [exponentPart_not he] at h; cases h

theorem number_le {w : List Nat} {f : Bool} {n : Nat} (h : Spec.number? w = some (f, n)) : n ≤ w.length := by
  unfold Spec.number? at h
  cases hip : Spec.integerPart? w with
  | none => rw [hip] at h; cases h
  | some ip =>
    rw [hip] at h
    simp only at h
    have h1 := integerPart_le hip
    -- the length after the optional fractional part
    have key : ∀ n1, n1 ≤ w.length →
        (match Spec.exponentPart? (w.drop n1) with
          | some ep => some (true, n1 + ep)
          | none =>
            match w.drop n1 with
            | c :: _ => if c = 'e'.toNat ∨ c = 'E'.toNat then none else some (f, n1)
            | [] => some (f, n1)) = some (f, n) ∨ True → True := fun _ _ _ => trivial
    clear key
    cases hfp : Spec.fractionalPart? (w.drop ip) with
    | none =>
      rw [hfp] at h
      simp only at h
      cases hep : Spec.exponentPart? (w.drop ip) with
      | some ep =>
        rw [hep] at h; cases h
        have := exponentPart_le hep; simp at this; omega
      | none =>
        rw [hep] at h
        simp only at h
        split at h
        · split at h
          · cases h
          · cases h; exact h1
        · cases h; exact h1
    | some fp =>
      rw [hfp] at h
      simp only at h
      have h2 := fractionalPart_le hfp
      simp at h2
      cases hep : Spec.exponentPart? (w.drop (ip + fp)) with
      | some ep =>
        rw [hep] at h; cases h
        have := exponentPart_le hep; simp at this; omega
      | none =>
        rw [hep] at h
        simp only at h
        split at h
        · split at h
          · cases h
          · cases h; omega
        · cases h; omega

theorem name_le {w : List Nat} {n : Nat} (h : Spec.name? w = some n) : n ≤ w.length := by
  cases w with
  | nil => simp [Spec.name?] at h
  | cons c r =>
    simp only [Spec.name?] at h
    have := takeWhile_le Spec.isNameContinue r
    split at h
    · cases h; simp; omega
    · cases h

/-! ## Small model branches -/

theorem next_eq_head {s : St} (hv : Valid s.rest) : s.next = s.rest.head? := by
  cases hw : s.rest with
  | nil => simp [next_nil hw]
  | cons c w => rw [hw] at hv; simp [next_cons hw hv.head]

theorem model_lt {s : St} {c : Nat} {rest : List Nat} (hw : s.rest = c :: rest) (hv : Valid (c :: rest)) :
    scanLineTerminator c s = consumeN (if c = 13 ∧ rest.head? = some 10 then 2 else 1) s := by
  have hr1 : (consumeRune s).rest = rest := consumeRune_rest hw
  unfold scanLineTerminator
  simp only
  rw [next_eq_head (by rw [hr1]; exact hv.tail), hr1]
  split <;> rfl

theorem model_dot {s : St} {rest : List Nat} (hw : s.rest = 46 :: rest) (hv : Valid (46 :: rest)) :
    (rest.take 2 = [46, 46] → scanEllipsis s = (.punctuator, consumeN 3 s)) ∧
    (rest.take 2 ≠ [46, 46] → (scanEllipsis s).1 = .invalid ∧ s.errs.length < (scanEllipsis s).2.errs.length) := by
  have hr1 : (consumeRune s).rest = rest := consumeRune_rest hw
  unfold scanEllipsis
  simp only
  rw [next_eq_head (by rw [hr1]; exact hv.tail), hr1]
  rcases rest with _ | ⟨a, r⟩
  · simp
  · have hr2 : (consumeRune (consumeRune s)).rest = r := consumeRune_rest hr1
    rw [next_eq_head (by rw [hr2]; exact hv.tail.tail), hr2]
    by_cases ha : a = 46
    · subst ha
      rcases r with _ | ⟨b, r'⟩
      · simp
      · by_cases hb : b = 46
        · subst hb; simp; rfl
        · simp [hb]
    · simp [ha]

/-! ## One iteration of `Scan` = the reference's token at that offset -/

/-- The statement for a state `s`: if the reference finds a token the model returns exactly it, having
    consumed exactly its code points and recorded nothing; if the reference finds none the model records
    an error. -/
def TokenSpec (s : St) (T : Option (Kind × Nat × List Nat)) : Prop :=
  (∀ k n v, T = some (k, n, v) →
      scanToken s = (k, v, consumeN n s) ∧ 1 ≤ n ∧ n ≤ s.rest.length ∧ k ≠ .invalid) ∧
  (T = none → s.errs.length < (scanToken s).2.2.errs.length)

theorem TokenSpec.some {s : St} {k0 : Kind} {n0 : Nat} {v0 : List Nat}
    (hm : scanToken s = (k0, v0, consumeN n0 s)) (h1 : 1 ≤ n0) (h2 : n0 ≤ s.rest.length) (hk : k0 ≠ .invalid) :
    TokenSpec s (some (k0, n0, v0)) :=
  ⟨fun k n v h => by cases h; exact ⟨hm, h1, h2, hk⟩, fun h => by cases h⟩

theorem TokenSpec.none {s : St} (hm : s.errs.length < (scanToken s).2.2.errs.length) : TokenSpec s none :=
  ⟨fun k n v h => (by cases h), fun _ => hm⟩

theorem scanToken_unfold {s : St} {c : Nat} {rest : List Nat} (hw : s.rest = c :: rest) (hcb : c < badBase) :
    scanToken s =
      if c = 9 ∨ c = 32 then (.whiteSpace, [], consumeRune s)
      else if isPunct1 c then (.punctuator, [], consumeRune s)
      else if c = 44 then (.comma, [], consumeRune s)
      else if c = 13 ∨ c = 10 then (.lineTerminator, [], scanLineTerminator c s)
      else if c = 35 then (.comment, [], consumeComment s)
      else if c = 46 then ((scanEllipsis s).1, [], (scanEllipsis s).2)
      else if c = 34 then (.stringValue, (consumeStringValue s).1, (consumeStringValue s).2)
      else if c = 0xFFFD then (.invalid, [], consumeRune s.errorf)
      else if c = 0xFEFF then
        if s.off = 0 then (.unicodeBOM, [], consumeRune s)
        else (.invalid, [], consumeRune s.errorf)
      else ((scanDefault s).1, [], (scanDefault s).2) := by
  unfold scanToken
  rw [next_cons hw hcb]

theorem scanToken_spec (s : St) (hv : Valid s.rest) (hne : s.rest ≠ []) :
    TokenSpec s (Spec.token? (s.off == 0) s.rest) := by
  obtain ⟨c, rest, hw⟩ := List.exists_cons_of_ne_nil hne
  have hvv := hv
  rw [hw] at hv
  have hcb := hv.head
  have hlen : 1 ≤ s.rest.length := by rw [hw]; simp
  have hu := scanToken_unfold hw hcb
  have herr : s.errs.length < (consumeRune s.errorf).errs.length := by simp
  rw [hw]
  by_cases h1 : c = 9 ∨ c = 32
  · rw [spec_ws _ rest h1]
    exact .some (by rw [hu, if_pos h1]; rfl) (by omega) hlen (by decide)
  rw [if_neg h1] at hu
  by_cases h2 : isPunct1 c = true
  · rw [spec_punct _ rest h2]
    exact .some (by rw [hu, if_pos h2]; rfl) (by omega) hlen (by decide)
  rw [if_neg h2] at hu
  by_cases h3 : c = 44
  · subst h3
    rw [spec_comma]
    exact .some (by rw [hu, if_pos rfl]; rfl) (by omega) hlen (by decide)
  rw [if_neg h3] at hu
  by_cases h4 : c = 13 ∨ c = 10
  · rw [spec_lt _ rest h4]
    refine .some (by rw [hu, if_pos h4, model_lt hw hv]) (by split <;> omega) ?_ (by decide)
    rw [hw]
    split
    · rename_i h
      cases rest with
      | nil => simp at h
      | cons d r => simp
    · simp
  rw [if_neg h4] at hu
  by_cases h5 : c = 35
  · subst h5
    rw [spec_comment]
    have hc := commentLoop_eq (rest.length + 1) s (by rw [hw]; simp) hvv
    have hcc : consumeComment s = loop commentCond commentStep (rest.length + 1) s := by
      unfold consumeComment; rw [hw]; rfl
    have hnl : Spec.isLineTerminatorChar 35 = false := by decide
    have hsrc : Spec.isSourceCharacter 35 = true := by decide
    rw [hw] at hc
    simp only [List.takeWhile_cons, hnl, Bool.not_false, if_true, List.all_cons, hsrc, Bool.true_and,
      List.length_cons] at hc
    have hm : scanToken s = (.comment, [], consumeComment s) := by rw [hu, if_pos rfl]
    by_cases hall : (rest.takeWhile (!Spec.isLineTerminatorChar ·)).all Spec.isSourceCharacter = true
    · rw [if_pos hall]
      refine .some (by rw [hm, hcc, hc.1 hall, Nat.add_comm]) (by omega) ?_ (by decide)
      rw [hw]
      have := takeWhile_le (!Spec.isLineTerminatorChar ·) rest
      simp; omega
    · rw [if_neg hall]
      refine .none ?_
      rw [hm, hcc]
      exact hc.2 (by simpa using hall)
  rw [if_neg h5] at hu
  by_cases h6 : c = 46
  · subst h6
    rw [spec_dot]
    have hd := model_dot hw hv
    have hm : scanToken s = ((scanEllipsis s).1, [], (scanEllipsis s).2) := by rw [hu, if_pos rfl]
    by_cases ht : rest.take 2 = [46, 46]
    · rw [if_pos ht]
      refine .some (by rw [hm, hd.1 ht]) (by omega) ?_ (by decide)
      rw [hw]
      rcases rest with _ | ⟨a, _ | ⟨b, r⟩⟩ <;> simp at ht ⊢
    · rw [if_neg ht]
      refine .none ?_
      rw [hm]
      exact (hd.2 ht).2
  rw [if_neg h6] at hu
  by_cases h7 : c = 34
  · subst h7
    rw [spec_quote]
    have hm : scanToken s = (.stringValue, (consumeStringValue s).1, (consumeStringValue s).2) := by rw [hu, if_pos rfl]
    cases hs : specString rest with
    | none =>
      refine .none ?_
      rw [hm]
      exact consumeStringValue_none s hvv hw hs
    | some p =>
      obtain ⟨k, n, v⟩ := p
      obtain ⟨he, hk, hn1, hn2⟩ := consumeStringValue_some s hvv hw hs
      subst hk
      exact .some (by rw [hm, he]) hn1 hn2 (by decide)
  rw [if_neg h7] at hu
  by_cases h8 : c = 0xFFFD
  · subst h8
    have : Spec.token? (s.off == 0) (0xFFFD :: rest) = none := by
      simp [Spec.token?, Spec.isWhiteSpace, Spec.isLineTerminatorChar, Spec.isPunctuatorChar, Spec.punctuatorChars,
        Spec.isDigit, Spec.name?, Spec.isNameStart]
    rw [this]
    refine .none ?_
    rw [hu, if_pos rfl]
    exact herr
  rw [if_neg h8] at hu
  by_cases h9 : c = 0xFEFF
  · subst h9
    rw [spec_bom]
    rw [if_pos rfl] at hu
    by_cases h0 : s.off = 0
    · rw [if_pos (by simpa using h0)]
      exact .some (by rw [hu, if_pos h0]; rfl) (by omega) hlen (by decide)
    · rw [if_neg (by simpa using h0)]
      refine .none ?_
      rw [hu, if_neg h0]
      exact herr
  rw [if_neg h9] at hu
  rw [spec_default _ rest h1 (by simpa using h2) h3 h4 h5 h6 h7 h9]
  by_cases hnum : c = 45 ∨ isDigit c = true
  · rw [if_pos hnum]
    have := scanDefault_number s hvv hw hnum
    rw [hw] at this
    cases hn : Spec.number? (c :: rest) with
    | none =>
      rw [hn] at this
      refine .none ?_
      rw [hu]
      exact this
    | some p =>
      obtain ⟨isFloat, n⟩ := p
      rw [hn] at this
      simp only at this
      have hle := number_le hn
      have hadv := scanToken_adv s hne
      rw [hu, this] at hadv
      simp only at hadv
      have hlt := hadv.length_lt
      rw [consumeN_rest, hw] at hlt
      simp only [List.length_drop, List.length_cons] at hlt
      refine .some (by rw [hu, this]) (by omega) (by rw [hw]; exact hle) ?_
      cases isFloat <;> decide
  · rw [if_neg hnum]
    have := scanDefault_name s hvv hw hnum
    rw [hw] at this
    cases hn : Spec.name? (c :: rest) with
    | none =>
      rw [hn] at this
      refine .none ?_
      rw [hu]
      exact this
    | some n =>
      rw [hn] at this
      simp only at this
      have hle := name_le hn
      have hadv := scanToken_adv s hne
      rw [hu, this] at hadv
      simp only at hadv
      have hlt := hadv.length_lt
      rw [consumeN_rest, hw] at hlt
      simp only [List.length_drop, List.length_cons] at hlt
      exact .some (by rw [hu, this]) (by omega) (by rw [hw]; exact hle) (by decide)

end ApiFu.C07
