/-
  C07 — layout insensitivity (the clause of C06 that lives in the scanner): inserting, removing or
  changing ignored tokens (spaces, tabs, commas, comments, line terminators, a leading byte-order mark)
  between tokens never changes the non-ignored token stream the parser consumes.

  Definitions (Layout.lean): `Lexeme` (kind, text, decoded value of one non-ignored token, `WF` = the
  reference lexer reads the text alone as exactly that token), `Trivia` (lists of ignored lexemes;
  `Trivia.WF`: a lone CR is not followed by LF, a comment has only SourceCharacters and is followed by a
  line terminator or the end), `canFollow` / `separated` (the fusing table), `Doc` (optional leading BOM,
  leading trivia, lexemes each followed by trivia), `render`, `Doc.WF` (all decidable).
  The observable is `proj src tokens`: kind, literal text and decoded value of every non-ignored token
  — what `Token()`, `Literal()`, `StringValue()` give the parser. Positions are not part of it (they are
  the function of the layout given by `position_correct`).
-/
import ApiFu.C07.LayoutMain
import ApiFu.C07.Props

namespace ApiFu.C07.Layout

open ApiFu.C07

/-- **fusing_table_sound** — a well-formed lexeme directly followed by any text the table allows
    (`canFollow`) is read by the reference lexer as the same single token: same kind, same extent, same
    decoded value. For every token class (punctuators incl. `...`, names, Int, Float, quoted and block
    strings). -/
theorem fusing_table_sound (x : Lexeme) (hx : x.WF) (next : List Nat) (hc : canFollow x next = true) :
    Spec.token? false (x.text ++ next) = some (x.kind, x.text.length, x.value) :=
  token_stable x hx next hc

/-- Non-vacuity of the table (each clause is needed): the reference lexer does read these adjacent pairs
    differently — name/name, name/number, Int/digit, Int/`e`, Float/digit, Float/`e`, `""`/`"`. -/
example :
    canFollow ⟨.name, [97], []⟩ [98] = false ∧ Spec.token? false [97, 98] = some (.name, 2, []) ∧
    canFollow ⟨.name, [97], []⟩ [49] = false ∧ Spec.token? false [97, 49] = some (.name, 2, []) ∧
    canFollow ⟨.intValue, [49], []⟩ [50] = false ∧ Spec.token? false [49, 50] = some (.intValue, 2, []) ∧
    canFollow ⟨.intValue, [49], []⟩ [101] = false ∧ Spec.token? false [49, 101] = none ∧
    canFollow ⟨.floatValue, [49, 46, 53], []⟩ [54] = false ∧ Spec.token? false [49, 46, 53, 54] = some (.floatValue, 4, []) ∧
    canFollow ⟨.floatValue, [49, 46, 53], []⟩ [101] = false ∧ Spec.token? false [49, 46, 53, 101] = none ∧
    canFollow ⟨.stringValue, [34, 34], []⟩ [34] = false ∧ Spec.token? false [34, 34, 34] = none ∧
    -- and these do not fuse: `0` then a digit, `1e5` then `e`, `1` then `...`, `1` then `-2`, `...` then `...`
    canFollow ⟨.intValue, [48], []⟩ [49] = true ∧ canFollow ⟨.floatValue, [49, 101, 53], []⟩ [101] = true ∧
    canFollow ⟨.intValue, [49], []⟩ [46, 46, 46] = true ∧ canFollow ⟨.intValue, [49], []⟩ [45, 50] = true ∧
    canFollow ⟨.punctuator, [46, 46, 46], []⟩ [46, 46, 46] = true := by
  decide

/-- **layout_lex** — the reference lexer on the rendering of any well-formed document layout: no lexical
    error, and the non-ignored tokens are exactly the document's lexemes (kind, literal text, decoded
    value), in order — in `ScanIgnored` mode after dropping the ignored tokens, in mode 0 as they come. -/
theorem layout_lex (d : Doc) (h : d.WF) :
    (∃ ts, Spec.lexAll true (render d) = .ok ts ∧ proj (render d) ts = (lexemes d).map Lexeme.obs) ∧
    (∃ ts, Spec.lexAll false (render d) = .ok ts ∧ (∀ t ∈ ts, t.kind.isIgnored = false) ∧
      proj (render d) ts = (lexemes d).map Lexeme.obs) := by
  obtain ⟨ts, h1, h2⟩ := doc_lexes d h
  refine ⟨⟨ts, by simp [Spec.lexAll, h1, Spec.Res.filterIgnored], h2⟩,
    ⟨ts.filter (fun t => !t.kind.isIgnored), by simp [Spec.lexAll, h1, Spec.Res.filterIgnored], ?_, ?_⟩⟩
  · intro t ht
    have := (List.mem_filter.mp ht).2
    simpa using this
  · rw [← h2]
    simp [proj, List.filter_filter]

/-- **layout_scan** — the same for the scanner model (the Go scanner by the tie), transferred with
    `scan_eq_spec`: on the rendering of a well-formed layout it reports no error, and what the parser
    sees (mode 0: kind, `Literal()`, `StringValue()` of each token) is exactly the document's lexemes. -/
theorem layout_scan (d : Doc) (h : d.WF) (b : Bool) :
    (scanAll b (render d)).2 = [] ∧ proj (render d) (scanAll b (render d)).1 = (lexemes d).map Lexeme.obs := by
  have hv := doc_valid d h
  have hs := scan_eq_spec b (render d) hv
  obtain ⟨⟨ts1, ht1, hp1⟩, ⟨ts0, ht0, _, hp0⟩⟩ := layout_lex d h
  cases b with
  | true => rw [ht1] at hs; simp only at hs; rw [hs]; exact ⟨rfl, hp1⟩
  | false => rw [ht0] at hs; simp only at hs; rw [hs]; exact ⟨rfl, hp0⟩

/-- **layout_insensitive** — two well-formed layouts of the same lexeme sequence (any leading BOM, any
    trivia anywhere, as long as neighbours that would fuse are separated) give the parser the same token
    stream: same kinds, same literals, same decoded values, no errors in either. Inserting, removing or
    changing ignored tokens never changes the tree. -/
theorem layout_insensitive (d1 d2 : Doc) (h1 : d1.WF) (h2 : d2.WF) (hl : lexemes d1 = lexemes d2) (b : Bool) :
    proj (render d1) (scanAll b (render d1)).1 = proj (render d2) (scanAll b (render d2)).1 ∧
    (scanAll b (render d1)).2 = [] ∧ (scanAll b (render d2)).2 = [] := by
  obtain ⟨e1, p1⟩ := layout_scan d1 h1 b
  obtain ⟨e2, p2⟩ := layout_scan d2 h2 b
  exact ⟨by rw [p1, p2, hl], e1, e2⟩

/-- `separated` as stated for two neighbouring lexemes is what `Doc.WF` asks of each adjacent pair (so a
    generator only has to look at the two lexemes and whether it put trivia between them). -/
theorem wf_iff_separated (x : Lexeme) (tr : Trivia) (y : Lexeme) (tr' : Trivia) (rest : List (Lexeme × Trivia)) :
    bodyWF ((x, tr) :: (y, tr') :: rest) ↔
      x.WF ∧ Trivia.WF tr (renderBody ((y, tr') :: rest)) ∧ separated x tr y = true ∧ bodyWF ((y, tr') :: rest) :=
  Iff.rfl

/-- Non-vacuity: `{a:1 ...F}` laid out as `{a:1...F}` (nothing between `1` and `...`) and as
    BOM `{ a : 1,⏎ # c⏎ ... F }` are both well-formed layouts of the same six lexemes. -/
def exLexemes : List Lexeme :=
  [⟨.punctuator, [123], []⟩, ⟨.name, [97], []⟩, ⟨.punctuator, [58], []⟩, ⟨.intValue, [49], []⟩,
   ⟨.punctuator, [46, 46, 46], []⟩, ⟨.name, [70], []⟩, ⟨.punctuator, [125], []⟩]

def exTight : Doc := { bom := false, lead := [], body := exLexemes.map fun x => (x, []) }

def exLoose : Doc :=
  { bom := true, lead := [.space],
    body := exLexemes.map fun x =>
      (x, if x.kind = .intValue then [.comma, .crlf, .space, .comment [32, 99], .cr] else [.space]) }

example : exTight.WF ∧ exLoose.WF ∧ lexemes exTight = lexemes exLoose ∧
    render exTight = [123, 97, 58, 49, 46, 46, 46, 70, 125] := by decide

end ApiFu.C07.Layout
